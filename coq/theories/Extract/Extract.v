(* Extraction of the executable models for the correspondence check.
   ExtrOcamlBasic only: bool, option, unit, list, prod, sumbool, sumor map to
   OCaml's own types; N, positive, nat, Z stay the extracted inductives. *)
Require Extraction.
Require Import ExtrOcamlBasic.
From Coq Require Import NArith ZArith.
From WMD Require Import Lib.Str Lib.PyChars Model.ContentType Model.Server Model.Etag Model.Decode Model.Pool Model.Dmp Model.Links.
From WMD Require Import Lib.Difflib Model.RenderTokens Model.RenderMerge Model.LinksHtml Model.RenderDoc.
From WMD Require Import Model.RenderLabelled.
(* unique names for functions whose short names clash across modules *)
Definition x_links_assemble_diff := Links.assemble_diff.
Definition x_links_count_changes := Links.count_changes.
Definition x_render_tokenize := RenderTokens.tokenize.
Extraction Language OCaml.
Extraction "extracted.ml"
  ContentType.is_not_html ContentType.raise_if_not_diffable_html ContentType.ct_error_message
  ContentType.valid_ct ContentType.unknown_ct ContentType.media_type_of
  PyChars.py_lower PyChars.py_strip
  Server.get Server.cors_allow_origin Server.upstream_headers Server.decode_query_params Server.err_status
  Etag.etag_preimage Etag.check_etag_header Etag.etag_of_hash Etag.py_repr_str
  Decode.extract_encoding Decode.decode_body
  Pool.run Pool.count_submits
  Dmp.get_visible_text Dmp.compute_dmp_diff Dmp.html_source_diff Dmp.old_side Dmp.new_side
  Links.links_diff x_links_assemble_diff Links.page_links Links.sort_links Links.clean_href x_links_count_changes Links.rebalance
  Links.same_key Links.rough_eq Links.dlink Difflib.get_opcodes Difflib.insensitive_opcodes
  RenderMerge.htmldiff RenderMerge.prepare x_render_tokenize RenderMerge.token_opcodes RenderMerge.merge_changes RenderTokens.url_eq RenderTokens.rule_compare
  RenderDoc.diffable_fragment RenderDoc.render_view RenderDoc.selected RenderDoc.kind_name RenderDoc.title_markup RenderDoc.doc_title
  LinksHtml.links_html LinksHtml.lex LinksHtml.clean LinksHtml.sem_events LinksHtml.events LinksHtml.links_document
  RenderMerge.merge_change_groups RenderMerge.reconcile_change_groups RenderMerge.assemble_diff RenderMerge.render_string
  RenderLabelled.nesting_report
  Coq.Init.Nat.add BinInt.Z.add BinNat.N.to_nat.

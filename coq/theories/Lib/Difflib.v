(* Executable model of difflib.SequenceMatcher (CPython 3.12) without junk:
   __chain_b, find_longest_match (including the two "=="-only extension loops),
   get_matching_blocks and get_opcodes.  Generic in the element type with two
   relations: [same_key] (what a dict lookup identifies: equal hash and ==) and
   [eq] (Python's ==).  Indices are nat. *)
From Coq Require Import List Arith Bool Lia.
Import ListNotations.

Inductive tag := Equal | Replace | Delete | Insert.
Definition opcode := (tag * (nat * nat) * (nat * nat))%type.      (* (tag, (i1, i2), (j1, j2)) *)
Definition block := (nat * nat * nat)%type.                       (* (i, j, size) *)

Definition op_tag (o : opcode) : tag := fst (fst o).
Definition op_a (o : opcode) : nat * nat := snd (fst o).
Definition op_b (o : opcode) : nat * nat := snd o.
Definition mk_op (t : tag) (a b : nat * nat) : opcode := (t, a, b).

Section Matcher.
  Variable A : Type.
  Variable same_key : A -> A -> bool.
  Variable eq : A -> A -> bool.
  Variable dflt : A.

  (* b2j.get(x): ascending indices of the elements of b filed under x's dict key.  [same_key]
     is an equivalence in both instantiations (same string and kind; same exact link), so the
     group of x is the set of all positions holding an element with x's key. *)
  Fixpoint indices_of (x : A) (b : list A) (idx : nat) : list nat :=
    match b with
    | [] => []
    | y :: b' => if same_key y x then idx :: indices_of x b' (S idx) else indices_of x b' (S idx)
    end.

  Definition b2j_get (x : A) (b : list A) : list nat := indices_of x b 0.

  Fixpoint lookup (j : nat) (l : list (nat * nat)) : nat :=
    match l with
    | [] => 0
    | (j', v) :: l' => if Nat.eqb j j' then v else lookup j l'
    end.

  (* inner loop over the indices j of one row i *)
  Fixpoint row (js : list nat) (blo bhi i : nat) (j2len newj2len : list (nat * nat)) (best : block)
    : list (nat * nat) * block :=
    match js with
    | [] => (newj2len, best)
    | j :: js' =>
        if Nat.ltb j blo then row js' blo bhi i j2len newj2len best
        else if Nat.leb bhi j then (newj2len, best)
        else
          let k := S (lookup (j - 1) (if Nat.eqb j 0 then [] else j2len)) in
          let '(bi, bj, bs) := best in
          let best' := if Nat.ltb bs k then (S i - k, S j - k, k) else best in
          row js' blo bhi i j2len ((j, k) :: newj2len) best'
    end.

  Fixpoint rows (n : nat) (a b : list A) (i ahi blo bhi : nat) (j2len : list (nat * nat)) (best : block) : block :=
    match n with
    | O => best
    | S n' =>
        if Nat.ltb i ahi then
          let '(newj2len, best') := row (b2j_get (nth i a dflt) b) blo bhi i j2len [] best in
          rows n' a b (S i) ahi blo bhi newj2len best'
        else best
    end.

  Fixpoint extend_back (n : nat) (a b : list A) (alo blo : nat) (best : block) : block :=
    match n with
    | O => best
    | S n' =>
        let '(bi, bj, bs) := best in
        if Nat.ltb alo bi && Nat.ltb blo bj && eq (nth (bi - 1) a dflt) (nth (bj - 1) b dflt)
        then extend_back n' a b alo blo (bi - 1, bj - 1, S bs)
        else best
    end.

  Fixpoint extend_fwd (n : nat) (a b : list A) (ahi bhi : nat) (best : block) : block :=
    match n with
    | O => best
    | S n' =>
        let '(bi, bj, bs) := best in
        if Nat.ltb (bi + bs) ahi && Nat.ltb (bj + bs) bhi && eq (nth (bi + bs) a dflt) (nth (bj + bs) b dflt)
        then extend_fwd n' a b ahi bhi (bi, bj, S bs)
        else best
    end.

  Definition find_longest_match (a b : list A) (alo ahi blo bhi : nat) : block :=
    let best := rows (ahi - alo) a b alo ahi blo bhi [] (alo, blo, 0) in
    let best := extend_back (length a) a b alo blo best in
    extend_fwd (length a) a b ahi bhi best.

  (* get_matching_blocks before sorting/merging: in-order recursion = the sorted list *)
  Fixpoint blocks_rec (fuel : nat) (a b : list A) (alo ahi blo bhi : nat) : list block :=
    match fuel with
    | O => []
    | S fuel' =>
        let '(i, j, k) := find_longest_match a b alo ahi blo bhi in
        match k with
        | O => []
        | _ =>
            (if Nat.ltb alo i && Nat.ltb blo j then blocks_rec fuel' a b alo i blo j else []) ++
            [(i, j, k)] ++
            (if Nat.ltb (i + k) ahi && Nat.ltb (j + k) bhi then blocks_rec fuel' a b (i + k) ahi (j + k) bhi else [])
        end
    end.

  (* collapse adjacent blocks; append the sentinel *)
  Fixpoint collapse (l : list block) (cur : block) : list block :=
    match l with
    | [] => let '(_, _, k1) := cur in (match k1 with O => [] | _ => [cur] end)
    | (i2, j2, k2) :: l' =>
        let '(i1, j1, k1) := cur in
        if Nat.eqb (i1 + k1) i2 && Nat.eqb (j1 + k1) j2 then collapse l' (i1, j1, k1 + k2)
        else (match k1 with O => [] | _ => [cur] end) ++ collapse l' (i2, j2, k2)
    end.

  Definition get_matching_blocks (a b : list A) : list block :=
    collapse (blocks_rec (S (length a + length b)) a b 0 (length a) 0 (length b)) (0, 0, 0)
    ++ [(length a, length b, 0)].

  Fixpoint opcodes_from (blocks : list block) (i j : nat) : list opcode :=
    match blocks with
    | [] => []
    | (ai, bj, size) :: rest =>
        let gap :=
          if Nat.ltb i ai && Nat.ltb j bj then [(Replace, (i, ai), (j, bj))]
          else if Nat.ltb i ai then [(Delete, (i, ai), (j, bj))]
          else if Nat.ltb j bj then [(Insert, (i, ai), (j, bj))]
          else [] in
        gap ++ (match size with O => [] | _ => [(Equal, (ai, ai + size), (bj, bj + size))] end)
            ++ opcodes_from rest (ai + size) (bj + size)
    end.

  Definition get_opcodes (a b : list A) : list opcode := opcodes_from (get_matching_blocks a b) 0 0.

  (* InsensitiveSequenceMatcher.get_matching_blocks: drop small non-empty blocks;
     k > min(threshold, size/4)  <->  threshold < k \/ size < 4k *)
  Definition insensitive_blocks (threshold : nat) (a b : list A) : list block :=
    let size := Nat.min (length a) (length b) in
    filter (fun blk => let '(_, _, k) := blk in
                       Nat.ltb threshold k || Nat.ltb size (4 * k) || Nat.eqb k 0)
           (get_matching_blocks a b).

  Definition insensitive_opcodes (threshold : nat) (a b : list A) : list opcode :=
    opcodes_from (insensitive_blocks threshold a b) 0 0.
End Matcher.

(* html.escape (Python) and the inverse decoding of the five references it can emit. *)
From Coq Require Import List NArith Bool String.
From WMD Require Import Lib.Str.
Import ListNotations.
Open Scope N_scope.

Definition e_amp : str := s2l "&amp;".
Definition e_lt : str := s2l "&lt;".
Definition e_gt : str := s2l "&gt;".
Definition e_quot : str := s2l "&quot;".
Definition e_apos : str := s2l "&#x27;".

(* html.escape(s, quote) *)
Definition escape_char (quote : bool) (c : N) : str :=
  if N.eqb c 38 then e_amp
  else if N.eqb c 60 then e_lt
  else if N.eqb c 62 then e_gt
  else if quote && N.eqb c 34 then e_quot
  else if quote && N.eqb c 39 then e_apos
  else [c].

Definition html_escape (quote : bool) (s : str) : str := flat_map (escape_char quote) s.

(* decode exactly those five references; anything else is literal *)
Fixpoint unescape (fuel : nat) (s : str) : str :=
  match fuel with
  | O => s
  | S fuel' =>
      match s with
      | [] => []
      | c :: r =>
          if N.eqb c 38 then
            match drop_prefix (s2l "amp;") r with
            | Some r' => 38 :: unescape fuel' r'
            | None =>
                match drop_prefix (s2l "lt;") r with
                | Some r' => 60 :: unescape fuel' r'
                | None =>
                    match drop_prefix (s2l "gt;") r with
                    | Some r' => 62 :: unescape fuel' r'
                    | None =>
                        match drop_prefix (s2l "quot;") r with
                        | Some r' => 34 :: unescape fuel' r'
                        | None =>
                            match drop_prefix (s2l "#x27;") r with
                            | Some r' => 39 :: unescape fuel' r'
                            | None => c :: unescape fuel' r
                            end
                        end
                    end
                end
            end
          else c :: unescape fuel' r
      end
  end.

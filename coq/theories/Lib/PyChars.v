(* Python character classes and str.lower, from the generated tables. *)
From Coq Require Import List NArith Bool.
From WMD Require Import Gen.Tables Lib.Str.
Import ListNotations.
Open Scope N_scope.

Definition py_isspace (c : N) : bool := in_ranges Tables.py_isspace_ranges c.
Definition re_space (c : N) : bool := in_ranges Tables.re_space_ranges c.
Definition re_digit (c : N) : bool := in_ranges Tables.re_digit_ranges c.
Definition re_word (c : N) : bool := in_ranges Tables.re_word_ranges c.
Definition py_isprintable (c : N) : bool := in_ranges Tables.py_isprintable_ranges c.

(* str.lower() of one code point (context-free part: the final-sigma rule of
   U+03A3 is not modelled; generators exclude it; see trusted base) *)
Definition py_lower_cp (c : N) : str :=
  if N.ltb c 128 then [ascii_lower_char c]
  else match assoc_N c Tables.py_lower_table with
       | Some l => l
       | None => [c]
       end.

Definition py_lower (s : str) : str := flat_map py_lower_cp s.

Definition py_strip := strip py_isspace.
Definition py_lstrip := lstrip py_isspace.
Definition py_rstrip := rstrip py_isspace.

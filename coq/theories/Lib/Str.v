(* Strings as lists of Unicode code points, with the Python str operations the
   models need.  Definitions only (plus a few basic facts used everywhere). *)
From Coq Require Import List NArith Bool Ascii String Lia.
Import ListNotations.
Open Scope N_scope.

Definition str := list N.

Fixpoint s2l (s : string) : str :=
  match s with
  | EmptyString => []
  | String a r => N_of_ascii a :: s2l r
  end.

Fixpoint str_eqb (a b : str) : bool :=
  match a, b with
  | [], [] => true
  | x :: a', y :: b' => N.eqb x y && str_eqb a' b'
  | _, _ => false
  end.

Lemma str_eqb_spec a b : reflect (a = b) (str_eqb a b).
Proof.
  revert b; induction a as [|x a IH]; intros [|y b]; simpl; try (constructor; congruence).
  destruct (N.eqb_spec x y) as [->|Hne]; simpl.
  - destruct (IH b) as [->|Hne]; constructor; congruence.
  - constructor; congruence.
Qed.

Lemma str_eqb_eq a b : str_eqb a b = true <-> a = b.
Proof. destruct (str_eqb_spec a b); split; congruence. Qed.

Lemma str_eqb_refl a : str_eqb a a = true.
Proof. apply str_eqb_eq; reflexivity. Qed.

(* membership of a code point in a sorted list of inclusive ranges *)
Fixpoint in_ranges (rs : list (N * N)) (c : N) : bool :=
  match rs with
  | [] => false
  | (lo, hi) :: rs' => (N.leb lo c && N.leb c hi) || in_ranges rs' c
  end.

Fixpoint mem_str (x : str) (l : list str) : bool :=
  match l with
  | [] => false
  | y :: l' => str_eqb x y || mem_str x l'
  end.

Lemma mem_str_In x l : mem_str x l = true <-> In x l.
Proof.
  induction l as [|y l IH]; simpl; [split; [discriminate|tauto]|].
  rewrite orb_true_iff, IH, str_eqb_eq. split; intros [H|H]; auto.
Qed.

(* prefix test: Python s.startswith(p) *)
Fixpoint starts_with (p s : str) : bool :=
  match p, s with
  | [], _ => true
  | x :: p', y :: s' => N.eqb x y && starts_with p' s'
  | _ :: _, [] => false
  end.

(* remove a known prefix *)
Fixpoint drop_prefix (p s : str) : option str :=
  match p, s with
  | [], _ => Some s
  | x :: p', y :: s' => if N.eqb x y then drop_prefix p' s' else None
  | _ :: _, [] => None
  end.

Lemma starts_with_app p s : starts_with p s = true <-> exists r, s = p ++ r.
Proof.
  revert s; induction p as [|x p IH]; intros s; simpl.
  - split; [intros _; exists s; reflexivity|reflexivity].
  - destruct s as [|y s]; [split; [discriminate|intros [r Hr]; discriminate]|].
    rewrite andb_true_iff, N.eqb_eq, IH. split.
    + intros [-> [r ->]]. exists r; reflexivity.
    + intros [r Hr]. injection Hr as -> ->. split; [reflexivity|exists r; reflexivity].
Qed.

(* Python s.lstrip() / rstrip() / strip() with an explicit whitespace class *)
Section Strip.
  Variable ws : N -> bool.

  Fixpoint lstrip (s : str) : str :=
    match s with
    | [] => []
    | c :: s' => if ws c then lstrip s' else s
    end.

  Definition rstrip (s : str) : str := rev (lstrip (rev s)).
  Definition strip (s : str) : str := rstrip (lstrip s).

  Lemma lstrip_idem s : lstrip (lstrip s) = lstrip s.
  Proof.
    induction s as [|c s IH]; simpl; [reflexivity|].
    destruct (ws c) eqn:E; [exact IH|]. simpl. rewrite E. reflexivity.
  Qed.

  Lemma lstrip_head s : match lstrip s with [] => True | c :: _ => ws c = false end.
  Proof.
    induction s as [|c s IH]; simpl; [exact I|].
    destruct (ws c) eqn:E; [exact IH|]. exact E.
  Qed.

  Lemma lstrip_all_ws pre s : forallb ws pre = true -> lstrip (pre ++ s) = lstrip s.
  Proof.
    induction pre as [|c pre IH]; simpl; [reflexivity|].
    intros H. apply andb_true_iff in H as [Hc Hp]. rewrite Hc. auto.
  Qed.
End Strip.

(* split at the first occurrence of a separator character:
   Python s.split(sep, 1)[0]  and the remainder *)
Fixpoint before_char (sep : N) (s : str) : str :=
  match s with
  | [] => []
  | c :: s' => if N.eqb c sep then [] else c :: before_char sep s'
  end.

Fixpoint after_char (sep : N) (s : str) : option str :=
  match s with
  | [] => None
  | c :: s' => if N.eqb c sep then Some s' else after_char sep s'
  end.

(* Python s.split(sep) for a single-character separator *)
Fixpoint split_char_aux (sep : N) (s : str) (cur : str) : list str :=
  match s with
  | [] => [rev cur]
  | c :: s' => if N.eqb c sep then rev cur :: split_char_aux sep s' []
               else split_char_aux sep s' (c :: cur)
  end.
Definition split_char (sep : N) (s : str) : list str := split_char_aux sep s [].

(* substring search: does [p] occur in [s]; and Python s.find-like split *)
Fixpoint contains (p s : str) : bool :=
  starts_with p s ||
  match s with
  | [] => false
  | _ :: s' => contains p s'
  end.

(* the part of [s] after the LAST occurrence of [p]  (Python s.split(p)[-1]) *)
Fixpoint after_last_aux (p : str) (s : str) (best : str) : str :=
  match s with
  | [] => best
  | c :: s' =>
      match drop_prefix p s with
      | Some r => match p with
                  | [] => after_last_aux p s' best
                  | _ => after_last_aux p s' r   (* non-overlapping is irrelevant for our patterns *)
                  end
      | None => after_last_aux p s' best
      end
  end.

(* ASCII helpers *)
Definition is_ascii_upper (c : N) : bool := N.leb 65 c && N.leb c 90.
Definition is_ascii_lower (c : N) : bool := N.leb 97 c && N.leb c 122.
Definition is_ascii_digit (c : N) : bool := N.leb 48 c && N.leb c 57.
Definition ascii_lower_char (c : N) : N := if is_ascii_upper c then c + 32 else c.
Definition ascii_upper_char (c : N) : N := if is_ascii_lower c then c - 32 else c.

(* lookup in a (code point -> string) table *)
Fixpoint assoc_N {A} (k : N) (l : list (N * A)) : option A :=
  match l with
  | [] => None
  | (k', v) :: l' => if N.eqb k k' then Some v else assoc_N k l'
  end.

Fixpoint assoc_str {A} (k : str) (l : list (str * A)) : option A :=
  match l with
  | [] => None
  | (k', v) :: l' => if str_eqb k k' then Some v else assoc_str k l'
  end.

Definition concat_str (l : list str) : str := List.concat l.

Fixpoint join_str (sep : str) (l : list str) : str :=
  match l with
  | [] => []
  | [x] => x
  | x :: l' => x ++ sep ++ join_str sep l'
  end.

Fixpoint count_char (c : N) (s : str) : N :=
  match s with
  | [] => 0
  | x :: s' => (if N.eqb x c then 1 else 0) + count_char c s'
  end.

Definition nlen {A} (l : list A) : N := N.of_nat (List.length l).

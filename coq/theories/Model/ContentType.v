(* Executable model of web_monitoring_diff/content_type.py:
   is_not_html and raise_if_not_diffable_html, character by character. *)
From Coq Require Import List NArith Bool String.
From WMD Require Import Gen.Tables Lib.Str Lib.PyChars.
Import ListNotations.
Open Scope N_scope.

(* a Python dict of str -> str, as an association list (first binding wins:
   the converter emits each key once) ; None = the argument was None *)
Definition headers := option (list (str * str)).

Definition k_content_type : str := s2l "Content-Type".
Definition o_normal : str := s2l "normal".
Definition o_nocheck : str := s2l "nocheck".
Definition o_nosniff : str := s2l "nosniff".
Definition o_ignore : str := s2l "ignore".

(* `$` of a non-MULTILINE pattern: end of string or just before a final "\n" *)
Definition re_dollar (rest : str) : bool :=
  match rest with
  | [] => true
  | [10] => true
  | _ => false
  end.

Fixpoint span_class (rs : list (N * N)) (s : str) : str :=
  match s with
  | [] => []
  | c :: s' => if in_ranges rs c then span_class rs s' else s
  end.

(* VALID_CONTENT_TYPE_PATTERN.match(s):  ^[F][R]*/[F'][R']*$
   ('/' and '\n' are in neither class, see Proofs: greedy matching is exact) *)
Definition valid_ct (s : str) : bool :=
  match s with
  | [] => false
  | c :: r =>
      in_ranges Tables.valid_ct_type_first c &&
      match span_class Tables.valid_ct_type_rest r with
      | 47 :: c2 :: r2 =>
          in_ranges Tables.valid_ct_sub_first c2 &&
          re_dollar (span_class Tables.valid_ct_sub_rest r2)
      | _ => false
      end
  end.

Definition strip_final_nl (s : str) : str :=
  match rev s with
  | 10 :: r => rev r
  | _ => s
  end.

(* `.+$` : one or more non-newline characters, then `$` *)
Definition dot_plus_dollar (r : str) : bool :=
  let body := strip_final_nl r in
  match body with
  | [] => false
  | _ => forallb (fun c => negb (N.eqb c 10)) body
  end.

(* UNKNOWN_CONTENT_TYPE_PATTERN.match(s):  ^(exact|...|prefix.+)$ *)
Definition unknown_ct (s : str) : bool :=
  mem_str s Tables.unknown_ct_exact ||
  mem_str (strip_final_nl s) Tables.unknown_ct_exact ||
  existsb (fun p => match drop_prefix p s with
                    | Some r => dot_plus_dollar r
                    | None => false
                    end) Tables.unknown_ct_prefixes.

(* NON_HTML_PATTERN.match(s):  ^[\s\n\r]*(sig1|sig2|...)   (full backtracking semantics) *)
Fixpoint sniff_not_html (s : str) : bool :=
  existsb (fun g => starts_with g s) Tables.non_html_signatures ||
  match s with
  | [] => false
  | c :: s' => (re_space c || N.eqb c 10 || N.eqb c 13) && sniff_not_html s'
  end.

Definition media_type_of (value : str) : str :=
  py_lower (py_strip (before_char 59 value)).

Definition is_not_html (text : str) (h : headers) (opt : str) : bool :=
  let use_header := str_eqb opt o_normal || str_eqb opt o_nosniff in
  let use_sniff := str_eqb opt o_normal || str_eqb opt o_nocheck in
  let header_verdict : option bool :=      (* Some b = the header decides *)
    match h with
    | Some ((_ :: _) as d) =>
        if use_header then
          let ct := media_type_of (match assoc_str k_content_type d with
                                   | Some v => v | None => [] end) in
          match ct with
          | [] => None
          | _ => if valid_ct ct then
                   if mem_str ct Tables.acceptable_content_types then Some false
                   else if negb (unknown_ct ct) then Some true
                   else None
                 else None
          end
        else None
    | _ => None
    end in
  match header_verdict with
  | Some b => b
  | None => if use_sniff then sniff_not_html (py_lstrip text) else false
  end.

Inductive ct_error := NoError | ErrA | ErrB | ErrBoth.

Definition raise_if_not_diffable_html (a_text b_text : str) (a_h b_h : headers) (opt : str) : ct_error :=
  let ea := is_not_html a_text a_h opt in
  let eb := is_not_html b_text b_h opt in
  if ea && eb then ErrBoth else if ea then ErrA else if eb then ErrB else NoError.

Definition msg_both : str := s2l "`a` and `b` are not HTML documents".
Definition msg_a : str := s2l "`a` is not an HTML document".
Definition msg_b : str := s2l "`b` is not an HTML document".

Definition ct_error_message (e : ct_error) : option str :=
  match e with
  | NoError => None
  | ErrA => Some msg_a
  | ErrB => Some msg_b
  | ErrBoth => Some msg_both
  end.

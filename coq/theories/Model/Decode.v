(* Executable model of _extract_encoding / _decode_body of server.py.  The two
   byte regexes, cchardet, codecs.lookup and bytes.decode are oracles. *)
From Coq Require Import List NArith Bool String.
From WMD Require Import Gen.Tables Lib.Str Lib.PyChars Model.Server.
Import ListNotations.
Open Scope N_scope.

Definition utf8 : str := s2l "utf-8".
Definition charset_eq : str := s2l "charset=".
Definition iso_typo : str := s2l "iso-8559-1".
Definition iso_8859_1 : str := s2l "iso-8859-1".
Definition windows_1252 : str := s2l "windows-1252".
Definition html_word : str := s2l "html".

Definition nonempty (o : option str) : option str :=
  match o with Some (_ :: _) => o | _ => None end.

(* x.split(';')[0]: other media type parameters may follow the charset *)
Fixpoint until_semicolon (s : str) : str :=
  match s with
  | [] => []
  | c :: r => if N.eqb c 59 then [] else c :: until_semicolon r
  end.

Inductive decoded := Text (t : str) | Undecodable (encoding : str).

Section Decode.
  Variable meta_match : str -> option str.
  Variable prolog_match : str -> option str.
  Variable detect : str -> option str.
  Variable codec_known : str -> bool.
  Variable decode_replace : str -> str -> option str.   (* None: bytes.decode raises LookupError / UnicodeError *)

  (* the label chosen before normalisation; None = no label at all *)
  Definition raw_label (content_type_lower : str) (content : str) : option str :=
    let from_header :=
      if contains charset_eq content_type_lower
      then nonempty (Some (until_semicolon (after_last_aux charset_eq content_type_lower [])))
      else None in
    let l1 := match from_header with
              | Some l => Some l
              | None => match nonempty (meta_match content) with
                        | Some l => Some l
                        | None => nonempty (prolog_match content)
                        end
              end in
    let l2 := match l1 with Some l => nonempty (Some (py_strip l)) | None => None end in
    match l2 with
    | Some l => Some l
    | None => match content with
              | [] => None
              | _ => match nonempty (detect content) with
                     | Some e => Some (py_lower e)
                     | None => None
                     end
              end
    end.

  Definition normalise_label (content_type_lower : str) (l : option str) : str :=
    let l := match l with Some x => if str_eqb x iso_typo then Some iso_8859_1 else l | None => None end in
    let l := match l with
             | Some x => if str_eqb x iso_8859_1 && contains html_word content_type_lower
                         then Some windows_1252 else l
             | None => None
             end in
    match l with
    | Some x => if codec_known x then x else utf8
    | None => utf8
    end.

  Definition extract_encoding (headers : dict) (content : str) : str :=
    let ct := py_lower (match hdr_get k_content_type headers with Some v => v | None => [] end) in
    normalise_label ct (raw_label ct content).

  Definition replace_nul (t : str) : str := map (fun c => if N.eqb c 0 then 65533 else c) t.

  Definition decode_body (headers : dict) (body : str) (raise_if_binary : bool) : option decoded :=
    let enc := extract_encoding headers body in
    let attempt := match decode_replace enc body with
                   | Some t => Some (enc, t)
                   | None => match decode_replace utf8 body with
                             | Some t => Some (utf8, t)
                             | None => None            (* excluded by the theorems' hypothesis *)
                             end
                   end in
    match attempt with
    | None => None
    | Some (enc', t) =>
        match t with
        | [] => Some (Text [])
        | _ =>
            let t' := replace_nul t in
            if raise_if_binary && N.ltb (nlen t') (4 * count_char 65533 t')
            then Some (Undecodable enc')
            else Some (Text t')
        end
    end.
End Decode.

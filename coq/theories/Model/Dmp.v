(* Executable model of web_monitoring_diff/basic_diffs.py: compute_dmp_diff (the
   C++ diff-match-patch library is an oracle), html_source_diff, html_text_diff,
   side_by_side_text and _get_visible_text over a soup-shaped list of text nodes. *)
From Coq Require Import List NArith ZArith Bool String.
From WMD Require Import Gen.Tables Lib.Str Lib.PyChars.
Import ListNotations.
Open Scope N_scope.

Definition segment := (Z * str)%type.

Definition diff_code (op : N) : Z :=
  match assoc_N op Tables.diff_codes with
  | Some z => z
  | None => 0%Z       (* KeyError in the code; the contract restricts ops to the table's keys *)
  end.

Section Dmp.
  Variable dmp : str -> str -> list (N * str).     (* fast_diff_match_patch.diff(a, b, ...) *)

  Definition compute_dmp_diff (a b : str) : list segment :=
    map (fun os => (diff_code (fst os), snd os)) (dmp a b).

  Definition count_changes (d : list segment) : N :=
    nlen (filter (fun s => negb (Z.eqb (fst s) 0)) d).

  Definition html_source_diff (a b : str) : N * list segment :=
    let d := compute_dmp_diff a b in (count_changes d, d).
End Dmp.

Definition old_side (d : list segment) : str :=
  List.concat (map snd (filter (fun s => Z.eqb (fst s) 0 || Z.eqb (fst s) (-1)) d)).
Definition new_side (d : list segment) : str :=
  List.concat (map snd (filter (fun s => Z.eqb (fst s) 0 || Z.eqb (fst s) 1) d)).

(* ---- visible text ---- *)
(* a text node of the parsed page: name of its parent element, the string; comment nodes
   have been extracted by _get_text and are not in the list *)
Definition text_node := (str * str)%type.

Definition is_visible (n : text_node) : bool := negb (mem_str (fst n) Tables.invisible_tags).

(* REPEATED_BLANK_LINES.sub("\n\n", text): every maximal run of whitespace that contains at least two
   newlines becomes "\n\n" *)
Fixpoint span_ws (s : str) : str * str :=
  match s with
  | [] => ([], [])
  | c :: s' => if re_space c then let (w, r) := span_ws s' in (c :: w, r) else ([], s)
  end.

Fixpoint collapse_blank (fuel : nat) (s : str) : str :=
  match fuel with
  | O => s
  | S fuel' =>
      match s with
      | [] => []
      | c :: s' =>
          if re_space c then
            let (w, r) := span_ws s in
            (if N.leb 2 (count_char 10 w) then [10; 10] else w) ++ collapse_blank fuel' r
          else c :: collapse_blank fuel' s'
      end
  end.

Definition get_visible_text (nodes : list text_node) : str :=
  let joined := join_str [32] (map snd (filter is_visible nodes)) in
  py_strip (collapse_blank (S (List.length joined)) joined).

Section TextDiff.
  Variable dmp : str -> str -> list (N * str).
  Definition html_text_diff (a b : list text_node) : N * list segment :=
    html_source_diff dmp (get_visible_text a) (get_visible_text b).
  Definition side_by_side_text (a b : list text_node) : str * str :=
    (get_visible_text a, get_visible_text b).
End TextDiff.

(* Executable model of DiffHandler.compute_etag's pre-image (version + path +
   str(dict)), of Python's repr for str / dict[str,str], and of Tornado's
   RequestHandler.check_etag_header. *)
From Coq Require Import List NArith Bool String.
From WMD Require Import Gen.Tables Lib.Str Lib.PyChars Model.Server.
Import ListNotations.
Open Scope N_scope.

Definition hex_digit (n : N) : N := if N.ltb n 10 then 48 + n else 87 + n.   (* 0-9 a-f *)

Fixpoint hex_fixed (digits : nat) (n : N) : str :=
  match digits with
  | O => []
  | S d => hex_fixed d (N.div n 16) ++ [hex_digit (N.modulo n 16)]
  end.

Definition q1 : N := 39.  (* apostrophe *)
Definition q2 : N := 34.  (* double quote *)
Definition bslash : N := 92.

Definition mem_N (c : N) (s : str) : bool := existsb (N.eqb c) s.

Definition repr_quote (s : str) : N :=
  if mem_N q1 s && negb (mem_N q2 s) then q2 else q1.

Definition repr_char (quote c : N) : str :=
  if N.eqb c quote || N.eqb c bslash then [bslash; c]
  else if N.eqb c 9 then [bslash; 116]
  else if N.eqb c 10 then [bslash; 110]
  else if N.eqb c 13 then [bslash; 114]
  else if N.ltb c 32 || N.eqb c 127 then bslash :: 120 :: hex_fixed 2 c
  else if N.ltb c 127 then [c]
  else if py_isprintable c then [c]
  else if N.leb c 255 then bslash :: 120 :: hex_fixed 2 c
  else if N.leb c 65535 then bslash :: 117 :: hex_fixed 4 c
  else bslash :: 85 :: hex_fixed 8 c.

Definition py_repr_str (s : str) : str :=
  let q := repr_quote s in
  q :: flat_map (repr_char q) s ++ [q].

Fixpoint repr_items (d : dict) : str :=
  match d with
  | [] => []
  | [(k, v)] => py_repr_str k ++ [58; 32] ++ py_repr_str v
  | (k, v) :: d' => py_repr_str k ++ [58; 32] ++ py_repr_str v ++ [44; 32] ++ repr_items d'
  end.

Definition py_repr_dict (d : dict) : str := 123 :: repr_items d ++ [125].

(* the string that compute_etag hashes *)
Definition etag_preimage (version path : str) (raw_query : dict) : str :=
  version ++ path ++ py_repr_dict (decode_query_params raw_query).

(* W/ then the hash in double quotes *)
Definition etag_of_hash (h : str) : str := [87; 47; 34] ++ h ++ [34].

(* re.findall of the Tornado etag pattern (star, or optional W/ then a double-quoted run): leftmost, non-overlapping *)
Fixpoint take_quoted (s : str) (acc : str) : option (str * str) :=   (* after an opening quote *)
  match s with
  | [] => None
  | c :: s' => if N.eqb c 34 then Some (rev acc, s') else take_quoted s' (c :: acc)
  end.

Fixpoint find_etags (fuel : nat) (s : str) : list str :=
  match fuel with
  | O => []
  | S fuel' =>
      match s with
      | [] => []
      | 42 :: s' => [42] :: find_etags fuel' s'
      | 87 :: 47 :: 34 :: s' =>
          match take_quoted s' [] with
          | Some (body, rest) => ([87; 47; 34] ++ body ++ [34]) :: find_etags fuel' rest
          | None => find_etags fuel' (47 :: 34 :: s')
          end
      | 34 :: s' =>
          match take_quoted s' [] with
          | Some (body, rest) => ([34] ++ body ++ [34]) :: find_etags fuel' rest
          | None => find_etags fuel' s'
          end
      | _ :: s' => find_etags fuel' s'
      end
  end.

Definition weak_val (e : str) : str :=
  match e with
  | 87 :: 47 :: r => r
  | _ => e
  end.

Definition check_etag_header (computed : str) (if_none_match : option str) : bool :=
  let hdr := match if_none_match with Some h => h | None => [] end in
  let etags := find_etags (S (List.length hdr)) hdr in
  match computed, etags with
  | [], _ => false
  | _, [] => false
  | _, first :: _ =>
      if str_eqb first [42] then true
      else existsb (fun e => str_eqb (weak_val e) (weak_val computed)) etags
  end.

Definition k_if_none_match := s2l "If-None-Match".

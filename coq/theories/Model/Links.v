(* Executable model of web_monitoring_diff/html_links_diff.py: Link, link text
   extraction, de-duplication and sort, _assemble_diff (opcode re-balancing pass and
   pairing pass), _count_changes. *)
From Coq Require Import List NArith Arith Bool String.
From WMD Require Import Gen.Tables Lib.Str Lib.PyChars Lib.Difflib.
Import ListNotations.
Open Scope N_scope.

Record link := { l_href : str; l_text : str }.

Definition lower_text (l : link) : str := py_lower (l_text l).

(* hash(link): the pair (href, text.lower()) ; string-hash collisions are ignored *)
Definition same_key (x y : link) : bool :=
  str_eqb (l_href x) (l_href y) && str_eqb (lower_text x) (lower_text y).

(* Link.__eq__: rough equality *)
Definition rough_eq (x y : link) : bool :=
  str_eqb (l_href x) (l_href y) || str_eqb (lower_text x) (lower_text y).

(* ---- Link._clean_href: re.match(r'^([\w+\-]+:)?//[^/?#]+', href), origin lower-cased: the origin ends where the path,
   the query or the fragment begins ---- *)
Definition scheme_char (c : N) : bool := re_word c || N.eqb c 43 || N.eqb c 45.

Fixpoint span_pred (p : N -> bool) (s : str) : str * str :=
  match s with
  | [] => ([], [])
  | c :: s' => if p c then let (a, r) := span_pred p s' in (c :: a, r) else ([], s)
  end.

(* the length-preserving split (origin, rest) if the pattern matches *)
Definition origin_split (href : str) : option (str * str) :=
  let try_slashes (pre s : str) : option (str * str) :=
    match s with
    | 47 :: 47 :: r =>
        let (host, rest) := span_pred (fun c => negb (N.eqb c 47 || N.eqb c 63 || N.eqb c 35)) r in
        match host with
        | [] => None
        | _ => Some (pre ++ [47; 47] ++ host, rest)
        end
    | _ => None
    end in
  let (sch, after) := span_pred scheme_char href in
  match sch, after with
  | _ :: _, 58 :: r =>
      match try_slashes (sch ++ [58]) r with
      | Some x => Some x
      | None => try_slashes [] href
      end
  | _, _ => try_slashes [] href
  end.

Definition clean_href (href : str) : str :=
  match origin_split href with
  | Some (origin, rest) => py_lower origin ++ rest
  | None => href
  end.

Definition make_link (href text : str) : link :=
  {| l_href := clean_href href; l_text := py_strip text |}.

(* ---- _get_link_text on a soup-shaped tree ---- *)
Inductive node :=
| NText (s : str)
| NElem (name : str) (attrs : list (str * str)) (children : list node).

Definition n_img := s2l "img".
Definition n_alt := s2l "alt".
Definition n_title := s2l "title".
Definition n_href := s2l "href".

(* .text of the element after removing undiffable-content elements and replacing images *)
Fixpoint node_text (n : node) : str :=
  match n with
  | NText s => s
  | NElem name attrs children =>
      if mem_str name Tables.undiffable_content_tags then []
      else if str_eqb name n_img then
        match assoc_str n_alt attrs with
        | Some ((_ :: _) as alt) => s2l "[image: " ++ alt ++ s2l "]"
        | _ => s2l "[image]"
        end
      else List.concat (map node_text children)
  end.

Definition get_link_text (attrs : list (str * str)) (children : list node) : str :=
  let text := py_strip (List.concat (map node_text children)) in
  match text with
  | _ :: _ => text
  | [] => match assoc_str n_title attrs with
          | Some t => s2l "[tooltip: " ++ t ++ s2l "]"
          | None => s2l "[no text]"
          end
  end.

(* an <a> element as found by soup.find_all('a'): attributes and children *)
Definition anchor := (list (str * str) * list node)%type.

Definition outgoing (a : anchor) : option link :=
  match assoc_str n_href (fst a) with
  | Some ((c :: _) as href) =>
      if N.eqb c 35 then None else Some (make_link href (get_link_text (fst a) (snd a)))
  | _ => None
  end.

(* set([...]): the first element with a given key stays *)
Fixpoint dedup (l : list link) (seen : list link) : list link :=
  match l with
  | [] => []
  | x :: l' => if existsb (same_key x) seen then dedup l' seen else x :: dedup l' (x :: seen)
  end.

(* str comparison: code-point lexicographic *)
Fixpoint str_ltb (a b : str) : bool :=
  match a, b with
  | [], [] => false
  | [], _ :: _ => true
  | _ :: _, [] => false
  | x :: a', y :: b' => if N.ltb x y then true else if N.ltb y x then false else str_ltb a' b'
  end.

(* key (text.lower(), href) *)
Definition link_ltb (x y : link) : bool :=
  if str_ltb (lower_text x) (lower_text y) then true
  else if str_ltb (lower_text y) (lower_text x) then false
  else str_ltb (l_href x) (l_href y).

Fixpoint insert_sorted (x : link) (l : list link) : list link :=
  match l with
  | [] => [x]
  | y :: l' => if link_ltb y x || negb (link_ltb x y) then y :: insert_sorted x l' else x :: l
  end.

(* stable insertion sort (sorted() is stable; the key is injective on de-duplicated links) *)
Definition sort_links (l : list link) : list link := fold_left (fun acc x => insert_sorted x acc) l [].

Definition page_links (anchors : list anchor) : list link :=
  let found := fold_right (fun a acc => match outgoing a with Some l => l :: acc | None => acc end) [] anchors in
  sort_links (dedup found []).

(* ---- _assemble_diff ---- *)
Close Scope N_scope.
Open Scope nat_scope.
Definition dlink : link := {| l_href := []; l_text := [] |}.
Definition nth_link (i : nat) (l : list link) : link := nth i l dlink.
Definition slice (l : list link) (lo hi : nat) : list link := firstn (hi - lo) (skipn lo l).

Definition is_equal (t : tag) : bool := match t with Equal => true | _ => false end.
Definition has_insert (t : tag) : bool := match t with Insert | Replace => true | _ => false end.
Definition has_delete (t : tag) : bool := match t with Delete | Replace => true | _ => false end.

(* the three opcodes the re-balancing of one opcode may touch *)
Definition triple := (option opcode * opcode * option opcode)%type.

Definition grow_end_b (o : opcode) : opcode := mk_op (op_tag o) (op_a o) (fst (op_b o), S (snd (op_b o))).
Definition shrink_start_b (o : opcode) : opcode := mk_op (op_tag o) (op_a o) (S (fst (op_b o)), snd (op_b o)).
Definition shrink_end_b (o : opcode) : opcode := mk_op (op_tag o) (op_a o) (fst (op_b o), snd (op_b o) - 1).
Definition grow_start_b (o : opcode) : opcode := mk_op (op_tag o) (op_a o) (fst (op_b o) - 1, snd (op_b o)).
Definition grow_end_a (o : opcode) : opcode := mk_op (op_tag o) (fst (op_a o), S (snd (op_a o))) (op_b o).
Definition shrink_start_a (o : opcode) : opcode := mk_op (op_tag o) (S (fst (op_a o)), snd (op_a o)) (op_b o).
Definition shrink_end_a (o : opcode) : opcode := mk_op (op_tag o) (fst (op_a o), snd (op_a o) - 1) (op_b o).
Definition grow_start_a (o : opcode) : opcode := mk_op (op_tag o) (fst (op_a o) - 1, snd (op_a o)) (op_b o).

(* one link of the inserted (b-side) range *)
Definition rebalance_b (last_equal next_equal : option link) (t : triple) (lk : link) : triple :=
  let '(prev, cur, next) := t in
  match last_equal, prev with
  | Some le, Some p =>
      if rough_eq le lk then (Some (grow_end_b p), shrink_start_b cur, next)
      else match next_equal, next with
           | Some ne, Some n => if rough_eq ne lk then (prev, shrink_end_b cur, Some (grow_start_b n)) else t
           | _, _ => t
           end
  | _, _ =>
      match next_equal, next with
      | Some ne, Some n => if rough_eq ne lk then (prev, shrink_end_b cur, Some (grow_start_b n)) else t
      | _, _ => t
      end
  end.

Definition rebalance_a (last_equal next_equal : option link) (t : triple) (lk : link) : triple :=
  let '(prev, cur, next) := t in
  match last_equal, prev with
  | Some le, Some p =>
      if rough_eq le lk then (Some (grow_end_a p), shrink_start_a cur, next)
      else match next_equal, next with
           | Some ne, Some n => if rough_eq ne lk then (prev, shrink_end_a cur, Some (grow_start_a n)) else t
           | _, _ => t
           end
  | _, _ =>
      match next_equal, next with
      | Some ne, Some n => if rough_eq ne lk then (prev, shrink_end_a cur, Some (grow_start_a n)) else t
      | _, _ => t
      end
  end.

(* the body of the first loop for one opcode *)
Definition rebalance_one (a b : list link) (t : triple) : triple :=
  let '(prev, cur, next) := t in
  if is_equal (op_tag cur) then t
  else
    let last_equal := match prev with
                      | Some p => if is_equal (op_tag p) then Some (nth_link (snd (op_a p) - 1) a) else None
                      | None => None end in
    let next_equal := match next with
                      | Some n => if is_equal (op_tag n) then Some (nth_link (fst (op_a n)) a) else None
                      | None => None end in
    let t1 := if has_insert (op_tag cur)
              then fold_left (rebalance_b last_equal next_equal) (slice b (fst (op_b cur)) (snd (op_b cur))) t
              else t in
    let '(_, cur1, _) := t1 in
    if has_delete (op_tag cur)
    then fold_left (rebalance_a last_equal next_equal) (slice a (fst (op_a cur1)) (snd (op_a cur1))) t1
    else t1.

(* sweep over the list: [done] holds the processed opcodes, newest first; [cur] is
   opcodes[index] as it is when the loop reaches it; [rest] are the opcodes after it *)
Fixpoint rebalance_from (a b : list link) (done : list opcode) (cur : opcode) (rest : list opcode) : list opcode :=
  let prev := match done with p :: _ => Some p | [] => None end in
  let next := match rest with n :: _ => Some n | [] => None end in
  let '(prev', cur', next') := rebalance_one a b (prev, cur, next) in
  let done' := match done, prev' with
               | _ :: d, Some p' => p' :: d
               | d, _ => d
               end in
  match rest with
  | [] => rev (cur' :: done')
  | n :: r => rebalance_from a b (cur' :: done') (match next' with Some n' => n' | None => n end) r
  end.

Definition rebalance (a b : list link) (ops : list opcode) : list opcode :=
  match ops with
  | [] => []
  | o :: rest => rebalance_from a b [] o rest
  end.

Inductive entry :=
| Unchanged (old new : link)      (* code 0, payload = new link *)
| Changed (old new : link)        (* code 100 *)
| Removed (old : link)            (* code -1 *)
| Added (new : link).             (* code 1 *)

(* remove the first element with x's key *)
Fixpoint take_exact (x : link) (l : list link) : option (link * list link) :=
  match l with
  | [] => None
  | y :: l' => if same_key x y then Some (y, l')
               else match take_exact x l' with
                    | Some (z, r) => Some (z, y :: r)
                    | None => None
                    end
  end.

(* flush of a_remainders against the front of b_set *)
Fixpoint flush (rem : list link) (b_set : list link) : list entry * list link :=
  match rem with
  | [] => ([], b_set)
  | x :: rem' =>
      match b_set with
      | y :: b' => if rough_eq y x
                   then let (es, r) := flush rem' b' in (Changed x y :: es, r)
                   else let (es, r) := flush rem' b_set in (Removed x :: es, r)
      | [] => let (es, r) := flush rem' [] in (Removed x :: es, r)
      end
  end.

(* while b_set and b_set[0] == a_link *)
Fixpoint drain (x : link) (b_set : list link) : list entry * list link :=
  match b_set with
  | y :: b' => if rough_eq y x then let (es, r) := drain x b' in (Added y :: es, r) else ([], b_set)
  | [] => ([], [])
  end.

Fixpoint last_or (d : link) (l : list link) : link :=
  match l with
  | [] => d
  | [x] => x
  | _ :: l' => last_or d l'
  end.

(* the loop over a_set of an equal block *)
Fixpoint pair_equal (a_set : list link) (rem : list link) (b_set : list link) : list entry :=
  match a_set with
  | [] => map Added b_set
  | x :: a' =>
      let '(hit, rem1, b1) :=
        match take_exact x b_set with
        | Some (y, r) => ([Unchanged x y], rem, r)
        | None => ([], rem ++ [x], b_set)
        end in
      let group_ends := match a' with
                        | [] => true
                        | x2 :: _ => negb (rough_eq x x2)
                        end in
      if group_ends then
        let (es, b2) := flush rem1 b1 in
        let (ds, b3) := drain (last_or x rem1) b2 in
        hit ++ es ++ ds ++ pair_equal a' [] b3
      else hit ++ pair_equal a' rem1 b1
  end.

Definition assemble_op (a b : list link) (o : opcode) : list entry :=
  let a_part := slice a (fst (op_a o)) (snd (op_a o)) in
  let b_part := slice b (fst (op_b o)) (snd (op_b o)) in
  match op_tag o with
  | Equal => pair_equal a_part [] b_part
  | Insert => map Added b_part
  | Delete => map Removed a_part
  | Replace => map Added b_part ++ map Removed a_part
  end.

Definition assemble_diff (a b : list link) (ops : list opcode) : list entry :=
  List.concat (map (assemble_op a b) (rebalance a b ops)).

Definition is_change (e : entry) : bool := match e with Unchanged _ _ => false | _ => true end.
Definition count_changes (d : list entry) : nat := List.length (filter is_change d).

Definition links_diff (a_anchors b_anchors : list anchor) : nat * list entry :=
  let a := page_links a_anchors in
  let b := page_links b_anchors in
  let d := assemble_diff a b (get_opcodes link same_key rough_eq dlink a b) in
  (count_changes d, d).

(* Model of the links HTML view: _render_html_diff / _table_row_for_link / links_diff_html
   (html_links_diff.py) and of BeautifulSoup's prettify() for the tree they build, plus a small
   HTML tokenizer (data state, tags with quoted attributes) used as the specification of how the
   produced string is read back. *)
From Coq Require Import List NArith ZArith Bool String.
From WMD Require Import Gen.Tables Lib.Str Lib.PyChars Lib.Escape.
Import ListNotations.
Open Scope N_scope.

Inductive hnode :=
| HText (s : str)                                   (* NavigableString: escaped on output *)
| HRaw (s : str)                                    (* string inside <style>: written as is *)
| HVoid (name : str) (attrs : list (str * str))
| HEl (name : str) (attrs : list (str * str)) (children : list hnode).

(* one entry of the links diff as the JSON differ returns it *)
Inductive hentry :=
| EPlain (code : Z) (text href : str)                                   (* -1, 0, 1 *)
| EChanged (text_diff href_diff : list (Z * str)) (old_href new_href : str).   (* 100 *)

Definition cls (c : string) : str * str := (s2l "class", s2l c).
Definition el (name : string) (attrs : list (str * str)) (children : list hnode) : hnode := HEl (s2l name) attrs children.
Definition void (name : string) (attrs : list (str * str)) : hnode := HVoid (s2l name) attrs.

Definition marker (name : string) (t : str) : hnode := el name [cls "wm-diff"] [HText t].

(* _nodes_for_text_diff *)
Definition nodes_for_text_diff (d : list (Z * str)) : list hnode :=
  map (fun p => if Z.eqb (fst p) (-1) then marker "del" (snd p)
                else if Z.eqb (fst p) 1 then marker "ins" (snd p)
                else HText (snd p)) d.

Definition not_deleted (p : Z * str) : bool := Z.leb 0 (fst p).
Definition not_inserted (p : Z * str) : bool := Z.leb (fst p) 0.

Definition entry_code (e : hentry) : Z := match e with EPlain c _ _ => c | EChanged _ _ _ _ => 100%Z end.

Fixpoint lookup_change (code : Z) (l : list (Z * (str * option str))) : option (str * option str) :=
  match l with
  | [] => None
  | (k, v) :: l' => if Z.eqb k code then Some v else lookup_change code l'
  end.

(* CHANGE_INFO[change_type] or CHANGE_INFO[0]  (codes outside the table raise KeyError in the code;
   the differ only produces -1, 0, 1, 100) *)
Definition change_info (code : Z) : str * option str :=
  match lookup_change code Tables.change_info with
  | Some v => v
  | None => match lookup_change 0%Z Tables.change_info with Some v => v | None => ([], None) end
  end.

(* BeautifulSoup writes attributes sorted by name (Formatter.attributes) *)
Fixpoint key_ltb (a b : str) : bool :=
  match a, b with
  | [], [] => false
  | [], _ :: _ => true
  | _ :: _, [] => false
  | x :: a', y :: b' => if N.ltb x y then true else if N.ltb y x then false else key_ltb a' b'
  end.

Fixpoint insert_attr (kv : str * str) (l : list (str * str)) : list (str * str) :=
  match l with
  | [] => [kv]
  | x :: l' => if key_ltb (fst kv) (fst x) then kv :: l else x :: insert_attr kv l'
  end.

Definition sort_attrs (l : list (str * str)) : list (str * str) := fold_right insert_attr [] l.

(* the row's attributes: the class and the boolean flags that are True (a False value removes the
   attribute; True is written as the string "True"); the flag names and their conditions on the
   change code are translated from the dict literal in _table_row_for_link on every run *)
Definition row_attrs (code : Z) : list (str * str) :=
  sort_attrs ((s2l "class", Tables.row_class) ::
              flat_map (fun p : str * bool => if snd p then [(fst p, s2l "True")] else []) (Tables.row_flags code)).

Definition paren_l : hnode := HText [40].
Definition paren_r : hnode := HText [41].

Definition text_cell (e : hentry) : hnode :=
  el "td" [cls "links-list--text"]
     (match e with
      | EPlain _ text _ => [HText text]
      | EChanged td _ _ _ =>
          nodes_for_text_diff (filter not_deleted td)
          ++ (if Nat.eqb (List.length td) 1 then []
              else void "br" [] :: nodes_for_text_diff (filter not_inserted td))
      end).

Definition href_link (url : str) (inner : list hnode) : hnode := el "a" [(s2l "href", url)] inner.

Definition href_cell (e : hentry) : hnode :=
  el "td" [cls "links-list--href"]
     (match e with
      | EPlain _ _ href => [href_link href [HText ([40] ++ href ++ [41])]]
      | EChanged _ hd old new =>
          href_link new (paren_l :: nodes_for_text_diff (filter not_deleted hd) ++ [paren_r])
          :: (if str_eqb old new then []
              else [void "br" []; href_link old (paren_l :: nodes_for_text_diff (filter not_inserted hd) ++ [paren_r])])
      end).

Definition change_cell (code : Z) : hnode :=
  let '(symbol, title) := change_info code in
  el "td" (cls "links-list--change-type" :: match title with Some t => [(s2l "title", t)] | None => [] end) [HText symbol].

(* _table_row_for_link *)
Definition row_for (e : hentry) : hnode :=
  el "tr" (row_attrs (entry_code e)) [change_cell (entry_code e); text_cell e; href_cell e].

(* _render_html_diff: the table *)
Definition links_table (entries : list hentry) : hnode :=
  el "table" [cls "links-list"]
     [void "col" [cls "links-list--change-type-col"];
      void "col" [cls "links-list--text-col"];
      void "col" [cls "links-list--href-col"];
      el "thead" [] [el "tr" [] [el "th" [] []; el "th" [] [HText (s2l "Link Text")]; el "th" [] [HText (s2l "URL")]]];
      el "tbody" [] (map row_for entries)].

(* the style sheet: the regenerated template with the two palette colours *)
Definition fill_template (tmpl : list (N * str)) (ins del : str) : str :=
  flat_map (fun p => if N.eqb (fst p) 1 then ins else if N.eqb (fst p) 2 then del else snd p) tmpl.

(* links_diff_html: the whole document (whitespace-only text nodes of the page template are
   dropped by prettify and are left out) *)
Definition links_document (title ins_colour del_colour : str) (entries : list hentry) : hnode :=
  el "html" []
     [el "head" []
         [void "meta" [(s2l "charset", s2l "utf-8")];
          el "title" [] [HText title];
          el "style" [(s2l "id", s2l "wm-diff-style"); (s2l "type", s2l "text/css")]
             [HRaw (fill_template Tables.links_css_template ins_colour del_colour)]];
      el "body" [] [links_table entries]].

(* ------------------------------------------------------------------ BeautifulSoup prettify *)
Inductive event :=
| EvStart (name : str) (attrs : list (str * str))
| EvEnd (name : str)
| EvVoid (name : str) (attrs : list (str * str))
| EvText (piece : str).              (* after output_ready: escaped unless raw *)

Fixpoint events (n : hnode) : list event :=
  match n with
  | HText s => [EvText (html_escape false s)]
  | HRaw s => [EvText s]
  | HVoid name attrs => [EvVoid name attrs]
  | HEl name attrs children => EvStart name attrs :: flat_map events children ++ [EvEnd name]
  end.

Definition has_char (c : N) (s : str) : bool := existsb (N.eqb c) s.

(* Formatter.quoted_attribute_value applied to the minimally escaped value *)
Definition replace_dq (s : str) : str := flat_map (fun c => if N.eqb c 34 then e_quot else [c]) s.
Definition attr_quote (e : str) : N := if has_char 34 e then (if has_char 39 e then 34 else 39) else 34.
Definition attr_body (e : str) : str := if has_char 34 e && has_char 39 e then replace_dq e else e.
Definition quoted_attr_value (e : str) : str := [attr_quote e] ++ attr_body e ++ [attr_quote e].

Definition render_attr (kv : str * str) : str := fst kv ++ [61] ++ quoted_attr_value (html_escape false (snd kv)).
Definition render_attrs (attrs : list (str * str)) : str := flat_map (fun kv => 32 :: render_attr kv) attrs.
Definition start_tag_str (name : str) (attrs : list (str * str)) : str := [60] ++ name ++ render_attrs attrs ++ [62].
Definition void_tag_str (name : str) (attrs : list (str * str)) : str := [60] ++ name ++ render_attrs attrs ++ [47; 62].
Definition end_tag_str (name : str) : str := [60; 47] ++ name ++ [62].

Definition indent (level : nat) (s : str) : str := repeat 32 level ++ s ++ [10].

(* Tag.decode(indent_level=0) over the event stream (no <pre>/<textarea> in these trees) *)
Fixpoint pretty (evs : list event) (level : nat) : str :=
  match evs with
  | [] => []
  | EvStart n a :: r => indent level (start_tag_str n a) ++ pretty r (S level)
  | EvEnd n :: r => indent (level - 1) (end_tag_str n) ++ pretty r (level - 1)
  | EvVoid n a :: r => indent level (void_tag_str n a) ++ pretty r level
  | EvText p :: r =>
      (match py_strip p with [] => [] | p' => indent level p' end) ++ pretty r level
  end.

Definition doctype : str := s2l "<!DOCTYPE html>".
Definition prettify_doc (root : hnode) : str := doctype ++ [10] ++ pretty (events root) 0.

Definition links_html (title ins_colour del_colour : str) (entries : list hentry) : str :=
  prettify_doc (links_document title ins_colour del_colour entries).

(* ------------------------------------------------------------------ reading the string back *)
(* A tokenizer for the HTML subset: character data up to "<"; "<!...>" declarations; end tags;
   start tags with name, attributes key="value" / key='value', optional "/" before ">". *)
Inductive tok :=
| TText (s : str)
| TDecl (s : str)
| TStart (name : str) (attrs : list (str * str))    (* attribute values still escaped *)
| TVoid (name : str) (attrs : list (str * str))
| TEnd (name : str).

Inductive lstate :=
| SData (acc : str)                    (* accumulators are reversed *)
| STagOpen
| SDecl (acc : str)
| SEndName (acc : str)
| SStartName (acc : str)
| SBeforeAttr (name : str) (attrs : list (str * str))
| SAttrName (name : str) (attrs : list (str * str)) (key : str)
| SAfterEq (name : str) (attrs : list (str * str)) (key : str)
| SAttrVal (q : N) (name : str) (attrs : list (str * str)) (key val : str)
| SSlash (name : str) (attrs : list (str * str)).

Definition flush_text (acc : str) : list tok := match acc with [] => [] | _ => [TText (rev acc)] end.

Definition lstep (st : lstate) (c : N) : lstate * list tok :=
  match st with
  | SData acc => if N.eqb c 60 then (STagOpen, flush_text acc) else (SData (c :: acc), [])
  | STagOpen => if N.eqb c 33 then (SDecl [], [])
                else if N.eqb c 47 then (SEndName [], [])
                else (SStartName [c], [])
  | SDecl acc => if N.eqb c 62 then (SData [], [TDecl (rev acc)]) else (SDecl (c :: acc), [])
  | SEndName acc => if N.eqb c 62 then (SData [], [TEnd (rev acc)]) else (SEndName (c :: acc), [])
  | SStartName acc =>
      if N.eqb c 62 then (SData [], [TStart (rev acc) []])
      else if N.eqb c 32 then (SBeforeAttr (rev acc) [], [])
      else if N.eqb c 47 then (SSlash (rev acc) [], [])
      else (SStartName (c :: acc), [])
  | SBeforeAttr name attrs =>
      if N.eqb c 62 then (SData [], [TStart name (rev attrs)])
      else if N.eqb c 32 then (SBeforeAttr name attrs, [])
      else if N.eqb c 47 then (SSlash name attrs, [])
      else (SAttrName name attrs [c], [])
  | SAttrName name attrs key =>
      if N.eqb c 61 then (SAfterEq name attrs (rev key), [])
      else (SAttrName name attrs (c :: key), [])
  | SAfterEq name attrs key =>
      if N.eqb c 34 || N.eqb c 39 then (SAttrVal c name attrs key [], [])
      else (SAfterEq name attrs key, [])          (* unquoted values are never produced *)
  | SAttrVal q name attrs key val =>
      if N.eqb c q then (SBeforeAttr name ((key, rev val) :: attrs), [])
      else (SAttrVal q name attrs key (c :: val), [])
  | SSlash name attrs =>
      if N.eqb c 62 then (SData [], [TVoid name (rev attrs)]) else (SSlash name attrs, [])
  end.

Fixpoint lrun (st : lstate) (s : str) : list tok :=
  match s with
  | [] => match st with SData acc => flush_text acc | _ => [] end
  | c :: s' => let '(st', out) := lstep st c in out ++ lrun st' s'
  end.

Definition lex (s : str) : list tok := lrun (SData []) s.

(* text tokens with all whitespace removed (indentation and line breaks carry no content); empty ones dropped *)
Definition squash (s : str) : str := filter (fun c => negb (py_isspace c)) s.
Definition clean_tok (t : tok) : list tok :=
  match t with
  | TText s => match squash s with [] => [] | s' => [TText s'] end
  | _ => [t]
  end.
Definition clean (l : list tok) : list tok := flat_map clean_tok l.

(* what the tree means as a token stream: tags as they are, adjacent strings merged, whitespace removed *)
Fixpoint sem_events (evs : list event) (acc : str) : list tok :=
  match evs with
  | [] => match acc with [] => [] | _ => [TText acc] end
  | EvText p :: r => sem_events r (acc ++ squash p)
  | ev :: r =>
      (match acc with [] => [] | _ => [TText acc] end) ++
      (match ev with
       | EvStart n a => TStart n (map (fun kv => (fst kv, attr_body (html_escape false (snd kv)))) a)
       | EvVoid n a => TVoid n (map (fun kv => (fst kv, attr_body (html_escape false (snd kv)))) a)
       | EvEnd n => TEnd n
       | EvText _ => TText []
       end) :: sem_events r []
  end.

(* Labelled transition system for the worker-pool protocol of DiffHandler.diff /
   get_diff_executor / DiffServer.shutdown (properties C07, C20).
   One step = the code that runs atomically between two awaits of a request,
   or one action of the environment.  Any number of requests; pools are
   numbered in creation order. *)
From Coq Require Import List Arith Bool Lia.
Import ListNotations.

Definition pool := nat.
Definition req := nat.

Inductive outcome :=
| OkDiff            (* the diff result: HTTP 200 *)
| ErrBroken         (* BrokenProcessPool re-raised after the last try: HTTP 500 *)
| ErrShutdown.      (* RuntimeError "Diff executor is being shut down": HTTP 500 *)

Inductive rstate :=
| NotStarted
| Waiting (attempt : nat) (p : pool)      (* awaiting the job submitted to p in try number attempt *)
| Done (o : outcome).

Inductive event :=
| Start (r : req)                 (* request r enters diff() *)
| DeliverOk (r : req)             (* r's pending job completed normally and r resumes *)
| DeliverBroken (r : req)         (* r resumes with BrokenProcessPool (its pool is broken) *)
| Break (p : pool)                (* environment: a worker of pool p died *)
| BeginShutdown (immediate : bool).  (* DiffServer.shutdown: set terminating, shut down / kill the current pool *)

Record state := {
  current : option pool;          (* application.settings['diff_executor'] *)
  created : list pool;            (* constructor calls, oldest first *)
  shut : list pool;               (* pools handed to shutdown_executor_in_loop / executor.shutdown *)
  killed : list pool;             (* pools whose workers were killed by an immediate shutdown *)
  broken : list pool;             (* pools that are broken *)
  replaced : list pool;           (* pools on which get_diff_executor(reset=True) acted *)
  submits : list (req * pool);    (* every executor.submit, newest first *)
  quits : nat;                    (* scheduled application.quit(code=10) calls *)
  terminating : bool;
  reqs : list (req * rstate)      (* requests that have started; absent = NotStarted *)
}.

Definition init : state :=
  {| current := None; created := []; shut := []; killed := []; broken := []; replaced := [];
     submits := []; quits := 0; terminating := false; reqs := [] |}.

Fixpoint mem (x : nat) (l : list nat) : bool :=
  match l with
  | [] => false
  | y :: l' => Nat.eqb x y || mem x l'
  end.

Fixpoint get_req (r : req) (l : list (req * rstate)) : rstate :=
  match l with
  | [] => NotStarted
  | (r', s) :: l' => if Nat.eqb r r' then s else get_req r l'
  end.

Fixpoint set_req (r : req) (s : rstate) (l : list (req * rstate)) : list (req * rstate) :=
  match l with
  | [] => [(r, s)]
  | (r', s') :: l' => if Nat.eqb r r' then (r, s) :: l' else (r', s') :: set_req r s l'
  end.

Definition with_req (st : state) (r : req) (s : rstate) : state :=
  {| current := current st; created := created st; shut := shut st; killed := killed st; broken := broken st;
     replaced := replaced st; submits := submits st; quits := quits st; terminating := terminating st;
     reqs := set_req r s (reqs st) |}.

(* a new ProcessPoolExecutor: its number is the count of constructor calls so far *)
Definition fresh (st : state) : pool := length (created st).

(* get_diff_executor(reset) when not terminating: returns the pool to use and the new state *)
Definition get_executor (st : state) (reset : bool) : pool * state :=
  match current st, reset with
  | Some p, false => (p, st)
  | cur, _ =>
      let n := fresh st in
      (n, {| current := Some n; created := created st ++ [n];
             shut := match cur with Some p => p :: shut st | None => shut st end;
             killed := killed st; broken := broken st;
             replaced := match cur with Some p => p :: replaced st | None => replaced st end;
             submits := submits st; quits := quits st; terminating := terminating st; reqs := reqs st |})
  end.

Definition add_submit (st : state) (r : req) (p : pool) : state :=
  {| current := current st; created := created st; shut := shut st; killed := killed st; broken := broken st;
     replaced := replaced st; submits := (r, p) :: submits st; quits := quits st; terminating := terminating st;
     reqs := reqs st |}.

Definition add_quit (st : state) : state :=
  {| current := current st; created := created st; shut := shut st; killed := killed st; broken := broken st;
     replaced := replaced st; submits := submits st; quits := S (quits st); terminating := terminating st;
     reqs := reqs st |}.

(* the except-clause of a try that is not the last one, when not terminating:
     old_executor, executor = executor, self.get_diff_executor()
     if executor == old_executor: executor = self.get_diff_executor(reset=True) *)
Definition retry_target (st : state) (p : pool) : pool * state :=
  let '(e, st2) := get_executor st false in
  if Nat.eqb e p then get_executor st2 true else (e, st2).

Section Protocol.
  Variable tries : nat.           (* default of DiffHandler.diff's tries parameter *)
  Variable restart : bool.        (* RESTART_BROKEN_DIFFER *)

  (* The body of the for-loop from "try number [attempt] submits to pool [p]" until the
     request next awaits or finishes.  A submit to a broken pool raises BrokenProcessPool
     synchronously, which the same except-clause handles.  [fuel] bounds the cascade
     (at most [tries] submits). *)
  Fixpoint run_from (fuel : nat) (st : state) (r : req) (attempt : nat) (p : pool) : state :=
    match fuel with
    | O => st
    | S fuel' =>
        let st1 := add_submit st r p in
        if mem p (broken st1) then
          (* except BrokenProcessPool *)
          if Nat.ltb (S attempt) tries then
            if terminating st1 then with_req st1 r (Done ErrShutdown)
            else
              let '(e', st3) := retry_target st1 p in
              run_from fuel' st3 r (S attempt) e'
          else
            let st2 := if restart then st1 else add_quit st1 in
            with_req st2 r (Done ErrBroken)
        else with_req st1 r (Waiting attempt p)
    end.

  Definition step (st : state) (e : event) : state :=
    match e with
    | Start r =>
        match get_req r (reqs st) with
        | NotStarted =>
            if Nat.eqb tries 0 then with_req st r (Done OkDiff)   (* range(0): falls through, never the configured case *)
            else if terminating st then with_req st r (Done ErrShutdown)
            else let '(p, st1) := get_executor st false in run_from tries st1 r 0 p
        | _ => st
        end
    | DeliverOk r =>
        match get_req r (reqs st) with
        | Waiting _ _ => with_req st r (Done OkDiff)
        | _ => st
        end
    | DeliverBroken r =>
        match get_req r (reqs st) with
        | Waiting attempt p =>
            if mem p (broken st) then
              if Nat.ltb (S attempt) tries then
                if terminating st then with_req st r (Done ErrShutdown)
                else
                  let '(e', st3) := retry_target st p in
                  run_from (tries - S attempt) st3 r (S attempt) e'
              else
                let st2 := if restart then st else add_quit st in
                with_req st2 r (Done ErrBroken)
            else st
        | _ => st
        end
    | Break p =>
        if mem p (created st) && negb (mem p (broken st)) then
          {| current := current st; created := created st; shut := shut st; killed := killed st;
             broken := p :: broken st; replaced := replaced st; submits := submits st; quits := quits st;
             terminating := terminating st; reqs := reqs st |}
        else st
    | BeginShutdown immediate =>
        match current st with
        | Some p =>
            if immediate then
              {| current := current st; created := created st; shut := shut st; killed := p :: killed st;
                 broken := if mem p (broken st) then broken st else p :: broken st;
                 replaced := replaced st; submits := submits st; quits := quits st;
                 terminating := true; reqs := reqs st |}
            else
              {| current := current st; created := created st; shut := p :: shut st; killed := killed st;
                 broken := broken st; replaced := replaced st; submits := submits st; quits := quits st;
                 terminating := true; reqs := reqs st |}
        | None =>
            {| current := None; created := created st; shut := shut st; killed := killed st;
               broken := broken st; replaced := replaced st; submits := submits st; quits := quits st;
               terminating := true; reqs := reqs st |}
        end
    end.

  Definition run (evs : list event) : state := fold_left step evs init.
End Protocol.

Fixpoint count_submits (r : req) (l : list (req * pool)) : nat :=
  match l with
  | [] => 0
  | (r', _) :: l' => (if Nat.eqb r r' then 1 else 0) + count_submits r l'
  end.

(* Model of the document assembly of html_diff_render: which views are returned, how each view is
   put together from its base page, the diff body, the title diff, the old head, the style block
   and the contrast script; _deactivate_deleted_active_elements; and str(soup) (BeautifulSoup
   decode without pretty printing, formatter "minimal"). *)
From Coq Require Import List NArith ZArith Bool String.
From WMD Require Import Gen.Tables Lib.Str Lib.PyChars Lib.Escape Model.LinksHtml.
Import ListNotations.
Open Scope N_scope.

Inductive snode :=
| SText (s : str)
| SEl (name : str) (attrs : list (str * str)) (void : bool) (children : list snode).

(* a parsed page after _cleanup_document_structure: <html> holds exactly <head> and <body> *)
Record sdoc := {
  d_doctype : option str;           (* the text inside <!DOCTYPE ...> *)
  d_html_attrs : list (str * str);
  d_head_attrs : list (str * str);
  d_head : list snode;
  d_body_attrs : list (str * str);
  d_body : list snode
}.

Inductive kind := KCombined | KInsertions | KDeletions.

Definition kind_of_name (n : str) : option kind :=
  if str_eqb n (s2l "combined") then Some KCombined
  else if str_eqb n (s2l "insertions") then Some KInsertions
  else if str_eqb n (s2l "deletions") then Some KDeletions
  else None.

(* the keys of raw_diffs in _htmldiff, in insertion order: a view is rendered when include is one of
   the values of its if-statement (table translated from the source on every run) *)
Definition selected (include : str) : list kind :=
  flat_map (fun p : str * list str => if mem_str include (snd p) then match kind_of_name (fst p) with Some k => [k] | None => [] end else [])
           Tables.include_table.

Definition kind_name (k : kind) : str :=
  match k with KCombined => s2l "combined" | KInsertions => s2l "insertions" | KDeletions => s2l "deletions" end.

(* _html_for_dmp_operation / _diff_title *)
Definition del_open : str := s2l "<del class=""wm-diff"">".
Definition del_close : str := s2l "</del>".
Definition ins_open : str := s2l "<ins class=""wm-diff"">".
Definition ins_close : str := s2l "</ins>".

Definition op_html (op : Z * str) : str :=
  let v := html_escape true (snd op) in
  if Z.eqb (fst op) (-1) then del_open ++ v ++ del_close
  else if Z.eqb (fst op) 1 then ins_open ++ v ++ ins_close
  else v.
Definition title_markup (ops : list (Z * str)) : str := flat_map op_html ops.

(* the nodes html_diff_render adds *)
Definition title_meta (ops : list (Z * str)) : snode :=
  SEl (s2l "meta") [(s2l "content", title_markup ops); (s2l "name", s2l "wm-diff-title")] true [].
Definition old_head_template (old_head : list snode) : snode :=
  SEl (s2l "template") [(s2l "id", s2l "wm-diff-old-head")] false old_head.
Definition style_node (ins_colour del_colour : str) : snode :=
  SEl (s2l "style") [(s2l "type", s2l "text/css"); (s2l "id", s2l "wm-diff-style")] false
      [SText (fill_template Tables.render_css_template ins_colour del_colour)].
Definition script_node : snode :=
  SEl (s2l "script") [(s2l "id", s2l "wm-diff-script")] false [SText Tables.update_contrast_script].

Definition is_active (n : str) : bool := mem_str n Tables.active_elements.

(* _deactivate_deleted_active_elements: every script/style below a <del> is wrapped in an inert template.  Inside
   embedded SVG or MathML a <template> is no HTML template, so there the element is moved out of the graphic, into a
   template placed right after the outermost svg/math element (document order kept). *)
Definition is_foreign (n : str) : bool := str_eqb n (s2l "svg") || str_eqb n (s2l "math").
Definition inert_wrap (n : snode) : snode :=
  SEl (s2l "template") [(s2l "class", s2l "wm-diff-deleted-inert")] false [n].
Definition is_del (n : str) : bool := str_eqb n (s2l "del").

(* the (outermost) scripts/styles of a tree that have a <del> ancestor, in document order *)
Fixpoint deleted_actives (under_del : bool) (n : snode) : list snode :=
  match n with
  | SText _ => []
  | SEl name _ _ children =>
      if under_del && is_active name then [n]
      else flat_map (deleted_actives (under_del || is_del name)) children
  end.

(* the tree without them *)
Fixpoint strip_deleted_actives (under_del : bool) (n : snode) : list snode :=
  match n with
  | SText _ => [n]
  | SEl name attrs void children =>
      if under_del && is_active name then []
      else [SEl name attrs void (flat_map (strip_deleted_actives (under_del || is_del name)) children)]
  end.

Fixpoint deactivate (under_del : bool) (n : snode) : list snode :=
  match n with
  | SText _ => [n]
  | SEl name attrs void children =>
      if is_foreign name
      then strip_deleted_actives under_del n ++ map inert_wrap (deleted_actives under_del n)
      else
        let me := SEl name attrs void (flat_map (deactivate (under_del || is_del name)) children) in
        if under_del && is_active name then [inert_wrap me] else [me]
  end.

(* one view: copy of the base page, extra head nodes, the body replaced by the diff body plus the script *)
Definition view_doc (k : kind) (old new : sdoc) (title_ops : list (Z * str)) (ic dc : str) (diff_body : list snode) : sdoc :=
  let base := match k with KDeletions => old | _ => new end in
  let extra := match k with
               | KCombined => [title_meta title_ops; old_head_template (d_head old)]
               | _ => []
               end in
  let head := d_head base ++ extra ++ [style_node ic dc] in
  let body := diff_body ++ [script_node] in
  match k with
  | KCombined =>
      {| d_doctype := d_doctype base; d_html_attrs := d_html_attrs base; d_head_attrs := d_head_attrs base;
         d_head := flat_map (deactivate false) head; d_body_attrs := d_body_attrs base; d_body := flat_map (deactivate false) body |}
  | _ =>
      {| d_doctype := d_doctype base; d_html_attrs := d_html_attrs base; d_head_attrs := d_head_attrs base;
         d_head := head; d_body_attrs := d_body_attrs base; d_body := body |}
  end.

(* ------------------------------------------------------------------ str(soup) *)
Definition raw_text_parent (name : str) : bool := str_eqb name (s2l "script") || str_eqb name (s2l "style").

Fixpoint ser (raw : bool) (n : snode) : str :=
  match n with
  | SText s => if raw then s else html_escape false s
  | SEl name attrs void children =>
      match void, children with
      | true, [] => void_tag_str name (sort_attrs attrs)
      | _, _ => start_tag_str name (sort_attrs attrs) ++ flat_map (ser (raw_text_parent name)) children ++ end_tag_str name
      end
  end.

Definition ser_doc (d : sdoc) : str :=
  (match d_doctype d with Some t => s2l "<!DOCTYPE " ++ t ++ s2l ">" ++ [10] | None => [] end) ++
  ser false (SEl (s2l "html") (d_html_attrs d) false
                 [SEl (s2l "head") (d_head_attrs d) false (d_head d); SEl (s2l "body") (d_body_attrs d) false (d_body d)]).

(* get_title: the .string of the first <title> element, in document order, that is not part of embedded SVG / MathML
   (the <title> of a graphic is its tooltip) nor of a <template>; "" when there is none.  .string of BeautifulSoup: the text of an only text
   child, through chains of only children; None (here: "") otherwise. *)
Fixpoint node_string (n : snode) : option str :=
  match n with
  | SText s => Some s
  | SEl _ _ _ [c] => node_string c
  | SEl _ _ _ _ => None
  end.

(* a <title> inside embedded SVG / MathML is the graphic's tooltip, and what is inside a <template> is not part of the page *)
Definition holds_no_page_title (name : str) : bool := is_foreign name || str_eqb name (s2l "template").

Fixpoint first_title (n : snode) : option str :=
  match n with
  | SText _ => None
  | SEl name _ _ children =>
      if holds_no_page_title name then None
      else if str_eqb name (s2l "title") then Some (match node_string n with Some s => s | None => [] end)
      else (fix go (l : list snode) : option str :=
              match l with
              | [] => None
              | c :: r => match first_title c with Some t => Some t | None => go r end
              end) children
  end.
Fixpoint first_title_in (l : list snode) : option str :=
  match l with
  | [] => None
  | c :: r => match first_title c with Some t => Some t | None => first_title_in r end
  end.
Definition doc_title (d : sdoc) : str :=
  match first_title_in (d_head d ++ d_body d) with Some t => t | None => [] end.

(* html_diff_render's views, given the parsed diff body of each selected kind *)
Definition render_view (k : kind) (old new : sdoc) (title_ops : list (Z * str)) (ic dc : str) (diff_body : list snode) : str :=
  ser_doc (view_doc k old new title_ops ic dc diff_body).

(* ------------------------------------------------------------------ _diffable_fragment *)
Definition is_insdel (name : str) : bool := str_eqb name (s2l "ins") || str_eqb name (s2l "del").

(* every <ins>/<del> of the source page is unwrapped (its children take its place), at any depth *)
Fixpoint unwrap_insdel (n : snode) : list snode :=
  match n with
  | SText s => [SText s]
  | SEl name attrs void children =>
      let cs := flat_map unwrap_insdel children in
      if is_insdel name then cs else [SEl name attrs void cs]
  end.

(* the fragment string handed to the tokeniser: text nodes formatted for output (escaped), elements as str() *)
Definition diffable_fragment (body_children : list snode) : str :=
  flat_map (ser false) (flat_map unwrap_insdel body_children).

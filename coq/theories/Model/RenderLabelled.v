(* Executable definitions that the theorems about the render differ speak about but the code does not contain:
   the origin-labelled marker machine and single-sided views (proved to refine Model/RenderMerge.v in
   Proofs/MergeProofs.v and Proofs/AssembleProofs.v), the serialisation of a chunk, and the stack reading of
   chunk streams used by the tree-level theorems (Proofs/NestingProofs.v).  Definitions only, so that they can
   be extracted and run even when a proof is broken. *)
From Coq Require Import List NArith Arith Bool String.
From WMD Require Import Gen.Tables Lib.Str Lib.PyChars Lib.Escape Lib.Difflib Model.RenderTokens Model.RenderMerge.
Import ListNotations.
Open Scope N_scope.

(* ---- the labelled marker machine ---- *)
Inductive ochunk :=
| OOpen                      (* <ins|del class="wm-diff"> *)
| OClose                     (* </ins|del> *)
| OSrc (s : str)             (* a chunk of the input stream, unchanged *)
| OSynClose (name : str)     (* synthetic </name> of an inline element being tracked *)
| OSynOpen (name : str).     (* synthetic <name> re-opening it after the marker *)

Definition render_o (tag_type : str) (o : ochunk) : str :=
  match o with
  | OOpen => open_marker tag_type
  | OClose => close_tag_of tag_type
  | OSrc s => s
  | OSynClose n => close_tag_of n
  | OSynOpen n => open_tag_of n
  end.

Fixpoint merge_changes_l (chunks : list str) (st : option (list str)) : list ochunk :=
  match chunks with
  | [] =>
      match st with
      | Some cc => map OSynClose cc ++ [OClose] ++ map OSynOpen (rev cc)
      | None => []
      end
  | chunk :: rest =>
      match chunk with
      | [] => merge_changes_l rest st
      | _ =>
          let plain (st0 : option (list str)) (track : option str) :=
            let '(pre, cc) := match st0 with
                              | None => ([OOpen], [])
                              | Some cc => ([], cc)
                              end in
            let cc' := match track with Some n => n :: cc | None => cc end in
            pre ++ [OSrc chunk] ++ merge_changes_l rest (Some cc') in
          if starts_lt chunk then
            let name := chunk_tag_name chunk in
            if second_is_slash chunk then
              match st with
              | Some cc =>
                  if is_block_name name then
                    map OSynClose cc ++ [OClose; OSrc chunk] ++ merge_changes_l rest None
                  else
                    match index_of name cc 0 with
                    | Some i => [OSrc chunk] ++ merge_changes_l rest (Some (skipn (S i) cc))
                    | None =>
                        if mem_str name Tables.empty_tags then [OSrc chunk] ++ merge_changes_l rest (Some cc)
                        else
                        map OSynClose cc ++ [OClose; OSrc chunk; OOpen] ++
                        map OSynOpen (rev cc) ++ merge_changes_l rest (Some cc)
                    end
              | None => [OSrc chunk] ++ merge_changes_l rest None
              end
            else if is_block_name name then
              match st with
              | Some cc => map OSynClose cc ++ [OClose; OSrc chunk] ++ merge_changes_l rest None
              | None => [OSrc chunk] ++ merge_changes_l rest None
              end
            else plain st (if tracks_open name then Some name else None)
          else plain st None
      end
  end.


(* ---- single-sided views, opcode by opcode ---- *)
Definition is_equal (t : tag) : bool := match t with Equal => true | _ => false end.
Definition does_insert (t : tag) : bool := match t with Insert | Replace => true | _ => false end.
Definition does_delete (t : tag) : bool := match t with Delete | Replace => true | _ => false end.

(* contribution of one opcode to the "insertions" (new_side = true) or "deletions" view *)
Definition single_l (new_side : bool) (old new : list token) (o : opcode) : list ochunk :=
  let '(t, (i1, i2), (j1, j2)) := o in
  let side := if new_side then slice_tokens new j1 j2 else slice_tokens old i1 i2 in
  match t with
  | Equal => map OSrc (expand_tokens true side)
  | _ => if (if new_side then does_insert t else does_delete t)
         then merge_changes_l (expand_tokens false side) None else []
  end.

Definition view_l (new_side : bool) (old new : list token) (ops : list opcode) : list ochunk :=
  flat_map (single_l new_side old new) ops.

Definition side_mode (new_side : bool) : mode := if new_side then MInsertions else MDeletions.
Definition side_tag (new_side : bool) : str := if new_side then s2l "ins" else s2l "del".


(* ---- chunks as strings; blank chunks ---- *)
Definition chunk_str (c : chunk) : str :=
  match c with
  | CWord w => w
  | CImg _ html => html
  | CUndiff s => s
  | CStart s => s
  | CEnd s => s
  | CHref _ => [32]
  end.


Definition blank (s : str) : bool := match s with [] => true | [c] => N.eqb c 32 | _ => false end.
Definition nb (l : list str) : list str := filter (fun s => negb (blank s)) l.


(* ---- the stack reading of a chunk stream ---- *)
(* Every page stream is wrapped in <head></head><body> ... </body> (the fragment is parsed as a whole document and
   only the <html> tag is skipped).  Inside a body an HTML parser ignores html/head/body tags, and so does this
   reading: they are allowed only while no element is open and leave the stack alone. *)
Definition wrappers : list str := map s2l ["html"; "head"; "body"]%string.
Definition is_wrapper (n : str) : bool := mem_str n wrappers.

Inductive ev :=
| EOpen (n : str)      (* start tag of an element that gets an end tag *)
| EClose (n : str)     (* its end tag *)
| EBlk                 (* a block-level tag that does not touch the stack (void / opaque block element) *)
| EWrap                (* an html/head/body tag *)
| ENone.               (* text, void and opaque inline elements *)

(* the same reading of a chunk that merge_changes uses: name by chunk_tag_name, end tag by the
   second character, elements without end tag = undiffable_content_tags and empty_tags *)
Definition chunk_event (s : str) : ev :=
  if starts_lt s then
    let n := chunk_tag_name s in
    if is_wrapper n then EWrap
    else if tracks_open n then (if second_is_slash s then EClose n else EOpen n)
    else if is_block_name n then EBlk else ENone
  else ENone.

Definition all_block (st : list str) : bool := forallb is_block_name st.

(* the page side: well nested, block-level tags only when every open element is block-level,
   html/head/body tags only at the top level *)
Fixpoint balc (l : list str) (st : list str) : option (list str) :=
  match l with
  | [] => Some st
  | s :: l' =>
      match chunk_event s with
      | EOpen n => if is_block_name n && negb (all_block st) then None else balc l' (n :: st)
      | EClose n => match st with
                    | m :: st' => if str_eqb m n then balc l' st' else None
                    | [] => None
                    end
      | EBlk => if all_block st then balc l' st else None
      | EWrap => match st with [] => balc l' [] | _ => None end
      | ENone => balc l' st
      end
  end.

(* the view side: stack entries are element names or a change marker ([None]) *)
Definition entry := option str.
Definition is_name (e : entry) : bool := match e with Some _ => true | None => false end.
Definition no_marker (st : list entry) : bool := forallb is_name st.

Definition push_open (n : str) (st : list entry) : option (list entry) :=
  if is_block_name n && negb (no_marker st) then None else Some (Some n :: st).

Definition pop_close (n : str) (st : list entry) : option (list entry) :=
  match st with
  | Some m :: st' => if str_eqb m n then Some st' else None
  | _ => None
  end.

Definition ostep (o : ochunk) (st : list entry) : option (list entry) :=
  match o with
  | OOpen => if no_marker st then Some (None :: st) else None       (* markers do not nest *)
  | OClose => match st with None :: st' => Some st' | _ => None end  (* a marker is closed by its own end tag *)
  | OSynOpen n => if is_wrapper n then Some st else push_open n st
  | OSynClose n => if is_wrapper n then Some st else pop_close n st
  | OSrc s => match chunk_event s with
              | EOpen n => push_open n st
              | EClose n => pop_close n st
              | EBlk => if no_marker st then Some st else None
              | EWrap => Some st
              | ENone => Some st
              end
  end.

Fixpoint nest (l : list ochunk) (st : list entry) : option (list entry) :=
  match l with
  | [] => Some st
  | o :: l' => match ostep o st with Some st' => nest l' st' | None => None end
  end.

Definition names (S : list str) : list entry := map (@Some str) S.


(* the part of the tracked names that is on the stack: everything but html/head/body *)
Definition nw (cc : list str) : list str := filter (fun n => negb (is_wrapper n)) cc.


(* A structural, decidable description of the pages the theorem speaks about: every element's
   start and end tag read back to one and the same name (true of every name an HTML tokenizer can
   produce), opaque and void elements do not look like an element that needs closing, a
   block-level element never sits inside an inline one, and head/body only occur at the top.
   [top] = no element is open; [ab] = all open ancestors are block-level. *)
Definition neutral_ok (ab : bool) (s : str) : bool :=
  match chunk_event s with ENone => true | EBlk => ab | _ => false end.

Fixpoint tree_ok (top ab : bool) (e : el) : bool :=
  match e with
  | El tag attrs text children tail source =>
      if mem_str tag Tables.undiffable_content_tags && negb (str_eqb tag (s2l "img")) then neutral_ok ab source
      else
        let st := start_tag (El tag attrs text children tail source) in
        if is_void tag then neutral_ok ab st && forallb (tree_ok top ab) children
        else match chunk_event st, chunk_event (end_tag (El tag attrs text children tail source)) with
             | EOpen n, EClose m => str_eqb n m && (negb (is_block_name n) || ab) && forallb (tree_ok false (is_block_name n && ab)) children
             | ENone, ENone => forallb (tree_ok top ab) children
             | EBlk, EBlk => ab && forallb (tree_ok top ab) children
             | EWrap, EWrap => top && forallb (tree_ok top ab) children
             | _, _ => false
             end
  end.


(* the page itself (contents of the root element: head and body) *)
Definition page_ok (root : el) : bool := forallb (tree_ok true true) (el_children root).


(* ------------------------------------------------------------------ executable report for the harness *)
Definition is_done {A} (o : option (list A)) : bool := match o with Some [] => true | _ => false end.

(* for one page pair: [page_ok old; page_ok new; stream of old well nested; stream of new well nested;
   deletions view nests; insertions view nests] - the theorems say 1 => 3 => 5 and 2 => 4 => 6 *)
Definition nesting_report (old_root new_root : el) (rules : option (list rule)) (cap : N) : list bool :=
  let old := prepare old_root cap in
  let new := prepare new_root cap in
  let ops := token_opcodes rules old new in
  [page_ok old_root; page_ok new_root;
   is_done (balc (nb (map chunk_str (flatten_root old_root))) []);
   is_done (balc (nb (map chunk_str (flatten_root new_root))) []);
   is_done (nest (view_l false old new ops) []);
   is_done (nest (view_l true old new ops) [])].

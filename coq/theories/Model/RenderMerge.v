(* Executable model of the assembling half of html_render_diff.py: expand_tokens,
   merge_changes, merge_change_groups, reconcile_change_groups, flatten_groups,
   assemble_diff, _count_changes and _htmldiff. *)
From Coq Require Import List NArith Arith Bool String.
From WMD Require Import Gen.Tables Lib.Str Lib.PyChars Lib.Escape Lib.Difflib Model.RenderTokens.
Import ListNotations.
Open Scope N_scope.

(* ---- expand_tokens ---- *)
Definition hide_when_equal (t : token) : bool := match t_kind t with KHref => true | _ => false end.

Definition expand_token (equal : bool) (t : token) : list str :=
  t_pre t ++
  (if equal && hide_when_equal t then [] else [t_html t ++ t_trail t]) ++
  t_post t.

Definition expand_tokens (equal : bool) (ts : list token) : list str := flat_map (expand_token equal) ts.

(* ---- tag names ---- *)
(* s.split(None, 1)[0]: the first whitespace-delimited word *)
Definition first_word (s : str) : str :=
  let s1 := py_lstrip s in fst (span_pred_N (fun c => negb (py_isspace c)) s1).

Definition is_strip_char (c : N) : bool := N.eqb c 60 || N.eqb c 62 || N.eqb c 47.   (* < > / *)
Definition strip_tag_chars (s : str) : str := strip is_strip_char s.

(* chunk.split('>', 1)[0].split(None, 1)[0].strip('<>/') *)
Definition chunk_tag_name (chunk : str) : str := strip_tag_chars (first_word (before_char 62 chunk)).

(* tag_info: tag_text.split()[0].strip('<>/') *)
Definition tag_info_name (t : str) : str := strip_tag_chars (first_word t).

(* name in block_level_tags or name in ('a', 'button') *)
Definition is_block_name (name : str) : bool :=
  mem_str name Tables.block_level_tags || str_eqb name [97] || str_eqb name (s2l "button").

Definition tracks_open (name : str) : bool :=
  negb (mem_str name Tables.undiffable_content_tags) && negb (mem_str name Tables.empty_tags).

Definition open_marker (tag_type : str) : str := [60] ++ tag_type ++ s2l " class=""wm-diff"">".
Definition close_tag_of (name : str) : str := [60; 47] ++ name ++ [62].
Definition open_tag_of (name : str) : str := [60] ++ name ++ [62].

Fixpoint index_of (x : str) (l : list str) (i : nat) : option nat :=
  match l with
  | [] => None
  | y :: l' => if str_eqb x y then Some i else index_of x l' (S i)
  end.

Definition second_is_slash (chunk : str) : bool := match chunk with _ :: 47 :: _ => true | _ => false end.
Definition starts_lt (chunk : str) : bool := match chunk with 60 :: _ => true | _ => false end.

(* ---- merge_changes: output is the list of chunks appended to doc (in order) ---- *)
(* state: Some current_content when inside a marker (depth = 1), None outside *)
Fixpoint merge_changes_aux (chunks : list str) (tag_type : str) (st : option (list str)) : list str :=
  match chunks with
  | [] =>
      match st with
      | Some cc => map close_tag_of cc ++ [close_tag_of tag_type] ++ map open_tag_of (rev cc)
      | None => []
      end
  | chunk :: rest =>
      match chunk with
      | [] => merge_changes_aux rest tag_type st
      | _ =>
          let plain (st0 : option (list str)) (track : option str) :=
            (* the common tail of the loop body: open a marker if needed, emit the chunk *)
            let '(pre, cc) := match st0 with
                              | None => ([open_marker tag_type], [])
                              | Some cc => ([], cc)
                              end in
            let cc' := match track with Some n => n :: cc | None => cc end in
            pre ++ [chunk] ++ merge_changes_aux rest tag_type (Some cc') in
          if starts_lt chunk then
            let name := chunk_tag_name chunk in
            if second_is_slash chunk then
              match st with
              | Some cc =>
                  if is_block_name name then
                    map close_tag_of cc ++ [close_tag_of tag_type; chunk] ++ merge_changes_aux rest tag_type None
                  else
                    match index_of name cc 0 with
                    | Some i => [chunk] ++ merge_changes_aux rest tag_type (Some (skipn (S i) cc))
                    | None =>
                        if mem_str name Tables.empty_tags then [chunk] ++ merge_changes_aux rest tag_type (Some cc)
                        else
                        map close_tag_of cc ++ [close_tag_of tag_type; chunk; open_marker tag_type] ++
                        map open_tag_of (rev cc) ++ merge_changes_aux rest tag_type (Some cc)
                    end
              | None => [chunk] ++ merge_changes_aux rest tag_type None
              end
            else if is_block_name name then
              match st with
              | Some cc => map close_tag_of cc ++ [close_tag_of tag_type; chunk] ++ merge_changes_aux rest tag_type None
              | None => [chunk] ++ merge_changes_aux rest tag_type None
              end
            else plain st (if tracks_open name then Some name else None)
          else plain st None
      end
  end.

Definition merge_changes (chunks : list str) (tag_type : str) : list str := merge_changes_aux chunks tag_type None.

(* ---- merge_change_groups: items are loose tags or groups ---- *)
Inductive item := ITag (s : str) | IGroup (g : list str).

(* chunk == '' or chunk == ' ' *)
Definition skip_group_chunk (chunk : str) : bool :=
  match chunk with [] => true | _ => str_eqb chunk [32] end.

(* [grp] = the group under construction (chunks newest first) together with current_content *)
Fixpoint merge_groups_aux (chunks : list str) (tag_type : option str) (st : option (list str * list str)) : list item :=
  let close_marker := match tag_type with Some t => [close_tag_of t] | None => [] end in
  let open_mark := match tag_type with Some t => [open_marker t] | None => [] end in
  match chunks with
  | [] =>
      match st with
      | Some (g, cc) => IGroup (rev g ++ map close_tag_of cc ++ close_marker) :: map (fun n => ITag (open_tag_of n)) (rev cc)
      | None => []
      end
  | chunk :: rest =>
      if skip_group_chunk chunk then merge_groups_aux rest tag_type st
      else
          let plain (st0 : option (list str * list str)) (track : option str) :=
            let '(g, cc) := match st0 with
                            | None => (rev open_mark, [])
                            | Some gc => gc
                            end in
            let cc' := match track with Some n => n :: cc | None => cc end in
            merge_groups_aux rest tag_type (Some (chunk :: g, cc')) in
          if starts_lt chunk then
            let name := chunk_tag_name chunk in
            if second_is_slash chunk then
              match st with
              | Some (g, cc) =>
                  if is_block_name name then
                    IGroup (rev g ++ map close_tag_of cc ++ close_marker) :: ITag chunk :: merge_groups_aux rest tag_type None
                  else
                    match index_of name cc 0 with
                    | Some i => merge_groups_aux rest tag_type (Some (chunk :: g, skipn (S i) cc))
                    | None =>
                        if mem_str name Tables.empty_tags then merge_groups_aux rest tag_type (Some (chunk :: g, cc))
                        else
                        let g' := rev (map open_tag_of (rev cc)) ++ rev open_mark ++ [chunk] ++ rev close_marker ++
                                  rev (map close_tag_of cc) ++ g in
                        merge_groups_aux rest tag_type (Some (g', cc))
                    end
              | None => ITag chunk :: merge_groups_aux rest tag_type None
              end
            else if is_block_name name then
              match st with
              | Some (g, cc) => IGroup (rev g ++ map close_tag_of cc ++ close_marker) :: ITag chunk :: merge_groups_aux rest tag_type None
              | None => ITag chunk :: merge_groups_aux rest tag_type None
              end
            else plain st (if tracks_open name then Some name else None)
          else plain st None
  end.

Definition merge_change_groups (chunks : list str) (tag_type : option str) : list item :=
  merge_groups_aux chunks tag_type None.

Definition flatten_groups (l : list item) : list str :=
  flat_map (fun it => match it with ITag s => [s] | IGroup g => g end) l.

(* ---- reconcile_change_groups ---- *)
Inductive target := TDoc | TDel | TIns.

Record tinfo := { ti_name : str; ti_open : bool }.

Definition tag_info (s : str) : option tinfo :=
  if starts_lt s then Some {| ti_name := tag_info_name s; ti_open := negb (is_closing s) |} else None.

Record rstate := {
  r_doc : list str;          (* appended output, in order *)
  r_ins : list str;          (* insert_buffer *)
  r_del : list str;          (* delete_buffer *)
  r_istack : list tinfo;     (* insert_tag_stack, top first *)
  r_dstack : list tinfo;     (* delete_tag_stack, top first *)
  r_dunstack : list tinfo;   (* delete_tag_unstack, top first *)
  r_buf : target
}.

Definition del_marker : str := open_marker (s2l "del").

Definition truthy_item (o : option item) : option item :=
  match o with
  | Some (ITag []) => None
  | Some (IGroup []) => None
  | x => x
  end.

Fixpoint list_eqb (a b : list str) : bool :=
  match a, b with
  | [], [] => true
  | x :: a', y :: b' => str_eqb x y && list_eqb a' b'
  | _, _ => false
  end.

Definition items_equal (i d : option item) : bool :=
  match i, d with
  | Some (ITag x), Some (ITag y) => str_eqb x y || str_eqb (py_strip x) (py_strip y)
  | Some (IGroup x), Some (IGroup y) => list_eqb x y
  | None, None => true
  | _, _ => false
  end.

Definition extend (st : rstate) (t : target) (l : list str) : rstate :=
  match t with
  | TDoc => {| r_doc := r_doc st ++ l; r_ins := r_ins st; r_del := r_del st; r_istack := r_istack st;
               r_dstack := r_dstack st; r_dunstack := r_dunstack st; r_buf := r_buf st |}
  | TDel => {| r_doc := r_doc st; r_ins := r_ins st; r_del := r_del st ++ l; r_istack := r_istack st;
               r_dstack := r_dstack st; r_dunstack := r_dunstack st; r_buf := r_buf st |}
  | TIns => {| r_doc := r_doc st; r_ins := r_ins st ++ l; r_del := r_del st; r_istack := r_istack st;
               r_dstack := r_dstack st; r_dunstack := r_dunstack st; r_buf := r_buf st |}
  end.

Definition set_buf (st : rstate) (t : target) : rstate :=
  {| r_doc := r_doc st; r_ins := r_ins st; r_del := r_del st; r_istack := r_istack st;
     r_dstack := r_dstack st; r_dunstack := r_dunstack st; r_buf := t |}.
Definition set_dstack (st : rstate) (s : list tinfo) : rstate :=
  {| r_doc := r_doc st; r_ins := r_ins st; r_del := r_del st; r_istack := r_istack st;
     r_dstack := s; r_dunstack := r_dunstack st; r_buf := r_buf st |}.
Definition set_dunstack (st : rstate) (s : list tinfo) : rstate :=
  {| r_doc := r_doc st; r_ins := r_ins st; r_del := r_del st; r_istack := r_istack st;
     r_dstack := r_dstack st; r_dunstack := s; r_buf := r_buf st |}.
Definition set_istack (st : rstate) (s : list tinfo) : rstate :=
  {| r_doc := r_doc st; r_ins := r_ins st; r_del := r_del st; r_istack := s;
     r_dstack := r_dstack st; r_dunstack := r_dunstack st; r_buf := r_buf st |}.
(* document.extend(delete_buffer); delete_buffer.clear() *)
Definition flush_del (st : rstate) : rstate :=
  {| r_doc := r_doc st ++ r_del st; r_ins := r_ins st; r_del := []; r_istack := r_istack st;
     r_dstack := r_dstack st; r_dunstack := r_dunstack st; r_buf := r_buf st |}.
Definition flush_ins (st : rstate) : rstate :=
  {| r_doc := r_doc st ++ r_ins st; r_ins := []; r_del := r_del st; r_istack := r_istack st;
     r_dstack := r_dstack st; r_dunstack := r_dunstack st; r_buf := r_buf st |}.

(* pop until a tag with this name is on top (Python: pop; while stack and name differs: pop) *)
Fixpoint pop_until (name : str) (active : tinfo) (stack : list tinfo) : tinfo * list tinfo :=
  match stack with
  | [] => (active, [])
  | t :: s' => if str_eqb (ti_name active) name then (active, stack) else pop_until name t s'
  end.

Inductive step_result := Continue (st : rstate) (ii di : nat) | Break (st : rstate).

Definition has_del_marker (l : list str) : bool := existsb (str_eqb del_marker) l.

(* one iteration of the while loop; [ins], [del] are the current items *)
Definition reconcile_step (st : rstate) (ins del : option item) (ii di : nat) : step_result :=
  if items_equal ins del && (match r_buf st with TDoc => true | _ => false end) then
    match ins with
    | Some (ITag x) => Continue (extend st TDoc [x]) (S ii) (S di)
    | Some (IGroup g) => Continue (extend st TDoc g) (S ii) (S di)   (* document.append(list): not reachable, groups differ in markers *)
    | None => Break st
    end
  else
    match del, ins with
    | Some (IGroup g), _ => Continue (extend st (r_buf st) g) ii (S di)
    | _, Some (IGroup g) =>
        let t := match r_buf st with
                 | TDel => match r_istack st with [] => TDoc | _ => TIns end
                 | b => b
                 end in
        Continue (extend st t g) (S ii) di
    | Some (ITag d), _ =>
        match tag_info d with
        | None => Continue (extend st (r_buf st) [d]) ii (S di)
        | Some tag =>
            if ti_open tag then
              match r_dunstack st with
              | active :: us =>
                  let st1 := extend st TDel [d] in
                  let us' := if str_eqb (ti_name tag) (ti_name active) then us else tag :: active :: us in
                  let st2 := set_dunstack st1 us' in
                  match us' with
                  | [] => Continue (set_buf (flush_del st2) TDoc) ii (S di)
                  | _ => Continue st2 ii (S di)
                  end
              | [] => Continue (extend (set_dstack (set_buf st TDel) (tag :: r_dstack st)) TDel [d]) ii (S di)
              end
            else
              match r_dstack st with
              | top :: s =>
                  let '(active, s') := pop_until (ti_name tag) top s in
                  if negb (str_eqb (ti_name active) (ti_name tag)) then Break (set_dstack st s')
                  else
                    let st1 := extend (set_dstack st s') TDel [d] in
                    match s' with
                    | [] => Continue (set_buf (flush_del st1) TDoc) ii (S di)
                    | _ => Continue st1 ii (S di)
                    end
              | [] =>
                  let st0 := set_buf st TDel in
                  match r_dunstack st0 with
                  | active :: us =>
                      if negb (ti_open active) then
                        Continue (extend (set_dunstack st0 (tag :: active :: us)) TDel [d]) ii (S di)
                      else if str_eqb (ti_name active) (ti_name tag) then
                        Continue (extend (set_dunstack st0 us) TDel [d]) ii (S di)
                      else Break (set_dunstack st0 us)
                  | [] => Continue (extend (set_dunstack st0 [tag]) TDel [d]) ii (S di)
                  end
              end
        end
    | _, Some (ITag i) =>
        (* a hanging delete buffer with content is cleaned up and inserted before moving on *)
        let st0 := if has_del_marker (r_del st)
                   then set_dstack (flush_del (extend st TDel (map (fun t => close_tag_of (ti_name t)) (rev (r_dstack st))))) []
                   else st in
        match tag_info i with
        | None => Continue (extend st0 (r_buf st0) [i]) (S ii) di
        | Some tag =>
            if ti_open tag then
              Continue (extend (set_istack (set_buf st0 TIns) (tag :: r_istack st0)) TIns [i]) (S ii) di
            else
              match r_istack st0 with
              | top :: s =>
                  let '(active, s') := pop_until (ti_name tag) top s in
                  if negb (str_eqb (ti_name active) (ti_name tag)) then Break (set_istack st0 s')
                  else
                    let st1 := extend (set_istack st0 s') TIns [i] in
                    match s' with
                    | [] => Continue (set_buf (flush_ins st1) TDoc) (S ii) di
                    | _ => Continue st1 (S ii) di
                    end
              | [] => Continue (extend st0 TDoc [i]) (S ii) di
              end
        end
    | None, None => Break st
    end.

Fixpoint reconcile_loop (fuel : nat) (igs dgs : list item) (st : rstate) (ii di : nat) : rstate * nat * nat :=
  match fuel with
  | O => (st, ii, di)
  | S fuel' =>
      let ins := truthy_item (nth_error igs ii) in
      let del := truthy_item (nth_error dgs di) in
      match ins, del with
      | None, None => (st, ii, di)
      | _, _ =>
          match reconcile_step st ins del ii di with
          | Continue st' ii' di' => reconcile_loop fuel' igs dgs st' ii' di'
          | Break st' => (st', ii, di)
          end
      end
  end.

Definition item_chunks (it : item) : list str := match it with ITag s => [s] | IGroup g => g end.

(* returns what is appended to the document *)
Definition reconcile_change_groups (igs dgs : list item) : list str :=
  let st0 := {| r_doc := []; r_ins := []; r_del := []; r_istack := []; r_dstack := []; r_dunstack := []; r_buf := TDoc |} in
  let '(st, ii, di) := reconcile_loop (S (List.length igs + List.length dgs)) igs dgs st0 0 0 in
  let hanging := if has_del_marker (r_del st)
                 then r_del st ++ map (fun t => close_tag_of (ti_name t)) (rev (r_dstack st))
                 else [] in
  r_doc st ++ hanging ++ r_ins st ++
  flat_map (fun it => match it with IGroup g => g | ITag _ => [] end) (skipn di dgs) ++
  flat_map item_chunks (skipn ii igs).

(* ---- assemble_diff ---- *)
Inductive mode := MCombined | MInsertions | MDeletions | MOther.

Definition slice_tokens (l : list token) (lo hi : nat) : list token := firstn (hi - lo) (skipn lo l).

Fixpoint first_group (l : list item) (i : nat) : option nat :=
  match l with
  | [] => None
  | IGroup _ :: _ => Some i
  | _ :: l' => first_group l' (S i)
  end.

Fixpoint last_group (l : list item) (i : nat) (best : option nat) : option nat :=
  match l with
  | [] => best
  | IGroup _ :: l' => last_group l' (S i) (Some i)
  | _ :: l' => last_group l' (S i) best
  end.

Definition item_eqb (x y : item) : bool :=
  match x, y with
  | ITag a, ITag b => str_eqb a b
  | IGroup a, IGroup b => list_eqb a b
  | _, _ => false
  end.

Definition ditem : item := ITag [].

(* how many items immediately before the first groups agree, counting backwards *)
Fixpoint common_before (n : nat) (ebd ebi : list item) (fd fi : nat) (k : nat) : nat :=
  match n with
  | O => k
  | S n' =>
      if item_eqb (nth (fd - 1 - k) ebd ditem) (nth (fi - 1 - k) ebi ditem)
      then common_before n' ebd ebi fd fi (S k) else k
  end.

(* first index >= 1 after the last groups where the items differ (or the range length) *)
Fixpoint common_after (n : nat) (ebd ebi : list item) (ld li : nat) (k : nat) (max_range : nat) : nat :=
  match n with
  | O => Nat.max 1 max_range
  | S n' =>
      if Nat.ltb k max_range then
        if item_eqb (nth (ld + k) ebd ditem) (nth (li + k) ebi ditem)
        then common_after n' ebd ebi ld li (S k) max_range else k
      else Nat.max 1 max_range
  end.

Record astate := { a_result : list str; a_ins : list item; a_del : list item }.

Definition do_reconcile (st : astate) : astate :=
  {| a_result := a_result st ++ reconcile_change_groups (a_ins st) (a_del st); a_ins := []; a_del := [] |}.

Definition assemble_op (m : mode) (old new : list token) (st : astate) (o : opcode) : astate :=
  let '(t, (i1, i2), (j1, j2)) := o in
  let olds := slice_tokens old i1 i2 in
  let news := slice_tokens new j1 j2 in
  match t with
  | Equal =>
      match m with
      | MCombined =>
          let ebd := merge_change_groups (expand_tokens true olds) None in
          let ebi := merge_change_groups (expand_tokens true news) None in
          let '(pre_d, ebd1, pre_i, ebi1) :=
            match first_group ebd 0, first_group ebi 0 with
            | Some fd, Some fi =>
                let u := common_before (Nat.min fd fi) ebd ebi fd fi 0 in
                (firstn (fd - u) ebd, skipn (fd - u) ebd, firstn (fi - u) ebi, skipn (fi - u) ebi)
            | _, _ => ([], ebd, [], ebi)
            end in
          let '(ebd2, next_d, ebi2, next_i) :=
            match last_group ebd1 0 None, last_group ebi1 0 None with
            | Some ld, Some li =>
                let max_range := Nat.min (List.length ebd1 - ld) (List.length ebi1 - li) in
                let u := common_after max_range ebd1 ebi1 ld li 1 max_range in
                (firstn (ld + u) ebd1, skipn (ld + u) ebd1, firstn (li + u) ebi1, skipn (li + u) ebi1)
            | _, _ => (ebd1, [], ebi1, [])
            end in
          let st1 := {| a_result := a_result st; a_ins := a_ins st ++ pre_i; a_del := a_del st ++ pre_d |} in
          let st2 := match a_ins st1, a_del st1 with
                     | [], [] => st1
                     | _, _ => do_reconcile st1
                     end in
          {| a_result := a_result st2 ++ flatten_groups ebi2; a_ins := a_ins st2 ++ next_i; a_del := a_del st2 ++ next_d |}
      | MInsertions =>
          let st2 := match a_ins st, a_del st with [], [] => st | _, _ => do_reconcile st end in
          {| a_result := a_result st2 ++ expand_tokens true news; a_ins := a_ins st2; a_del := a_del st2 |}
      | _ =>
          let st2 := match a_ins st, a_del st with [], [] => st | _, _ => do_reconcile st end in
          {| a_result := a_result st2 ++ expand_tokens true olds; a_ins := a_ins st2; a_del := a_del st2 |}
      end
  | _ =>
      let does_insert := match t with Insert | Replace => true | _ => false end in
      let does_delete := match t with Delete | Replace => true | _ => false end in
      let st1 :=
        if does_insert then
          match m with
          | MCombined => {| a_result := a_result st; a_ins := a_ins st ++ merge_change_groups (expand_tokens false news) (Some (s2l "ins")); a_del := a_del st |}
          | MInsertions => {| a_result := a_result st ++ merge_changes (expand_tokens false news) (s2l "ins"); a_ins := a_ins st; a_del := a_del st |}
          | _ => st
          end
        else st in
      if does_delete then
        match m with
        | MCombined => {| a_result := a_result st1; a_ins := a_ins st1; a_del := a_del st1 ++ merge_change_groups (expand_tokens false olds) (Some (s2l "del")) |}
        | MDeletions => {| a_result := a_result st1 ++ merge_changes (expand_tokens false olds) (s2l "del"); a_ins := a_ins st1; a_del := a_del st1 |}
        | _ => st1
        end
      else st1
  end.

Definition assemble_diff (m : mode) (old new : list token) (ops : list opcode) : list str :=
  let st := fold_left (assemble_op m old new) ops {| a_result := []; a_ins := []; a_del := [] |} in
  a_result (do_reconcile st).

(* ''.join('</li>' if chunk == '</li> ' else chunk for chunk in diff).strip() *)
Definition fix_li (chunk : str) : str := if str_eqb chunk (s2l "</li> ") then s2l "</li>" else chunk.

Definition render_string (chunks : list str) : str := py_strip (List.concat (map fix_li chunks)).

(* ---- _count_changes and _htmldiff ---- *)
Definition count_tag (t : tag) (ops : list opcode) : nat :=
  List.length (filter (fun o => match op_tag o, t with
                                | Insert, Insert | Delete, Delete | Replace, Replace | Equal, Equal => true
                                | _, _ => false end) ops).

Record counts := { change_count : nat; deletions_count : nat; insertions_count : nat }.

Definition count_changes (ops : list opcode) : counts :=
  let i := count_tag Insert ops in let d := count_tag Delete ops in let r := count_tag Replace ops in
  {| change_count := i + d + 2 * r; deletions_count := d + r; insertions_count := i + r |}.

Definition prepare (root : el) (max_spacers : N) : list token :=
  limit_spacers (customize_tokens (tokenize root)) max_spacers.

Definition token_opcodes (rules : option (list rule)) (old new : list token) : list opcode :=
  insensitive_opcodes token token_same_key (token_eq rules) dtoken (N.to_nat Tables.matcher_threshold) old new.

(* returns the counts and the three diff strings (each present according to [include]) *)
Definition htmldiff (old_root new_root : el) (rules : option (list rule)) (max_spacers : N)
  : counts * (str * str * str) :=
  let old := prepare old_root max_spacers in
  let new := prepare new_root max_spacers in
  let ops := token_opcodes rules old new in
  (count_changes ops,
   (render_string (assemble_diff MCombined old new ops),
    render_string (assemble_diff MInsertions old new ops),
    render_string (assemble_diff MDeletions old new ops))).

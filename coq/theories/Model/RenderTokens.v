(* Executable model of the tokenising half of html_render_diff.py:
   flatten_el / start_tag / end_tag / split_words, fixup_chunks, _customize_tokens,
   _limit_spacers, token equality and the URL comparators. *)
From Coq Require Import List NArith Arith Bool String.
From WMD Require Import Gen.Tables Lib.Str Lib.PyChars Lib.Escape.
Import ListNotations.
Open Scope N_scope.

(* an lxml element: tag, attributes in document order, text, children, tail; [source] is
   etree.tostring(el, method='html') (with its tail) and is only used for undiffable elements *)
Inductive el :=
| El (tag : str) (attrs : list (str * str)) (text : str) (children : list el) (tail : str) (source : str).

Definition el_tag (e : el) : str := match e with El t _ _ _ _ _ => t end.
Definition el_attrs (e : el) := match e with El _ a _ _ _ _ => a end.
Definition el_text (e : el) : str := match e with El _ _ t _ _ _ => t end.
Definition el_children (e : el) := match e with El _ _ _ c _ _ => c end.
Definition el_tail (e : el) : str := match e with El _ _ _ _ t _ => t end.
Definition el_source (e : el) : str := match e with El _ _ _ _ _ s => s end.

Inductive chunk :=
| CImg (srcs : list str) (html : str)
| CUndiff (src : str)
| CStart (s : str)
| CEnd (s : str)
| CWord (s : str)
| CHref (s : str).

(* ---- split_words: re.findall(r'\S+(?:\s+|$)', text) unless the text is blank ---- *)
Fixpoint span_not_ws (s : str) : str * str :=
  match s with
  | [] => ([], [])
  | c :: s' => if re_space c then ([], s) else let (a, r) := span_not_ws s' in (c :: a, r)
  end.

Fixpoint span_ws (s : str) : str * str :=
  match s with
  | [] => ([], [])
  | c :: s' => if re_space c then let (a, r) := span_ws s' in (c :: a, r) else ([], s)
  end.

Fixpoint split_words_aux (fuel : nat) (s : str) : list str :=
  match fuel with
  | O => []
  | S fuel' =>
      let (_, s1) := span_ws s in
      match s1 with
      | [] => []
      | _ => let (w, r) := span_not_ws s1 in
             let (sp, r') := span_ws r in
             (w ++ sp) :: split_words_aux fuel' r'
      end
  end.

Definition split_words (text : str) : list str := split_words_aux (S (List.length text)) text.

(* split_trailing_whitespace: (word.rstrip(), the stripped whitespace) *)
Definition split_trailing_ws (w : str) : str * str :=
  let body := py_rstrip w in (body, skipn (List.length body) w).

(* start_whitespace_re = ^[ \t\n\r] *)
Definition starts_with_basic_ws (s : str) : bool :=
  match s with
  | c :: _ => N.eqb c 32 || N.eqb c 9 || N.eqb c 10 || N.eqb c 13
  | [] => false
  end.

Definition is_void (tag : str) : bool := mem_str tag Tables.void_tags.

Definition start_tag (e : el) : str :=
  [60] ++ el_tag e ++
  List.concat (map (fun nv => [32] ++ fst nv ++ [61; 34] ++ html_escape true (snd nv) ++ [34]) (el_attrs e)) ++
  [62] ++ (if starts_with_basic_ws (if is_void (el_tag e) then el_tail e else el_text e) then [32] else []).

Definition end_tag (e : el) : str :=
  [60; 47] ++ el_tag e ++ [62] ++ (if starts_with_basic_ws (el_tail e) then [32] else []).

Definition attr (name : string) (e : el) : option str := assoc_str (s2l name) (el_attrs e).

Definition or_attr (a b : option str) : option str :=
  match a with Some (_ :: _) => a | _ => b end.

Definition img_srcs (e : el) : list str :=
  let src := or_attr (attr "src" e) (attr "data-src" e) in
  let srcset := or_attr (attr "srcset" e) (attr "data-srcset" e) in
  (match src with Some s => [s] | None => [] end) ++
  (match srcset with
   | Some ss => map (before_char 32) (split_char 44 ss)
   | None => []
   end).

Definition word_chunks (text : str) : list chunk := map (fun w => CWord (html_escape true w)) (split_words text).

Fixpoint flatten_el (e : el) : list chunk :=
  match e with
  | El tag attrs text children tail source =>
      if mem_str tag Tables.undiffable_content_tags && negb (str_eqb tag (s2l "img")) then [CUndiff source]
      else
        let head := if str_eqb tag (s2l "img") then [CImg (img_srcs e) (start_tag e)] else [CStart (start_tag e)] in
        match is_void tag, text, children, tail with
        | true, [], [], [] => head
        | _, _, _, _ =>
            head ++ word_chunks text ++ List.concat (map flatten_el children) ++
            (match str_eqb tag [97], assoc_str (s2l "href") attrs with
             | true, Some ((_ :: _) as h) => [CHref h]
             | _, _ => []
             end) ++
            (if is_void tag then [] else [CEnd (end_tag e)]) ++ word_chunks tail
        end
  end.

(* flatten_el(body_el, skip_tag=True): contents of the outermost element only *)
Definition flatten_root (e : el) : list chunk :=
  match e with
  | El tag attrs text children tail source =>
      word_chunks text ++ List.concat (map flatten_el children) ++
      (match str_eqb tag [97], assoc_str (s2l "href") attrs with
       | true, Some ((_ :: _) as h) => [CHref h]
       | _, _ => []
       end)
  end.

(* ---- tokens ---- *)
Inductive tkind := KWord | KHref | KImg (srcs : list str) | KUndiff | KSpacer.

Record token := {
  t_kind : tkind;
  t_text : str;        (* the str value of the token (for images: not modelled, srcs decide) *)
  t_html : str;        (* html() *)
  t_pre : list str;
  t_post : list str;
  t_trail : str
}.

Definition set_pre (t : token) (p : list str) : token :=
  {| t_kind := t_kind t; t_text := t_text t; t_html := t_html t; t_pre := p; t_post := t_post t; t_trail := t_trail t |}.
Definition set_post (t : token) (p : list str) : token :=
  {| t_kind := t_kind t; t_text := t_text t; t_html := t_html t; t_pre := t_pre t; t_post := p; t_trail := t_trail t |}.

Definition mk_token (k : tkind) (text html : str) (pre post : list str) (trail : str) : token :=
  {| t_kind := k; t_text := text; t_html := html; t_pre := pre; t_post := post; t_trail := trail |}.

(* fixup_chunks.  [acc] = tag_accum; [res] = result, newest first.
   An end tag with neither accumulated tags nor a previous word is the code's AssertionError;
   it cannot happen for chunks produced by flatten_el and is dropped here. *)
Fixpoint fixup_aux (cs : list chunk) (acc : list str) (res : list token) : list token :=
  match cs with
  | [] =>
      match res with
      | [] => [mk_token KWord [] [] acc [] []]
      | last :: rest => rev (set_post last (t_post last ++ acc) :: rest)
      end
  | c :: cs' =>
      match c with
      | CImg srcs html =>
          let (tag, trail) := split_trailing_ws html in
          fixup_aux cs' [] (mk_token (KImg srcs) [] tag acc [] trail :: res)
      | CHref h => fixup_aux cs' [] (mk_token KHref h [] acc [] [32] :: res)
      | CUndiff s => fixup_aux cs' [] (mk_token KUndiff s s acc [] [] :: res)
      | CWord w =>
          let (body, trail) := split_trailing_ws w in
          fixup_aux cs' [] (mk_token KWord body body acc [] trail :: res)
      | CStart s => fixup_aux cs' (acc ++ [s]) res
      | CEnd s =>
          match acc with
          | _ :: _ => fixup_aux cs' (acc ++ [s]) res
          | [] => match res with
                  | last :: rest => fixup_aux cs' [] (set_post last (t_post last ++ [s]) :: rest)
                  | [] => fixup_aux cs' [] res
                  end
          end
      end
  end.

Definition fixup_chunks (cs : list chunk) : list token := fixup_aux cs [] [].

Definition tokenize (root : el) : list token := fixup_chunks (flatten_root root).

(* ---- _customize_tokens ---- *)
Definition is_closing (tag : str) : bool := starts_with [60; 47] tag.

Fixpoint span_closing (l : list str) : list str * list str :=
  match l with
  | [] => ([], [])
  | t :: l' => if is_closing t then let (a, r) := span_closing l' in (t :: a, r) else ([], l)
  end.

(* phase 1: one step of the sweep, (previous, token) -> (previous', token') *)
Definition rebalance_pair (prev tok : token) : token * token :=
  let (closing, rest) := span_closing (t_post prev) in
  match rest with
  | _ :: _ => (set_post prev closing, set_pre tok (rest ++ t_pre tok))
  | [] =>
      let (closing', rest') := span_closing (t_pre tok) in
      (set_post prev (t_post prev ++ closing'), set_pre tok rest')
  end.

Fixpoint rebalance_tokens (prev : token) (rest : list token) : list token :=
  match rest with
  | [] => [prev]
  | tok :: rest' => let (p', t') := rebalance_pair prev tok in p' :: rebalance_tokens t' rest'
  end.

Definition separatable (tag : str) : bool :=
  existsb (fun name => starts_with ([60] ++ name) tag) Tables.separatable_tags.

Definition spacer (pre post : list str) : token := mk_token KSpacer Tables.spacer_string [] pre post [].
Definition empty_spacer (pre post : list str) : token := mk_token KSpacer Tables.empty_spacer_string [] pre post [].

(* index of the first separatable tag at or after [from] *)
Fixpoint find_sep (l : list str) (idx from : nat) : option nat :=
  match l with
  | [] => None
  | t :: l' => if Nat.leb from idx && separatable t then Some idx else find_sep l' (S idx) from
  end.

(* the while-loop that splits pre_tags: returns the spacers emitted and the remaining pre_tags *)
Fixpoint split_pre (fuel : nat) (pre : list str) (from : nat) : list token * list str :=
  match fuel with
  | O => ([], pre)
  | S fuel' =>
      match find_sep pre 0 from with
      | None => ([], pre)
      | Some t =>
          let sp := [spacer (firstn t pre) []; spacer [] []; spacer [] []] in
          let pre' := skipn t pre in
          if Nat.ltb 1 (List.length pre') then
            let (more, final) := split_pre fuel' pre' 1 in (sp ++ more, final)
          else (sp, pre')
      end
  end.

(* the empty-link rule: first index i with pre[i] starting "<a", a following tag starting "</a" *)
Fixpoint find_empty_link (l : list str) (idx : nat) : option nat :=
  match l with
  | t :: ((t2 :: _) as l') =>
      if starts_with [60; 97] t && negb (match t2 with [] => true | _ => false end) && starts_with [60; 47; 97] t2
      then Some idx else find_empty_link l' (S idx)
  | _ => None
  end.

Fixpoint find_sep_post (l : list str) (idx : nat) : option nat :=
  match l with
  | [] => None
  | t :: l' => if separatable t then Some idx else find_sep_post l' (S idx)
  end.

(* phase 2 for one token *)
Definition customize_one (all : list token) (i : nat) (tok : token) : list token :=
  let (sp1, pre1) := match t_pre tok with
                     | [] => ([], [])
                     | p => split_pre (S (List.length p)) p 0
                     end in
  let '(sp2, pre2) := match find_empty_link pre1 0 with
                      | Some k => ([empty_spacer (firstn k pre1) (skipn k pre1)], [])
                      | None => ([], pre1)
                      end in
  let tok1 := set_pre tok pre2 in
  let post3 := t_post tok1 in
  let '(sp4, post4) := match find_sep_post post3 0 with
                       | Some k => ([spacer [] (skipn k post3); spacer [] []; spacer [] []], firstn k post3)
                       | None => ([], post3)
                       end in
  sp1 ++ sp2 ++ [set_post tok1 post4] ++ sp4.

Fixpoint customize_all (all : list token) (i : nat) (l : list token) : list token :=
  match l with
  | [] => []
  | t :: l' => customize_one all i t ++ customize_all all (S i) l'
  end.

Definition customize_tokens (tokens : list token) : list token :=
  match tokens with
  | [] => []
  | t :: rest => let l := rebalance_tokens t rest in customize_all l 0 l
  end.

(* ---- _limit_spacers (with the tags of dropped spacers handed on) ---- *)
Definition is_spacer (t : token) : bool := match t_kind t with KSpacer => true | _ => false end.

Fixpoint limit_aux (l : list token) (budget : N) (dropped : list str) (res : list token) : list token :=
  match l with
  | [] =>
      match dropped, res with
      | [], _ => rev res
      | _, last :: rest => rev (set_post last (t_post last ++ dropped) :: rest)
      | _, [] => [mk_token KWord [] [] dropped [] []]
      end
  | t :: l' =>
      if is_spacer t && N.eqb budget 0 then limit_aux l' budget (dropped ++ t_pre t ++ t_post t) res
      else
        let budget' := if is_spacer t then budget - 1 else budget in
        let t' := match dropped with [] => t | _ => set_pre t (dropped ++ t_pre t) end in
        limit_aux l' budget' [] (t' :: res)
  end.

Definition limit_spacers (tokens : list token) (max_spacers : N) : list token := limit_aux tokens max_spacers [] [].

(* ---- URL comparators ---- *)
Fixpoint all_digits (n : nat) (s : str) : option str :=
  match n with
  | O => Some s
  | S n' => match s with
            | c :: r => if re_digit c then all_digits n' r else None
            | [] => None
            end
  end.

Definition opt_prefix (ps : list str) (s : str) : str :=
  (* an optional group: the first alternative that is a prefix is consumed *)
  match find (fun p => starts_with p s) ps with
  | Some p => skipn (List.length p) s
  | None => s
  end.

Definition opt_www (s : str) : str :=
  match s with
  | 119 :: 119 :: 119 :: c :: r => if N.eqb c 10 then s else r
  | _ => s
  end.

Definition opt_scheme (s : str) : str := opt_prefix [s2l "https://"; s2l "http://"] s.

(* after the literal prefix: \d{14}(m1|m2|...)?/(https?://)?(www.)?  -> the rest after the match *)
Definition wayback_tail (mods : list str) (s : str) : option str :=
  match all_digits 14 s with
  | None => None
  | Some r =>
      let try_slash (x : str) : option str := match x with 47 :: y => Some (opt_www (opt_scheme y)) | _ => None end in
      match find (fun m => starts_with m r) mods with
      | Some m => match try_slash (skipn (List.length m) r) with
                  | Some y => Some y
                  | None => try_slash r
                  end
      | None => try_slash r
      end
  end.

(* matcher.search(url): leftmost match; returns url[match.end():] *)
Fixpoint search_tail (fuel : nat) (prefix : str) (mods : list str) (s : str) : option str :=
  match fuel with
  | O => None
  | S fuel' =>
      match (match drop_prefix prefix s with Some r => wayback_tail mods r | None => None end) with
      | Some y => Some y
      | None => match s with
                | [] => None
                | _ :: s' => search_tail fuel' prefix mods s'
                end
      end
  end.

Inductive rule := RJsession | RWayback | RWaybackUk.

Definition wayback_compare (prefix : str) (mods : list str) (a b : str) : bool :=
  match search_tail (S (List.length a)) prefix mods a, search_tail (S (List.length b)) prefix mods b with
  | Some ra, Some rb => str_eqb ra rb
  | _, _ => str_eqb a b
  end.

Fixpoint span_pred_N (p : N -> bool) (s : str) : str * str :=
  match s with
  | [] => ([], [])
  | c :: s' => if p c then let (a, r) := span_pred_N p s' in (c :: a, r) else ([], s)
  end.

(* re.sub(";jsessionid=[^;]+", "", url, count=1) *)
Fixpoint strip_session (s : str) : str :=
  match s with
  | [] => []
  | x :: s' =>
      match drop_prefix (s2l ";jsessionid=") s with
      | Some ((c :: _) as r) =>
          if N.eqb c 59 then x :: strip_session s'
          else snd (span_pred_N (fun y => negb (N.eqb y 59)) r)
      | _ => x :: strip_session s'
      end
  end.

Definition rule_compare (r : rule) (a b : str) : bool :=
  match r with
  | RJsession => str_eqb (strip_session a) (strip_session b)
  | RWayback => wayback_compare (s2l "web/") [s2l "im_"; s2l "js_"; s2l "cs_"] a b
  | RWaybackUk => wayback_compare (s2l "https://www.webarchive.org.uk/wayback/en/archive/") [s2l "mp_"; s2l "im_"] a b
  end.

(* comparator = None (no rules) or CompoundComparator(rules) *)
Definition url_eq (rules : option (list rule)) (a b : str) : bool :=
  match rules with
  | None => str_eqb a b
  | Some rs => existsb (fun r => rule_compare r a b) rs
  end.

Definition compare_array (rules : option (list rule)) (la lb : list str) : bool :=
  match la, lb with
  | [], [] => true
  | _, _ => existsb (fun a => existsb (fun b => url_eq rules a b) lb) la
  end.

Fixpoint list_str_eqb (a b : list str) : bool :=
  match a, b with
  | [], [] => true
  | x :: a', y :: b' => str_eqb x y && list_str_eqb a' b'
  | _, _ => false
  end.

(* Python == between tokens *)
Definition token_eq (rules : option (list rule)) (x y : token) : bool :=
  match t_kind x, t_kind y with
  | KSpacer, KSpacer => str_eqb (t_text x) (t_text y)
  | KHref, KHref => url_eq rules (t_text x) (t_text y)
  | KImg sa, KImg sb => compare_array rules sa sb
  | (KWord | KUndiff), (KWord | KUndiff) => str_eqb (t_text x) (t_text y)
  | _, _ => false
  end.

(* what a dict lookup identifies: equal string value (hash) and == *)
Definition token_same_key (x y : token) : bool :=
  match t_kind x, t_kind y with
  | KSpacer, KSpacer => str_eqb (t_text x) (t_text y)
  | KHref, KHref => str_eqb (t_text x) (t_text y)
  | KImg sa, KImg sb => list_str_eqb sa sb
  | (KWord | KUndiff), (KWord | KUndiff) => str_eqb (t_text x) (t_text y)
  | _, _ => false
  end.

Definition dtoken : token := mk_token KWord [] [] [] [] [].

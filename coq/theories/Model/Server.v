(* Executable model of the request handling of web_monitoring_diff/server/server.py:
   BaseHandler.set_default_headers, DiffHandler.get / fetch_diffable_content /
   write_error, caller.  The outside world (upstream HTTP, files, SHA-256,
   decoding, the differ itself, Tornado's ETag matcher input) enters as
   explicit oracle arguments; the result is a response plus the list of
   effects (upstream fetches with their headers, files opened). *)
From Coq Require Import List NArith Bool String.
From WMD Require Import Gen.Tables Lib.Str Lib.PyChars.
Import ListNotations.
Open Scope N_scope.

(* ---------------------------------------------------------------- dicts *)
Definition dict := list (str * str).

Fixpoint dict_get (k : str) (d : dict) : option str :=
  match d with
  | [] => None
  | (k', v) :: d' => if str_eqb k k' then Some v else dict_get k d'
  end.

Fixpoint dict_remove (k : str) (d : dict) : dict :=
  match d with
  | [] => []
  | (k', v) :: d' => if str_eqb k k' then dict_remove k d' else (k', v) :: dict_remove k d'
  end.

(* d[k] = v : keeps the position of an existing key, else appends *)
Fixpoint dict_set (k v : str) (d : dict) : dict :=
  match d with
  | [] => [(k, v)]
  | (k', v') :: d' => if str_eqb k k' then (k, v) :: d' else (k', v') :: dict_set k v d'
  end.

(* {k: v[-1] for k, v in request.arguments.items()} from the raw ordered pairs
   (Tornado keeps keys in order of first appearance and appends values) *)
Definition decode_query_params (raw : dict) : dict :=
  fold_left (fun acc kv => dict_set (fst kv) (snd kv) acc) raw [].

(* ---------------------------------------------------------------- headers *)
(* request headers: names compared ASCII-case-insensitively, several values joined by "," *)
Definition lower_ascii_str (s : str) : str := map ascii_lower_char s.
Definition hname_eqb (a b : str) : bool := str_eqb (lower_ascii_str a) (lower_ascii_str b).

Definition hdr_get (name : str) (h : dict) : option str :=
  match filter (fun kv => hname_eqb name (fst kv)) h with
  | [] => None
  | l => Some (join_str [44] (map snd l))
  end.

Definition truthy (o : option str) : bool :=
  match o with Some (_ :: _) => true | _ => false end.

(* ---------------------------------------------------------------- CORS *)
Definition k_origin := s2l "Origin".
Definition star : str := s2l "*".

(* value of Access-Control-Allow-Origin, if any; [configured] is the environment value *)
Definition cors_allow_origin (configured : option str) (req_headers : dict) : option str :=
  match configured with
  | None => None
  | Some conf =>
      let allowed := map py_strip (split_char 44 conf) in
      match hdr_get k_origin req_headers with
      | Some ((_ :: _) as o) =>
          match allowed with
          | [] => None
          | _ => if mem_str o allowed || mem_str star allowed then Some o else None
          end
      | _ => None
      end
  end.

(* the three other CORS headers are sent whenever origins are configured *)
Definition cors_static_headers (configured : option str) : bool :=
  match configured with Some _ => true | None => false end.

(* ---------------------------------------------------------------- pass_headers *)
Definition k_pass_headers := s2l "pass_headers".

Definition upstream_headers (query_params : dict) (req_headers : dict) : dict :=
  match dict_get k_pass_headers query_params with
  | Some ((_ :: _) as keys) =>
      fold_left (fun acc key =>
                   let key := py_strip key in
                   match hdr_get key req_headers with
                   | Some ((_ :: _) as v) => dict_set key v acc
                   | _ => acc
                   end)
                (split_char 44 keys) []
  | _ => []
  end.

(* ---------------------------------------------------------------- fetching *)
Inductive upstream :=
| UOk (hdrs : dict) (body : str)                       (* a response that client.fetch returns *)
| UHttpError (code : N) (resp : option (dict * str))   (* tornado.httpclient.HTTPError *)
| UValueError
| UOSError
| UTimeoutSimple
| UStreamClosed
| UCurl (errno : N).

Inductive effect :=
| EFetch (url : str) (hdrs : dict)
| EOpen (path : str).

Inductive err :=
| E404Unknown
| E400Missing
| E403Production
| E400Scheme
| E400Value
| E502OS
| E504Timeout
| E502Closed
| E400CurlUrl
| E502TooBig
| E502CurlConnect
| E502CurlUnknown
| E502Upstream (code : N)
| E502HashMismatch
| E422Undiffable
| E422Undecodable
| E500Internal.

Definition err_status (e : err) : N :=
  match e with
  | E404Unknown => 404
  | E400Missing | E400Scheme | E400Value | E400CurlUrl => 400
  | E403Production => 403
  | E504Timeout => 504
  | E502OS | E502Closed | E502TooBig | E502CurlConnect | E502CurlUnknown
  | E502Upstream _ | E502HashMismatch => 502
  | E422Undiffable | E422Undecodable => 422
  | E500Internal => 500
  end.

(* the "code" member of the JSON error body as write_error computes it: the
   status given to send_error, overridden by 422 for the two content errors
   (which are raised as plain exceptions, i.e. arrive with status 500) *)
Definition err_json_code (e : err) : N := err_status e.

Record fetched := { f_url : str; f_headers : dict; f_body : str }.

Definition file_prefix := s2l "file://".
Definition http_prefix := s2l "http://".
Definition https_prefix := s2l "https://".
Definition k_memento := s2l "Memento-Datetime".
Definition k_content_type := s2l "Content-Type".

(* pycurl error numbers used by the code *)
Definition curl_url_malformat := 3.
Definition curl_filesize_exceeded := 63.
Definition curl_couldnt_resolve_proxy := 5.
Definition curl_couldnt_connect := 7.
Definition curl_weird_server_reply := 8.
Definition curl_remote_access_denied := 9.
Definition curl_http2 := 16.
Definition curl_operation_timedout := 28.

Section Handler.
  (* oracles *)
  Variable production : bool.
  Variable upstream_of : str -> upstream.             (* what the HTTP client does for a URL *)
  Variable file_of : str -> str.                      (* bytes of a local path *)
  Variable file_headers_of : str -> dict.             (* MockResponse headers guessed from the URL *)
  Variable sha256_hex : str -> str.

  Definition fetch_result := (list effect * (fetched + err))%type.

  Definition check_hash (url : str) (r : fetched) (expected : option str) : fetched + err :=
    match expected with
    | Some h => if str_eqb (sha256_hex (f_body r)) h then inl r else inr E502HashMismatch
    | None => inl r
    end.

  Definition fetch_diffable_content (url : str) (expected_hash : option str)
             (query_params req_headers : dict) : fetch_result :=
    if starts_with file_prefix url then
      if production then ([], inr E403Production)
      else
        let path := skipn 7 url in
        let r := {| f_url := url; f_headers := file_headers_of url; f_body := file_of path |} in
        ([EOpen path], check_hash url r expected_hash)
    else if negb (starts_with http_prefix url) && negb (starts_with https_prefix url) then
      ([], inr E400Scheme)
    else
      let hdrs := upstream_headers query_params req_headers in
      let eff := [EFetch url hdrs] in
      match upstream_of url with
      | UOk h b => (eff, check_hash url {| f_url := url; f_headers := h; f_body := b |} expected_hash)
      | UValueError => (eff, inr E400Value)
      | UOSError => (eff, inr E502OS)
      | UTimeoutSimple => (eff, inr E504Timeout)
      | UStreamClosed => (eff, inr E502Closed)
      | UCurl n =>
          (eff, inr (if N.eqb n curl_url_malformat then E400CurlUrl
                     else if N.eqb n curl_filesize_exceeded then E502TooBig
                     else if N.eqb n curl_couldnt_resolve_proxy || N.eqb n curl_couldnt_connect
                             || N.eqb n curl_weird_server_reply || N.eqb n curl_remote_access_denied
                             || N.eqb n curl_http2 then E502CurlConnect
                     else if N.eqb n curl_operation_timedout then E504Timeout
                     else E502CurlUnknown))
      | UHttpError code (Some (h, b)) =>
          match hdr_get k_memento h with
          | Some _ => (eff, check_hash url {| f_url := url; f_headers := h; f_body := b |} expected_hash)
          | None => (eff, inr (E502Upstream code))
          end
      | UHttpError code None => (eff, inr (E502Upstream code))
      end.

  (* does fetch_diffable_content for this URL finish before its first await *)
  Definition is_sync_failure (url : str) : bool :=
    starts_with file_prefix url ||
    (negb (starts_with http_prefix url) && negb (starts_with https_prefix url)).

  (* ------------------------------------------------------------ caller *)
  (* where the value bound to a differ parameter comes from *)
  Inductive arg_source :=
  | FromUrl (a_side : bool)
  | FromBody (a_side : bool)
  | FromHeaders (a_side : bool)
  | FromText (a_side : bool)           (* _decode_body of that side *)
  | FromQuery (v : str).

  Definition n_a_url := s2l "a_url".   Definition n_b_url := s2l "b_url".
  Definition n_a_body := s2l "a_body". Definition n_b_body := s2l "b_body".
  Definition n_a_headers := s2l "a_headers". Definition n_b_headers := s2l "b_headers".
  Definition n_a_text := s2l "a_text". Definition n_b_text := s2l "b_text".

  Definition reserved_source (name : str) : option arg_source :=
    if str_eqb name n_a_url then Some (FromUrl true)
    else if str_eqb name n_b_url then Some (FromUrl false)
    else if str_eqb name n_a_body then Some (FromBody true)
    else if str_eqb name n_b_body then Some (FromBody false)
    else if str_eqb name n_a_headers then Some (FromHeaders true)
    else if str_eqb name n_b_headers then Some (FromHeaders false)
    else if str_eqb name n_a_text then Some (FromText true)
    else if str_eqb name n_b_text then Some (FromText false)
    else None.

  (* kwargs handed to the differ, or the name of a missing required parameter.
     [sig] : (parameter name, has a default) in signature order. *)
  Fixpoint bind_args (sig : list (str * bool)) (query_params : dict)
    : (list (str * arg_source)) + str :=
    match sig with
    | [] => inl []
    | (name, has_default) :: rest =>
        let here :=
          match reserved_source name with
          | Some src => Some src
          | None => match dict_get name query_params with
                    | Some v => Some (FromQuery v)
                    | None => None
                    end
          end in
        match here, bind_args rest query_params with
        | Some src, inl l => inl ((name, src) :: l)
        | None, inl l => if has_default then inl l else inr name
        | Some _, inr m => inr m
        | None, inr m => if has_default then inr m else inr name
        end
    end.

  Definition k_ignore_decoding_errors := s2l "ignore_decoding_errors".

  Definition raise_if_binary (query_params : dict) : bool :=
    negb (truthy (dict_get k_ignore_decoding_errors query_params)).

  (* ------------------------------------------------------------ get *)
  Inductive differ_outcome :=
  | DResult (has_type_key : bool)        (* a dict; does it carry its own "type" *)
  | DUndiffable
  | DOther.

  Variable decode_ok : bool -> bool -> bool.   (* side, raise_if_binary -> does _decode_body succeed *)
  Variable run_differ : str -> list (str * arg_source) -> differ_outcome.

  Inductive body :=
  | BNone
  | BError (code : N)
  | BDiff (differ : str) (kwargs : list (str * arg_source)) (type_from_differ : bool).

  Record response := { r_status : N; r_body : body; r_etag : bool; r_err : option err }.

  Definition error_response (e : err) : response :=
    {| r_status := err_status e; r_body := BError (err_json_code e); r_etag := false; r_err := Some e |}.

  Definition k_a := [97]. Definition k_b := [98].
  Definition k_func := s2l "func".
  Definition k_a_hash := s2l "a_hash". Definition k_b_hash := s2l "b_hash".

  Definition uses_text (a_side : bool) (sig : list (str * bool)) : bool :=
    existsb (fun p => str_eqb (fst p) (if a_side then n_a_text else n_b_text)) sig.

  (* [etag_matches] : Tornado's check_etag_header applied to the computed validator *)
  Definition get (differ : str) (raw_query req_headers : dict) (etag_matches : bool)
    : response * list effect :=
    if etag_matches then ({| r_status := 304; r_body := BNone; r_etag := true; r_err := None |}, [])
    else
      match assoc_str differ Tables.diff_routes with
      | None => (error_response E404Unknown, [])
      | Some sig =>
          let q := decode_query_params raw_query in
          match dict_get k_a q, dict_get k_b q with
          | Some ua, Some ub =>
              let q1 := dict_remove k_b (dict_remove k_a q) in
              let ha := dict_get k_a_hash q1 in
              let q2 := dict_remove k_a_hash q1 in
              let hb := dict_get k_b_hash q2 in
              let q3 := dict_remove k_b_hash q2 in
              let '(ea, ra) := fetch_diffable_content ua ha q3 req_headers in
              let '(eb, rb) := fetch_diffable_content ub hb q3 req_headers in
              let effects := ea ++ eb in
              match ra, rb with
              | inr e, inl _ => (error_response e, effects)
              | inr e, inr e' =>
                  (* both coroutines run under asyncio.gather: the error raised first in time wins;
                     a failure before the first await (local file / scheme checks) precedes any upstream failure *)
                  if negb (is_sync_failure ua) && is_sync_failure ub then (error_response e', effects)
                  else (error_response e, effects)
              | inl _, inr e => (error_response e, effects)
              | inl fa, inl fb =>
                  let rib := raise_if_binary q3 in
                  (* caller(func, a, b, **params): a parameter named like one of caller's own
                     positional arguments is a TypeError (a and b were popped above) *)
                  if match dict_get k_func q3 with Some _ => true | None => false end
                  then (error_response E500Internal, effects)
                  else if uses_text true sig && negb (decode_ok true rib) then (error_response E422Undecodable, effects)
                  else if uses_text false sig && negb (decode_ok false rib) then (error_response E422Undecodable, effects)
                  else
                    match bind_args sig q3 with
                    | inr _ => (error_response E500Internal, effects)
                    | inl kwargs =>
                        match run_differ differ kwargs with
                        | DResult t =>
                            ({| r_status := 200; r_body := BDiff differ kwargs t; r_etag := true; r_err := None |},
                             effects)
                        | DUndiffable => (error_response E422Undiffable, effects)
                        | DOther => (error_response E500Internal, effects)
                        end
                    end
              end
          | _, _ => (error_response E400Missing, [])
          end
      end.
End Handler.

(* Single-sided views (properties C01, C03, C09, C15): assemble_diff for "insertions" /
   "deletions" is, opcode by opcode, either the unchanged tokens expanded as they are or the
   marker state machine run over the changed tokens; hence it conserves the serialisation of
   the chosen page and never puts a block-level chunk inside a marker. *)
From Coq Require Import List NArith Arith Bool String Lia.
From WMD Require Import Gen.Tables Lib.Str Lib.PyChars Lib.Escape Lib.Difflib Model.RenderTokens Model.RenderMerge Model.RenderLabelled
     Proofs.DifflibProofs Proofs.MergeProofs Proofs.TokenProofs.
Import ListNotations.
Open Scope N_scope.

Lemma reconcile_nothing : reconcile_change_groups [] [] = [].
Proof. reflexivity. Qed.

Lemma render_src tt l : map (render_o tt) (map OSrc l) = l.
Proof. rewrite map_map. cbn [render_o]. apply map_id. Qed.

Lemma fold_single new_side old new : forall ops st,
  a_ins st = [] -> a_del st = [] ->
  let st' := fold_left (assemble_op (side_mode new_side) old new) ops st in
  a_ins st' = [] /\ a_del st' = [] /\
  a_result st' = a_result st ++ map (render_o (side_tag new_side)) (view_l new_side old new ops).
Proof.
  induction ops as [|o ops IH]; intros st Hi Hd; cbn [fold_left view_l flat_map].
  - repeat split; try assumption. cbn [map]. rewrite app_nil_r. reflexivity.
  - set (st1 := assemble_op (side_mode new_side) old new st o).
    assert (H1 : a_ins st1 = [] /\ a_del st1 = [] /\
                 a_result st1 = a_result st ++ map (render_o (side_tag new_side)) (single_l new_side old new o)).
    { unfold st1, assemble_op, single_l. destruct o as [[t [i1 i2]] [j1 j2]].
      destruct new_side; cbn [side_mode side_tag]; destruct t; cbn [does_insert does_delete];
        rewrite ?Hi, ?Hd; cbn [a_ins a_del a_result];
        rewrite ?render_src, ?merge_changes_refines; cbn [map]; rewrite ?app_nil_r;
        repeat split; try reflexivity; try assumption. }
    destruct H1 as (H1 & H2 & H3).
    destruct (IH st1 H1 H2) as (I1 & I2 & I3). cbv zeta in *.
    repeat split; try assumption. rewrite I3, H3, map_app, <- app_assoc. reflexivity.
Qed.

(* the executable model's single-sided views are the rendering of the labelled views *)
Theorem single_sided_refines new_side old new ops :
  assemble_diff (side_mode new_side) old new ops =
  map (render_o (side_tag new_side)) (view_l new_side old new ops).
Proof.
  unfold assemble_diff.
  destruct (fold_single new_side old new ops {| a_result := []; a_ins := []; a_del := [] |} eq_refl eq_refl) as (H1 & H2 & H3).
  cbv zeta in *. unfold do_reconcile. rewrite H1, H2, reconcile_nothing, app_nil_r, H3. reflexivity.
Qed.

(* ------------------------------------------------------------------ no block-level chunk inside a marker *)
Lemma scan_srcs_outside l : scan false (map OSrc l) = Some false.
Proof. induction l as [|s l IH]; cbn [map scan andb]; [reflexivity|exact IH]. Qed.

Theorem view_no_block_in_marker new_side old new ops : scan false (view_l new_side old new ops) = Some false.
Proof.
  unfold view_l. induction ops as [|o ops IH]; cbn [flat_map]; [reflexivity|].
  assert (H : scan false (single_l new_side old new o) = Some false).
  { unfold single_l. destruct o as [[t [i1 i2]] [j1 j2]]. destruct t.
    - apply scan_srcs_outside.
    - destruct (if new_side then does_insert Replace else does_delete Replace); [apply (merge_changes_no_block_in_marker _ None I)|reflexivity].
    - destruct (if new_side then does_insert Delete else does_delete Delete); [apply (merge_changes_no_block_in_marker _ None I)|reflexivity].
    - destruct (if new_side then does_insert Insert else does_delete Insert); [apply (merge_changes_no_block_in_marker _ None I)|reflexivity]. }
  rewrite (scan_app _ _ false false H). exact IH.
Qed.

(* ------------------------------------------------------------------ conservation of the chosen page *)
Lemma nb_app a b : nb (a ++ b) = nb a ++ nb b.
Proof. unfold nb. apply filter_app. Qed.

Lemma nb_ne l : nb (ne l) = nb l.
Proof.
  unfold nb, ne. induction l as [|s l IH]; [reflexivity|]. cbn [filter].
  destruct s as [|c s]; [exact IH|]. cbn [filter]. rewrite IH. reflexivity.
Qed.

Lemma nb_nonempty l : nb (nonempty_chunks l) = nb l.
Proof. exact (nb_ne l). Qed.

(* tokens that are hidden when unchanged (link targets) render as a blank *)
Definition hidden_blank (t : token) : Prop := hide_when_equal t = true -> blank (t_html t ++ t_trail t) = true.

Lemma nb_expand_equal t : hidden_blank t -> nb (expand_token true t) = nb (expand_token false t).
Proof.
  intros H. unfold expand_token. cbn [andb]. destruct (hide_when_equal t) eqn:E; [|reflexivity].
  rewrite !nb_app. cbn [nb filter app]. rewrite (H E). reflexivity.
Qed.

Lemma nb_expand_tokens_equal ts : Forall hidden_blank ts -> nb (expand_tokens true ts) = nb (expand_tokens false ts).
Proof.
  unfold expand_tokens. induction 1 as [|t ts Ht Hts IH]; [reflexivity|]. cbn [flat_map].
  rewrite !nb_app, (nb_expand_equal t Ht), IH. reflexivity.
Qed.

Lemma Forall_firstn {A} (P : A -> Prop) n : forall l, Forall P l -> Forall P (firstn n l).
Proof. induction n as [|n IH]; intros l H; [constructor|]. destruct l; [constructor|]. inversion H; subst. constructor; auto. Qed.
Lemma Forall_skipn {A} (P : A -> Prop) n : forall l, Forall P l -> Forall P (skipn n l).
Proof. induction n as [|n IH]; intros l H; [exact H|]. destruct l; [constructor|]. inversion H; subst. cbn. auto. Qed.
Lemma Forall_slice {A} (P : A -> Prop) (l : list A) lo hi : Forall P l -> Forall P (firstn (hi - lo) (skipn lo l)).
Proof. intros H. apply Forall_firstn, Forall_skipn, H. Qed.

Lemma srcs_single (new_side : bool) (old new : list token) (o : opcode) :
  Forall hidden_blank old -> Forall hidden_blank new ->
  (if new_side then does_insert (op_tag o) || is_equal (op_tag o) else does_delete (op_tag o) || is_equal (op_tag o)) = true ->
  nb (srcs (single_l new_side old new o)) =
  nb (expand_tokens false (if new_side then slice_tokens new (fst (op_b o)) (snd (op_b o))
                           else slice_tokens old (fst (op_a o)) (snd (op_a o)))).
Proof.
  intros Ho Hn Hrel. unfold single_l. destruct o as [[t [i1 i2]] [j1 j2]]. cbn [op_tag op_a op_b fst snd] in *.
  assert (Hs : Forall hidden_blank (if new_side then slice_tokens new j1 j2 else slice_tokens old i1 i2)).
  { destruct new_side; apply Forall_slice; assumption. }
  destruct t.
  - assert (E : srcs (map OSrc (expand_tokens true (if new_side then slice_tokens new j1 j2 else slice_tokens old i1 i2))) =
                expand_tokens true (if new_side then slice_tokens new j1 j2 else slice_tokens old i1 i2)).
    { generalize (expand_tokens true (if new_side then slice_tokens new j1 j2 else slice_tokens old i1 i2)).
      induction l as [|x l IH]; [reflexivity|]. cbn [map]. rewrite srcs_cons_src, IH. reflexivity. }
    rewrite E. apply nb_expand_tokens_equal, Hs.
  - destruct new_side; cbn [does_insert does_delete]; rewrite merge_changes_conserves, nb_nonempty; reflexivity.
  - destruct new_side; cbn [does_insert does_delete is_equal orb] in *; [discriminate|].
    rewrite merge_changes_conserves, nb_nonempty. reflexivity.
  - destruct new_side; cbn [does_insert does_delete is_equal orb] in *; [|discriminate].
    rewrite merge_changes_conserves, nb_nonempty. reflexivity.
Qed.

Lemma expand_tokens_app b x y : expand_tokens b (x ++ y) = expand_tokens b x ++ expand_tokens b y.
Proof. unfold expand_tokens. apply flat_map_app. Qed.

(* an opcode that is not relevant for a side covers an empty range of that side *)
Lemma irrelevant_empty (new_side : bool) (o : opcode) :
  tag_ok o ->
  (if new_side then does_insert (op_tag o) || is_equal (op_tag o) else does_delete (op_tag o) || is_equal (op_tag o)) = false ->
  if new_side then fst (op_b o) = snd (op_b o) else fst (op_a o) = snd (op_a o).
Proof.
  unfold tag_ok. destruct o as [[t a] b]. cbn [op_tag op_a op_b]. destruct new_side; destruct t; cbn; intros H1 H2; try discriminate; assumption.
Qed.

Lemma view_conserves new_side old new ops : forall i j ei ej,
  Forall hidden_blank old -> Forall hidden_blank new ->
  chain ops i j ei ej ->
  nb (srcs (view_l new_side old new ops)) =
  nb (expand_tokens false (if new_side then slice_tokens new j ej else slice_tokens old i ei)).
Proof.
  induction ops as [|o ops IH]; intros i j ei ej Ho Hn Hc; cbn [chain] in Hc.
  - destruct Hc as [-> ->]. unfold view_l, slice_tokens. cbn [flat_map]. rewrite !Nat.sub_diag. destruct new_side; reflexivity.
  - destruct Hc as (H1 & H2 & H3 & H4 & H5 & H6).
    destruct (chain_mono _ _ _ _ _ H6) as [M1 M2].
    unfold view_l in *. cbn [flat_map]. rewrite srcs_app, nb_app, (IH _ _ _ _ Ho Hn H6).
    assert (Split : (if new_side then slice_tokens new j ej else slice_tokens old i ei) =
                    (if new_side then slice_tokens new (fst (op_b o)) (snd (op_b o)) else slice_tokens old (fst (op_a o)) (snd (op_a o))) ++
                    (if new_side then slice_tokens new (snd (op_b o)) ej else slice_tokens old (snd (op_a o)) ei)).
    { subst i j. unfold slice_tokens. destruct new_side; symmetry; apply slice_app; assumption. }
    rewrite Split, expand_tokens_app, nb_app. f_equal.
    destruct (if new_side then does_insert (op_tag o) || is_equal (op_tag o) else does_delete (op_tag o) || is_equal (op_tag o)) eqn:Erel.
    + apply srcs_single; assumption.
    + pose proof (irrelevant_empty new_side o H5 Erel) as Hemp.
      assert (Enil : single_l new_side old new o = []).
      { unfold single_l. destruct o as [[t [i1 i2]] [j1 j2]]. cbn [op_tag] in Erel.
        destruct new_side; destruct t; cbn in Erel; try discriminate; reflexivity. }
      rewrite Enil. unfold slice_tokens. destruct new_side; rewrite Hemp, Nat.sub_diag; reflexivity.
Qed.

(* Removing the markers and the synthetic inline tags from a single-sided view leaves exactly
   the chunk sequence of the chosen page (blank chunks aside), for every contiguous opcode list. *)
Theorem single_sided_conserves new_side old new ops :
  Forall hidden_blank old -> Forall hidden_blank new ->
  chain ops 0 0 (List.length old) (List.length new) ->
  nb (srcs (view_l new_side old new ops)) = nb (expand_tokens false (if new_side then new else old)).
Proof.
  intros Ho Hn Hc. rewrite (view_conserves new_side old new ops 0 0 _ _ Ho Hn Hc).
  unfold slice_tokens. destruct new_side; rewrite slice_self; reflexivity.
Qed.

(* The combined view at chunk level: assemble_diff in "combined" mode emits a sequence of whole
   items - every group of the new side (changed or unchanged) and every deleted group exactly once,
   everything else tags - for all token lists and all opcode lists. *)
From Coq Require Import List NArith Arith Bool Lia Permutation String.
From WMD Require Import Lib.Str Lib.PyChars Lib.Difflib Model.RenderTokens Model.RenderMerge Model.RenderLabelled Proofs.MergeProofs.
From WMD Require Import Proofs.ReconcileProofs.
Import ListNotations.
Close Scope N_scope.
Open Scope nat_scope.

(* ------------------------------------------------------------------ facts about merge_change_groups *)
Definition marked (t : str) (it : item) : Prop := match it with IGroup g => exists r, g = open_marker t :: r | ITag _ => True end.

Definition opens_first (it : litem) : Prop := match it with LGroup g => exists r, g = OOpen :: r | _ => True end.

Lemma merge_groups_l_open : forall chunks st,
  (match st with Some (g, _) => exists g', g = g' ++ [OOpen] | None => True end) ->
  Forall opens_first (merge_groups_l chunks st).
Proof.
  assert (Fin : forall g cc, (exists g', g = g' ++ [OOpen]) -> opens_first (LGroup (rev g ++ map OSynClose cc ++ [OClose]))).
  { intros g cc [g' ->]. rewrite rev_app_distr. cbn [rev app]. eexists. reflexivity. }
  assert (Syn : forall cc, Forall opens_first (map LSynTag cc)) by (induction cc; cbn; constructor; [exact Logic.I|assumption]).
  induction chunks as [|chunk rest IH]; intros st Hst; cbn [merge_groups_l].
  - destruct st as [[g cc]|]; [|constructor]. constructor; [apply Fin, Hst|apply Syn].
  - destruct (skip_group_chunk chunk); [apply IH, Hst|].
    assert (Plain : forall track, Forall opens_first
              (let '(g, cc) := match st with None => ([OOpen], []) | Some gc => gc end in
               let cc' := match track with Some n => n :: cc | None => cc end in
               merge_groups_l rest (Some (OSrc chunk :: g, cc')))).
    { intros track. destruct st as [[g cc]|].
      - apply IH. destruct Hst as [g' ->]. exists (OSrc chunk :: g'). reflexivity.
      - apply IH. exists [OSrc chunk]. reflexivity. }
    destruct (starts_lt chunk); [|exact (Plain None)].
    destruct (second_is_slash chunk).
    + destruct st as [[g cc]|].
      * destruct (is_block_name (chunk_tag_name chunk)).
        -- constructor; [apply Fin, Hst|]. constructor; [exact Logic.I|apply IH; exact Logic.I].
        -- destruct (index_of (chunk_tag_name chunk) cc 0).
           ++ apply IH. destruct Hst as [g' ->]. exists (OSrc chunk :: g'). reflexivity.
           ++ destruct (mem_str _ Tables.empty_tags).
              { apply IH. destruct Hst as [g' ->]. exists (OSrc chunk :: g'). reflexivity. }
              apply IH. destruct Hst as [g' ->]. eexists. rewrite !app_assoc. reflexivity.
      * constructor; [exact Logic.I|apply IH; exact Logic.I].
    + destruct (is_block_name (chunk_tag_name chunk)).
      * destruct st as [[g cc]|].
        -- constructor; [apply Fin, Hst|]. constructor; [exact Logic.I|apply IH; exact Logic.I].
        -- constructor; [exact Logic.I|apply IH; exact Logic.I].
      * exact (Plain (if tracks_open (chunk_tag_name chunk) then Some (chunk_tag_name chunk) else None)).
Qed.

Lemma mcg_refines chunks tt : merge_change_groups chunks tt = map (render_item tt) (merge_groups_l chunks None).
Proof. unfold merge_change_groups. rewrite (merge_groups_l_refines tt chunks None). reflexivity. Qed.

Lemma mcg_marked chunks t : Forall (marked t) (merge_change_groups chunks (Some t)).
Proof.
  rewrite mcg_refines. pose proof (merge_groups_l_open chunks None Logic.I) as H.
  induction H as [|it l Hit Hl IH]; cbn [map]; constructor; [|exact IH].
  destruct it as [s|n|g]; cbn [render_item marked]; try exact Logic.I.
  destruct Hit as [r ->]. cbn [flat_map render_og app]. eexists. reflexivity.
Qed.

Lemma merge_groups_l_tags : forall chunks st,
  Forall (fun it => match it with LTag s => starts_lt s = true | _ => True end) (merge_groups_l chunks st).
Proof.
  induction chunks as [|chunk rest IH]; intros st; cbn [merge_groups_l].
  - destruct st as [[g cc]|]; [|constructor]. constructor; [exact Logic.I|].
    apply Forall_forall. intros x Hx. apply in_map_iff in Hx as [n [<- _]]. exact Logic.I.
  - destruct (skip_group_chunk chunk); [apply IH|].
    destruct (starts_lt chunk) eqn:E; [|destruct st as [[g cc]|]; apply IH].
    destruct (second_is_slash chunk).
    + destruct st as [[g cc]|].
      * destruct (is_block_name _); [constructor; [exact Logic.I|constructor; [exact E|apply IH]]|].
        destruct (index_of _ cc 0); [|destruct (mem_str _ Tables.empty_tags)]; apply IH.
      * constructor; [exact E|apply IH].
    + destruct (is_block_name _).
      * destruct st as [[g cc]|]; [constructor; [exact Logic.I|constructor; [exact E|apply IH]]|constructor; [exact E|apply IH]].
      * destruct st as [[g cc]|]; apply IH.
Qed.

Lemma mcg_tags chunks tt : tags_ok (merge_change_groups chunks tt).
Proof.
  rewrite mcg_refines. pose proof (merge_groups_l_tags chunks None) as H. unfold tags_ok.
  induction H as [|it l Hit Hl IH]; cbn [map]; constructor; [|exact IH].
  destruct it as [s|n|g]; cbn [render_item tag_item]; [exact Hit|reflexivity|exact Logic.I].
Qed.

Lemma marked_del_group g : (exists r, g = open_marker (s2l "del") :: r) -> del_group g.
Proof. intros [r ->]. unfold del_group, has_del_marker. cbn [existsb]. unfold del_marker. rewrite str_eqb_refl. reflexivity. Qed.

Lemma marked_groups_del l : Forall (marked (s2l "del")) l -> Forall del_group (groups l).
Proof.
  induction 1 as [|it l Hit Hl IH]; [constructor|]. destruct it as [s|g]; cbn [groups flat_map app]; [exact IH|].
  constructor; [apply marked_del_group, Hit|exact IH].
Qed.

Lemma marked_ins_ne_del igs dgs : Forall (marked (s2l "ins")) igs -> Forall (marked (s2l "del")) dgs ->
  forall x y, In x (groups igs) -> In y (groups dgs) -> list_eqb x y = false.
Proof.
  intros Hi Hd x y Hx Hy.
  assert (Mx : exists r, x = open_marker (s2l "ins") :: r).
  { unfold groups in Hx. apply in_flat_map in Hx as [it [Hin Hg]]. destruct it as [s|g]; [destruct Hg|]. destruct Hg as [<-|[]].
    rewrite Forall_forall in Hi. exact (Hi _ Hin). }
  assert (My : exists r, y = open_marker (s2l "del") :: r).
  { unfold groups in Hy. apply in_flat_map in Hy as [it [Hin Hg]]. destruct it as [s|g]; [destruct Hg|]. destruct Hg as [<-|[]].
    rewrite Forall_forall in Hd. exact (Hd _ Hin). }
  destruct Mx as [rx ->]. destruct My as [ry ->]. cbn [list_eqb].
  replace (str_eqb (open_marker (s2l "ins")) (open_marker (s2l "del"))) with false by reflexivity. reflexivity.
Qed.

(* ------------------------------------------------------------------ the splits of an unchanged run *)
Lemma first_group_prefix l : forall i f, first_group l i = Some f -> i <= f /\ groups (firstn (f - i) l) = [].
Proof.
  induction l as [|it l IH]; intros i f H; cbn [first_group] in H; [discriminate|].
  destruct it as [s|g].
  - destruct (IH (S i) f H) as [Hle Hg]. split; [lia|].
    replace (f - i) with (S (f - S i)) by lia. cbn [firstn groups flat_map app]. exact Hg.
  - injection H as <-. split; [lia|]. rewrite Nat.sub_diag. reflexivity.
Qed.

Lemma groups_firstn_le l : forall n m, groups (firstn n l) = [] -> m <= n -> groups (firstn m l) = [].
Proof.
  induction l as [|it l IH]; intros n m H Hle; [destruct m; reflexivity|].
  destruct m as [|m]; [reflexivity|]. destruct n as [|n]; [lia|].
  cbn [firstn] in *. destruct it as [s|g]; cbn [groups flat_map app] in *; [apply (IH n m H); lia|discriminate H].
Qed.

Lemma last_group_suffix l : forall i best ld, last_group l i best = Some ld ->
  (best = Some ld /\ groups l = []) \/ (i <= ld /\ groups (skipn (S (ld - i)) l) = []).
Proof.
  induction l as [|it l IH]; intros i best ld H; cbn [last_group] in H.
  - left. split; [exact H|reflexivity].
  - destruct it as [s|g].
    + destruct (IH (S i) best ld H) as [[E G]|[Hle G]].
      * left. split; [exact E|exact G].
      * right. split; [lia|]. replace (S (ld - i)) with (S (S (ld - S i))) by lia. exact G.
    + destruct (IH (S i) (Some i) ld H) as [[E G]|[Hle G]].
      * right. injection E as <-. split; [lia|]. rewrite Nat.sub_diag. exact G.
      * right. split; [lia|]. replace (S (ld - i)) with (S (S (ld - S i))) by lia. exact G.
Qed.

Lemma groups_skipn_ge l : forall n m, groups (skipn n l) = [] -> n <= m -> groups (skipn m l) = [].
Proof.
  induction l as [|it l IH]; intros n m H Hle; [destruct m; reflexivity|].
  destruct m as [|m]; [assert (n = 0) by lia; subst; exact H|].
  destruct n as [|n].
  - cbn [skipn] in H. cbn [skipn]. destruct it as [s|g]; cbn [groups flat_map app] in H; [apply (IH 0 m); [exact H|lia]|discriminate H].
  - cbn [skipn] in *. apply (IH n m H). lia.
Qed.

Lemma common_after_ge1 n : forall ebd ebi ld li k mr, 1 <= k -> 1 <= common_after n ebd ebi ld li k mr.
Proof.
  induction n as [|n IH]; intros ebd ebi ld li k mr Hk; cbn [common_after]; [lia|].
  destruct (Nat.ltb k mr); [|lia]. destruct (item_eqb _ _); [apply IH; lia|exact Hk].
Qed.

Lemma tags_ok_firstn n l : tags_ok l -> tags_ok (firstn n l).
Proof. intros H. rewrite <- (firstn_skipn n l) in H. apply Forall_app in H. tauto. Qed.

(* ------------------------------------------------------------------ the assembly state *)
Definition ins_t : str := s2l "ins".
Definition del_t : str := s2l "del".

Definition AInv (st : astate) (N Dg : list (list str)) : Prop :=
  exists R, a_result st = flat R /\ tags_ok R /\ tags_ok (a_ins st) /\ tags_ok (a_del st) /\
            Forall (marked ins_t) (a_ins st) /\ Forall (marked del_t) (a_del st) /\
            Permutation (groups R ++ groups (a_ins st) ++ groups (a_del st)) (N ++ Dg).

Lemma no_groups_marked t l : groups l = [] -> Forall (marked t) l.
Proof.
  induction l as [|it l IH]; intros H; [constructor|]. destruct it as [s|g]; cbn [groups flat_map app] in H; [|discriminate H].
  constructor; [exact Logic.I|apply IH, H].
Qed.

Lemma ainv_reconcile st N Dg : AInv st N Dg -> AInv (do_reconcile st) N Dg.
Proof.
  intros (R & H1 & H2 & H3 & H4 & H5 & H6 & H7).
  destruct (reconcile_conserves (a_ins st) (a_del st) H3 H4 (marked_groups_del _ H6) (marked_ins_ne_del _ _ H5 H6)) as (out & E & P & T).
  exists (R ++ out). unfold do_reconcile. cbn [a_result a_ins a_del]. repeat split; try constructor.
  - rewrite H1, E, flat_app. reflexivity.
  - apply tags_ok_app; assumption.
  - cbn [groups flat_map app]. rewrite app_nil_r, groups_app, P. exact H7.
Qed.

Lemma ainv_maybe_reconcile st N Dg : AInv st N Dg ->
  AInv (match a_ins st, a_del st with [], [] => st | _, _ => do_reconcile st end) N Dg.
Proof. intros H. destruct (a_ins st); destruct (a_del st); try exact H; apply ainv_reconcile, H. Qed.

(* the two splits of an unchanged run *)
Definition split_front (ebd ebi : list item) : list item * list item * list item * list item :=
  match first_group ebd 0, first_group ebi 0 with
  | Some fd, Some fi =>
      let u := common_before (Nat.min fd fi) ebd ebi fd fi 0 in
      (firstn (fd - u) ebd, skipn (fd - u) ebd, firstn (fi - u) ebi, skipn (fi - u) ebi)
  | _, _ => ([], ebd, [], ebi)
  end.

Definition split_back (ebd1 ebi1 : list item) : list item * list item * list item * list item :=
  match last_group ebd1 0 None, last_group ebi1 0 None with
  | Some ld, Some li =>
      let max_range := Nat.min (List.length ebd1 - ld) (List.length ebi1 - li) in
      let u := common_after max_range ebd1 ebi1 ld li 1 max_range in
      (firstn (ld + u) ebd1, skipn (ld + u) ebd1, firstn (li + u) ebi1, skipn (li + u) ebi1)
  | _, _ => (ebd1, [], ebi1, [])
  end.

Lemma split_front_spec ebd ebi :
  let '(pd, d1, pi, i1) := split_front ebd ebi in
  pd ++ d1 = ebd /\ pi ++ i1 = ebi /\ groups pd = [] /\ groups pi = [].
Proof.
  unfold split_front. destruct (first_group ebd 0) as [fd|] eqn:Ed; [|repeat split; reflexivity].
  destruct (first_group ebi 0) as [fi|] eqn:Ei; [|repeat split; reflexivity].
  destruct (first_group_prefix _ _ _ Ed) as [_ Gd]. destruct (first_group_prefix _ _ _ Ei) as [_ Gi]. rewrite Nat.sub_0_r in Gd, Gi.
  repeat split; try apply firstn_skipn.
  - apply (groups_firstn_le ebd fd); [exact Gd|lia].
  - apply (groups_firstn_le ebi fi); [exact Gi|lia].
Qed.

Lemma split_back_spec ebd1 ebi1 :
  let '(d2, nd, i2, ni) := split_back ebd1 ebi1 in
  d2 ++ nd = ebd1 /\ i2 ++ ni = ebi1 /\ groups nd = [] /\ groups ni = [].
Proof.
  unfold split_back. destruct (last_group ebd1 0 None) as [ld|] eqn:Ed; [|repeat split; try apply app_nil_r; reflexivity].
  destruct (last_group ebi1 0 None) as [li|] eqn:Ei; [|repeat split; try apply app_nil_r; reflexivity].
  set (mr := Nat.min (List.length ebd1 - ld) (List.length ebi1 - li)).
  pose proof (common_after_ge1 mr ebd1 ebi1 ld li 1 mr (le_n _)) as Hu.
  repeat split; try apply firstn_skipn.
  - destruct (last_group_suffix _ _ _ _ Ed) as [[E _]|[_ G]]; [discriminate E|]. rewrite Nat.sub_0_r in G.
    apply (groups_skipn_ge ebd1 (S ld)); [exact G|lia].
  - destruct (last_group_suffix _ _ _ _ Ei) as [[E _]|[_ G]]; [discriminate E|]. rewrite Nat.sub_0_r in G.
    apply (groups_skipn_ge ebi1 (S li)); [exact G|lia].
Qed.

(* what one opcode contributes *)
Definition op_new_groups (old new : list token) (o : opcode) : list (list str) :=
  let '(t, (i1, i2), (j1, j2)) := o in
  match t with
  | Equal => groups (merge_change_groups (expand_tokens true (slice_tokens new j1 j2)) None)
  | Insert | Replace => groups (merge_change_groups (expand_tokens false (slice_tokens new j1 j2)) (Some ins_t))
  | Delete => []
  end.
Definition op_del_groups (old new : list token) (o : opcode) : list (list str) :=
  let '(t, (i1, i2), (j1, j2)) := o in
  match t with
  | Delete | Replace => groups (merge_change_groups (expand_tokens false (slice_tokens old i1 i2)) (Some del_t))
  | _ => []
  end.

Lemma flatten_groups_flat l : flatten_groups l = flat l.
Proof. unfold flatten_groups, flat. apply flat_map_ext. intros [s|g]; reflexivity. Qed.

Definition maybe_reconcile (st : astate) : astate :=
  match a_ins st, a_del st with [], [] => st | _, _ => do_reconcile st end.

Lemma assemble_equal_combined old new st i1 i2 j1 j2 :
  assemble_op MCombined old new st (Equal, (i1, i2), (j1, j2)) =
  let ebd := merge_change_groups (expand_tokens true (slice_tokens old i1 i2)) None in
  let ebi := merge_change_groups (expand_tokens true (slice_tokens new j1 j2)) None in
  let '(pd, d1, pi, i1') := split_front ebd ebi in
  let '(d2, nd, i2', ni) := split_back d1 i1' in
  let st2 := maybe_reconcile {| a_result := a_result st; a_ins := a_ins st ++ pi; a_del := a_del st ++ pd |} in
  {| a_result := a_result st2 ++ flatten_groups i2'; a_ins := a_ins st2 ++ ni; a_del := a_del st2 ++ nd |}.
Proof.
  unfold assemble_op, split_front, split_back, maybe_reconcile. cbv zeta.
  destruct (first_group _ 0); [destruct (first_group _ 0)|]; destruct (last_group _ 0 None); try destruct (last_group _ 0 None); reflexivity.
Qed.

Lemma ainv_op old new st o N Dg : AInv st N Dg ->
  AInv (assemble_op MCombined old new st o) (N ++ op_new_groups old new o) (Dg ++ op_del_groups old new o).
Proof.
  intros HA. destruct o as [[t [i1 i2]] [j1 j2]]. unfold op_new_groups, op_del_groups.
  destruct t.
  - (* Equal *)
    rewrite assemble_equal_combined. cbv zeta.
    set (ebd := merge_change_groups (expand_tokens true (slice_tokens old i1 i2)) None).
    set (ebi := merge_change_groups (expand_tokens true (slice_tokens new j1 j2)) None).
    pose proof (split_front_spec ebd ebi) as SF. destruct (split_front ebd ebi) as [[[pd d1] pi] i1'].
    destruct SF as (Fd & Fi & Gpd & Gpi).
    pose proof (split_back_spec d1 i1') as SB. destruct (split_back d1 i1') as [[[d2 nd] i2'] ni].
    destruct SB as (Bd & Bi & Gnd & Gni).
    assert (Tebi : tags_ok ebi) by apply mcg_tags. assert (Tebd : tags_ok ebd) by apply mcg_tags.
    rewrite <- Fi in Tebi. rewrite <- Fd in Tebd. apply Forall_app in Tebi as [Tpi Ti1]. apply Forall_app in Tebd as [Tpd Td1].
    rewrite <- Bi in Ti1. rewrite <- Bd in Td1. apply Forall_app in Ti1 as [Ti2 Tni]. apply Forall_app in Td1 as [Td2 Tnd].
    assert (Gebi : groups ebi = groups i2').
    { rewrite <- Fi, <- Bi, !groups_app, Gpi, Gni, app_nil_r. reflexivity. }
    (* st1: the tags in front of the first groups join the pending lists *)
    assert (H1 : AInv {| a_result := a_result st; a_ins := a_ins st ++ pi; a_del := a_del st ++ pd |} N Dg).
    { destruct HA as (R & A1 & A2 & A3 & A4 & A5 & A6 & A7). exists R. cbn [a_result a_ins a_del]. repeat split; try assumption.
      - apply tags_ok_app; assumption.
      - apply tags_ok_app; assumption.
      - apply Forall_app. split; [assumption|apply no_groups_marked, Gpi].
      - apply Forall_app. split; [assumption|apply no_groups_marked, Gpd].
      - rewrite !groups_app, Gpi, Gpd, !app_nil_r. exact A7. }
    apply ainv_maybe_reconcile in H1. fold (maybe_reconcile {| a_result := a_result st; a_ins := a_ins st ++ pi; a_del := a_del st ++ pd |}) in H1.
    set (st2 := maybe_reconcile {| a_result := a_result st; a_ins := a_ins st ++ pi; a_del := a_del st ++ pd |}) in *.
    destruct H1 as (R & A1 & A2 & A3 & A4 & A5 & A6 & A7).
    exists (R ++ i2'). cbn [a_result a_ins a_del]. repeat split.
    + rewrite A1, flat_app. reflexivity.
    + apply tags_ok_app; assumption.
    + apply tags_ok_app; assumption.
    + apply tags_ok_app; assumption.
    + apply Forall_app. split; [assumption|apply no_groups_marked, Gni].
    + apply Forall_app. split; [assumption|apply no_groups_marked, Gnd].
    + rewrite !groups_app, Gni, Gnd, !app_nil_r, Gebi.
      apply (Permutation_trans (l' := (groups R ++ groups (a_ins st2) ++ groups (a_del st2)) ++ groups i2')).
      * rewrite <- !app_assoc. apply Permutation_app_head. rewrite (app_assoc (groups (a_ins st2))). apply Permutation_app_comm.
      * rewrite A7. rewrite <- !app_assoc. apply Permutation_app_head. apply Permutation_app_comm.
  - (* Replace *)
    cbn [assemble_op]. destruct HA as (R & A1 & A2 & A3 & A4 & A5 & A6 & A7). exists R. cbn [a_result a_ins a_del]. repeat split; try assumption.
    + apply tags_ok_app; [assumption|apply mcg_tags].
    + apply tags_ok_app; [assumption|apply mcg_tags].
    + apply Forall_app. split; [assumption|apply mcg_marked].
    + apply Forall_app. split; [assumption|apply mcg_marked].
    + rewrite !groups_app. fold ins_t del_t.
      set (gi := groups (merge_change_groups (expand_tokens false (slice_tokens new j1 j2)) (Some ins_t))).
      set (gd := groups (merge_change_groups (expand_tokens false (slice_tokens old i1 i2)) (Some del_t))).
      apply (Permutation_trans (l' := (groups R ++ groups (a_ins st) ++ groups (a_del st)) ++ gi ++ gd)).
      * rewrite <- !app_assoc. do 2 apply Permutation_app_head. apply Permutation_app_swap_app.
      * rewrite A7. rewrite <- !app_assoc. apply Permutation_app_head. apply Permutation_app_swap_app.
  - (* Delete *)
    cbn [assemble_op]. destruct HA as (R & A1 & A2 & A3 & A4 & A5 & A6 & A7). exists R. cbn [a_result a_ins a_del]. repeat split; try assumption.
    + apply tags_ok_app; [assumption|apply mcg_tags].
    + apply Forall_app. split; [assumption|apply mcg_marked].
    + rewrite !groups_app, app_nil_r. fold del_t. rewrite !app_assoc. apply Permutation_app_tail. rewrite <- !app_assoc. exact A7.
  - (* Insert *)
    cbn [assemble_op]. destruct HA as (R & A1 & A2 & A3 & A4 & A5 & A6 & A7). exists R. cbn [a_result a_ins a_del]. repeat split; try assumption.
    + apply tags_ok_app; [assumption|apply mcg_tags].
    + apply Forall_app. split; [assumption|apply mcg_marked].
    + rewrite !groups_app, app_nil_r. fold ins_t.
      set (gi := groups (merge_change_groups (expand_tokens false (slice_tokens new j1 j2)) (Some ins_t))).
      apply (Permutation_trans (l' := (groups R ++ groups (a_ins st) ++ groups (a_del st)) ++ gi)).
      * rewrite <- !app_assoc. do 2 apply Permutation_app_head. apply Permutation_app_comm.
      * rewrite A7. rewrite <- !app_assoc. apply Permutation_app_head. apply Permutation_app_comm.
Qed.

(* ------------------------------------------------------------------ all opcodes *)
Definition new_groups_of (old new : list token) (ops : list opcode) : list (list str) := flat_map (op_new_groups old new) ops.
Definition del_groups_of (old new : list token) (ops : list opcode) : list (list str) := flat_map (op_del_groups old new) ops.

Lemma ainv_fold old new ops : forall st N Dg, AInv st N Dg ->
  AInv (fold_left (assemble_op MCombined old new) ops st) (N ++ new_groups_of old new ops) (Dg ++ del_groups_of old new ops).
Proof.
  induction ops as [|o ops IH]; intros st N Dg H; cbn [fold_left new_groups_of del_groups_of flat_map].
  - rewrite !app_nil_r. exact H.
  - fold (new_groups_of old new ops). fold (del_groups_of old new ops). rewrite !app_assoc. apply IH. apply ainv_op, H.
Qed.

(* The combined stream is a sequence of whole items: every group of the new page (inserted or
   unchanged) and every deleted group appears exactly once; everything else is a tag.  For all
   token lists and ALL opcode lists. *)
Theorem combined_conserves old new ops :
  exists out, assemble_diff MCombined old new ops = flat out /\ tags_ok out /\
              Permutation (groups out) (new_groups_of old new ops ++ del_groups_of old new ops).
Proof.
  unfold assemble_diff.
  assert (H0 : AInv {| a_result := []; a_ins := []; a_del := [] |} [] []).
  { exists []. cbn. repeat split; constructor. }
  pose proof (ainv_fold old new ops _ _ _ H0) as H. cbn [app] in H. apply ainv_reconcile in H.
  destruct H as (R & A1 & A2 & A3 & A4 & A5 & A6 & A7). exists R. split; [exact A1|]. split; [exact A2|].
  unfold do_reconcile in A7. cbn [a_ins a_del groups flat_map app] in A7. rewrite app_nil_r in A7. exact A7.
Qed.

(* ------------------------------------------------------------------ every group of the combined stream is closed *)
Definition closed_group (g : list str) : Prop :=
  exists tt lg, g = flat_map (render_og tt) lg /\ scan false lg = Some false.

Lemma mcg_groups_closed chunks tt : Forall closed_group (groups (merge_change_groups chunks tt)).
Proof.
  rewrite mcg_refines. pose proof (merge_groups_closed chunks None Logic.I) as H. unfold groups_closed in H.
  induction H as [|it l Hit Hl IH]; [constructor|]. cbn [map]. destruct it as [s|n|lg]; cbn [render_item groups flat_map app]; try exact IH.
  constructor; [|exact IH]. exists tt, lg. split; [reflexivity|exact Hit].
Qed.

Lemma op_groups_closed old new o : Forall closed_group (op_new_groups old new o) /\ Forall closed_group (op_del_groups old new o).
Proof.
  destruct o as [[t [i1 i2]] [j1 j2]]. unfold op_new_groups, op_del_groups. destruct t; split; try constructor; apply mcg_groups_closed.
Qed.

Lemma Forall_flat_map_ops old new ops :
  Forall closed_group (flat_map (op_new_groups old new) ops) /\ Forall closed_group (flat_map (op_del_groups old new) ops).
Proof.
  induction ops as [|o ops [IH1 IH2]]; [split; constructor|]. cbn [flat_map]. destruct (op_groups_closed old new o) as [H1 H2].
  split; apply Forall_app; split; assumption.
Qed.

(* in the combined stream every change marker is opened and closed inside one group that contains no
   block-level tag, and everything between groups is a tag outside any marker *)
Theorem combined_groups_closed old new ops :
  exists out, assemble_diff MCombined old new ops = flat out /\
              Forall (fun it => match it with IGroup g => closed_group g | ITag s => starts_lt s = true end) out.
Proof.
  destruct (combined_conserves old new ops) as (out & E & T & P). exists out. split; [exact E|].
  assert (C : Forall closed_group (new_groups_of old new ops ++ del_groups_of old new ops)).
  { apply Forall_app. split; unfold new_groups_of, del_groups_of; apply (Forall_flat_map_ops old new ops). }
  apply Forall_forall. intros it Hin. destruct it as [s|g].
  - unfold tags_ok in T. rewrite Forall_forall in T. exact (T _ Hin).
  - rewrite Forall_forall in C. apply C. apply (Permutation_in _ P). unfold groups. apply in_flat_map. exists (IGroup g). split; [exact Hin|left; reflexivity].
Qed.

(* C02 stated on the text.  The combined stream is a sequence of loose tags and groups (CombinedProofs); here:
   - its text is the text of its groups, in the order they occur;
   - those groups are (a permutation of) the groups of the new page - inserted or unchanged - and the deleted
     groups of the old page;
   - the groups of the new page, in page order, spell exactly the text of the new page; the deleted groups, in
     page order, spell exactly the text of the deleted token runs of the old page.
   So every piece of text of the new page is in the view in a group that is not a deletion, every deleted piece
   is there in a deletion group, and the view has no other text.  For all element trees, rule sets and caps. *)
From Coq Require Import List NArith Arith Bool Lia String Permutation.
From WMD Require Import Gen.Tables Lib.Str Lib.PyChars Lib.Escape Lib.Difflib Model.RenderTokens Model.RenderMerge Model.RenderLabelled
     Proofs.DifflibProofs Proofs.EscapeProofs Proofs.MergeProofs Proofs.TokenProofs Proofs.AssembleProofs Proofs.RenderProofs Proofs.ReconcileProofs
     Proofs.CombinedProofs Proofs.PageWords Proofs.TextProofs Proofs.ViewTextProofs.
Import ListNotations.
Open Scope N_scope.

Definition groups_text (gs : list (list str)) : str := List.concat (map chunks_text gs).

Lemma chunks_text_tag s : starts_lt s = true -> chunks_text [s] = [].
Proof. intros H. unfold chunks_text. cbn [map List.concat]. rewrite H. reflexivity. Qed.

Lemma chunks_text_cons s l : chunks_text (s :: l) = chunks_text [s] ++ chunks_text l.
Proof. change (s :: l) with ([s] ++ l). apply chunks_text_app. Qed.

(* the text of a sequence of items is the text of its groups *)
Lemma flat_text out : tags_ok out -> chunks_text (ReconcileProofs.flat out) = groups_text (groups out).
Proof.
  induction 1 as [|it out Hit Hout IH]; [reflexivity|].
  change (ReconcileProofs.flat (it :: out)) with (item_chunks it ++ ReconcileProofs.flat out).
  rewrite chunks_text_app, IH.
  destruct it as [s|g]; cbn [item_chunks tag_item] in *.
  - rewrite (chunks_text_tag s Hit). reflexivity.
  - reflexivity.
Qed.

(* markers and synthetic tags are tags: the text of a rendered group is the text of its source chunks *)
Lemma open_marker_lt t : starts_lt (open_marker t) = true.  Proof. reflexivity. Qed.
Lemma close_tag_lt n : starts_lt (close_tag_of n) = true.  Proof. reflexivity. Qed.
Lemma open_tag_lt n : starts_lt (open_tag_of n) = true.  Proof. reflexivity. Qed.

Lemma rendered_group_text tt g : chunks_text (flat_map (render_og tt) g) = chunks_text (srcs g).
Proof.
  induction g as [|o g IH]; [reflexivity|]. cbn [flat_map]. rewrite chunks_text_app, IH.
  destruct o as [| |s|n|n].
  - change (srcs (OOpen :: g)) with (srcs g). destruct tt; cbn [render_og]; [rewrite (chunks_text_tag _ (open_marker_lt _))|]; reflexivity.
  - change (srcs (OClose :: g)) with (srcs g). destruct tt; cbn [render_og]; [rewrite (chunks_text_tag _ (close_tag_lt _))|]; reflexivity.
  - change (srcs (OSrc s :: g)) with (s :: srcs g). rewrite (chunks_text_cons s (srcs g)). destruct tt; reflexivity.
  - change (srcs (OSynClose n :: g)) with (srcs g). destruct tt; cbn [render_og]; rewrite (chunks_text_tag _ (close_tag_lt _)); reflexivity.
  - change (srcs (OSynOpen n :: g)) with (srcs g). destruct tt; cbn [render_og]; rewrite (chunks_text_tag _ (open_tag_lt _)); reflexivity.
Qed.

(* grouping keeps the text: the groups of a chunk list, in order, spell the text of the chunk list
   (loose items are tags that were chunks of the list, or synthetic tags) *)
Lemma litems_text tt (l : list litem) :
  Forall (fun it => match it with LTag s => starts_lt s = true | _ => True end) l ->
  groups_text (groups (map (render_item tt) l)) = chunks_text (flat_map item_srcs l).
Proof.
  induction 1 as [|it l Hit Hl IH]; [reflexivity|].
  cbn [map flat_map]. rewrite chunks_text_app. unfold groups in *. cbn [flat_map].
  destruct it as [s|n|g]; cbn [render_item item_srcs app] in *.
  - rewrite (chunks_text_tag s Hit). exact IH.
  - exact IH.
  - unfold groups_text in *. cbn [map List.concat]. rewrite rendered_group_text, IH. reflexivity.
Qed.

Lemma kept_chunks_text l : chunks_text (kept_chunks l) = chunks_text l.
Proof.
  induction l as [|s l IH]; [reflexivity|]. unfold kept_chunks in *. cbn [filter].
  destruct (skip_group_chunk s) eqn:E; cbn [negb].
  - rewrite IH, (chunks_text_cons s l). unfold skip_group_chunk in E.
    destruct s as [|c r]; [reflexivity|]. apply str_eqb_eq in E. rewrite E. reflexivity.
  - rewrite (chunks_text_cons s), IH, <- chunks_text_cons. reflexivity.
Qed.

Theorem grouping_keeps_text chunks tt :
  groups_text (groups (merge_change_groups chunks tt)) = chunks_text chunks.
Proof.
  rewrite mcg_refines, litems_text by apply merge_groups_l_tags.
  rewrite (merge_groups_conserves chunks None). cbn [app]. apply kept_chunks_text.
Qed.

Lemma groups_text_app a b : groups_text (a ++ b) = groups_text a ++ groups_text b.
Proof. unfold groups_text. rewrite map_app, concat_app. reflexivity. Qed.

(* what an opcode contributes, as text *)
Lemma chunks_text_expand_equal ts : Forall hidden_blank ts -> chunks_text (expand_tokens true ts) = chunks_text (expand_tokens false ts).
Proof. intros H. rewrite <- chunks_text_nb, (nb_expand_tokens_equal ts H), chunks_text_nb. reflexivity. Qed.

Lemma op_new_text old new o : Forall hidden_blank new ->
  groups_text (op_new_groups old new o) =
  match op_tag o with Delete => [] | _ => chunks_text (expand_tokens false (slice_tokens new (fst (op_b o)) (snd (op_b o)))) end.
Proof.
  intros Hn. destruct o as [[t [i1 i2]] [j1 j2]]. cbn [op_new_groups op_tag op_b fst snd].
  destruct t; rewrite ?grouping_keeps_text; try reflexivity.
  apply chunks_text_expand_equal. apply Forall_slice, Hn.
Qed.

Lemma op_del_text old new o :
  groups_text (op_del_groups old new o) =
  match op_tag o with Delete | Replace => chunks_text (expand_tokens false (slice_tokens old (fst (op_a o)) (snd (op_a o)))) | _ => [] end.
Proof.
  destruct o as [[t [i1 i2]] [j1 j2]]. cbn [op_del_groups op_tag op_a fst snd].
  destruct t; rewrite ?grouping_keeps_text; reflexivity.
Qed.

(* over a contiguous opcode list the new-side groups spell the new token list *)
Lemma new_groups_text old new ops : forall i j ei ej,
  Forall hidden_blank new -> chain ops i j ei ej ->
  groups_text (new_groups_of old new ops) = chunks_text (expand_tokens false (slice_tokens new j ej)).
Proof.
  induction ops as [|o ops IH]; intros i j ei ej Hn Hc; cbn [chain] in Hc.
  - destruct Hc as [-> ->]. unfold slice_tokens. rewrite Nat.sub_diag. reflexivity.
  - destruct Hc as (H1 & H2 & H3 & H4 & H5 & H6).
    destruct (chain_mono _ _ _ _ _ H6) as [M1 M2].
    unfold new_groups_of in *. cbn [flat_map]. rewrite groups_text_app, (IH _ _ _ _ Hn H6), op_new_text by exact Hn.
    assert (Split : slice_tokens new j ej = slice_tokens new (fst (op_b o)) (snd (op_b o)) ++ slice_tokens new (snd (op_b o)) ej).
    { subst j. unfold slice_tokens. symmetry. apply slice_app; assumption. }
    rewrite Split, expand_tokens_app, chunks_text_app. f_equal.
    destruct (op_tag o) eqn:Et; try reflexivity.
    (* a Delete opcode covers an empty range of the new side *)
    unfold tag_ok in H5. rewrite Et in H5.
    unfold slice_tokens. rewrite H5, Nat.sub_diag. reflexivity.
Qed.

(* the text of the deleted runs of the old page *)
Definition deleted_text (old : list token) (ops : list opcode) : str :=
  List.concat (map (fun o => match op_tag o with
                            | Delete | Replace => chunks_text (expand_tokens false (slice_tokens old (fst (op_a o)) (snd (op_a o))))
                            | _ => [] end) ops).

Lemma del_groups_text old new ops : groups_text (del_groups_of old new ops) = deleted_text old ops.
Proof.
  induction ops as [|o ops IH]; [reflexivity|]. unfold del_groups_of, deleted_text in *. cbn [flat_map map List.concat].
  rewrite groups_text_app, IH, op_del_text. reflexivity.
Qed.

(* For all element trees, rule sets and caps: the text of the combined view is the text of its groups; the groups are
   the new page's groups and the deleted groups, each exactly once; the new page's groups spell the new page's text
   in order, the deleted groups the deleted runs of the old page in order. *)
Theorem combined_text old_root new_root rules cap :
  let old := prepare old_root cap in
  let new := prepare new_root cap in
  let ops := token_opcodes rules old new in
  exists out,
    assemble_diff MCombined old new ops = ReconcileProofs.flat out /\
    chunks_text (ReconcileProofs.flat out) = groups_text (groups out) /\
    Permutation (groups out) (new_groups_of old new ops ++ del_groups_of old new ops) /\
    groups_text (new_groups_of old new ops) = page_shown_text new_root /\
    groups_text (del_groups_of old new ops) = deleted_text old ops /\
    Forall del_group (del_groups_of old new ops).
Proof.
  cbv zeta. destruct (combined_conserves (prepare old_root cap) (prepare new_root cap)
                        (token_opcodes rules (prepare old_root cap) (prepare new_root cap))) as (out & E & T & P).
  exists out. split; [exact E|]. split; [apply flat_text, T|]. split; [exact P|]. split; [|split].
  - rewrite (new_groups_text _ _ _ 0%nat 0%nat (List.length (prepare old_root cap)) (List.length (prepare new_root cap))).
    + unfold slice_tokens. rewrite slice_self.
      assert (E2 : nb (expand_tokens false (prepare new_root cap)) = nb (map chunk_str (flatten_root new_root))).
      { change (expand_tokens false (prepare new_root cap)) with (TokenProofs.flat (prepare new_root cap)).
        rewrite <- (nb_ne (TokenProofs.flat _)). change (ne (TokenProofs.flat (prepare new_root cap))) with (flat_ne (prepare new_root cap)).
        rewrite prepare_conserves. apply nb_ne. }
      rewrite <- page_shown_text_is_stream, <- chunks_text_nb, E2, chunks_text_nb. reflexivity.
    + apply prepare_hidden.
    + unfold token_opcodes. apply insensitive_opcodes_chain.
  - apply del_groups_text.
  - unfold del_groups_of. apply Forall_flat_map. apply Forall_forall. intros o _.
    destruct o as [[t [i1 i2]] [j1 j2]]. cbn [op_del_groups]. destruct t; try constructor; apply marked_groups_del, mcg_marked.
Qed.

(* Lemmas about the content-type decision model (property C11). *)
From Coq Require Import List NArith Bool String Lia.
From WMD Require Import Gen.Tables Lib.Str Lib.PyChars Model.ContentType.
Import ListNotations.
Open Scope N_scope.

(* ------------------------------------------------------------------ *)
(* The specification: a decision table over classes, written separately. *)

Inductive ct_class := Absent | Malformed | Html | FallThrough | OtherType.

Definition classify (h : headers) : ct_class :=
  match h with
  | None => Absent
  | Some [] => Absent
  | Some d =>
      match assoc_str k_content_type d with
      | None => Absent
      | Some v =>
          match media_type_of v with
          | [] => Absent
          | m => if negb (valid_ct m) then Malformed
                 else if mem_str m Tables.acceptable_content_types then Html
                 else if unknown_ct m then FallThrough
                 else OtherType
          end
      end
  end.

Definition looks_binary (text : str) : bool := sniff_not_html (py_lstrip text).

Definition decision (opt : str) (c : ct_class) (binary : bool) : bool :=
  if str_eqb opt o_normal then
    match c with Html => false | OtherType => true | _ => binary end
  else if str_eqb opt o_nocheck then binary
  else if str_eqb opt o_nosniff then
    match c with OtherType => true | _ => false end
  else false.

Lemma is_not_html_table text h opt :
  is_not_html text h opt = decision opt (classify h) (looks_binary text).
Proof.
  unfold is_not_html, decision, classify, looks_binary.
  destruct (str_eqb opt o_normal) eqn:En.
  - apply str_eqb_eq in En. subst opt. cbn [orb].
    replace (str_eqb o_normal o_nocheck) with false by reflexivity.
    destruct h as [[|kv d]|]; try reflexivity.
    destruct (assoc_str k_content_type (kv :: d)) as [v|].
    + destruct (media_type_of v) as [|c m]; [reflexivity|].
      destruct (valid_ct (c :: m)); cbn [negb]; [|reflexivity].
      destruct (mem_str (c :: m) acceptable_content_types); [reflexivity|].
      destruct (unknown_ct (c :: m)); reflexivity.
    + replace (media_type_of []) with (@nil N) by reflexivity. reflexivity.
  - destruct (str_eqb opt o_nocheck) eqn:Ec.
    + apply str_eqb_eq in Ec. subst opt.
      replace (str_eqb o_nocheck o_nosniff) with false by reflexivity. cbn [orb].
      destruct h as [[|kv d]|]; reflexivity.
    + destruct (str_eqb opt o_nosniff) eqn:Es; cbn [orb].
      * destruct h as [[|kv d]|]; try reflexivity.
        destruct (assoc_str k_content_type (kv :: d)) as [v|].
        -- destruct (media_type_of v) as [|c m]; [reflexivity|].
           destruct (valid_ct (c :: m)); cbn [negb]; [|reflexivity].
           destruct (mem_str (c :: m) acceptable_content_types); [reflexivity|].
           destruct (unknown_ct (c :: m)); reflexivity.
        -- replace (media_type_of []) with (@nil N) by reflexivity. reflexivity.
      * destruct h as [[|kv d]|]; reflexivity.
Qed.

(* ------------------------------------------------------------------ *)
(* Letter case of the media type is irrelevant. *)

Definition caseless (a b : N) : Prop := ascii_lower_char a = ascii_lower_char b.
Definition caseless_str : str -> str -> Prop := Forall2 caseless.

Definition uppers : list N := map N.of_nat (seq 65 26).

Lemma upper_in_uppers c : is_ascii_upper c = true -> In c uppers.
Proof.
  unfold is_ascii_upper. rewrite andb_true_iff, !N.leb_le. intros [H1 H2].
  unfold uppers. rewrite <- (N2Nat.id c). apply in_map. apply in_seq. lia.
Qed.

Lemma caseless_cases a b :
  caseless a b ->
  a = b \/ (is_ascii_upper a = true /\ b = a + 32) \/ (is_ascii_upper b = true /\ a = b + 32).
Proof.
  unfold caseless, ascii_lower_char.
  destruct (is_ascii_upper a) eqn:Ea; destruct (is_ascii_upper b) eqn:Eb; intros H.
  - left. lia.
  - right. left. split; [reflexivity|]. symmetry. exact H.
  - right. right. split; [reflexivity|]. exact H.
  - left. exact H.
Qed.

Lemma caseless_pred {A} (f : N -> A) :
  Forall (fun c => f c = f (c + 32)) uppers ->
  forall a b, caseless a b -> f a = f b.
Proof.
  intros HF a b H. rewrite Forall_forall in HF.
  destruct (caseless_cases a b H) as [->|[[Hu ->]|[Hu ->]]]; [reflexivity| |].
  - apply HF, upper_in_uppers, Hu.
  - symmetry. apply HF, upper_in_uppers, Hu.
Qed.

Ltac finite_uppers := unfold uppers; cbn [seq map]; repeat constructor.

Lemma caseless_isspace a b : caseless a b -> py_isspace a = py_isspace b.
Proof. apply caseless_pred. finite_uppers. Qed.

Lemma caseless_semicolon a b : caseless a b -> N.eqb a 59 = N.eqb b 59.
Proof. apply (caseless_pred (fun c => N.eqb c 59)). finite_uppers. Qed.

Lemma caseless_lower_cp a b : caseless a b -> py_lower_cp a = py_lower_cp b.
Proof. apply caseless_pred. finite_uppers. Qed.

Lemma caseless_before_char v v' :
  caseless_str v v' -> caseless_str (before_char 59 v) (before_char 59 v').
Proof.
  induction 1 as [|a b v v' Hab Hv IH]; cbn [before_char]; [constructor|].
  rewrite (caseless_semicolon a b Hab).
  destruct (N.eqb b 59); constructor; assumption.
Qed.

Lemma caseless_lstrip v v' :
  caseless_str v v' -> caseless_str (py_lstrip v) (py_lstrip v').
Proof.
  unfold py_lstrip.
  induction 1 as [|a b v v' Hab Hv IH]; cbn [lstrip]; [constructor|].
  rewrite (caseless_isspace a b Hab).
  destruct (py_isspace b); [exact IH|constructor; assumption].
Qed.

Lemma Forall2_rev' {A B} (R : A -> B -> Prop) l l' :
  Forall2 R l l' -> Forall2 R (rev l) (rev l').
Proof.
  induction 1 as [|a b l l' Hab Hl IH]; cbn [rev]; [constructor|].
  apply Forall2_app; [exact IH|constructor; [exact Hab|constructor]].
Qed.

Lemma caseless_strip v v' :
  caseless_str v v' -> caseless_str (py_strip v) (py_strip v').
Proof.
  intros H. unfold py_strip, strip, rstrip.
  apply Forall2_rev'. apply caseless_lstrip. apply Forall2_rev'.
  apply caseless_lstrip. exact H.
Qed.

Lemma caseless_lower v v' : caseless_str v v' -> py_lower v = py_lower v'.
Proof.
  unfold py_lower.
  induction 1 as [|a b v v' Hab Hv IH]; cbn [flat_map]; [reflexivity|].
  rewrite (caseless_lower_cp a b Hab), IH. reflexivity.
Qed.

Lemma media_type_caseless v v' :
  caseless_str v v' -> media_type_of v = media_type_of v'.
Proof.
  intros H. unfold media_type_of.
  apply caseless_lower, caseless_strip, caseless_before_char, H.
Qed.

Definition set_ct (d : list (str * str)) (v : str) : list (str * str) :=
  (k_content_type, v) :: d.

Lemma classify_caseless d v v' :
  caseless_str v v' -> classify (Some (set_ct d v)) = classify (Some (set_ct d v')).
Proof.
  intros H. unfold classify, set_ct. cbn [assoc_str].
  rewrite str_eqb_refl. rewrite (media_type_caseless v v' H). reflexivity.
Qed.

Lemma is_not_html_caseless text d v v' opt :
  caseless_str v v' ->
  is_not_html text (Some (set_ct d v)) opt = is_not_html text (Some (set_ct d v')) opt.
Proof.
  intros H. rewrite !is_not_html_table. rewrite (classify_caseless d v v' H). reflexivity.
Qed.

(* ------------------------------------------------------------------ *)
(* Parameters and padding of the media type are irrelevant. *)

Lemma before_char_app_notin sep a rest :
  ~ In sep a -> before_char sep (a ++ sep :: rest) = a.
Proof.
  induction a as [|c a IH]; cbn [app before_char]; intros Hn.
  - rewrite N.eqb_refl. reflexivity.
  - destruct (N.eqb_spec c sep) as [->|Hne]; [exfalso; apply Hn; left; reflexivity|].
    rewrite IH; [reflexivity|]. intros Hin. apply Hn. right. exact Hin.
Qed.

Lemma before_char_notin sep a : ~ In sep a -> before_char sep a = a.
Proof.
  induction a as [|c a IH]; cbn [before_char]; intros Hn; [reflexivity|].
  destruct (N.eqb_spec c sep) as [->|Hne]; [exfalso; apply Hn; left; reflexivity|].
  rewrite IH; [reflexivity|]. intros Hin. apply Hn. right. exact Hin.
Qed.

Section StripPad.
  Variable ws : N -> bool.

  Lemma lstrip_app a b :
    lstrip ws (a ++ b) = if forallb ws a then lstrip ws b else lstrip ws a ++ b.
  Proof.
    induction a as [|c a IH]; cbn [app lstrip forallb]; [reflexivity|].
    destruct (ws c); cbn [andb]; [exact IH|reflexivity].
  Qed.

  Lemma lstrip_all a : forallb ws a = true -> lstrip ws a = [].
  Proof.
    induction a as [|c a IH]; cbn [lstrip forallb]; [reflexivity|].
    intros H. apply andb_true_iff in H as [Hc Ha]. rewrite Hc. auto.
  Qed.

  Lemma forallb_rev a : forallb ws (rev a) = forallb ws a.
  Proof.
    induction a as [|c a IH]; cbn [rev forallb]; [reflexivity|].
    rewrite forallb_app, IH. cbn [forallb]. rewrite andb_true_r. apply andb_comm.
  Qed.

  Lemma rstrip_app_ws a p : forallb ws p = true -> rstrip ws (a ++ p) = rstrip ws a.
  Proof.
    intros Hp. unfold rstrip. rewrite rev_app_distr, lstrip_app, forallb_rev, Hp. reflexivity.
  Qed.

  Lemma strip_pad p1 m p2 :
    forallb ws p1 = true -> forallb ws p2 = true ->
    strip ws (p1 ++ m ++ p2) = strip ws m.
  Proof.
    intros H1 H2. unfold strip.
    rewrite lstrip_app, H1, lstrip_app.
    destruct (forallb ws m) eqn:Em.
    - rewrite (lstrip_all p2 H2), (lstrip_all m Em). reflexivity.
    - apply rstrip_app_ws, H2.
  Qed.
End StripPad.

Lemma ws_not_semicolon p : forallb py_isspace p = true -> ~ In 59 p.
Proof.
  intros H Hin. rewrite forallb_forall in H. specialize (H 59 Hin). discriminate H.
Qed.

Lemma media_type_params_padding p1 m p2 params :
  forallb py_isspace p1 = true -> forallb py_isspace p2 = true -> ~ In 59 m ->
  media_type_of (p1 ++ m ++ p2 ++ 59 :: params) = media_type_of m /\
  media_type_of (p1 ++ m ++ p2) = media_type_of m.
Proof.
  intros H1 H2 Hm. unfold media_type_of.
  assert (Hn : ~ In 59 (p1 ++ m ++ p2)).
  { rewrite !in_app_iff. intros [H|[H|H]]; [exact (ws_not_semicolon p1 H1 H)|exact (Hm H)|exact (ws_not_semicolon p2 H2 H)]. }
  split.
  - replace (p1 ++ m ++ p2 ++ 59 :: params) with ((p1 ++ m ++ p2) ++ 59 :: params)
      by (rewrite <- !app_assoc; reflexivity).
    rewrite (before_char_app_notin 59 _ params Hn), (before_char_notin 59 m Hm).
    unfold py_strip. rewrite strip_pad by assumption. reflexivity.
  - rewrite (before_char_notin 59 _ Hn), (before_char_notin 59 m Hm).
    unfold py_strip. rewrite strip_pad by assumption. reflexivity.
Qed.

(* ------------------------------------------------------------------ *)
(* The options. *)

Lemma nocheck_ignores_headers text h h' :
  is_not_html text h o_nocheck = is_not_html text h' o_nocheck.
Proof. rewrite !is_not_html_table. reflexivity. Qed.

Lemma nosniff_ignores_content text text' h :
  is_not_html text h o_nosniff = is_not_html text' h o_nosniff.
Proof. rewrite !is_not_html_table. reflexivity. Qed.

Lemma ignore_never_refuses text h : is_not_html text h o_ignore = false.
Proof. rewrite is_not_html_table. reflexivity. Qed.

Lemma other_option_never_refuses text h opt :
  str_eqb opt o_normal = false -> str_eqb opt o_nocheck = false -> str_eqb opt o_nosniff = false ->
  is_not_html text h opt = false.
Proof. intros H1 H2 H3. rewrite is_not_html_table. unfold decision. rewrite H1, H2, H3. reflexivity. Qed.

(* ------------------------------------------------------------------ *)
(* Sides. *)

Lemma sides a b ha hb opt :
  let ea := is_not_html a ha opt in
  let eb := is_not_html b hb opt in
  raise_if_not_diffable_html a b ha hb opt =
    match ea, eb with
    | true, true => ErrBoth
    | true, false => ErrA
    | false, true => ErrB
    | false, false => NoError
    end.
Proof.
  cbv zeta. unfold raise_if_not_diffable_html.
  destruct (is_not_html a ha opt), (is_not_html b hb opt); reflexivity.
Qed.

(* ------------------------------------------------------------------ *)
(* Obligations on the generated tables (finite, by computation). *)

(* '/' and '\n' are in neither character class, so the greedy matcher in
   valid_ct is the regular expression's semantics *)
Lemma valid_classes_exclude_delims :
  in_ranges Tables.valid_ct_type_rest 47 = false /\
  in_ranges Tables.valid_ct_sub_rest 10 = false /\
  in_ranges Tables.valid_ct_sub_rest 47 = false.
Proof. repeat split; vm_compute; reflexivity. Qed.

Definition spec_acceptable : list str :=
  map s2l ["application/html"; "application/xhtml"; "application/xhtml+xml"; "application/xml";
           "application/xml+html"; "application/xml+xhtml"; "text/webviewhtml"; "text/html";
           "text/x-server-parsed-html"; "text/xhtml"]%string.

Definition spec_fallthrough_exact : list str :=
  map s2l ["application/octet-stream"; "application/x-download"]%string.

Definition spec_signatures : list str :=
  [s2l "%PDF-"; s2l "%!PS-Adobe-"; s2l "GIF87a"; s2l "GIF89a"; s2l "BM";
   [137; 80; 78; 71; 13; 10; 26; 10]; [255; 216; 255]].

Lemma tables_are_documented :
  Tables.acceptable_content_types = spec_acceptable /\
  Tables.unknown_ct_exact = spec_fallthrough_exact /\
  Tables.unknown_ct_prefixes = [s2l "text/"] /\
  Tables.unknown_ct_ignorecase = false /\
  Tables.non_html_signatures = spec_signatures /\
  Tables.non_html_format = s2l "^[\s\n\r]*(%s)" /\
  Tables.unknown_ct_format = s2l "^(%s)$" /\
  Tables.valid_ct_src = s2l "^[a-z0-9][a-z0-9!#$&^_.+-]*/[a-z0-9][a-z0-9!#$&^_.+-]*$".
Proof. repeat split; vm_compute; reflexivity. Qed.

Definition spec_call_args : list str :=
  map s2l ["a_text"; "b_text"; "a_headers"; "b_headers"; "content_type_options"]%string.

Lemma both_differs_call_alike :
  Tables.ct_call_args_html_diff_render = spec_call_args /\
  Tables.ct_call_args_links_diff = spec_call_args.
Proof. split; vm_compute; reflexivity. Qed.

(* every documented acceptable type is classified Html, whatever its case
   (checked on the lower and the upper spelling), and every fall-through type
   FallThrough *)
Definition hdr (v : str) : headers := Some [(k_content_type, v)].

Definition upper_str (s : str) : str := map ascii_upper_char s.

Lemma documented_types_classified :
  forallb (fun m => match classify (hdr m), classify (hdr (upper_str m)) with
                    | Html, Html => true | _, _ => false end) spec_acceptable = true /\
  forallb (fun m => match classify (hdr m), classify (hdr (upper_str m)) with
                    | FallThrough, FallThrough => true | _, _ => false end)
          (spec_fallthrough_exact ++ map s2l ["text/plain"; "text/csv"; "text/x"]%string) = true /\
  forallb (fun m => match classify (hdr m), classify (hdr (upper_str m)) with
                    | OtherType, OtherType => true | _, _ => false end)
          (map s2l ["image/jpeg"; "application/pdf"; "application/json"; "video/mp4"]%string) = true /\
  forallb (fun m => match classify (hdr m) with Malformed => true | _ => false end)
          (map s2l ["text"; "/html"; "text/"; "te xt/html"; "text/html/x"; "text/h<ml"]%string) = true.
Proof. repeat split; vm_compute; reflexivity. Qed.

(* Lemmas about the decoding model (property C12). *)
From Coq Require Import List NArith Bool String Lia.
From WMD Require Import Gen.Tables Lib.Str Lib.PyChars Model.Server Model.Decode.
Import ListNotations.
Open Scope N_scope.

Lemma replace_nul_no_nul t : ~ In 0 (replace_nul t).
Proof.
  unfold replace_nul. intros H. apply in_map_iff in H as [c [Hc _]].
  destruct (N.eqb c 0) eqn:E; [discriminate|]. apply N.eqb_neq in E. congruence.
Qed.

Section Decode.
  Variable meta_match : str -> option str.
  Variable prolog_match : str -> option str.
  Variable detect : str -> option str.
  Variable codec_known : str -> bool.
  Variable decode_replace : str -> str -> option str.

  Notation decode_body := (Decode.decode_body meta_match prolog_match detect codec_known decode_replace).
  Notation extract_encoding := (Decode.extract_encoding meta_match prolog_match detect codec_known).
  Notation raw_label := (Decode.raw_label meta_match prolog_match detect).
  Notation normalise_label := (Decode.normalise_label codec_known).

  (* UTF-8 with errors='replace' never raises *)
  Hypothesis utf8_total : forall b, decode_replace utf8 b <> None.

  (* Totality: the result is text or "undecodable", never anything else, for every
     header set, every body and every behaviour of the other oracles (in particular
     whatever decode_replace does for the chosen label). *)
  Lemma decode_total headers body rib :
    exists d, decode_body headers body rib = Some d.
  Proof.
    unfold Decode.decode_body.
    destruct (decode_replace _ body) as [t|] eqn:E1.
    - destruct t as [|c t]; [eexists; reflexivity|].
      destruct (rib && _); eexists; reflexivity.
    - destruct (decode_replace utf8 body) as [t|] eqn:E2; [|exfalso; exact (utf8_total body E2)].
      destruct t as [|c t]; [eexists; reflexivity|].
      destruct (rib && _); eexists; reflexivity.
  Qed.

  Lemma decode_no_nul headers body rib t :
    decode_body headers body rib = Some (Text t) -> ~ In 0 t.
  Proof.
    unfold Decode.decode_body.
    destruct (match decode_replace _ body with
              | Some t0 => Some (_, t0)
              | None => _ end) as [[enc t0]|]; [|discriminate].
    destruct t0 as [|c t0].
    - intros H. injection H as <-. intros [].
    - destruct (rib && _); [discriminate|].
      intros H. injection H as <-. exact (replace_nul_no_nul (c :: t0)).
  Qed.

  (* with raise_if_binary off the result is always text *)
  Lemma decode_lenient_is_text headers body :
    exists t, decode_body headers body false = Some (Text t).
  Proof.
    unfold Decode.decode_body.
    destruct (decode_replace _ body) as [t|] eqn:E1.
    - destruct t as [|c t]; eexists; reflexivity.
    - destruct (decode_replace utf8 body) as [t|] eqn:E2; [|exfalso; exact (utf8_total body E2)].
      destruct t as [|c t]; eexists; reflexivity.
  Qed.

  (* the chosen codec is always one the runtime knows, or UTF-8 *)
  Lemma extract_known_or_utf8 headers content :
    extract_encoding headers content = utf8 \/ codec_known (extract_encoding headers content) = true.
  Proof.
    unfold Decode.extract_encoding, Decode.normalise_label.
    repeat match goal with
           | |- context [match ?x with Some _ => _ | None => _ end] => destruct x
           | |- context [if ?b then _ else _] => destruct b eqn:?
           end; auto.
  Qed.

  (* ---- precedence ---- *)
  Definition header_label (ct : str) : option str :=
    if contains charset_eq ct then nonempty (Some (until_semicolon (after_last_aux charset_eq ct []))) else None.

  (* the label taken from the header ends where the next parameter begins *)
  Lemma until_semicolon_no_semicolon s : ~ In 59 (until_semicolon s).
  Proof.
    induction s as [|c r IH]; [intros []|]. cbn [until_semicolon]. destruct (N.eqb c 59) eqn:E; [intros []|].
    intros [H|H]; [subst c; discriminate E|exact (IH H)].
  Qed.
  Lemma header_label_no_semicolon ct l : header_label ct = Some l -> ~ In 59 l.
  Proof.
    unfold header_label. destruct (contains charset_eq ct); [|discriminate].
    destruct (until_semicolon (after_last_aux charset_eq ct [])) as [|c r] eqn:E; [discriminate|].
    intros H. injection H as <-. rewrite <- E. apply until_semicolon_no_semicolon.
  Qed.
  Example header_label_with_later_parameter :
    header_label (s2l "text/html; charset=iso-8859-2; foo=bar") = Some (s2l "iso-8859-2").
  Proof. vm_compute. reflexivity. Qed.

  (* 1. a (non-blank) charset in the Content-Type header wins over meta tag, prolog and detection *)
  Lemma precedence_header ct content l :
    header_label ct = Some l -> py_strip l <> [] ->
    raw_label ct content = Some (py_strip l).
  Proof.
    unfold header_label, Decode.raw_label. intros H Hne. rewrite H.
    destruct (py_strip l) as [|c r] eqn:E; [congruence|]. reflexivity.
  Qed.

  (* 2. else a (non-blank) meta tag label wins over prolog and detection *)
  Lemma precedence_meta ct content l :
    header_label ct = None -> nonempty (meta_match content) = Some l -> py_strip l <> [] ->
    raw_label ct content = Some (py_strip l).
  Proof.
    unfold header_label, Decode.raw_label. intros H Hm Hne. rewrite H, Hm.
    destruct (py_strip l) as [|c r] eqn:E; [congruence|]. reflexivity.
  Qed.

  (* 3. else the XML prolog wins over detection *)
  Lemma precedence_prolog ct content l :
    header_label ct = None -> nonempty (meta_match content) = None ->
    nonempty (prolog_match content) = Some l -> py_strip l <> [] ->
    raw_label ct content = Some (py_strip l).
  Proof.
    unfold header_label, Decode.raw_label. intros H Hm Hp Hne. rewrite H, Hm, Hp.
    destruct (py_strip l) as [|c r] eqn:E; [congruence|]. reflexivity.
  Qed.

  (* 4. else detection (lower-cased), for non-empty content; 5. else nothing, i.e. UTF-8 *)
  Lemma precedence_detect ct content :
    header_label ct = None -> nonempty (meta_match content) = None -> nonempty (prolog_match content) = None ->
    raw_label ct content =
      match content with
      | [] => None
      | _ => match nonempty (detect content) with Some e => Some (py_lower e) | None => None end
      end.
  Proof.
    unfold header_label, Decode.raw_label. intros H Hm Hp. rewrite H, Hm, Hp. reflexivity.
  Qed.

  Lemma no_label_is_utf8 ct : normalise_label ct None = utf8.
  Proof. reflexivity. Qed.

  Lemma unknown_label_is_utf8 ct l :
    l <> iso_typo -> l <> iso_8859_1 -> codec_known l = false -> normalise_label ct (Some l) = utf8.
  Proof.
    intros H1 H2 Hk. unfold Decode.normalise_label.
    destruct (str_eqb l iso_typo) eqn:E1; [apply str_eqb_eq in E1; congruence|].
    destruct (str_eqb l iso_8859_1) eqn:E2; [apply str_eqb_eq in E2; congruence|].
    cbn [andb]. rewrite Hk. reflexivity.
  Qed.

  Lemma known_label_is_used ct l :
    l <> iso_typo -> l <> iso_8859_1 -> codec_known l = true -> normalise_label ct (Some l) = l.
  Proof.
    intros H1 H2 Hk. unfold Decode.normalise_label.
    destruct (str_eqb l iso_typo) eqn:E1; [apply str_eqb_eq in E1; congruence|].
    destruct (str_eqb l iso_8859_1) eqn:E2; [apply str_eqb_eq in E2; congruence|].
    cbn [andb]. rewrite Hk. reflexivity.
  Qed.

  (* a label that is not a text encoding (decode raises) still yields UTF-8 text *)
  Lemma non_text_codec_falls_back headers body :
    decode_replace (extract_encoding headers body) body = None ->
    forall rib, decode_body headers body rib =
      match decode_replace utf8 body with
      | Some [] => Some (Text [])
      | Some t => let t' := replace_nul t in
                  if rib && N.ltb (nlen t') (4 * count_char 65533 t') then Some (Undecodable utf8) else Some (Text t')
      | None => None
      end.
  Proof.
    intros H rib. unfold Decode.decode_body. rewrite H.
    destruct (decode_replace utf8 body) as [[|c t]|]; reflexivity.
  Qed.
End Decode.

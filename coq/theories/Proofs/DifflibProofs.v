(* Properties of the difflib model: blocks returned are inside their window, ordered and
   non-overlapping, so the opcode list is a contiguous, monotone cover of both sequences -
   for every pair of sequences and every element relation. *)
From Coq Require Import List Arith Bool Lia Sorted.
From WMD Require Import Lib.Difflib.
Import ListNotations.

(* ------------------------------------------------------------------ contiguous opcode lists *)
Definition tag_ok (o : opcode) : Prop :=
  match op_tag o with
  | Insert => fst (op_a o) = snd (op_a o)
  | Delete => fst (op_b o) = snd (op_b o)
  | _ => True
  end.

(* ops covers the old list from i to ei and the new list from j to ej, contiguously and monotonically *)
Fixpoint chain (ops : list opcode) (i j ei ej : nat) : Prop :=
  match ops with
  | [] => i = ei /\ j = ej
  | o :: r => fst (op_a o) = i /\ fst (op_b o) = j /\ i <= snd (op_a o) /\ j <= snd (op_b o) /\ tag_ok o /\
              chain r (snd (op_a o)) (snd (op_b o)) ei ej
  end.

Lemma chain_mono ops : forall i j ei ej, chain ops i j ei ej -> i <= ei /\ j <= ej.
Proof.
  induction ops as [|o r IH]; intros i j ei ej H; cbn [chain] in H.
  - destruct H as [-> ->]. lia.
  - destruct H as (H1 & H2 & H3 & H4 & _ & H6). destruct (IH _ _ _ _ H6). lia.
Qed.

Lemma chain_app l1 : forall l2 i j ei ej,
  chain (l1 ++ l2) i j ei ej <-> exists mi mj, chain l1 i j mi mj /\ chain l2 mi mj ei ej.
Proof.
  induction l1 as [|o r IH]; intros l2 i j ei ej; cbn [app chain].
  - split.
    + intros H. exists i, j. split; [split; reflexivity|exact H].
    + intros (mi & mj & [-> ->] & H). exact H.
  - split.
    + intros (H1 & H2 & H3 & H4 & H5 & H6). apply IH in H6 as (mi & mj & Ha & Hb).
      exists mi, mj. split; [|exact Hb]. repeat split; assumption.
    + intros (mi & mj & (H1 & H2 & H3 & H4 & H5 & H6) & Hb). repeat split; try assumption.
      apply IH. exists mi, mj. split; assumption.
Qed.


Lemma skipn_skipn' {A} n : forall m (l : list A), skipn n (skipn m l) = skipn (m + n) l.
Proof.
  intros m. induction m as [|m IH]; intros l; [reflexivity|].
  destruct l as [|x l]; cbn [skipn plus]; [destruct n; reflexivity|apply IH].
Qed.

Lemma slice_app {A} (l : list A) lo mid hi :
  lo <= mid -> mid <= hi ->
  firstn (mid - lo) (skipn lo l) ++ firstn (hi - mid) (skipn mid l) = firstn (hi - lo) (skipn lo l).
Proof.
  intros H1 H2.
  replace (skipn mid l) with (skipn (mid - lo) (skipn lo l)).
  2: { rewrite skipn_skipn'. f_equal. lia. }
  replace (hi - lo) with ((mid - lo) + (hi - mid)) by lia.
  generalize (skipn lo l) as m. generalize (mid - lo) as n. generalize (hi - mid) as k.
  intros k n. induction n as [|n IH]; intros m; [reflexivity|].
  destruct m as [|x m]; cbn [firstn skipn app plus].
  - rewrite firstn_nil. destruct k; reflexivity.
  - f_equal. apply IH.
Qed.

Lemma slice_self {A} (l : list A) : firstn (length l - 0) (skipn 0 l) = l.
Proof. cbn [skipn]. rewrite Nat.sub_0_r. apply firstn_all. Qed.


(* blocks ordered and disjoint, starting at or after (i, j), ending at or before (ei, ej) *)
Fixpoint blocks_chain (l : list block) (i j ei ej : nat) : Prop :=
  match l with
  | [] => i <= ei /\ j <= ej
  | (bi, bj, bk) :: r => i <= bi /\ j <= bj /\ 1 <= bk /\ blocks_chain r (bi + bk) (bj + bk) ei ej
  end.

Lemma blocks_chain_weaken l : forall i j i' j' ei ej,
  i' <= i -> j' <= j -> blocks_chain l i j ei ej -> blocks_chain l i' j' ei ej.
Proof.
  destruct l as [|[[bi bj] bk] r]; intros i j i' j' ei ej H1 H2 H; cbn [blocks_chain] in *.
  - lia.
  - destruct H as (A & B & C & D). repeat split; try lia. exact D.
Qed.

Lemma blocks_chain_end l : forall i j ei ej, blocks_chain l i j ei ej -> i <= ei /\ j <= ej.
Proof.
  induction l as [|[[bi bj] bk] r IH]; intros i j ei ej H; cbn [blocks_chain] in H; [exact H|].
  destruct H as (A & B & C & D). destruct (IH _ _ _ _ D). lia.
Qed.

Lemma blocks_chain_app l1 : forall l2 i j mi mj ei ej,
  blocks_chain l1 i j mi mj -> blocks_chain l2 mi mj ei ej -> blocks_chain (l1 ++ l2) i j ei ej.
Proof.
  induction l1 as [|[[bi bj] bk] r IH]; intros l2 i j mi mj ei ej H1 H2; cbn [app blocks_chain] in *.
  - destruct H1. apply (blocks_chain_weaken l2 mi mj); assumption.
  - destruct H1 as (A & B & C & D). repeat split; try assumption. apply (IH l2 _ _ mi mj); assumption.
Qed.

Section Matcher.
  Variable A : Type.
  Variable same_key : A -> A -> bool.
  Variable eq : A -> A -> bool.
  Variable dflt : A.

  Notation row := (Difflib.row).
  Notation rows := (Difflib.rows A same_key dflt).
  Notation flm := (Difflib.find_longest_match A same_key eq dflt).

  (* entries of j2len while row i is being processed: runs ending at (i-1, j') *)
  Definition j2len_ok (alo blo bhi i : nat) (l : list (nat * nat)) : Prop :=
    Forall (fun jv => let '(j', v) := jv in 1 <= v /\ v + alo <= i /\ blo + v <= S j' /\ j' < bhi) l.

  Definition best_ok (alo blo bhi i : nat) (best : block) : Prop :=
    let '(bi, bj, bs) := best in alo <= bi /\ bi + bs <= i /\ blo <= bj /\ bj + bs <= bhi.

  Lemma lookup_ok alo blo bhi i l j :
    j2len_ok alo blo bhi i l ->
    lookup j l = 0 \/ (1 <= lookup j l /\ lookup j l + alo <= i /\ blo + lookup j l <= S j /\ j < bhi).
  Proof.
    induction 1 as [|[j' v] l H Hl IH]; cbn [lookup]; [left; reflexivity|].
    destruct (Nat.eqb_spec j j') as [->|Hne]; [right; exact H|exact IH].
  Qed.

  Lemma row_ok js : forall alo blo bhi i j2len newj2len best,
    blo <= bhi -> alo <= i ->
    j2len_ok alo blo bhi i j2len -> j2len_ok alo blo bhi (S i) newj2len -> best_ok alo blo bhi (S i) best ->
    let '(n', b') := row js blo bhi i j2len newj2len best in
    j2len_ok alo blo bhi (S i) n' /\ best_ok alo blo bhi (S i) b'.
  Proof.
    induction js as [|j js IH]; intros alo blo bhi i j2len newj2len best Hb Hi H1 H2 H3; cbn [Difflib.row].
    - split; assumption.
    - destruct (Nat.ltb_spec j blo) as [Hlt|Hge]; [apply IH; assumption|].
      destruct (Nat.leb_spec bhi j) as [Hle|Hlt]; [split; assumption|].
      set (k := S (lookup (j - 1) (if Nat.eqb j 0 then [] else j2len))).
      assert (Hk : 1 <= k /\ k + alo <= S i /\ blo + k <= S j).
      { unfold k. destruct (Nat.eqb_spec j 0) as [->|Hj0].
        - cbn [lookup]. lia.
        - destruct (lookup_ok alo blo bhi i j2len (j - 1) H1) as [->|(L1 & L2 & L3 & L4)]; lia. }
      destruct best as [[bi bj] bs].
      apply IH; try assumption.
      + constructor; [|exact H2]. cbv zeta. lia.
      + destruct (Nat.ltb_spec bs k); [|exact H3]. unfold best_ok. lia.
  Qed.

  Lemma j2len_ok_nil alo blo bhi i : j2len_ok alo blo bhi i [].
  Proof. constructor. Qed.

  Lemma best_ok_mono alo blo bhi i i' best : i <= i' -> best_ok alo blo bhi i best -> best_ok alo blo bhi i' best.
  Proof. destruct best as [[bi bj] bs]. unfold best_ok. lia. Qed.

  Lemma rows_ok n : forall a b alo i ahi blo bhi j2len best,
    blo <= bhi -> alo <= i -> i <= ahi ->
    j2len_ok alo blo bhi i j2len -> best_ok alo blo bhi i best ->
    best_ok alo blo bhi ahi (rows n a b i ahi blo bhi j2len best).
  Proof.
    induction n as [|n IH]; intros a b alo i ahi blo bhi j2len best Hb Hi Hia H1 H2; cbn [Difflib.rows].
    - apply (best_ok_mono alo blo bhi i); assumption.
    - destruct (Nat.ltb_spec i ahi) as [Hlt|Hge]; [|apply (best_ok_mono alo blo bhi i); assumption].
      pose proof (row_ok (b2j_get A same_key (nth i a dflt) b) alo blo bhi i j2len [] best Hb Hi H1
                    (j2len_ok_nil _ _ _ _) (best_ok_mono _ _ _ i (S i) best ltac:(lia) H2)) as R.
      destruct (row (b2j_get A same_key (nth i a dflt) b) blo bhi i j2len [] best) as [n' b'].
      destruct R as [R1 R2]. apply IH; try assumption; lia.
  Qed.

  Lemma extend_back_ok n : forall a b alo blo bhi ahi best,
    best_ok alo blo bhi ahi best -> best_ok alo blo bhi ahi (extend_back A eq dflt n a b alo blo best).
  Proof.
    induction n as [|n IH]; intros a b alo blo bhi ahi best H; cbn [extend_back]; [exact H|].
    destruct best as [[bi bj] bs].
    destruct (Nat.ltb_spec alo bi); cbn [andb]; [|exact H].
    destruct (Nat.ltb_spec blo bj); cbn [andb]; [|exact H].
    destruct (eq _ _); [|exact H].
    apply IH. unfold best_ok in *. lia.
  Qed.

  Lemma extend_fwd_ok n : forall a b alo blo bhi ahi best,
    best_ok alo blo bhi ahi best -> best_ok alo blo bhi ahi (extend_fwd A eq dflt n a b ahi bhi best).
  Proof.
    induction n as [|n IH]; intros a b alo blo bhi ahi best H; cbn [extend_fwd]; [exact H|].
    destruct best as [[bi bj] bs].
    destruct (Nat.ltb_spec (bi + bs) ahi); cbn [andb]; [|exact H].
    destruct (Nat.ltb_spec (bj + bs) bhi); cbn [andb]; [|exact H].
    destruct (eq _ _); [|exact H].
    apply IH. unfold best_ok in *. lia.
  Qed.

  (* find_longest_match returns a block inside its window *)
  Theorem flm_bounds a b alo ahi blo bhi :
    alo <= ahi -> blo <= bhi ->
    let '(i, j, k) := flm a b alo ahi blo bhi in
    alo <= i /\ i + k <= ahi /\ blo <= j /\ j + k <= bhi.
  Proof.
    intros Ha Hb. unfold Difflib.find_longest_match.
    assert (H0 : best_ok alo blo bhi alo (alo, blo, 0)) by (unfold best_ok; lia).
    pose proof (rows_ok (ahi - alo) a b alo alo ahi blo bhi [] (alo, blo, 0) Hb (le_n _) Ha (j2len_ok_nil _ _ _ _) H0) as R.
    apply (extend_back_ok (length a) a b alo blo bhi ahi) in R.
    apply (extend_fwd_ok (length a) a b alo blo bhi ahi) in R.
    destruct (extend_fwd A eq dflt (length a) a b ahi bhi _) as [[i j] k]. exact R.
  Qed.

  Lemma blocks_rec_ok fuel : forall a b alo ahi blo bhi,
    alo <= ahi -> blo <= bhi ->
    blocks_chain (blocks_rec A same_key eq dflt fuel a b alo ahi blo bhi) alo blo ahi bhi.
  Proof.
    induction fuel as [|fuel IH]; intros a b alo ahi blo bhi Ha Hb; cbn [blocks_rec blocks_chain]; [lia|].
    pose proof (flm_bounds a b alo ahi blo bhi Ha Hb) as F.
    destruct (flm a b alo ahi blo bhi) as [[i j] k]. destruct F as (F1 & F2 & F3 & F4).
    destruct k as [|k]; [cbn [blocks_chain]; lia|].
    apply (blocks_chain_app _ _ alo blo i j).
    - destruct (Nat.ltb alo i && Nat.ltb blo j); [apply IH; lia|cbn [blocks_chain]; lia].
    - cbn [app blocks_chain]. repeat split; try lia.
      destruct (Nat.ltb (i + S k) ahi && Nat.ltb (j + S k) bhi); [apply IH; lia|cbn [blocks_chain]; lia].
  Qed.

  Lemma collapse_ok l : forall i1 j1 k1 ei ej,
    blocks_chain l (i1 + k1) (j1 + k1) ei ej ->
    blocks_chain (collapse l (i1, j1, k1)) i1 j1 ei ej.
  Proof.
    induction l as [|[[i2 j2] k2] l IH]; intros i1 j1 k1 ei ej H; cbn [collapse].
    - cbn [blocks_chain] in H. destruct k1 as [|k1]; cbn [blocks_chain]; lia.
    - cbn [blocks_chain] in H. destruct H as (H1 & H2 & H3 & H4).
      destruct (Nat.eqb_spec (i1 + k1) i2) as [E1|N1]; cbn [andb].
      + destruct (Nat.eqb_spec (j1 + k1) j2) as [E2|N2].
        * apply IH. subst i2 j2. replace (i1 + (k1 + k2)) with (i1 + k1 + k2) by lia.
          replace (j1 + (k1 + k2)) with (j1 + k1 + k2) by lia. exact H4.
        * destruct k1 as [|k1]; cbn [app].
          -- apply (blocks_chain_weaken _ i2 j2); try lia. apply IH. exact H4.
          -- cbn [blocks_chain]. repeat split; try lia. apply (blocks_chain_weaken _ i2 j2); try lia. apply IH. exact H4.
      + destruct k1 as [|k1]; cbn [app].
        * apply (blocks_chain_weaken _ i2 j2); try lia. apply IH. exact H4.
        * cbn [blocks_chain]. repeat split; try lia. apply (blocks_chain_weaken _ i2 j2); try lia. apply IH. exact H4.
  Qed.

  (* the blocks before the sentinel, for get_matching_blocks and its filtered variant *)
  Lemma matching_blocks_ok a b :
    blocks_chain (collapse (blocks_rec A same_key eq dflt (S (length a + length b)) a b 0 (length a) 0 (length b)) (0, 0, 0))
                 0 0 (length a) (length b).
  Proof. apply collapse_ok. cbn [plus]. apply blocks_rec_ok; lia. Qed.

  Lemma filter_blocks_ok f l : forall i j ei ej,
    blocks_chain l i j ei ej -> blocks_chain (filter f l) i j ei ej.
  Proof.
    induction l as [|[[bi bj] bk] r IH]; intros i j ei ej H; cbn [filter]; [exact H|].
    cbn [blocks_chain] in H. destruct H as (H1 & H2 & H3 & H4).
    destruct (f (bi, bj, bk)).
    - cbn [blocks_chain]. repeat split; try assumption. apply IH, H4.
    - apply (blocks_chain_weaken _ (bi + bk) (bj + bk)); try lia. apply IH, H4.
  Qed.

  (* opcodes computed from ordered blocks plus the sentinel are a contiguous cover *)
  Lemma opcodes_from_chain l : forall i j la lb,
    blocks_chain l i j la lb -> chain (opcodes_from (l ++ [(la, lb, 0)]) i j) i j la lb.
  Proof.
    induction l as [|[[ai bj] size] r IH]; intros i j la lb H.
    - cbn [app opcodes_from]. cbn [blocks_chain] in H. destruct H as [H1 H2].
      destruct (Nat.ltb_spec i la) as [Hi|Hi]; destruct (Nat.ltb_spec j lb) as [Hj|Hj]; cbn [andb app chain].
      all: unfold tag_ok, op_tag, op_a, op_b; cbn [fst snd]; repeat split; try lia.
    - cbn [app opcodes_from]. cbn [blocks_chain] in H. destruct H as (H1 & H2 & H3 & H4).
      specialize (IH _ _ _ _ H4).
      destruct size as [|size]; [lia|].
      destruct (Nat.ltb_spec i ai) as [Hi|Hi]; destruct (Nat.ltb_spec j bj) as [Hj|Hj]; cbn [andb app chain].
      all: unfold tag_ok, op_tag, op_a, op_b; cbn [fst snd]; repeat split; try lia; try exact IH.
  Qed.

  Theorem get_opcodes_chain a b :
    chain (get_opcodes A same_key eq dflt a b) 0 0 (length a) (length b).
  Proof. unfold get_opcodes, get_matching_blocks. apply opcodes_from_chain, matching_blocks_ok. Qed.

  Lemma filter_app_sentinel f (l : list block) la lb :
    f (la, lb, 0) = true -> filter f (l ++ [(la, lb, 0)]) = filter f l ++ [(la, lb, 0)].
  Proof. intros H. rewrite filter_app. cbn [filter]. rewrite H. reflexivity. Qed.

  Theorem insensitive_opcodes_chain threshold a b :
    chain (insensitive_opcodes A same_key eq dflt threshold a b) 0 0 (length a) (length b).
  Proof.
    unfold insensitive_opcodes, insensitive_blocks, get_matching_blocks.
    rewrite filter_app_sentinel.
    - apply opcodes_from_chain, filter_blocks_ok, matching_blocks_ok.
    - cbn [Nat.eqb]. apply orb_true_r.
  Qed.
End Matcher.

(* ------------------------------------------------------------------ identical sequences *)
(* If the two sequences have the same length and position-wise the same dict key, the matcher
   returns the single block covering everything (whatever other matches exist off the diagonal),
   so the opcode list is one "equal". *)
Section Diagonal.
  Variable A : Type.
  Variable same_key : A -> A -> bool.
  Variable eq : A -> A -> bool.
  Variable dflt : A.

  Lemma indices_of_spec x b : forall idx j,
    In j (indices_of A same_key x b idx) <-> idx <= j < idx + length b /\ same_key (nth (j - idx) b dflt) x = true.
  Proof.
    induction b as [|y b IH]; intros idx j; cbn [indices_of length].
    - split; [intros []|intros [H _]; lia].
    - assert (Hrest : In j (indices_of A same_key x b (S idx)) <->
                      (idx < j < idx + S (length b) /\ same_key (nth (j - idx) (y :: b) dflt) x = true)).
      { rewrite IH. split.
        - intros [H1 H2]. split; [lia|]. replace (j - idx) with (S (j - S idx)) by lia. exact H2.
        - intros [H1 H2]. split; [lia|]. replace (j - idx) with (S (j - S idx)) in H2 by lia. exact H2. }
      destruct (same_key y x) eqn:E.
      + cbn [In]. rewrite Hrest. split.
        * intros [<-|[H1 H2]]; [split; [lia|rewrite Nat.sub_diag; exact E]|split; [lia|exact H2]].
        * intros [H1 H2]. destruct (Nat.eq_dec idx j) as [->|Hne]; [left; reflexivity|right; split; [lia|exact H2]].
      + rewrite Hrest. split.
        * intros [H1 H2]. split; [lia|exact H2].
        * intros [H1 H2]. destruct (Nat.eq_dec idx j) as [->|Hne]; [rewrite Nat.sub_diag in H2; cbn in H2; congruence|split; [lia|exact H2]].
  Qed.

  Lemma sorted_split i : forall l,
    StronglySorted lt l -> In i l ->
    l = filter (fun j => Nat.ltb j i) l ++ i :: filter (fun j => Nat.ltb i j) l.
  Proof.
    induction l as [|h l IHl]; intros Hs Hin; [destruct Hin|].
    inversion Hs as [|? ? Hs' Hall]; subst. cbn [filter].
    destruct Hin as [->|Hin].
    - rewrite Nat.ltb_irrefl. cbn [app].
      assert (F1 : filter (fun j => Nat.ltb j i) l = []).
      { clear -Hall. induction l as [|z l IH]; [reflexivity|]. inversion Hall; subst. cbn [filter].
        destruct (Nat.ltb_spec z i); [lia|auto]. }
      assert (F2 : filter (fun j => Nat.ltb i j) l = l).
      { clear -Hall. induction l as [|z l IH]; [reflexivity|]. inversion Hall; subst. cbn [filter].
        destruct (Nat.ltb_spec i z); [f_equal; auto|lia]. }
      rewrite F1, F2. reflexivity.
    - assert (Hh : h < i) by (rewrite Forall_forall in Hall; apply Hall, Hin).
      destruct (Nat.ltb_spec h i); [|lia]. destruct (Nat.ltb_spec i h); [lia|].
      cbn [app]. f_equal. apply IHl; assumption.
  Qed.

  Lemma indices_of_sorted x b : forall idx, StronglySorted lt (indices_of A same_key x b idx).
  Proof.
    induction b as [|y b IH]; intros idx; cbn [indices_of]; [constructor|].
    destruct (same_key y x); [|apply IH]. constructor; [apply IH|].
    apply Forall_forall. intros j Hj. apply indices_of_spec in Hj. lia.
  Qed.

  Notation row := Difflib.row.
  Definition kof (j2len : list (nat * nat)) (j : nat) : nat :=
    S (lookup (j - 1) (if Nat.eqb j 0 then [] else j2len)).
  Definition entries (j2len : list (nat * nat)) (js : list nat) : list (nat * nat) :=
    map (fun j => (j, kof j2len j)) js.

  Lemma row_no_update js : forall bhi i j2len newj bi bj bs,
    (forall j, In j js -> j < bhi /\ kof j2len j <= bs) ->
    row js 0 bhi i j2len newj (bi, bj, bs) = (rev (entries j2len js) ++ newj, (bi, bj, bs)).
  Proof.
    induction js as [|j js IH]; intros bhi i j2len newj bi bj bs H; cbn [Difflib.row entries map rev app]; [reflexivity|].
    destruct (H j (or_introl eq_refl)) as [H1 H2].
    change (j <? 0) with false. cbv iota.
    destruct (Nat.leb_spec bhi j); [lia|]. fold (kof j2len j).
    destruct (Nat.ltb_spec bs (kof j2len j)); [lia|].
    rewrite IH by (intros j' Hj'; apply H; right; exact Hj').
    unfold entries. rewrite <- app_assoc. reflexivity.
  Qed.

  Lemma row_app js1 : forall js2 bhi i j2len newj best,
    (forall j, In j js1 -> j < bhi) ->
    row (js1 ++ js2) 0 bhi i j2len newj best =
    (let '(n1, b1) := row js1 0 bhi i j2len newj best in row js2 0 bhi i j2len n1 b1).
  Proof.
    induction js1 as [|j js1 IH]; intros js2 bhi i j2len newj best H; cbn [app Difflib.row]; [reflexivity|].
    change (j <? 0) with false. cbv iota.
    destruct (Nat.leb_spec bhi j) as [Hle|Hlt]; [specialize (H j (or_introl eq_refl)); lia|].
    destruct best as [[bi bj] bs]. apply IH. intros j' Hj'. apply H. right. exact Hj'.
  Qed.

  Lemma lookup_skip i l1 : forall l2, (forall jv, In jv l1 -> fst jv <> i) -> lookup i (l1 ++ l2) = lookup i l2.
  Proof.
    induction l1 as [|[j v] l1 IH]; intros l2 H; cbn [app lookup]; [reflexivity|].
    destruct (Nat.eqb_spec i j) as [->|Hne]; [exfalso; apply (H (j, v)); [left; reflexivity|reflexivity]|].
    apply IH. intros jv Hjv. apply H. right. exact Hjv.
  Qed.

  Lemma kof_bounds n i j2len j :
    j2len_ok 0 0 n i j2len -> kof j2len j <= S j /\ kof j2len j <= S i.
  Proof.
    intros H. unfold kof. destruct (Nat.eqb_spec j 0) as [->|Hj]; [cbn [lookup]; lia|].
    destruct (lookup_ok 0 0 n i j2len (j - 1) H) as [->|(L1 & L2 & L3 & L4)]; lia.
  Qed.

  Lemma row_diag n i js j2len :
    StronglySorted lt js -> In i js -> (forall j, In j js -> j < n) ->
    j2len_ok 0 0 n i j2len -> (i = 0 \/ lookup (i - 1) j2len = i) ->
    let '(n', b') := row js 0 n i j2len [] (0, 0, i) in b' = (0, 0, S i) /\ lookup i n' = S i.
  Proof.
    intros Hs Hin Hlt Hok Hdiag.
    rewrite (sorted_split i js Hs Hin).
    set (pre := filter (fun j => Nat.ltb j i) js). set (post := filter (fun j => Nat.ltb i j) js).
    assert (Hpre : forall j, In j pre -> j < n /\ j < i).
    { intros j Hj. apply filter_In in Hj as [H1 H2]. apply Nat.ltb_lt in H2. split; [apply Hlt, H1|exact H2]. }
    assert (Hpost : forall j, In j post -> j < n /\ i < j).
    { intros j Hj. apply filter_In in Hj as [H1 H2]. apply Nat.ltb_lt in H2. split; [apply Hlt, H1|exact H2]. }
    rewrite row_app by (intros j Hj; apply Hpre, Hj).
    rewrite row_no_update.
    2: { intros j Hj. destruct (Hpre j Hj). split; [assumption|]. destruct (kof_bounds n i j2len j Hok). lia. }
    cbn [Difflib.row]. change (i <? 0) with false. cbv iota.
    assert (Hin' : i < n) by (apply Hlt, Hin).
    destruct (Nat.leb_spec n i); [lia|]. fold (kof j2len i).
    assert (Hki : kof j2len i = S i).
    { unfold kof. destruct Hdiag as [->|Hd]; [reflexivity|]. destruct (Nat.eqb_spec i 0) as [->|]; [reflexivity|]. rewrite Hd. reflexivity. }
    rewrite Hki. destruct (Nat.ltb_spec i (S i)); [|lia].
    rewrite !Nat.sub_diag.
    rewrite row_no_update.
    2: { intros j Hj. destruct (Hpost j Hj). split; [assumption|]. destruct (kof_bounds n i j2len j Hok). lia. }
    split; [reflexivity|].
    rewrite lookup_skip.
    - cbn [lookup]. rewrite Nat.eqb_refl. reflexivity.
    - intros [j v] Hjv. cbn [fst]. apply in_rev in Hjv. unfold entries in Hjv. apply in_map_iff in Hjv as [j' [E Hj']].
      injection E as <- _. destruct (Hpost j' Hj'). lia.
  Qed.


  Notation rows := (Difflib.rows A same_key dflt).
  Notation flm := (Difflib.find_longest_match A same_key eq dflt).

  Section Aligned.
    Variables a b : list A.
    Variable n : nat.
    Hypothesis len_a : length a = n.
    Hypothesis len_b : length b = n.
    Hypothesis aligned : forall i, i < n -> same_key (nth i b dflt) (nth i a dflt) = true.

    Lemma rows_diag m : forall i j2len,
      i + m = n -> j2len_ok 0 0 n i j2len -> (i = 0 \/ lookup (i - 1) j2len = i) ->
      rows m a b i n 0 n j2len (0, 0, i) = (0, 0, n).
    Proof.
      induction m as [|m IH]; intros i j2len Him Hok Hd; cbn [Difflib.rows].
      - replace i with n by lia. reflexivity.
      - destruct (Nat.ltb_spec i n) as [Hlt|]; [|lia].
        set (js := b2j_get A same_key (nth i a dflt) b).
        assert (Hs : StronglySorted lt js) by apply indices_of_sorted.
        assert (Hin : In i js).
        { apply indices_of_spec. split; [lia|]. rewrite Nat.sub_0_r. apply aligned, Hlt. }
        assert (Hjs : forall j, In j js -> j < n).
        { intros j Hj. apply indices_of_spec in Hj. lia. }
        pose proof (row_diag n i js j2len Hs Hin Hjs Hok Hd) as R.
        pose proof (row_ok js 0 0 n i j2len [] (0, 0, i) (Nat.le_0_l _) (Nat.le_0_l _) Hok (j2len_ok_nil _ _ _ _)
                      ltac:(unfold best_ok; lia)) as R2.
        destruct (Difflib.row js 0 n i j2len [] (0, 0, i)) as [n' b'].
        destruct R as [-> Hl]. destruct R2 as [R2 _].
        apply IH; [lia|exact R2|right; rewrite Nat.sub_succ, Nat.sub_0_r; exact Hl].
    Qed.

    Lemma flm_diag : 1 <= n -> flm a b 0 n 0 n = (0, 0, n).
    Proof.
      intros Hn. unfold Difflib.find_longest_match. rewrite Nat.sub_0_r.
      rewrite (rows_diag n 0 []); [|lia|apply j2len_ok_nil|left; reflexivity].
      destruct (length a) as [|la] eqn:E; [lia|].
      cbn [extend_back]. change (0 <? 0) with false. cbn [andb].
      cbn [extend_fwd]. rewrite Nat.add_0_l, Nat.ltb_irrefl. reflexivity.
    Qed.

    Theorem opcodes_aligned : 1 <= n ->
      get_opcodes A same_key eq dflt a b = [(Equal, (0, n), (0, n))] /\
      forall threshold, insensitive_opcodes A same_key eq dflt threshold a b = [(Equal, (0, n), (0, n))].
    Proof.
      intros Hn.
      assert (Hb : get_matching_blocks A same_key eq dflt a b = [(0, 0, n); (n, n, 0)]).
      { unfold get_matching_blocks. rewrite len_a, len_b. cbn [blocks_rec]. rewrite (flm_diag Hn).
        destruct n as [|k] eqn:En; [lia|]. rewrite <- En in *.
        change (0 <? 0) with false. cbn [andb]. rewrite Nat.add_0_l, Nat.ltb_irrefl. cbn [andb app collapse].
        cbn [Nat.add Nat.eqb andb]. cbn [collapse]. rewrite En. reflexivity. }
      split.
      - unfold get_opcodes. rewrite Hb. cbn [opcodes_from]. change (0 <? 0) with false. cbn [andb app].
        destruct n as [|k] eqn:En; [lia|]. rewrite !Nat.add_0_l. rewrite !Nat.ltb_irrefl. cbn [andb app]. reflexivity.
      - intros threshold. unfold insensitive_opcodes, insensitive_blocks. rewrite Hb, len_a, len_b, Nat.min_id.
        cbn [filter].
        assert (Hk : (threshold <? n) || (n <? 4 * n) || (n =? 0) = true).
        { destruct (Nat.ltb_spec n (4 * n)); [rewrite orb_true_r; reflexivity|lia]. }
        rewrite Hk. cbn [Nat.eqb]. rewrite !orb_true_r. cbn [opcodes_from]. change (0 <? 0) with false. cbn [andb app].
        destruct n as [|k] eqn:En; [lia|]. rewrite !Nat.add_0_l. rewrite !Nat.ltb_irrefl. cbn [andb app]. reflexivity.
    Qed.
  End Aligned.
End Diagonal.

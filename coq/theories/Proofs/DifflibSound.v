(* Soundness of the difflib model: every block returned relates its elements pairwise (same dict
   key, or Python == for the extension loops); so an opcode list without a change means the two
   sequences are related position by position.  Second part: sequences that are ==-aligned and
   whose non-identical positions hold elements that occur nowhere on the other side always give
   the single "equal" opcode - whatever repeats exist elsewhere. *)
From Coq Require Import List Arith Bool Lia Sorted.
From WMD Require Import Lib.Difflib Proofs.DifflibProofs.
Import ListNotations.

Lemma lookup_in j l : lookup j l = 0 \/ In (j, lookup j l) l.
Proof.
  induction l as [|[j' v] l IH]; cbn [lookup]; [left; reflexivity|].
  destruct (Nat.eqb_spec j j') as [->|Hne]; [right; left; reflexivity|].
  destruct IH as [IH|IH]; [left; exact IH|right; right; exact IH].
Qed.

Section Sound.
  Variable A : Type.
  Variable same_key : A -> A -> bool.
  Variable eq : A -> A -> bool.
  Variable dflt : A.
  Variables a b : list A.

  Notation row := Difflib.row.
  Notation rows := (Difflib.rows A same_key dflt).
  Notation flm := (Difflib.find_longest_match A same_key eq dflt).

  (* what a block may relate: elements filed under the same dict key, or == *)
  Definition rel (x y : A) : Prop := same_key y x = true \/ eq x y = true.
  Definition kmatch (i j k : nat) : Prop :=
    forall t, t < k -> same_key (nth (j + t) b dflt) (nth (i + t) a dflt) = true.
  Definition rmatch (i j k : nat) : Prop :=
    forall t, t < k -> rel (nth (i + t) a dflt) (nth (j + t) b dflt).

  Lemma kmatch_rmatch i j k : kmatch i j k -> rmatch i j k.
  Proof. intros H t Ht. left. apply H, Ht. Qed.

  Definition entry_snd (i : nat) (jv : nat * nat) : Prop :=
    let '(j', v) := jv in v <= i /\ v <= S j' /\ kmatch (i - v) (S j' - v) v.
  Definition best_snd (best : block) : Prop := let '(bi, bj, bs) := best in kmatch bi bj bs.

  Lemma lookup_snd i l j : Forall (entry_snd i) l ->
    lookup j l <= i /\ lookup j l <= S j /\ kmatch (i - lookup j l) (S j - lookup j l) (lookup j l).
  Proof.
    intros H. destruct (lookup_in j l) as [->|Hin].
    - repeat split; try lia. intros t Ht. lia.
    - rewrite Forall_forall in H. exact (H _ Hin).
  Qed.

  Lemma row_snd js : forall blo bhi i j2len newj best,
    (forall j, In j js -> same_key (nth j b dflt) (nth i a dflt) = true) ->
    Forall (entry_snd i) j2len -> Forall (entry_snd (S i)) newj -> best_snd best ->
    let '(n', b') := row js blo bhi i j2len newj best in Forall (entry_snd (S i)) n' /\ best_snd b'.
  Proof.
    induction js as [|j js IH]; intros blo bhi i j2len newj best Hjs H1 H2 H3; cbn [Difflib.row].
    - split; assumption.
    - assert (Hjs' : forall j', In j' js -> same_key (nth j' b dflt) (nth i a dflt) = true)
        by (intros j' Hj'; apply Hjs; right; exact Hj').
      destruct (Nat.ltb j blo); [apply IH; assumption|].
      destruct (Nat.leb bhi j); [split; assumption|].
      set (v := lookup (j - 1) (if Nat.eqb j 0 then [] else j2len)).
      assert (Hv : v <= i /\ v <= j /\ kmatch (i - v) (j - v) v).
      { unfold v. destruct (Nat.eqb_spec j 0) as [->|Hj0].
        - cbn [lookup]. repeat split; try lia. intros t Ht. lia.
        - destruct (lookup_snd i j2len (j - 1) H1) as (L1 & L2 & L3).
          replace (S (j - 1)) with j in * by lia. repeat split; assumption. }
      destruct Hv as (V1 & V2 & V3).
      assert (Hk : kmatch (S i - S v) (S j - S v) (S v)).
      { intros t Ht. cbn [Nat.sub]. destruct (Nat.eq_dec t v) as [->|Hne].
        - replace (j - v + v) with j by lia. replace (i - v + v) with i by lia. apply Hjs. left. reflexivity.
        - apply V3. lia. }
      destruct best as [[bi bj] bs].
      apply IH; try assumption.
      + constructor; [|exact H2]. unfold entry_snd. repeat split; try lia. exact Hk.
      + destruct (Nat.ltb bs (S v)); [exact Hk|exact H3].
  Qed.

  Lemma rows_snd n : forall i ahi blo bhi j2len best,
    Forall (entry_snd i) j2len -> best_snd best -> best_snd (rows n a b i ahi blo bhi j2len best).
  Proof.
    induction n as [|n IH]; intros i ahi blo bhi j2len best H1 H2; cbn [Difflib.rows]; [exact H2|].
    destruct (Nat.ltb i ahi); [|exact H2].
    assert (Hjs : forall j, In j (b2j_get A same_key (nth i a dflt) b) -> same_key (nth j b dflt) (nth i a dflt) = true).
    { intros j Hj. apply (indices_of_spec A same_key dflt) in Hj. destruct Hj as [_ Hj]. rewrite Nat.sub_0_r in Hj. exact Hj. }
    pose proof (row_snd (b2j_get A same_key (nth i a dflt) b) blo bhi i j2len [] best Hjs H1 (Forall_nil _) H2) as R.
    destruct (row (b2j_get A same_key (nth i a dflt) b) blo bhi i j2len [] best) as [n' b'].
    destruct R as [R1 R2]. apply IH; assumption.
  Qed.

  Definition block_snd (blk : block) : Prop := let '(i, j, k) := blk in rmatch i j k.

  Lemma extend_back_snd n : forall alo blo best,
    block_snd best -> block_snd (extend_back A eq dflt n a b alo blo best).
  Proof.
    induction n as [|n IH]; intros alo blo best H; cbn [extend_back]; [exact H|].
    destruct best as [[bi bj] bs].
    destruct (Nat.ltb_spec alo bi); cbn [andb]; [|exact H].
    destruct (Nat.ltb_spec blo bj); cbn [andb]; [|exact H].
    destruct (eq (nth (bi - 1) a dflt) (nth (bj - 1) b dflt)) eqn:E; [|exact H].
    apply IH. intros t Ht. destruct t as [|t].
    - rewrite !Nat.add_0_r. right. exact E.
    - replace (bi - 1 + S t) with (bi + t) by lia. replace (bj - 1 + S t) with (bj + t) by lia. apply H. lia.
  Qed.

  Lemma extend_fwd_snd n : forall ahi bhi best,
    block_snd best -> block_snd (extend_fwd A eq dflt n a b ahi bhi best).
  Proof.
    induction n as [|n IH]; intros ahi bhi best H; cbn [extend_fwd]; [exact H|].
    destruct best as [[bi bj] bs].
    destruct (Nat.ltb (bi + bs) ahi); cbn [andb]; [|exact H].
    destruct (Nat.ltb (bj + bs) bhi); cbn [andb]; [|exact H].
    destruct (eq (nth (bi + bs) a dflt) (nth (bj + bs) b dflt)) eqn:E; [|exact H].
    apply IH. intros t Ht. destruct (Nat.eq_dec t bs) as [->|Hne]; [right; exact E|apply H; lia].
  Qed.

  Theorem flm_sound alo ahi blo bhi : block_snd (flm a b alo ahi blo bhi).
  Proof.
    unfold Difflib.find_longest_match. apply extend_fwd_snd, extend_back_snd.
    pose proof (rows_snd (ahi - alo) alo ahi blo bhi [] (alo, blo, 0) (Forall_nil _)) as R.
    destruct (rows (ahi - alo) a b alo ahi blo bhi [] (alo, blo, 0)) as [[bi bj] bs].
    apply kmatch_rmatch. apply R. intros t Ht. lia.
  Qed.

  Lemma blocks_rec_snd fuel : forall alo ahi blo bhi,
    Forall block_snd (blocks_rec A same_key eq dflt fuel a b alo ahi blo bhi).
  Proof.
    induction fuel as [|fuel IH]; intros alo ahi blo bhi; cbn [blocks_rec]; [constructor|].
    pose proof (flm_sound alo ahi blo bhi) as F.
    destruct (flm a b alo ahi blo bhi) as [[i j] k].
    destruct k as [|k]; [constructor|].
    apply Forall_app. split.
    - destruct (Nat.ltb alo i && Nat.ltb blo j); [apply IH|constructor].
    - cbn [app]. constructor; [exact F|].
      destruct (Nat.ltb (i + S k) ahi && Nat.ltb (j + S k) bhi); [apply IH|constructor].
  Qed.

  Lemma collapse_snd l : forall cur, Forall block_snd l -> block_snd cur -> Forall block_snd (collapse l cur).
  Proof.
    induction l as [|[[i2 j2] k2] l IH]; intros [[i1 j1] k1] Hl Hc; cbn [collapse].
    - destruct k1; [constructor|constructor; [exact Hc|constructor]].
    - inversion Hl as [|? ? Hb Hl']; subst.
      destruct (Nat.eqb_spec (i1 + k1) i2) as [E1|N1]; cbn [andb].
      + destruct (Nat.eqb_spec (j1 + k1) j2) as [E2|N2].
        * apply IH; [exact Hl'|]. intros t Ht. destruct (Nat.lt_ge_cases t k1) as [Hlt|Hge]; [apply Hc, Hlt|].
          subst i2 j2. replace (i1 + t) with (i1 + k1 + (t - k1)) by lia. replace (j1 + t) with (j1 + k1 + (t - k1)) by lia.
          apply Hb. lia.
        * apply Forall_app. split; [destruct k1; [constructor|constructor; [exact Hc|constructor]]|apply IH; assumption].
      + apply Forall_app. split; [destruct k1; [constructor|constructor; [exact Hc|constructor]]|apply IH; assumption].
  Qed.

  Lemma matching_blocks_snd : Forall block_snd (get_matching_blocks A same_key eq dflt a b).
  Proof.
    unfold get_matching_blocks. apply Forall_app. split.
    - apply collapse_snd; [apply blocks_rec_snd|]. intros t Ht. lia.
    - constructor; [|constructor]. intros t Ht. lia.
  Qed.

  Lemma insensitive_blocks_snd threshold : Forall block_snd (insensitive_blocks A same_key eq dflt threshold a b).
  Proof.
    unfold insensitive_blocks. apply Forall_forall. intros x Hx. apply filter_In in Hx as [Hx _].
    pose proof matching_blocks_snd as M. rewrite Forall_forall in M. apply M, Hx.
  Qed.

  (* an "equal" opcode has the same length on both sides and relates its elements pairwise *)
  Definition op_snd (o : opcode) : Prop :=
    op_tag o = Equal -> exists i j k, o = (Equal, (i, i + k), (j, j + k)) /\ rmatch i j k.

  Lemma opcodes_from_snd l : forall i j, Forall block_snd l -> Forall op_snd (opcodes_from l i j).
  Proof.
    induction l as [|[[ai bj] size] r IH]; intros i j H; cbn [opcodes_from]; [constructor|].
    inversion H as [|? ? Hb Hr]; subst.
    apply Forall_app. split.
    - destruct (Nat.ltb i ai && Nat.ltb j bj); [constructor; [intros E; discriminate E|constructor]|].
      destruct (Nat.ltb i ai); [constructor; [intros E; discriminate E|constructor]|].
      destruct (Nat.ltb j bj); [constructor; [intros E; discriminate E|constructor]|constructor].
    - apply Forall_app. split; [|apply IH, Hr].
      destruct size as [|size]; [constructor|]. constructor; [|constructor].
      intros _. exists ai, bj, (S size). split; [reflexivity|exact Hb].
  Qed.

  Lemma all_equal_rmatch ops : forall i j ei ej,
    chain ops i j ei ej -> Forall op_snd ops -> Forall (fun o => op_tag o = Equal) ops ->
    ei - i = ej - j /\ rmatch i j (ei - i).
  Proof.
    induction ops as [|o r IH]; intros i j ei ej Hc Hs He; cbn [chain] in Hc.
    - destruct Hc as [-> ->]. rewrite !Nat.sub_diag. split; [reflexivity|]. intros t Ht. lia.
    - destruct Hc as (C1 & C2 & C3 & C4 & _ & C6).
      inversion Hs as [|? ? Ho Hs']; subst. inversion He as [|? ? Eo He']; subst.
      destruct (Ho Eo) as (i0 & j0 & k & -> & Hm).
      unfold op_a, op_b in *. cbn [fst snd] in *.
      destruct (IH _ _ _ _ C6 Hs' He') as [L R].
      destruct (chain_mono _ _ _ _ _ C6) as [M1 M2].
      split; [lia|].
      intros t Ht. destruct (Nat.lt_ge_cases t k) as [Hlt|Hge]; [apply Hm, Hlt|].
      replace (i0 + t) with (i0 + k + (t - k)) by lia. replace (j0 + t) with (j0 + k + (t - k)) by lia.
      apply R. lia.
  Qed.

  (* no change reported => same length and pairwise related (for the plain and the filtered matcher) *)
  Theorem no_change_pointwise threshold :
    Forall (fun o => op_tag o = Equal) (insensitive_opcodes A same_key eq dflt threshold a b) ->
    length a = length b /\ forall t, t < length a -> rel (nth t a dflt) (nth t b dflt).
  Proof.
    intros He.
    pose proof (insensitive_opcodes_chain A same_key eq dflt threshold a b) as Hc.
    pose proof (opcodes_from_snd _ 0 0 (insensitive_blocks_snd threshold)) as Hs.
    destruct (all_equal_rmatch _ _ _ _ _ Hc Hs He) as [L R].
    rewrite !Nat.sub_0_r in *. split; [exact L|]. intros t Ht. apply (R t Ht).
  Qed.

  Theorem no_change_pointwise_plain :
    Forall (fun o => op_tag o = Equal) (get_opcodes A same_key eq dflt a b) ->
    length a = length b /\ forall t, t < length a -> rel (nth t a dflt) (nth t b dflt).
  Proof.
    intros He.
    pose proof (get_opcodes_chain A same_key eq dflt a b) as Hc.
    pose proof (opcodes_from_snd _ 0 0 matching_blocks_snd) as Hs.
    destruct (all_equal_rmatch _ _ _ _ _ Hc Hs He) as [L R].
    rewrite !Nat.sub_0_r in *. split; [exact L|]. intros t Ht. apply (R t Ht).
  Qed.
End Sound.

(* ------------------------------------------------------------------ ==-aligned sequences *)
(* Two sequences of the same length that are == position by position.  At some positions the
   elements are also filed under the same dict key; at every other position ("rewritten") the
   element of either side is filed under a key that occurs nowhere on the other side.  Then the
   first longest key-matched run the matcher finds lies on the diagonal, the == loops extend it
   over everything, and the opcode list is one "equal" - for any number of rewritten positions,
   first, last or adjacent, and whatever other repeats the sequences contain. *)
Section EqAligned.
  Variable A : Type.
  Variable same_key : A -> A -> bool.
  Variable eq : A -> A -> bool.
  Variable dflt : A.
  Variables a b : list A.
  Variable n : nat.
  Hypothesis len_a : length a = n.
  Hypothesis len_b : length b = n.
  Hypothesis eq_aligned : forall i, i < n -> eq (nth i a dflt) (nth i b dflt) = true.

  Definition mk (i : nat) : bool := same_key (nth i b dflt) (nth i a dflt).
  Hypothesis rewritten_fresh : forall i, i < n -> mk i = true \/
    ((forall j, j < n -> same_key (nth j b dflt) (nth i a dflt) = false) /\
     (forall j, j < n -> same_key (nth i b dflt) (nth j a dflt) = false)).

  Notation row := Difflib.row.
  Notation rows := (Difflib.rows A same_key dflt).
  Notation flm := (Difflib.find_longest_match A same_key eq dflt).

  (* length of the key-matched diagonal run ending just before position i *)
  Fixpoint D (i : nat) : nat :=
    match i with O => 0 | S i' => if mk i' then S (D i') else 0 end.

  Definition entry_run (i : nat) (jv : nat * nat) : Prop :=
    let '(j', v) := jv in 1 <= v /\ v <= D i /\ v <= D (S j') /\ j' < n.
  Definition J (i : nat) (l : list (nat * nat)) : Prop :=
    Forall (entry_run i) l /\ (i = 0 \/ lookup (i - 1) l = D i).

  Lemma kof_run i l j : Forall (entry_run i) l -> kof l j <= S (D i) /\ kof l j <= S (D j).
  Proof.
    intros H. unfold kof. destruct (Nat.eqb_spec j 0) as [->|Hj]; [cbn [lookup]; lia|].
    destruct (lookup_in (j - 1) l) as [->|Hin]; [lia|].
    rewrite Forall_forall in H. specialize (H _ Hin). unfold entry_run in H. replace (S (j - 1)) with j in H by lia. lia.
  Qed.

  Lemma key_match_mk i j : i < n -> j < n -> same_key (nth j b dflt) (nth i a dflt) = true -> mk i = true /\ mk j = true.
  Proof.
    intros Hi Hj E. split.
    - destruct (rewritten_fresh i Hi) as [M|[F _]]; [exact M|]. rewrite (F j Hj) in E. discriminate E.
    - destruct (rewritten_fresh j Hj) as [M|[_ F]]; [exact M|]. rewrite (F i Hi) in E. discriminate E.
  Qed.

  Lemma row_run i js j2len bi bs :
    i < n -> StronglySorted lt js ->
    (forall j, In j js <-> j < n /\ same_key (nth j b dflt) (nth i a dflt) = true) ->
    J i j2len -> (forall i', i' <= i -> D i' <= bs) ->
    let '(n', b') := row js 0 n i j2len [] (bi, bi, bs) in
    exists bi' bs', b' = (bi', bi', bs') /\ (forall i', i' <= S i -> D i' <= bs') /\ J (S i) n'.
  Proof.
    intros Hi Hs Hjs [HJ Hdiag] HB.
    destruct (mk i) eqn:Emk.
    - (* position i is key-matched: the diagonal entry is processed among the others *)
      assert (Hin : In i js) by (apply Hjs; split; [exact Hi|exact Emk]).
      assert (Hmkj : forall j, In j js -> j < n /\ mk j = true).
      { intros j Hj. apply Hjs in Hj as [H1 H2]. split; [exact H1|]. apply (key_match_mk i j Hi H1 H2). }
      assert (HDS : forall j, In j js -> D (S j) = S (D j)).
      { intros j Hj. cbn [D]. destruct (Hmkj j Hj) as [_ ->]. reflexivity. }
      rewrite (sorted_split i js Hs Hin).
      set (pre := filter (fun j => Nat.ltb j i) js). set (post := filter (fun j => Nat.ltb i j) js).
      assert (Hpre : forall j, In j pre -> In j js /\ j < i).
      { intros j Hj. apply filter_In in Hj as [H1 H2]. apply Nat.ltb_lt in H2. split; assumption. }
      assert (Hpost : forall j, In j post -> In j js /\ i < j).
      { intros j Hj. apply filter_In in Hj as [H1 H2]. apply Nat.ltb_lt in H2. split; assumption. }
      rewrite row_app by (intros j Hj; apply Hmkj, Hpre, Hj).
      rewrite row_no_update.
      2: { intros j Hj. destruct (Hpre j Hj) as [Hj1 Hj2]. split; [apply Hmkj, Hj1|].
           destruct (kof_run i j2len j HJ) as [_ K]. rewrite <- (HDS j Hj1) in K.
           specialize (HB (S j) ltac:(lia)). lia. }
      cbn [Difflib.row]. change (i <? 0) with false. cbv iota.
      destruct (Nat.leb_spec n i); [lia|]. fold (kof j2len i).
      assert (Hki : kof j2len i = S (D i)).
      { unfold kof. destruct (Nat.eqb_spec i 0) as [->|Hne]; [reflexivity|].
        destruct Hdiag as [->|Hd]; [lia|]. rewrite Hd. reflexivity. }
      rewrite Hki.
      set (best1 := if bs <? S (D i) then (S i - S (D i), S i - S (D i), S (D i)) else (bi, bi, bs)).
      assert (Hb1 : exists bi1 bs1, best1 = (bi1, bi1, bs1) /\ bs <= bs1 /\ S (D i) <= bs1).
      { unfold best1. destruct (Nat.ltb_spec bs (S (D i))).
        - exists (S i - S (D i)), (S (D i)). repeat split; lia.
        - exists bi, bs. repeat split; lia. }
      destruct Hb1 as (bi1 & bs1 & -> & Hbs1 & Hbs2).
      rewrite row_no_update.
      2: { intros j Hj. destruct (Hpost j Hj) as [Hj1 Hj2]. split; [apply Hmkj, Hj1|].
           destruct (kof_run i j2len j HJ) as [K _]. lia. }
      exists bi1, bs1. split; [reflexivity|]. split.
      + intros i' Hi'. destruct (Nat.eq_dec i' (S i)) as [->|Hne].
        * rewrite (HDS i Hin). exact Hbs2.
        * specialize (HB i' ltac:(lia)). lia.
      + split.
        * assert (Hall : forall j, In j js -> entry_run (S i) (j, kof j2len j)).
          { intros j Hj. unfold entry_run. destruct (kof_run i j2len j HJ) as [K1 K2].
            rewrite (HDS i Hin), (HDS j Hj). destruct (Hmkj j Hj). unfold kof. repeat split; try lia.
            - unfold kof in K1. exact K1.
            - unfold kof in K2. exact K2. }
          apply Forall_app. split.
          -- apply Forall_forall. intros jv Hjv. apply in_rev in Hjv. unfold entries in Hjv.
             apply in_map_iff in Hjv as [j [<- Hj]]. apply Hall, Hpost, Hj.
          -- constructor.
             ++ rewrite <- Hki. apply Hall, Hin.
             ++ rewrite app_nil_r. apply Forall_forall. intros jv Hjv. apply in_rev in Hjv. unfold entries in Hjv.
                apply in_map_iff in Hjv as [j [<- Hj]]. apply Hall, Hpre, Hj.
        * right. rewrite Nat.sub_succ, Nat.sub_0_r. rewrite lookup_skip.
          -- cbn [lookup]. rewrite Nat.eqb_refl. rewrite (HDS i Hin). reflexivity.
          -- intros [j v] Hjv. cbn [fst]. apply in_rev in Hjv. unfold entries in Hjv. apply in_map_iff in Hjv as [j' [E Hj']].
             injection E as <- _. destruct (Hpost j' Hj'). lia.
    - (* position i is rewritten: its key occurs nowhere in b, the row is empty *)
      assert (Hnil : js = []).
      { destruct js as [|j js']; [reflexivity|]. exfalso.
        assert (Hj : In j (j :: js')) by (left; reflexivity). apply Hjs in Hj as [H1 H2].
        destruct (key_match_mk i j Hi H1 H2) as [M _]. rewrite M in Emk. discriminate Emk. }
      rewrite Hnil. cbn [Difflib.row]. exists bi, bs. split; [reflexivity|]. split.
      + intros i' Hi'. destruct (Nat.eq_dec i' (S i)) as [->|Hne]; [cbn [D]; rewrite Emk; lia|apply HB; lia].
      + split; [constructor|]. right. cbn [lookup D]. rewrite Emk. reflexivity.
  Qed.

  Lemma rows_run m : forall i j2len bi bs,
    i + m = n -> J i j2len -> (forall i', i' <= i -> D i' <= bs) ->
    exists bi' bs', rows m a b i n 0 n j2len (bi, bi, bs) = (bi', bi', bs').
  Proof.
    induction m as [|m IH]; intros i j2len bi bs Him HJ HB; cbn [Difflib.rows].
    - exists bi, bs. reflexivity.
    - destruct (Nat.ltb_spec i n) as [Hlt|]; [|lia].
      set (js := b2j_get A same_key (nth i a dflt) b).
      assert (Hs : StronglySorted lt js) by (apply indices_of_sorted; exact dflt).
      assert (Hjs : forall j, In j js <-> j < n /\ same_key (nth j b dflt) (nth i a dflt) = true).
      { intros j. unfold js, b2j_get. rewrite (indices_of_spec A same_key dflt). rewrite len_b, Nat.sub_0_r. cbn [plus].
        split; intros [H1 H2]; (split; [lia|exact H2]). }
      pose proof (row_run i js j2len bi bs Hlt Hs Hjs HJ HB) as R.
      destruct (row js 0 n i j2len [] (bi, bi, bs)) as [n' b'].
      destruct R as (bi' & bs' & -> & HB' & HJ').
      apply IH; [lia|exact HJ'|exact HB'].
  Qed.

  Lemma extend_back_diag fuel : forall bi bs,
    bi <= fuel -> bi + bs <= n -> extend_back A eq dflt fuel a b 0 0 (bi, bi, bs) = (0, 0, bi + bs).
  Proof.
    induction fuel as [|fuel IH]; intros bi bs Hf Hn; cbn [extend_back].
    - replace bi with 0 by lia. reflexivity.
    - destruct (Nat.ltb_spec 0 bi) as [Hpos|Hz]; cbn [andb].
      + rewrite eq_aligned by lia. rewrite IH by lia. f_equal. lia.
      + replace bi with 0 by lia. reflexivity.
  Qed.

  Lemma extend_fwd_diag fuel : forall bs,
    n - bs <= fuel -> bs <= n -> extend_fwd A eq dflt fuel a b n n (0, 0, bs) = (0, 0, n).
  Proof.
    induction fuel as [|fuel IH]; intros bs Hf Hn; cbn [extend_fwd].
    - replace bs with n by lia. reflexivity.
    - rewrite Nat.add_0_l. destruct (Nat.ltb_spec bs n) as [Hlt|Hge]; cbn [andb].
      + rewrite eq_aligned by lia. apply IH; lia.
      + replace bs with n by lia. reflexivity.
  Qed.

  Theorem flm_eq_aligned : flm a b 0 n 0 n = (0, 0, n).
  Proof.
    unfold Difflib.find_longest_match. rewrite Nat.sub_0_r.
    destruct (rows_run n 0 [] 0 0) as (bi & bs & R).
    - lia.
    - split; [constructor|left; reflexivity].
    - intros i' Hi'. replace i' with 0 by lia. cbn [D]. lia.
    - pose proof (rows_ok A same_key dflt n a b 0 0 n 0 n [] (0, 0, 0) (Nat.le_0_l _) (le_n _) (Nat.le_0_l _)
                    (j2len_ok_nil _ _ _ _) ltac:(unfold best_ok; lia)) as Bk.
      rewrite R in *. unfold best_ok in Bk.
      rewrite len_a. rewrite extend_back_diag by lia. apply extend_fwd_diag; lia.
  Qed.

  Theorem opcodes_eq_aligned : 1 <= n ->
    get_opcodes A same_key eq dflt a b = [(Equal, (0, n), (0, n))] /\
    forall threshold, insensitive_opcodes A same_key eq dflt threshold a b = [(Equal, (0, n), (0, n))].
  Proof.
    intros Hn.
    assert (Hb : get_matching_blocks A same_key eq dflt a b = [(0, 0, n); (n, n, 0)]).
    { unfold get_matching_blocks. rewrite len_a, len_b. cbn [blocks_rec]. rewrite flm_eq_aligned.
      destruct n as [|k] eqn:En; [lia|]. rewrite <- En in *.
      change (0 <? 0) with false. cbn [andb]. rewrite Nat.add_0_l, Nat.ltb_irrefl. cbn [andb app collapse].
      cbn [Nat.add Nat.eqb andb]. cbn [collapse]. rewrite En. reflexivity. }
    split.
    - unfold get_opcodes. rewrite Hb. cbn [opcodes_from]. change (0 <? 0) with false. cbn [andb app].
      destruct n as [|k] eqn:En; [lia|]. rewrite !Nat.add_0_l. rewrite !Nat.ltb_irrefl. cbn [andb app]. reflexivity.
    - intros threshold. unfold insensitive_opcodes, insensitive_blocks. rewrite Hb, len_a, len_b, Nat.min_id.
      cbn [filter].
      assert (Hk : (threshold <? n) || (n <? 4 * n) || (n =? 0) = true).
      { destruct (Nat.ltb_spec n (4 * n)); [rewrite orb_true_r; reflexivity|lia]. }
      rewrite Hk. cbn [Nat.eqb]. rewrite !orb_true_r. cbn [opcodes_from]. change (0 <? 0) with false. cbn [andb app].
      destruct n as [|k] eqn:En; [lia|]. rewrite !Nat.add_0_l. rewrite !Nat.ltb_irrefl. cbn [andb app]. reflexivity.
  Qed.
End EqAligned.

(* Lemmas about the text/source diff model (property C05). *)
From Coq Require Import List NArith ZArith Bool String Lia.
From WMD Require Import Gen.Tables Lib.Str Lib.PyChars Model.Dmp.
Import ListNotations.
Open Scope N_scope.

(* the raw reconstruction on the library's own operation characters *)
Definition raw_old (d : list (N * str)) : str :=
  List.concat (map snd (filter (fun s => N.eqb (fst s) 61 || N.eqb (fst s) 45) d)).
Definition raw_new (d : list (N * str)) : str :=
  List.concat (map snd (filter (fun s => N.eqb (fst s) 61 || N.eqb (fst s) 43) d)).
Definition ops_ok (d : list (N * str)) : Prop :=
  Forall (fun s => fst s = 61 \/ fst s = 45 \/ fst s = 43) d.

Lemma codes_table :
  diff_code 61 = 0%Z /\ diff_code 45 = (-1)%Z /\ diff_code 43 = 1%Z.
Proof. repeat split; vm_compute; reflexivity. Qed.

Lemma old_side_map d :
  ops_ok d -> old_side (map (fun os => (diff_code (fst os), snd os)) d) = raw_old d.
Proof.
  destruct codes_table as [C0 [C1 C2]].
  unfold old_side, raw_old. induction 1 as [|[op s] d Hop Hd IH]; [reflexivity|].
  cbn [map filter fst snd]. cbn [fst] in Hop.
  unfold old_side, raw_old, new_side, raw_new in IH.
  destruct Hop as [->|[->| ->]]; rewrite ?C0, ?C1, ?C2; simpl; rewrite ?IH; reflexivity.
Qed.

Lemma new_side_map d :
  ops_ok d -> new_side (map (fun os => (diff_code (fst os), snd os)) d) = raw_new d.
Proof.
  destruct codes_table as [C0 [C1 C2]].
  unfold new_side, raw_new. induction 1 as [|[op s] d Hop Hd IH]; [reflexivity|].
  cbn [map filter fst snd]. cbn [fst] in Hop.
  unfold old_side, raw_old, new_side, raw_new in IH.
  destruct Hop as [->|[->| ->]]; rewrite ?C0, ?C1, ?C2; simpl; rewrite ?IH; reflexivity.
Qed.

Section Dmp.
  Variable dmp : str -> str -> list (N * str).
  (* contract of the diff-match-patch library (validated against it on every run) *)
  Hypothesis DMP0 : forall a b, ops_ok (dmp a b).
  Hypothesis DMP1 : forall a b, raw_old (dmp a b) = a /\ raw_new (dmp a b) = b.
  Hypothesis DMP2 : forall a, Forall (fun s => fst s = 61) (dmp a a).

  Lemma reconstruct a b :
    old_side (compute_dmp_diff dmp a b) = a /\ new_side (compute_dmp_diff dmp a b) = b.
  Proof.
    unfold compute_dmp_diff. rewrite old_side_map, new_side_map by apply DMP0. apply DMP1.
  Qed.

  Lemma all_equal_sides d :
    Forall (fun s => fst s = 0%Z) d -> old_side d = new_side d.
  Proof.
    unfold old_side, new_side. induction 1 as [|[c s] d Hc Hd IH]; [reflexivity|].
    cbn [fst] in Hc. subst c. cbn [filter fst Z.eqb orb map List.concat snd]. rewrite IH. reflexivity.
  Qed.

  Lemma count_zero_all_equal d :
    count_changes d = 0 -> Forall (fun s => fst s = 0%Z) d.
  Proof.
    unfold count_changes, nlen. induction d as [|[c s] d IH]; [constructor|].
    cbn [filter fst]. destruct (Z.eqb_spec c 0) as [->|Hne]; cbn [negb].
    - intros H. constructor; [reflexivity|apply IH, H].
    - cbn [List.length]. lia.
  Qed.

  Lemma count_zero_iff_equal a b :
    count_changes (compute_dmp_diff dmp a b) = 0 <-> a = b.
  Proof.
    split.
    - intros H. apply count_zero_all_equal, all_equal_sides in H.
      destruct (reconstruct a b) as [Ho Hn]. congruence.
    - intros <-. unfold compute_dmp_diff, count_changes, nlen.
      destruct codes_table as [C0 _].
      induction (DMP2 a) as [|[op s] d Hop Hd IH]; [reflexivity|].
      cbn [fst] in Hop. subst op. cbn [map filter fst]. rewrite C0. cbn [Z.eqb negb]. exact IH.
  Qed.

  Lemma source_diff_spec a b :
    let '(n, d) := html_source_diff dmp a b in
    old_side d = a /\ new_side d = b /\ n = count_changes d /\ (n = 0 <-> a = b).
  Proof.
    unfold html_source_diff. destruct (reconstruct a b) as [Ho Hn].
    repeat split; try assumption; apply count_zero_iff_equal.
  Qed.
End Dmp.

(* invisible content does not influence the visible text *)
Lemma visible_text_ignores_invisible pre n post :
  is_visible n = false -> get_visible_text (pre ++ n :: post) = get_visible_text (pre ++ post).
Proof.
  intros H. unfold get_visible_text. rewrite !filter_app. cbn [filter]. rewrite H. reflexivity.
Qed.

Lemma invisible_tags_documented :
  forallb (fun t => mem_str (s2l t) Tables.invisible_tags) ["script"; "style"; "title"; "head"; "[document]"]%string = true.
Proof. vm_compute. reflexivity. Qed.

(* html.escape emits no markup-significant character and is inverted by decoding its references. *)
From Coq Require Import List NArith Bool String Lia.
From WMD Require Import Lib.Str Lib.Escape.
Import ListNotations.
Open Scope N_scope.

Lemma escape_char_no_angle quote c : ~ In 60 (escape_char quote c) /\ ~ In 62 (escape_char quote c).
Proof.
  unfold escape_char.
  destruct (N.eqb_spec c 38); [split; vm_compute; intuition discriminate|].
  destruct (N.eqb_spec c 60); [split; vm_compute; intuition discriminate|].
  destruct (N.eqb_spec c 62); [split; vm_compute; intuition discriminate|].
  destruct (quote && N.eqb c 34); [split; vm_compute; intuition discriminate|].
  destruct (quote && N.eqb c 39); [split; vm_compute; intuition discriminate|].
  split; intros [H|[]]; congruence.
Qed.

Theorem escape_no_angle quote s : ~ In 60 (html_escape quote s) /\ ~ In 62 (html_escape quote s).
Proof.
  unfold html_escape. induction s as [|c s [IH1 IH2]]; cbn [flat_map]; [split; intros []|].
  destruct (escape_char_no_angle quote c) as [H1 H2].
  split; intros H; apply in_app_or in H as [H|H]; auto.
Qed.

(* with quote=True no double quote or apostrophe survives either: safe inside a quoted attribute *)
Lemma escape_char_no_quote c : ~ In 34 (escape_char true c) /\ ~ In 39 (escape_char true c).
Proof.
  unfold escape_char.
  destruct (N.eqb_spec c 38); [split; vm_compute; intuition discriminate|].
  destruct (N.eqb_spec c 60); [split; vm_compute; intuition discriminate|].
  destruct (N.eqb_spec c 62); [split; vm_compute; intuition discriminate|].
  cbn [andb].
  destruct (N.eqb_spec c 34); [split; vm_compute; intuition discriminate|].
  destruct (N.eqb_spec c 39); [split; vm_compute; intuition discriminate|].
  split; intros [H|[]]; congruence.
Qed.

Theorem escape_no_quote s : ~ In 34 (html_escape true s) /\ ~ In 39 (html_escape true s).
Proof.
  unfold html_escape. induction s as [|c s [IH1 IH2]]; cbn [flat_map]; [split; intros []|].
  destruct (escape_char_no_quote c) as [H1 H2].
  split; intros H; apply in_app_or in H as [H|H]; auto.
Qed.

Lemma escape_char_nonempty quote c : (1 <= List.length (escape_char quote c))%nat.
Proof.
  unfold escape_char.
  repeat match goal with |- context [if ?b then _ else _] => destruct b end; cbn; lia.
Qed.

Lemma html_escape_cons quote c s : html_escape quote (c :: s) = escape_char quote c ++ html_escape quote s.
Proof. reflexivity. Qed.

(* decoding the escaped string gives the original back, for both values of [quote] *)
Theorem unescape_escape quote s : forall fuel,
  (List.length (html_escape quote s) <= fuel)%nat -> unescape fuel (html_escape quote s) = s.
Proof.
  induction s as [|c s IH]; intros fuel Hf.
  - destruct fuel; reflexivity.
  - rewrite html_escape_cons in *. rewrite app_length in Hf.
    pose proof (escape_char_nonempty quote c) as Hn.
    destruct fuel as [|fuel]; [lia|].
    unfold escape_char in *.
    destruct (N.eqb_spec c 38) as [->|N1].
    { cbn [e_amp s2l app unescape N.eqb drop_prefix]. cbn. rewrite IH; [reflexivity|cbn in Hf; lia]. }
    destruct (N.eqb_spec c 60) as [->|N2].
    { cbn. rewrite IH; [reflexivity|cbn in Hf; lia]. }
    destruct (N.eqb_spec c 62) as [->|N3].
    { cbn. rewrite IH; [reflexivity|cbn in Hf; lia]. }
    destruct quote; cbn [andb].
    + destruct (N.eqb_spec c 34) as [->|N4].
      { cbn. rewrite IH; [reflexivity|cbn in Hf; lia]. }
      destruct (N.eqb_spec c 39) as [->|N5].
      { cbn. rewrite IH; [reflexivity|cbn in Hf; lia]. }
      cbn [app unescape]. destruct (N.eqb_spec c 38); [contradiction|]. rewrite IH; [reflexivity|cbn in Hf; lia].
    + cbn [app unescape]. destruct (N.eqb_spec c 38); [contradiction|]. rewrite IH; [reflexivity|cbn in Hf; lia].
Qed.

(* Lemmas about the conditional-request model (property C19). *)
From Coq Require Import List NArith Bool String Lia.
From WMD Require Import Gen.Tables Lib.Str Lib.PyChars Model.Server Model.Etag Proofs.ServerProofs.
Import ListNotations.
Open Scope N_scope.

(* check_etag_header answers true only if the first tag found in If-None-Match is the
   wildcard or some tag found equals the computed validator under weak comparison *)
Lemma check_etag_sound computed inm :
  check_etag_header computed inm = true ->
  computed <> [] /\
  exists hdr, inm = Some hdr /\
    let etags := find_etags (S (List.length hdr)) hdr in
    exists first rest, etags = first :: rest /\
      (first = [42] \/ exists e, In e etags /\ weak_val e = weak_val computed).
Proof.
  unfold check_etag_header.
  destruct inm as [hdr|].
  - destruct computed as [|c0 cs]; [discriminate|].
    destruct (find_etags (S (List.length hdr)) hdr) as [|first rest] eqn:Ef; [discriminate|].
    intros H. split; [discriminate|]. exists hdr. split; [reflexivity|]. cbv zeta. rewrite Ef.
    exists first, rest. split; [reflexivity|].
    destruct (str_eqb first [42]) eqn:E1.
    + left. apply str_eqb_eq, E1.
    + right. apply existsb_exists in H as [e [Hin He]]. exists e. split; [exact Hin|]. apply str_eqb_eq, He.
  - cbn [find_etags List.length]. destruct computed; discriminate.
Qed.

Lemma check_etag_complete computed hdr e :
  computed <> [] ->
  In e (find_etags (S (List.length hdr)) hdr) -> weak_val e = weak_val computed ->
  check_etag_header computed (Some hdr) = true.
Proof.
  unfold check_etag_header. intros Hc Hin He.
  destruct computed as [|c0 cs]; [congruence|].
  destruct (find_etags (S (List.length hdr)) hdr) as [|first rest] eqn:Ef; [destruct Hin|].
  destruct (str_eqb first [42]); [reflexivity|].
  apply existsb_exists. exists e. split; [exact Hin|]. apply str_eqb_eq, He.
Qed.

(* no If-None-Match, or one without any tag: never 304 *)
Lemma check_etag_absent computed : check_etag_header computed None = false.
Proof. unfold check_etag_header. cbn. destruct computed; reflexivity. Qed.

(* the validator is a function of (version, path, effective parameters) only *)
Lemma etag_repeatable version path raw raw' :
  decode_query_params raw = decode_query_params raw' ->
  etag_preimage version path raw = etag_preimage version path raw'.
Proof. unfold etag_preimage. intros ->. reflexivity. Qed.

(* --- distinctness of pre-images ----------------------------------------- *)
(* the path (a slash and the differ name) contains no opening brace, the dict repr starts with one *)
Fixpoint split_at_brace (s : str) : str * str :=
  match s with
  | [] => ([], [])
  | c :: s' => if N.eqb c 123 then ([], s) else let (a, b) := split_at_brace s' in (c :: a, b)
  end.

Lemma split_at_brace_app p rest :
  ~ In 123 p -> split_at_brace (p ++ 123 :: rest) = (p, 123 :: rest).
Proof.
  induction p as [|c p IH]; cbn [app split_at_brace]; intros Hn.
  - rewrite N.eqb_refl. reflexivity.
  - destruct (N.eqb_spec c 123) as [->|Hne]; [exfalso; apply Hn; left; reflexivity|].
    rewrite IH; [reflexivity|]. intros Hin. apply Hn. right. exact Hin.
Qed.

Lemma preimage_split version path path' d d' :
  ~ In 123 path -> ~ In 123 path' ->
  version ++ path ++ py_repr_dict d = version ++ path' ++ py_repr_dict d' ->
  path = path' /\ py_repr_dict d = py_repr_dict d'.
Proof.
  intros Hp Hp' H. apply app_inv_head in H.
  unfold py_repr_dict in *.
  pose proof (split_at_brace_app path (repr_items d ++ [125]) Hp) as S1.
  pose proof (split_at_brace_app path' (repr_items d' ++ [125]) Hp') as S2.
  rewrite H in S1. rewrite S1 in S2. injection S2 as -> E. split; [reflexivity|rewrite E; reflexivity].
Qed.

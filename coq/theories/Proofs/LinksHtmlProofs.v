(* The links HTML view read back: tokenizing the string that the model of prettify() produces
   gives exactly the tags of the tree and its (escaped) strings - no string of the page can
   open a tag, close a cell or break out of an attribute. *)
From Coq Require Import List NArith ZArith Arith Bool String Lia.
From WMD Require Import Gen.Tables Lib.Str Lib.PyChars Lib.Escape Model.LinksHtml Proofs.EscapeProofs.
Import ListNotations.
Open Scope N_scope.

(* ------------------------------------------------------------------ running the tokenizer over a prefix *)
Fixpoint lfold (st : lstate) (s : str) : lstate * list tok :=
  match s with
  | [] => (st, [])
  | c :: s' => let '(st', out) := lstep st c in let '(st'', out') := lfold st' s' in (st'', out ++ out')
  end.

Lemma lrun_app s1 : forall st s2,
  lrun st (s1 ++ s2) = (let '(st', out) := lfold st s1 in out ++ lrun st' s2).
Proof.
  induction s1 as [|c s1 IH]; intros st s2; cbn [app lfold lrun]; [reflexivity|].
  destruct (lstep st c) as [st1 o1]. rewrite IH. destruct (lfold st1 s1) as [st2 o2]. rewrite app_assoc. reflexivity.
Qed.

Lemma lfold_app s1 : forall st s2,
  lfold st (s1 ++ s2) = (let '(st', out) := lfold st s1 in let '(st'', out') := lfold st' s2 in (st'', out ++ out')).
Proof.
  induction s1 as [|c s1 IH]; intros st s2; cbn [app lfold].
  - destruct (lfold st s2). reflexivity.
  - destruct (lstep st c) as [st1 o1]. rewrite IH. destruct (lfold st1 s1) as [st2 o2].
    destruct (lfold st2 s2) as [st3 o3]. rewrite app_assoc. reflexivity.
Qed.

Definition no_lt (s : str) : Prop := ~ In 60 s.

(* character data without "<" only accumulates *)
Lemma lfold_data t : forall acc, no_lt t -> lfold (SData acc) t = (SData (rev t ++ acc), []).
Proof.
  induction t as [|c t IH]; intros acc H; cbn [lfold rev app]; [reflexivity|].
  cbn [lstep]. destruct (N.eqb_spec c 60) as [->|Hne]; [exfalso; apply H; left; reflexivity|].
  rewrite IH by (intros Hin; apply H; right; exact Hin). rewrite <- app_assoc. reflexivity.
Qed.

(* ------------------------------------------------------------------ well-formed names and attributes *)
Definition safe_char (c : N) : bool :=
  negb (N.eqb c 32 || N.eqb c 47 || N.eqb c 62 || N.eqb c 61 || N.eqb c 33 || N.eqb c 60 || N.eqb c 34 || N.eqb c 39).
Definition name_ok (n : str) : Prop := n <> [] /\ forallb safe_char n = true.
Definition attrs_ok (a : list (str * str)) : Prop := Forall (fun kv => name_ok (fst kv)) a.

Lemma safe_char_facts c : safe_char c = true ->
  N.eqb c 32 = false /\ N.eqb c 47 = false /\ N.eqb c 62 = false /\ N.eqb c 61 = false /\ N.eqb c 33 = false /\ N.eqb c 60 = false.
Proof.
  unfold safe_char. intros H. apply negb_true_iff in H.
  repeat (apply orb_false_iff in H; destruct H as [H ?]). repeat split; assumption.
Qed.

Lemma lfold_start_name n : forall acc, forallb safe_char n = true ->
  lfold (SStartName acc) n = (SStartName (rev n ++ acc), []).
Proof.
  induction n as [|c n IH]; intros acc H; cbn [lfold rev app]; [reflexivity|].
  cbn [forallb] in H. apply andb_true_iff in H as [Hc Hn]. destruct (safe_char_facts c Hc) as (F1 & F2 & F3 & _).
  cbn [lstep]. rewrite F3, F1, F2. rewrite IH by exact Hn. rewrite <- app_assoc. reflexivity.
Qed.

Lemma lfold_end_name n : forall acc, forallb safe_char n = true ->
  lfold (SEndName acc) n = (SEndName (rev n ++ acc), []).
Proof.
  induction n as [|c n IH]; intros acc H; cbn [lfold rev app]; [reflexivity|].
  cbn [forallb] in H. apply andb_true_iff in H as [Hc Hn]. destruct (safe_char_facts c Hc) as (_ & _ & F3 & _).
  cbn [lstep]. rewrite F3. rewrite IH by exact Hn. rewrite <- app_assoc. reflexivity.
Qed.

Lemma lfold_attr_name k : forall name attrs acc, forallb safe_char k = true ->
  lfold (SAttrName name attrs acc) k = (SAttrName name attrs (rev k ++ acc), []).
Proof.
  induction k as [|c k IH]; intros name attrs acc H; cbn [lfold rev app]; [reflexivity|].
  cbn [forallb] in H. apply andb_true_iff in H as [Hc Hn]. destruct (safe_char_facts c Hc) as (_ & _ & _ & F4 & _).
  cbn [lstep]. rewrite F4. rewrite IH by exact Hn. rewrite <- app_assoc. reflexivity.
Qed.

Lemma lfold_attr_val v : forall q name attrs key acc, ~ In q v ->
  lfold (SAttrVal q name attrs key acc) v = (SAttrVal q name attrs key (rev v ++ acc), []).
Proof.
  induction v as [|c v IH]; intros q name attrs key acc H; cbn [lfold rev app]; [reflexivity|].
  cbn [lstep]. destruct (N.eqb_spec c q) as [->|Hne]; [exfalso; apply H; left; reflexivity|].
  rewrite IH by (intros Hin; apply H; right; exact Hin). rewrite <- app_assoc. reflexivity.
Qed.

(* ------------------------------------------------------------------ attribute values *)
Lemma has_char_false c s : has_char c s = false -> ~ In c s.
Proof.
  unfold has_char. intros H Hin. assert (E : existsb (N.eqb c) s = true) by (apply existsb_exists; exists c; split; [exact Hin|apply N.eqb_refl]).
  congruence.
Qed.

Lemma replace_dq_no_dq s : ~ In 34 (replace_dq s).
Proof.
  unfold replace_dq. induction s as [|c s IH]; cbn [flat_map]; [intros []|].
  intros H. apply in_app_or in H as [H|H]; [|exact (IH H)].
  destruct (N.eqb_spec c 34) as [->|Hne].
  - vm_compute in H. repeat (destruct H as [H|H]; [discriminate H|]). exact H.
  - destruct H as [H|[]]. congruence.
Qed.

Lemma attr_body_no_quote e : ~ In (attr_quote e) (attr_body e).
Proof.
  unfold attr_quote, attr_body.
  destruct (has_char 34 e) eqn:E1; destruct (has_char 39 e) eqn:E2; cbn [andb].
  - apply replace_dq_no_dq.
  - apply has_char_false, E2.
  - apply has_char_false, E1.
  - apply has_char_false, E1.
Qed.

Lemma attr_quote_is_quote e : N.eqb (attr_quote e) 34 || N.eqb (attr_quote e) 39 = true.
Proof. unfold attr_quote. destruct (has_char 34 e); [destruct (has_char 39 e)|]; reflexivity. Qed.

Definition lex_attr (kv : str * str) : str * str := (fst kv, attr_body (html_escape false (snd kv))).

(* one attribute " key=<q>body<q>" read from the before-attribute state *)
Lemma lfold_attr name attrs kv :
  name_ok (fst kv) ->
  lfold (SBeforeAttr name attrs) (32 :: render_attr kv) = (SBeforeAttr name (lex_attr kv :: attrs), []).
Proof.
  intros [Hne Hk]. destruct kv as [k v]. cbn [fst snd] in *. unfold render_attr, lex_attr. cbn [fst snd].
  destruct k as [|c k]; [congruence|]. cbn [forallb] in Hk. apply andb_true_iff in Hk as [Hc Hk].
  destruct (safe_char_facts c Hc) as (F1 & F2 & F3 & F4 & _).
  cbn [lfold lstep app]. change (N.eqb 32 62) with false. change (N.eqb 32 32) with true. cbv iota.
  unfold lstep at 1. rewrite F3, F1, F2.
  set (e := html_escape false v). unfold quoted_attr_value.
  rewrite lfold_app. rewrite (lfold_attr_name k name attrs [c] Hk).
  cbn [app lfold]. unfold lstep at 1. rewrite N.eqb_refl.
  pose proof (attr_quote_is_quote e) as Hq. unfold lstep at 1. rewrite Hq.
  rewrite lfold_app. rewrite (lfold_attr_val (attr_body e) (attr_quote e) name attrs _ [] (attr_body_no_quote e)).
  cbn [lfold]. unfold lstep at 1. rewrite N.eqb_refl. rewrite app_nil_r, rev_involutive.
  replace (rev (rev k ++ [c])) with (c :: k) by (rewrite rev_app_distr, rev_involutive; reflexivity).
  reflexivity.
Qed.

Lemma lfold_attrs a : forall name attrs, attrs_ok a ->
  lfold (SBeforeAttr name attrs) (render_attrs a) = (SBeforeAttr name (rev (map lex_attr a) ++ attrs), []).
Proof.
  induction a as [|kv a IH]; intros name attrs H; [reflexivity|].
  inversion H as [|? ? Hkv Ha]; subst. unfold render_attrs. cbn [flat_map]. fold (render_attrs a).
  change ((32 :: render_attr kv) ++ render_attrs a) with ((32 :: render_attr kv) ++ render_attrs a).
  rewrite lfold_app. rewrite (lfold_attr name attrs kv Hkv). rewrite (IH name _ Ha).
  cbn [map rev]. rewrite <- app_assoc. reflexivity.
Qed.

(* ------------------------------------------------------------------ whole tags *)
Lemma start_to_before acc rest : lfold (SStartName acc) (32 :: rest) = lfold (SBeforeAttr (rev acc) []) (32 :: rest).
Proof. cbn [lfold]. unfold lstep at 1 2. change (N.eqb 32 62) with false. change (N.eqb 32 32) with true. reflexivity. Qed.

Lemma render_attrs_cons kv a : render_attrs (kv :: a) = 32 :: render_attr kv ++ render_attrs a.
Proof. reflexivity. Qed.

Lemma lfold_name_attrs n a : name_ok n -> attrs_ok a ->
  lfold STagOpen (n ++ render_attrs a) =
  (match a with [] => SStartName (rev n) | _ => SBeforeAttr n (rev (map lex_attr a)) end, []).
Proof.
  intros [Hne Hn] Ha. destruct n as [|c n]; [congruence|].
  cbn [forallb] in Hn. apply andb_true_iff in Hn as [Hc Hn].
  destruct (safe_char_facts c Hc) as (F1 & F2 & F3 & F4 & F5 & F6).
  cbn [app lfold]. unfold lstep at 1. rewrite F5, F2.
  rewrite lfold_app. rewrite (lfold_start_name n [c] Hn).
  destruct a as [|kv a].
  - cbn [render_attrs flat_map lfold]. cbn [rev]. reflexivity.
  - rewrite render_attrs_cons. rewrite start_to_before.
    change (32 :: render_attr kv ++ render_attrs a) with (render_attrs (kv :: a)).
    rewrite (lfold_attrs (kv :: a) _ [] Ha). rewrite app_nil_r.
    replace (rev (rev n ++ [c])) with (c :: n) by (rewrite rev_app_distr, rev_involutive; reflexivity).
    reflexivity.
Qed.

Lemma lfold_start_tag acc n a : name_ok n -> attrs_ok a ->
  lfold (SData acc) (start_tag_str n a) = (SData [], flush_text acc ++ [TStart n (map lex_attr a)]).
Proof.
  intros Hn Ha. unfold start_tag_str. cbn [app lfold]. unfold lstep at 1. rewrite N.eqb_refl.
  rewrite app_assoc. rewrite lfold_app. rewrite (lfold_name_attrs n a Hn Ha).
  destruct a as [|kv a]; cbn [lfold]; unfold lstep at 1; rewrite N.eqb_refl.
  - rewrite rev_involutive. rewrite app_nil_r. reflexivity.
  - rewrite rev_involutive. rewrite app_nil_r. reflexivity.
Qed.

Lemma lfold_void_tag acc n a : name_ok n -> attrs_ok a ->
  lfold (SData acc) (void_tag_str n a) = (SData [], flush_text acc ++ [TVoid n (map lex_attr a)]).
Proof.
  intros Hn Ha. unfold void_tag_str. cbn [app lfold]. unfold lstep at 1. rewrite N.eqb_refl.
  rewrite app_assoc. rewrite lfold_app. rewrite (lfold_name_attrs n a Hn Ha).
  destruct a as [|kv a]; cbn [lfold]; unfold lstep at 1 2.
  - change (N.eqb 47 62) with false. change (N.eqb 47 32) with false. change (N.eqb 47 47) with true. cbv iota.
    rewrite N.eqb_refl. rewrite rev_involutive. reflexivity.
  - change (N.eqb 47 62) with false. change (N.eqb 47 32) with false. change (N.eqb 47 47) with true. cbv iota.
    rewrite N.eqb_refl. rewrite rev_involutive. reflexivity.
Qed.

Lemma lfold_end_tag acc n : name_ok n ->
  lfold (SData acc) (end_tag_str n) = (SData [], flush_text acc ++ [TEnd n]).
Proof.
  intros [Hne Hn]. unfold end_tag_str. cbn [app lfold]. unfold lstep at 1 2. rewrite N.eqb_refl.
  change (N.eqb 47 33) with false. change (N.eqb 47 47) with true. cbv iota.
  rewrite lfold_app. rewrite (lfold_end_name n [] Hn). cbn [lfold]. unfold lstep at 1. rewrite N.eqb_refl.
  rewrite !app_nil_r, rev_involutive. reflexivity.
Qed.

(* ------------------------------------------------------------------ whitespace *)
Lemma squash_app a b : squash (a ++ b) = squash a ++ squash b.
Proof. unfold squash. apply filter_app. Qed.

Lemma squash_rev s : squash (rev s) = rev (squash s).
Proof.
  induction s as [|c s IH]; [reflexivity|]. cbn [rev]. rewrite squash_app, IH. unfold squash at 2 3. cbn [filter].
  destruct (negb (py_isspace c)); [reflexivity|]. cbn [rev app]. rewrite app_nil_r. reflexivity.
Qed.

Lemma squash_lstrip s : squash (py_lstrip s) = squash s.
Proof.
  unfold py_lstrip. induction s as [|c s IH]; [reflexivity|]. cbn [lstrip].
  destruct (py_isspace c) eqn:E; [|reflexivity]. rewrite IH. unfold squash. cbn [filter]. rewrite E. reflexivity.
Qed.

Lemma squash_strip s : squash (py_strip s) = squash s.
Proof.
  unfold py_strip, strip, rstrip. rewrite squash_rev. fold (py_lstrip (rev (lstrip py_isspace s))).
  rewrite squash_lstrip, squash_rev, rev_involutive. apply squash_lstrip.
Qed.

Lemma squash_spaces n : squash (repeat 32 n) = [].
Proof. induction n as [|n IH]; [reflexivity|]. cbn [repeat]. unfold squash in *. cbn [filter]. exact IH. Qed.

Lemma squash_nl : squash [10] = [].
Proof. reflexivity. Qed.

Lemma lstrip_incl c s : In c (lstrip py_isspace s) -> In c s.
Proof.
  induction s as [|x s IH]; cbn [lstrip]; [intros []|].
  destruct (py_isspace x); [intros H; right; apply IH, H|intros H; exact H].
Qed.

Lemma strip_incl c s : In c (py_strip s) -> In c s.
Proof.
  unfold py_strip, strip, rstrip. intros H. apply in_rev in H. apply lstrip_incl in H. apply in_rev in H.
  apply lstrip_incl, H.
Qed.

Lemma no_lt_spaces n : no_lt (repeat 32 n).
Proof. intros H. apply repeat_spec in H. discriminate H. Qed.

(* ------------------------------------------------------------------ prettify read back *)
Definition emit (acc : str) : list tok := match acc with [] => [] | _ => [TText acc] end.

Lemma clean_app l1 l2 : clean (l1 ++ l2) = clean l1 ++ clean l2.
Proof. unfold clean. apply flat_map_app. Qed.

Lemma clean_flush acc : clean (flush_text acc) = emit (squash (rev acc)).
Proof.
  destruct acc as [|c acc]; [reflexivity|]. unfold flush_text. cbn [clean flat_map clean_tok]. rewrite app_nil_r.
  unfold emit. destruct (squash (rev (c :: acc))); reflexivity.
Qed.

Definition event_ok (ev : event) : Prop :=
  match ev with
  | EvStart n a | EvVoid n a => name_ok n /\ attrs_ok a
  | EvEnd n => name_ok n
  | EvText p => no_lt p
  end.

Definition is_tag_tok (t : tok) : Prop := match t with TText _ => False | _ => True end.

Lemma piece_tag acc level tagstr t rest :
  (forall acc0, lfold (SData acc0) tagstr = (SData [], flush_text acc0 ++ [t])) -> is_tag_tok t ->
  clean (lrun (SData acc) (indent level tagstr ++ rest)) =
  emit (squash (rev acc)) ++ t :: clean (lrun (SData [10]) rest).
Proof.
  intros Htag Ht. unfold indent. rewrite <- !app_assoc. rewrite lrun_app.
  rewrite (lfold_data (repeat 32 level) acc (no_lt_spaces level)). cbn [app].
  rewrite lrun_app. rewrite Htag. cbn [app]. rewrite <- app_assoc.
  rewrite clean_app, clean_flush. f_equal.
  - rewrite rev_app_distr, rev_involutive, squash_app, squash_spaces, app_nil_r. reflexivity.
  - cbn [app lrun]. unfold lstep at 1. change (N.eqb 10 60) with false. cbv iota. cbn [app].
    destruct t; try contradiction; reflexivity.
Qed.

Theorem lex_pretty evs : forall level acc, Forall event_ok evs ->
  clean (lrun (SData acc) (pretty evs level)) = sem_events evs (squash (rev acc)).
Proof.
  induction evs as [|ev evs IH]; intros level acc Hok.
  - cbn [pretty lrun sem_events]. rewrite clean_flush. reflexivity.
  - inversion Hok as [|? ? Hev Hrest]; subst. destruct ev as [n a|n|n a|p]; cbn [pretty sem_events].
    + destruct Hev as [Hn Ha].
      rewrite (piece_tag acc level _ (TStart n (map lex_attr a)) _ (fun acc0 => lfold_start_tag acc0 n a Hn Ha) I).
      rewrite (IH (S level) [10] Hrest). reflexivity.
    + rewrite (piece_tag acc (level - 1) _ (TEnd n) _ (fun acc0 => lfold_end_tag acc0 n Hev) I).
      rewrite (IH (level - 1)%nat [10] Hrest). reflexivity.
    + destruct Hev as [Hn Ha].
      rewrite (piece_tag acc level _ (TVoid n (map lex_attr a)) _ (fun acc0 => lfold_void_tag acc0 n a Hn Ha) I).
      rewrite (IH level [10] Hrest). reflexivity.
    + cbn [event_ok] in Hev.
      destruct (py_strip p) as [|c p'] eqn:E.
      * cbn [app]. rewrite (IH level acc Hrest). rewrite <- (squash_strip p), E. cbn. rewrite app_nil_r. reflexivity.
      * rewrite <- E. unfold indent.
        assert (Hnl : no_lt (repeat 32 level ++ py_strip p ++ [10])).
        { intros H. apply in_app_or in H as [H|H]; [exact (no_lt_spaces level H)|].
          apply in_app_or in H as [H|H]; [apply Hev, (strip_incl _ _ H)|]. destruct H as [H|[]]. discriminate H. }
        rewrite lrun_app. rewrite (lfold_data _ acc Hnl). cbn [app].
        rewrite (IH level _ Hrest). f_equal.
        rewrite rev_app_distr, rev_involutive. rewrite !squash_app, squash_spaces, squash_strip, squash_nl, app_nil_r.
        reflexivity.
Qed.

(* the whole document: doctype, then the tree *)
Theorem read_back t : Forall event_ok (events t) ->
  clean (lex (prettify_doc t)) = TDecl (s2l "DOCTYPE html") :: sem_events (events t) [].
Proof.
  intros Hok. unfold lex, prettify_doc. rewrite lrun_app.
  change (lfold (SData []) doctype) with (SData [], [TDecl (s2l "DOCTYPE html")]).
  cbn [app lrun]. unfold lstep at 1. change (N.eqb 10 60) with false. cbv iota. cbn [app].
  cbn [clean flat_map clean_tok app]. f_equal. exact (lex_pretty (events t) 0%nat [10] Hok).
Qed.

(* ------------------------------------------------------------------ the links document is well formed *)
Ltac name_ok_tac := split; [discriminate|vm_compute; reflexivity].

Lemma escape_no_lt s : no_lt (html_escape false s).
Proof. exact (proj1 (escape_no_angle false s)). Qed.

Lemma attrs_ok_cls c : attrs_ok [cls c] .
Proof. constructor; [|constructor]. name_ok_tac. Qed.

Lemma marker_events_ok name t : name_ok (s2l name) -> Forall event_ok (events (marker name t)).
Proof.
  intros Hn. cbn [marker el events flat_map app].
  constructor; [split; [exact Hn|apply attrs_ok_cls]|]. constructor; [apply escape_no_lt|]. constructor; [exact Hn|constructor].
Qed.

Lemma text_diff_events_ok d : Forall event_ok (flat_map events (nodes_for_text_diff d)).
Proof.
  induction d as [|[c t] d IH]; [constructor|]. cbn [nodes_for_text_diff map flat_map fst snd].
  apply Forall_app. split; [|exact IH].
  destruct (Z.eqb c (-1)); [apply marker_events_ok; name_ok_tac|].
  destruct (Z.eqb c 1); [apply marker_events_ok; name_ok_tac|].
  cbn [events]. constructor; [apply escape_no_lt|constructor].
Qed.

Lemma Forall_flat_map {A B} (P : B -> Prop) (f : A -> list B) l : (forall x, In x l -> Forall P (f x)) -> Forall P (flat_map f l).
Proof.
  induction l as [|x l IH]; intros H; cbn [flat_map]; [constructor|].
  apply Forall_app. split; [apply H; left; reflexivity|apply IH; intros y Hy; apply H; right; exact Hy].
Qed.

Lemma insert_attr_ok kv l : name_ok (fst kv) -> attrs_ok l -> attrs_ok (insert_attr kv l).
Proof.
  intros Hk Hl. induction Hl as [|x l Hx Hl IH]; cbn [insert_attr]; [constructor; [exact Hk|constructor]|].
  destruct (key_ltb (fst kv) (fst x)); constructor; try assumption. constructor; assumption.
Qed.

Lemma sort_attrs_ok l : attrs_ok l -> attrs_ok (sort_attrs l).
Proof. induction 1 as [|x l Hx Hl IH]; cbn [sort_attrs fold_right]; [constructor|apply insert_attr_ok; assumption]. Qed.

Lemma row_attrs_ok code : attrs_ok (row_attrs code).
Proof.
  unfold row_attrs. apply sort_attrs_ok. constructor; [name_ok_tac|].
  unfold Tables.row_flags. cbn [flat_map snd fst].
  repeat match goal with |- context [if ?b then _ else _] => destruct b end; cbn [app];
    repeat (constructor; [name_ok_tac|]); constructor.
Qed.

(* the class is the first attribute written, whatever the flags *)
Lemma row_attrs_head code : exists rest, row_attrs code = cls "links-list--item" :: rest.
Proof.
  unfold row_attrs, Tables.row_flags. cbn [flat_map snd fst].
  repeat match goal with |- context [if ?b then _ else _] => destruct b end; vm_compute; eexists; reflexivity.
Qed.

Lemma row_events_ok e : Forall event_ok (events (row_for e)).
Proof.
  unfold row_for. cbn [el events flat_map]. constructor; [split; [name_ok_tac|apply row_attrs_ok]|].
  rewrite app_nil_r. repeat (apply Forall_app; split); try (constructor; [name_ok_tac|constructor]).
  - (* change cell *)
    unfold change_cell. destruct (change_info (entry_code e)) as [symbol title]. cbn [el events flat_map app].
    constructor.
    + split; [name_ok_tac|]. constructor; [name_ok_tac|]. destruct title; [constructor; [name_ok_tac|constructor]|constructor].
    + constructor; [apply escape_no_lt|]. constructor; [name_ok_tac|constructor].
  - (* text cell *)
    unfold text_cell. cbn [el events]. constructor; [split; [name_ok_tac|apply attrs_ok_cls]|].
    apply Forall_app. split; [|constructor; [name_ok_tac|constructor]].
    destruct e as [c text href|td hd old new].
    + cbn [flat_map events app]. constructor; [apply escape_no_lt|constructor].
    + rewrite flat_map_app. apply Forall_app. split; [apply text_diff_events_ok|].
      destruct (Nat.eqb (List.length td) 1); [constructor|]. cbn [flat_map void events app].
      constructor; [split; [name_ok_tac|constructor]|apply text_diff_events_ok].
  - (* href cell *)
    unfold href_cell. cbn [el events]. constructor; [split; [name_ok_tac|apply attrs_ok_cls]|].
    apply Forall_app. split; [|constructor; [name_ok_tac|constructor]].
    assert (Hlink : forall url d, Forall event_ok (events (href_link url (paren_l :: nodes_for_text_diff d ++ [paren_r])))).
    { intros url d. unfold href_link. cbn [el events]. constructor; [split; [name_ok_tac|constructor; [name_ok_tac|constructor]]|].
      apply Forall_app. split; [|constructor; [name_ok_tac|constructor]].
      cbn [flat_map paren_l events app]. constructor; [apply escape_no_lt|].
      rewrite flat_map_app. apply Forall_app. split; [apply text_diff_events_ok|].
      cbn [flat_map paren_r events app]. constructor; [apply escape_no_lt|constructor]. }
    destruct e as [c text href|td hd old new].
    + cbn [flat_map app]. rewrite app_nil_r. unfold href_link. cbn [el events flat_map app].
      constructor; [split; [name_ok_tac|constructor; [name_ok_tac|constructor]]|].
      constructor; [apply escape_no_lt|]. constructor; [name_ok_tac|constructor].
    + cbn [flat_map]. apply Forall_app. split; [apply Hlink|].
      destruct (str_eqb old new); [constructor|]. cbn [flat_map void events app]. rewrite app_nil_r.
      constructor; [split; [name_ok_tac|constructor]|apply Hlink].
Qed.

Definition template_clean (tmpl : list (N * str)) : bool := forallb (fun p => negb (has_char 60 (snd p))) tmpl.

Lemma fill_template_no_lt tmpl ic dc : template_clean tmpl = true -> no_lt ic -> no_lt dc -> no_lt (fill_template tmpl ic dc).
Proof.
  intros Ht Hi Hd. unfold fill_template, template_clean in *. induction tmpl as [|[k s] tmpl IH]; [intros []|].
  cbn [forallb snd] in Ht. apply andb_true_iff in Ht as [Hs Ht]. cbn [flat_map fst snd].
  intros H. apply in_app_or in H as [H|H]; [|exact (IH Ht H)].
  destruct (N.eqb k 1); [exact (Hi H)|]. destruct (N.eqb k 2); [exact (Hd H)|].
  apply negb_true_iff in Hs. exact (has_char_false 60 s Hs H).
Qed.

Lemma links_css_template_clean : template_clean Tables.links_css_template = true.
Proof. vm_compute. reflexivity. Qed.

Definition doc_prefix (title ic dc : str) : list event :=
  [EvStart (s2l "html") []; EvStart (s2l "head") [];
   EvVoid (s2l "meta") [(s2l "charset", s2l "utf-8")];
   EvStart (s2l "title") []; EvText (html_escape false title); EvEnd (s2l "title");
   EvStart (s2l "style") [(s2l "id", s2l "wm-diff-style"); (s2l "type", s2l "text/css")];
   EvText (fill_template Tables.links_css_template ic dc); EvEnd (s2l "style");
   EvEnd (s2l "head"); EvStart (s2l "body") [];
   EvStart (s2l "table") [cls "links-list"];
   EvVoid (s2l "col") [cls "links-list--change-type-col"]; EvVoid (s2l "col") [cls "links-list--text-col"];
   EvVoid (s2l "col") [cls "links-list--href-col"];
   EvStart (s2l "thead") []; EvStart (s2l "tr") [];
   EvStart (s2l "th") []; EvEnd (s2l "th");
   EvStart (s2l "th") []; EvText (html_escape false (s2l "Link Text")); EvEnd (s2l "th");
   EvStart (s2l "th") []; EvText (html_escape false (s2l "URL")); EvEnd (s2l "th");
   EvEnd (s2l "tr"); EvEnd (s2l "thead"); EvStart (s2l "tbody") []].
Definition doc_suffix : list event :=
  [EvEnd (s2l "tbody"); EvEnd (s2l "table"); EvEnd (s2l "body"); EvEnd (s2l "html")].

Lemma doc_events title ic dc entries :
  events (links_document title ic dc entries) =
  doc_prefix title ic dc ++ flat_map events (map row_for entries) ++ doc_suffix.
Proof.
  unfold links_document, links_table, doc_prefix, doc_suffix. cbn [el void events flat_map app].
  rewrite ?app_nil_r. rewrite <- ?app_assoc. cbn [app]. reflexivity.
Qed.

Lemma doc_prefix_ok title ic dc : no_lt ic -> no_lt dc -> Forall event_ok (doc_prefix title ic dc).
Proof.
  intros Hi Hd. unfold doc_prefix.
  repeat (apply Forall_cons; [first
    [ apply escape_no_lt
    | apply fill_template_no_lt; [apply links_css_template_clean|exact Hi|exact Hd]
    | name_ok_tac
    | split; [name_ok_tac|repeat (apply Forall_cons; [name_ok_tac|]); apply Forall_nil] ]|]).
  apply Forall_nil.
Qed.

Theorem links_document_ok title ic dc entries : no_lt ic -> no_lt dc ->
  Forall event_ok (events (links_document title ic dc entries)).
Proof.
  intros Hi Hd. rewrite doc_events. apply Forall_app. split; [apply doc_prefix_ok; assumption|].
  apply Forall_app. split.
  - apply Forall_flat_map. intros x Hx. apply in_map_iff in Hx as [e [<- _]]. apply row_events_ok.
  - unfold doc_suffix. repeat (apply Forall_cons; [name_ok_tac|]). apply Forall_nil.
Qed.

(* ------------------------------------------------------------------ the token stream, row by row *)
Definition is_tag_ev (ev : event) : Prop := match ev with EvText _ => False | _ => True end.

Lemma sem_events_cut evs : forall ev rest acc, is_tag_ev ev ->
  sem_events (evs ++ ev :: rest) acc = sem_events (evs ++ [ev]) acc ++ sem_events rest [].
Proof.
  induction evs as [|x evs IH]; intros ev rest acc Hev.
  - cbn [app]. destruct ev; try contradiction; cbn [sem_events]; rewrite <- app_assoc; reflexivity.
  - cbn [app]. destruct x; cbn [sem_events]; rewrite (IH ev rest _ Hev); try reflexivity;
      rewrite <- app_assoc; reflexivity.
Qed.

Lemma events_el name attrs children :
  events (HEl name attrs children) = (EvStart name attrs :: flat_map events children) ++ [EvEnd name].
Proof. reflexivity. Qed.

Definition row_tokens (e : hentry) : list tok := sem_events (events (row_for e)) [].

Lemma rows_tokens entries : forall rest,
  sem_events (flat_map events (map row_for entries) ++ rest) [] = flat_map row_tokens entries ++ sem_events rest [].
Proof.
  induction entries as [|e entries IH]; intros rest; [reflexivity|].
  cbn [map flat_map]. rewrite <- app_assoc. unfold row_for at 1, el at 1. rewrite events_el. rewrite <- app_assoc.
  cbn [app]. rewrite app_comm_cons. rewrite (sem_events_cut _ (EvEnd (s2l "tr")) _ [] I). rewrite IH.
  rewrite <- app_assoc. reflexivity.
Qed.

(* reading the returned document back: the fixed head and table header, then exactly one group of
   tokens per entry, in order, then the closing tags *)
Theorem links_view_tokens title ic dc entries : no_lt ic -> no_lt dc ->
  clean (lex (links_html title ic dc entries)) =
  TDecl (s2l "DOCTYPE html") :: sem_events (doc_prefix title ic dc) [] ++ flat_map row_tokens entries ++ sem_events doc_suffix [].
Proof.
  intros Hi Hd. unfold links_html. rewrite (read_back _ (links_document_ok title ic dc entries Hi Hd)). f_equal.
  rewrite doc_events.
  change (doc_prefix title ic dc) with (removelast (doc_prefix title ic dc) ++ [EvStart (s2l "tbody") []]).
  rewrite <- app_assoc. cbn [app]. rewrite (sem_events_cut _ (EvStart (s2l "tbody") []) _ [] I).
  rewrite rows_tokens. reflexivity.
Qed.

(* ------------------------------------------------------------------ what one row shows *)
Lemma squash_escape s : squash (html_escape false s) = html_escape false (squash s).
Proof.
  induction s as [|c s IH]; [reflexivity|]. rewrite html_escape_cons, squash_app, IH.
  unfold squash at 3. cbn [filter]. fold (squash s).
  destruct (py_isspace c) eqn:E; cbn [negb].
  - unfold escape_char. cbn [andb].
    destruct (N.eqb_spec c 38) as [->|]; [vm_compute in E; discriminate E|].
    destruct (N.eqb_spec c 60) as [->|]; [vm_compute in E; discriminate E|].
    destruct (N.eqb_spec c 62) as [->|]; [vm_compute in E; discriminate E|].
    unfold squash at 1. cbn [filter]. rewrite E. reflexivity.
  - rewrite html_escape_cons. f_equal. unfold escape_char. cbn [andb].
    destruct (N.eqb c 38); [reflexivity|]. destruct (N.eqb c 60); [reflexivity|]. destruct (N.eqb c 62); [reflexivity|].
    unfold squash. cbn [filter]. rewrite E. reflexivity.
Qed.

(* tokens of an unchanged / added / removed entry: its text as one text token (escaped, whitespace
   removed), its target as the href attribute of the only link and, in parentheses, as that link's text *)
Theorem plain_row_tokens code text href :
  row_tokens (EPlain code text href) =
  TStart (s2l "tr") (map lex_attr (row_attrs code)) ::
  sem_events (events (change_cell code)) [] ++
  TStart (s2l "td") [lex_attr (cls "links-list--text")] :: emit (html_escape false (squash text)) ++
  TEnd (s2l "td") ::
  TStart (s2l "td") [lex_attr (cls "links-list--href")] ::
  TStart (s2l "a") [(s2l "href", attr_body (html_escape false href))] ::
  emit (html_escape false (squash ([40] ++ href ++ [41]))) ++
  [TEnd (s2l "a"); TEnd (s2l "td"); TEnd (s2l "tr")].
Proof.
  unfold row_tokens, row_for, el. rewrite events_el. cbn [flat_map]. rewrite app_nil_r.
  unfold change_cell. destruct (change_info (entry_code (EPlain code text href))) as [symbol title] eqn:E.
  cbn [entry_code] in E. rewrite E.
  unfold el. rewrite !events_el. cbn [flat_map events app text_cell href_cell href_link el].
  cbn [sem_events app]. rewrite !squash_escape. unfold emit, lex_attr. cbn [fst snd entry_code].
  rewrite <- ?app_assoc. cbn [app]. reflexivity.
Qed.

(* ------------------------------------------------------------------ decoding what is shown *)
Definition escape_char_dq (c : N) : str := if N.eqb c 34 then e_quot else escape_char false c.

Lemma replace_dq_app a b : replace_dq (a ++ b) = replace_dq a ++ replace_dq b.
Proof. unfold replace_dq. apply flat_map_app. Qed.

Lemma replace_dq_escape v : replace_dq (html_escape false v) = flat_map escape_char_dq v.
Proof.
  induction v as [|c v IH]; [reflexivity|]. rewrite html_escape_cons, replace_dq_app, IH. cbn [flat_map]. f_equal.
  unfold escape_char_dq, escape_char. cbn [andb].
  destruct (N.eqb_spec c 34) as [->|N0]; [reflexivity|].
  destruct (N.eqb c 38); [reflexivity|]. destruct (N.eqb c 60); [reflexivity|]. destruct (N.eqb c 62); [reflexivity|].
  unfold replace_dq. cbn [flat_map]. destruct (N.eqb_spec c 34); [contradiction|]. reflexivity.
Qed.

Lemma escape_char_dq_nonempty c : (1 <= List.length (escape_char_dq c))%nat.
Proof.
  unfold escape_char_dq. destruct (N.eqb c 34); [unfold e_quot; cbn; lia|apply escape_char_nonempty].
Qed.

Lemma unescape_escape_dq v : forall fuel,
  (List.length (flat_map escape_char_dq v) <= fuel)%nat -> unescape fuel (flat_map escape_char_dq v) = v.
Proof.
  induction v as [|c v IH]; intros fuel Hf.
  - destruct fuel; reflexivity.
  - cbn [flat_map] in *. rewrite app_length in Hf.
    pose proof (escape_char_dq_nonempty c) as Hn.
    destruct fuel as [|fuel]; [lia|].
    assert (Hlen : (List.length (flat_map escape_char_dq v) <= fuel)%nat) by lia.
    specialize (IH fuel Hlen). clear Hf Hn Hlen.
    unfold escape_char_dq at 1. unfold escape_char. cbn [andb].
    destruct (N.eqb_spec c 34) as [->|N0]; [cbn; rewrite IH; reflexivity|].
    destruct (N.eqb_spec c 38) as [->|N1]; [cbn; rewrite IH; reflexivity|].
    destruct (N.eqb_spec c 60) as [->|N2]; [cbn; rewrite IH; reflexivity|].
    destruct (N.eqb_spec c 62) as [->|N3]; [cbn; rewrite IH; reflexivity|].
    cbn [app unescape]. destruct (N.eqb_spec c 38); [contradiction|]. rewrite IH. reflexivity.
Qed.

(* the value between the quotes of an attribute decodes to the original value, whatever it contains *)
Theorem attr_value_decodes v :
  let body := attr_body (html_escape false v) in unescape (List.length body) body = v.
Proof.
  cbv zeta. unfold attr_body. destruct (has_char 34 (html_escape false v) && has_char 39 (html_escape false v)).
  - rewrite replace_dq_escape. apply unescape_escape_dq. lia.
  - apply unescape_escape. lia.
Qed.

Theorem text_decodes s : unescape (List.length (html_escape false s)) (html_escape false s) = s.
Proof. apply unescape_escape. lia. Qed.

(* ------------------------------------------------------------------ text content of nested diffs *)
Definition text_of (l : list tok) : str := flat_map (fun t => match t with TText s => s | _ => [] end) l.
Definition ev_text (ev : event) : str := match ev with EvText p => squash p | _ => [] end.

Lemma text_of_sem evs : forall acc, text_of (sem_events evs acc) = acc ++ flat_map ev_text evs.
Proof.
  induction evs as [|ev evs IH]; intros acc.
  - cbn [sem_events flat_map]. rewrite app_nil_r. destruct acc; [reflexivity|]. cbn. rewrite app_nil_r. reflexivity.
  - destruct ev; cbn [sem_events flat_map ev_text]; try (rewrite IH, <- app_assoc; reflexivity);
      unfold text_of; rewrite flat_map_app; cbn [flat_map]; fold (text_of (sem_events evs [])); rewrite IH;
      destruct acc; cbn [flat_map app]; rewrite ?app_nil_r; reflexivity.
Qed.

Lemma html_escape_app q a b : html_escape q (a ++ b) = html_escape q a ++ html_escape q b.
Proof. unfold html_escape. apply flat_map_app. Qed.

Lemma ev_text_nodes d :
  flat_map ev_text (flat_map events (nodes_for_text_diff d)) = html_escape false (squash (List.concat (map snd d))).
Proof.
  induction d as [|[c t] d IH]; [reflexivity|].
  cbn [nodes_for_text_diff map flat_map fst snd List.concat]. rewrite flat_map_app. fold (nodes_for_text_diff d). rewrite IH.
  rewrite squash_app, html_escape_app. f_equal.
  destruct (Z.eqb c (-1)); [|destruct (Z.eqb c 1)]; cbn [marker el events flat_map app ev_text];
    rewrite ?app_nil_r; apply squash_escape.
Qed.

(* the strings shown for one side of a changed entry are together the text of that side *)
Theorem nested_diff_text d :
  text_of (sem_events (flat_map events (nodes_for_text_diff d)) []) = html_escape false (squash (List.concat (map snd d))).
Proof. rewrite text_of_sem. apply ev_text_nodes. Qed.

(* ------------------------------------------------------------------ nothing but the scaffold *)
Definition scaffold : list str :=
  map s2l ["html"; "head"; "meta"; "title"; "style"; "body"; "table"; "col"; "thead"; "tbody"; "tr"; "th"; "td"; "a"; "br"; "ins"; "del"]%string.

Definition is_marker_name (n : str) : bool := str_eqb n (s2l "ins") || str_eqb n (s2l "del").

Definition ev_scaffold (ev : event) : bool :=
  match ev with
  | EvStart n a => mem_str n scaffold && (negb (is_marker_name n) || (match a with [(k, v)] => str_eqb k (s2l "class") && str_eqb v (s2l "wm-diff") | _ => false end))
  | EvVoid n a => mem_str n scaffold && negb (is_marker_name n)
  | _ => true
  end.

Definition tok_scaffold (t : tok) : bool :=
  match t with
  | TStart n a => mem_str n scaffold && (negb (is_marker_name n) || (match a with [(k, v)] => str_eqb k (s2l "class") && str_eqb v (s2l "wm-diff") | _ => false end))
  | TVoid n a => mem_str n scaffold && negb (is_marker_name n)
  | _ => true
  end.

Lemma lex_attr_wm_diff : lex_attr (cls "wm-diff") = cls "wm-diff".
Proof. reflexivity. Qed.

Lemma sem_events_scaffold evs : forall acc,
  Forall (fun ev => ev_scaffold ev = true) evs -> Forall (fun t => tok_scaffold t = true) (sem_events evs acc).
Proof.
  induction evs as [|ev evs IH]; intros acc H.
  - cbn [sem_events]. destruct acc; repeat constructor.
  - inversion H as [|? ? Hev Hr]; subst. destruct ev as [n a|n|n a|p]; cbn [sem_events]; try (apply IH, Hr);
      apply Forall_app; (split; [destruct acc; repeat constructor|]); (constructor; [|apply IH, Hr]).
    + cbn [ev_scaffold tok_scaffold] in *. apply andb_true_iff in Hev as [H1 H2]. rewrite H1. cbn [andb].
      destruct (is_marker_name n); cbn [negb orb] in *; [|reflexivity].
      destruct a as [|[k v] [|? ?]]; try discriminate H2. cbn [map fst snd].
      apply andb_true_iff in H2 as [K V]. apply str_eqb_eq in K. apply str_eqb_eq in V. subst. reflexivity.
    + reflexivity.
    + cbn [ev_scaffold tok_scaffold] in *. exact Hev.
Qed.

Ltac scaffold_tac :=
  repeat first
    [ apply Forall_nil
    | apply Forall_cons; [vm_compute; reflexivity|]
    | apply Forall_app; split ].

Lemma text_diff_scaffold d : Forall (fun ev => ev_scaffold ev = true) (flat_map events (nodes_for_text_diff d)).
Proof.
  induction d as [|[c t] d IH]; [constructor|]. cbn [nodes_for_text_diff map flat_map fst snd].
  apply Forall_app. split; [|exact IH].
  destruct (Z.eqb c (-1)); [|destruct (Z.eqb c 1)]; cbn [marker el events flat_map app]; scaffold_tac.
Qed.

Lemma row_scaffold e : Forall (fun ev => ev_scaffold ev = true) (events (row_for e)).
Proof.
  unfold row_for, el. rewrite events_el. cbn [flat_map]. rewrite app_nil_r.
  apply Forall_app. split; [|scaffold_tac]. constructor; [reflexivity|].
  repeat (apply Forall_app; split).
  - unfold change_cell. destruct (change_info (entry_code e)) as [symbol title]. cbn [el events flat_map app]. scaffold_tac.
  - destruct e as [c text href|td hd old new]; cbn [text_cell el events flat_map app].
    + scaffold_tac.
    + constructor; [reflexivity|]. apply Forall_app. split; [|scaffold_tac].
      rewrite flat_map_app. apply Forall_app. split; [apply text_diff_scaffold|].
      destruct (Nat.eqb (List.length td) 1); [constructor|]. cbn [flat_map void events app].
      constructor; [reflexivity|apply text_diff_scaffold].
  - assert (Hlink : forall url d, Forall (fun ev => ev_scaffold ev = true) (events (href_link url (paren_l :: nodes_for_text_diff d ++ [paren_r])))).
    { intros url d. unfold href_link, el. rewrite events_el. apply Forall_app. split; [|scaffold_tac].
      constructor; [reflexivity|]. cbn [flat_map paren_l events app]. constructor; [reflexivity|].
      rewrite flat_map_app. apply Forall_app. split; [apply text_diff_scaffold|]. cbn [flat_map paren_r events app]. scaffold_tac. }
    destruct e as [c text href|td hd old new]; cbn [href_cell el events flat_map].
    + cbn [href_link el events flat_map app]. scaffold_tac.
    + constructor; [reflexivity|]. apply Forall_app. split; [|scaffold_tac].
      apply Forall_app. split; [apply Hlink|].
      destruct (str_eqb old new); [constructor|]. cbn [flat_map void events app]. rewrite app_nil_r.
      constructor; [reflexivity|apply Hlink].
Qed.

(* every tag read back from the returned document is table scaffolding, styling or a plain change marker *)
Theorem links_view_only_scaffold title ic dc entries : no_lt ic -> no_lt dc ->
  Forall (fun t => tok_scaffold t = true) (clean (lex (links_html title ic dc entries))).
Proof.
  intros Hi Hd. unfold links_html. rewrite (read_back _ (links_document_ok title ic dc entries Hi Hd)).
  constructor; [reflexivity|]. apply sem_events_scaffold. rewrite doc_events.
  apply Forall_app. split; [unfold doc_prefix; scaffold_tac|].
  apply Forall_app. split; [|unfold doc_suffix; scaffold_tac].
  apply Forall_flat_map. intros x Hx. apply in_map_iff in Hx as [e [<- _]]. apply row_scaffold.
Qed.

(* ------------------------------------------------------------------ one row per entry *)
Definition is_row_start (t : tok) : bool :=
  match t with TStart n ((k, v) :: _) => str_eqb n (s2l "tr") && str_eqb k (s2l "class") && str_eqb v (s2l "links-list--item") | _ => false end.
Definition ev_row_start (ev : event) : bool :=
  match ev with EvStart n ((k, v) :: _) => str_eqb n (s2l "tr") && str_eqb k (s2l "class") && str_eqb v (s2l "links-list--item") | _ => false end.

Definition count {A} (p : A -> bool) (l : list A) : nat := List.length (filter p l).

Lemma count_app {A} (p : A -> bool) l1 l2 : count p (l1 ++ l2) = (count p l1 + count p l2)%nat.
Proof. unfold count. rewrite filter_app, app_length. reflexivity. Qed.

Lemma count_cons {A} (p : A -> bool) x l : count p (x :: l) = ((if p x then 1 else 0) + count p l)%nat.
Proof. unfold count. cbn [filter]. destruct (p x); reflexivity. Qed.

Lemma row_start_lex n a : is_row_start (TStart n (map lex_attr a)) = ev_row_start (EvStart n a).
Proof.
  destruct a as [|[k v] a]; cbn [map is_row_start ev_row_start lex_attr fst snd]; [reflexivity|].
  destruct (str_eqb n (s2l "tr") && str_eqb k (s2l "class")) eqn:E; cbn [andb]; [|reflexivity].
  destruct (str_eqb_spec v (s2l "links-list--item")) as [->|Hne]; [reflexivity|].
  (* the escaped value equals the literal only if the value does *)
  destruct (str_eqb_spec (attr_body (html_escape false v)) (s2l "links-list--item")) as [E'|_]; [|reflexivity].
  exfalso. apply Hne. rewrite <- (attr_value_decodes v). cbv zeta. rewrite E'. reflexivity.
Qed.

Lemma count_emit acc : count is_row_start (match acc with [] => [] | _ :: _ => [TText acc] end) = 0%nat.
Proof. destruct acc; reflexivity. Qed.

Lemma count_sem evs : forall acc, count is_row_start (sem_events evs acc) = count ev_row_start evs.
Proof.
  induction evs as [|ev evs IH]; intros acc.
  - cbn [sem_events]. destruct acc; reflexivity.
  - destruct ev as [n a|n|n a|p]; cbn [sem_events]; rewrite ?count_app, ?count_emit, !count_cons, ?IH; cbn [plus].
    + fold (lex_attr). change (map (fun kv : str * str => (fst kv, attr_body (html_escape false (snd kv)))) a) with (map lex_attr a).
      rewrite row_start_lex. reflexivity.
    + reflexivity.
    + reflexivity.
    + reflexivity.
Qed.

Lemma count_text_diff d : count ev_row_start (flat_map events (nodes_for_text_diff d)) = 0%nat.
Proof.
  induction d as [|[c t] d IH]; [reflexivity|]. cbn [nodes_for_text_diff map flat_map fst snd]. rewrite count_app.
  fold (nodes_for_text_diff d). rewrite IH.
  destruct (Z.eqb c (-1)); [|destruct (Z.eqb c 1)]; reflexivity.
Qed.

Lemma count_row e : count ev_row_start (events (row_for e)) = 1%nat.
Proof.
  unfold row_for, el. rewrite events_el. rewrite count_app. cbn [flat_map]. rewrite app_nil_r.
  rewrite count_cons. destruct (row_attrs_head (entry_code e)) as [rest ->].
  change (ev_row_start (EvStart (s2l "tr") (cls "links-list--item" :: rest))) with true. cbv iota.
  rewrite !count_app.
  replace (count ev_row_start (events (change_cell (entry_code e)))) with 0%nat
    by (unfold change_cell; destruct (change_info (entry_code e)) as [s [t|]]; reflexivity).
  assert (Hlink : forall url d, count ev_row_start (events (href_link url (paren_l :: nodes_for_text_diff d ++ [paren_r]))) = 0%nat).
  { intros url d. unfold href_link, el. rewrite events_el. rewrite count_app, count_cons. cbn [flat_map paren_l events app].
    rewrite count_cons. rewrite flat_map_app, count_app, count_text_diff. reflexivity. }
  destruct e as [c text href|td hd old new].
  - reflexivity.
  - unfold text_cell, href_cell, el. rewrite !events_el. rewrite !count_app, !count_cons. cbn [flat_map].
    rewrite !flat_map_app, !count_app, !count_text_diff, Hlink.
    destruct (Nat.eqb (List.length td) 1); destruct (str_eqb old new); cbn [flat_map void events app];
      rewrite ?count_cons, ?count_app, ?count_text_diff, ?Hlink; reflexivity.
Qed.

(* the returned document has exactly as many item rows as the diff has entries *)
Theorem links_view_row_count title ic dc entries : no_lt ic -> no_lt dc ->
  count is_row_start (clean (lex (links_html title ic dc entries))) = List.length entries.
Proof.
  intros Hi Hd. unfold links_html. rewrite (read_back _ (links_document_ok title ic dc entries Hi Hd)).
  rewrite count_cons. cbn [is_row_start plus]. rewrite count_sem, doc_events, !count_app.
  change (count ev_row_start (doc_prefix title ic dc)) with 0%nat. change (count ev_row_start doc_suffix) with 0%nat.
  rewrite Nat.add_0_l, Nat.add_0_r.
  induction entries as [|e entries IH]; [reflexivity|]. cbn [map flat_map List.length]. rewrite count_app, count_row, IH. reflexivity.
Qed.

(* Lemmas about the links diff model (property C04): the pairing pass lists every link
   of both lists exactly once for ANY contiguous opcode list, and the re-balancing
   pass keeps opcode lists contiguous. *)
From Coq Require Import List NArith Arith Bool Lia Permutation.
From WMD Require Import Gen.Tables Lib.Str Lib.PyChars Lib.Difflib Model.Links Proofs.DifflibProofs.
Import ListNotations.

(* ------------------------------------------------------------------ sides of a diff *)
Definition old_of (e : entry) : list link :=
  match e with Unchanged o _ | Changed o _ | Removed o => [o] | Added _ => [] end.
Definition new_of (e : entry) : list link :=
  match e with Unchanged _ n | Changed _ n | Added n => [n] | Removed _ => [] end.
Definition olds (d : list entry) : list link := flat_map old_of d.
Definition news (d : list entry) : list link := flat_map new_of d.

Lemma olds_app d1 d2 : olds (d1 ++ d2) = olds d1 ++ olds d2.
Proof. unfold olds. apply flat_map_app. Qed.
Lemma news_app d1 d2 : news (d1 ++ d2) = news d1 ++ news d2.
Proof. unfold news. apply flat_map_app. Qed.

Lemma olds_nil : olds [] = [].
Proof. reflexivity. Qed.
Lemma news_nil : news [] = [].
Proof. reflexivity. Qed.
Lemma olds_cons e d : olds (e :: d) = old_of e ++ olds d.
Proof. reflexivity. Qed.
Lemma news_cons e d : news (e :: d) = new_of e ++ news d.
Proof. reflexivity. Qed.

Lemma olds_added l : olds (map Added l) = [].
Proof. unfold olds. induction l as [|x l IH]; cbn [map flat_map old_of app]; [reflexivity|exact IH]. Qed.
Lemma news_added l : news (map Added l) = l.
Proof. unfold news. induction l as [|x l IH]; cbn [map flat_map new_of app]; [reflexivity|rewrite IH; reflexivity]. Qed.
Lemma olds_removed l : olds (map Removed l) = l.
Proof. unfold olds. induction l as [|x l IH]; cbn [map flat_map old_of app]; [reflexivity|rewrite IH; reflexivity]. Qed.
Lemma news_removed l : news (map Removed l) = [].
Proof. unfold news. induction l as [|x l IH]; cbn [map flat_map new_of app]; [reflexivity|exact IH]. Qed.

(* every Unchanged entry pairs links with the same exact key *)
Definition exact_pairs (d : list entry) : Prop :=
  Forall (fun e => match e with Unchanged o n => same_key o n = true | _ => True end) d.

Lemma take_exact_spec x l y r :
  take_exact x l = Some (y, r) -> Permutation l (y :: r) /\ same_key x y = true.
Proof.
  revert y r. induction l as [|z l IH]; cbn [take_exact]; intros y r H; [discriminate|].
  destruct (same_key x z) eqn:E.
  - injection H as <- <-. split; [apply Permutation_refl|exact E].
  - destruct (take_exact x l) as [[y' r']|]; [|discriminate].
    injection H as <- <-. destruct (IH y' r' eq_refl) as [HP HK]. split; [|exact HK].
    apply perm_trans with (z :: y' :: r'); [apply perm_skip, HP|apply perm_swap].
Qed.

Lemma flush_spec rem : forall b_set es r,
  flush rem b_set = (es, r) ->
  olds es = rem /\ Permutation b_set (news es ++ r) /\ exact_pairs es.
Proof.
  induction rem as [|x rem IH]; intros b_set es r H; cbn [flush] in H.
  - injection H as <- <-. repeat split; [apply Permutation_refl|constructor].
  - destruct b_set as [|y b'].
    + destruct (flush rem []) as [es' r'] eqn:E. injection H as <- <-.
      destruct (IH [] es' r' E) as [H1 [H2 H3]]. rewrite olds_cons, news_cons, H1. cbn [old_of new_of app].
      repeat split; [exact H2|constructor; [exact I|exact H3]].
    + destruct (rough_eq y x).
      * destruct (flush rem b') as [es' r'] eqn:E. injection H as <- <-.
        destruct (IH b' es' r' E) as [H1 [H2 H3]]. rewrite olds_cons, news_cons, H1. cbn [old_of new_of app].
        repeat split; [apply perm_skip, H2|constructor; [exact I|exact H3]].
      * destruct (flush rem (y :: b')) as [es' r'] eqn:E. injection H as <- <-.
        destruct (IH (y :: b') es' r' E) as [H1 [H2 H3]]. rewrite olds_cons, news_cons, H1. cbn [old_of new_of app].
        repeat split; [exact H2|constructor; [exact I|exact H3]].
Qed.

Lemma drain_spec x : forall b_set es r,
  drain x b_set = (es, r) -> olds es = [] /\ b_set = news es ++ r /\ exact_pairs es.
Proof.
  induction b_set as [|y b' IH]; intros es r H; cbn [drain] in H.
  - injection H as <- <-. repeat split. constructor.
  - destruct (rough_eq y x).
    + destruct (drain x b') as [es' r'] eqn:E. injection H as <- <-.
      destruct (IH es' r' eq_refl) as [H1 [H2 H3]]. rewrite olds_cons, news_cons, H1. cbn [old_of new_of app].
      repeat split; [rewrite <- H2; reflexivity|constructor; [exact I|exact H3]].
    + injection H as <- <-. repeat split. constructor.
Qed.

Lemma exact_pairs_app d1 d2 : exact_pairs d1 -> exact_pairs d2 -> exact_pairs (d1 ++ d2).
Proof. intros H1 H2. apply Forall_app. split; assumption. Qed.

Lemma exact_pairs_hit x y d : same_key x y = true -> exact_pairs d -> exact_pairs (Unchanged x y :: d).
Proof. intros H1 H2. constructor; assumption. Qed.

Lemma exact_pairs_added l : exact_pairs (map Added l).
Proof. induction l; constructor; [exact I|assumption]. Qed.
Lemma exact_pairs_removed l : exact_pairs (map Removed l).
Proof. induction l; constructor; [exact I|assumption]. Qed.

(* the pairing loop of an "equal" block: every link of both sides exactly once *)
Lemma pair_equal_spec a_set : forall rem b_set,
  Permutation (olds (pair_equal a_set rem b_set)) (rem ++ a_set) /\
  Permutation (news (pair_equal a_set rem b_set)) b_set /\
  exact_pairs (pair_equal a_set rem b_set).
Proof.
  induction a_set as [|x a' IH]; intros rem b_set; cbn [pair_equal].
  - rewrite olds_added, news_added, app_nil_r.
    (* no a link is left: remainders are only kept while the group continues, and it ended *)
    split; [|split; [apply Permutation_refl|apply exact_pairs_added]].
    (* rem is necessarily empty here for the callers; the statement is proved for rem = [] below *)
Abort.

Lemma pair_equal_nil rem b_set : pair_equal [] rem b_set = map Added b_set.
Proof. reflexivity. Qed.

Lemma pair_equal_cons x a' rem b_set :
  pair_equal (x :: a') rem b_set =
    let '(hit, rem1, b1) :=
      match take_exact x b_set with
      | Some (y, r) => ([Unchanged x y], rem, r)
      | None => ([], rem ++ [x], b_set)
      end in
    let group_ends := match a' with [] => true | x2 :: _ => negb (rough_eq x x2) end in
    if group_ends then
      let (es, b2) := flush rem1 b1 in
      let (ds, b3) := drain (last_or x rem1) b2 in
      hit ++ es ++ ds ++ pair_equal a' [] b3
    else hit ++ pair_equal a' rem1 b1.
Proof. reflexivity. Qed.

(* the loop is entered with rem = [] and flushes rem whenever a group ends, in particular at
   the last element; so state the invariant with the pending remainders made explicit *)
Lemma pair_equal_spec x a' : forall rem b_set,
  Permutation (olds (pair_equal (x :: a') rem b_set)) (rem ++ x :: a') /\
  Permutation (news (pair_equal (x :: a') rem b_set)) b_set /\
  exact_pairs (pair_equal (x :: a') rem b_set).
Proof.
  revert x. induction a' as [|x2 a'' IH]; intros x rem b_set.
  - (* last element: the group always ends *)
    rewrite pair_equal_cons. cbv zeta.
    destruct (take_exact x b_set) as [[y r]|] eqn:Et.
    + destruct (take_exact_spec x b_set y r Et) as [HP HK].
      destruct (flush rem r) as [es b2] eqn:Ef. destruct (flush_spec rem r es b2 Ef) as [F1 [F2 F3]].
      destruct (drain (last_or x rem) b2) as [ds b3] eqn:Ed. destruct (drain_spec _ b2 ds b3 Ed) as [D1 [D2 D3]].
      rewrite ?pair_equal_nil, !olds_app, !news_app, olds_added, news_added, F1, D1. rewrite ?olds_cons, ?news_cons, ?olds_nil, ?news_nil; cbn [old_of new_of app].
      rewrite !app_nil_r. repeat split.
      * apply Permutation_cons_app. rewrite app_nil_r. apply Permutation_refl.
      * apply perm_trans with (y :: r); [|apply Permutation_sym, HP]. apply perm_skip.
        apply perm_trans with (news es ++ b2); [|apply Permutation_sym, F2]. rewrite D2. apply Permutation_refl.
      * first [apply exact_pairs_hit; [exact HK|] | apply exact_pairs_app; [constructor; [exact HK|constructor]|]].
        apply exact_pairs_app; [exact F3|]. apply exact_pairs_app; [exact D3|apply exact_pairs_added].
    + destruct (flush (rem ++ [x]) b_set) as [es b2] eqn:Ef. destruct (flush_spec _ b_set es b2 Ef) as [F1 [F2 F3]].
      destruct (drain (last_or x (rem ++ [x])) b2) as [ds b3] eqn:Ed. destruct (drain_spec _ b2 ds b3 Ed) as [D1 [D2 D3]].
      cbn [app]. rewrite ?pair_equal_nil, !olds_app, !news_app, olds_added, news_added, F1, D1. rewrite !app_nil_r. repeat split.
      * apply Permutation_refl.
      * apply perm_trans with (news es ++ b2); [|apply Permutation_sym, F2]. rewrite D2. apply Permutation_refl.
      * apply exact_pairs_app; [exact F3|]. apply exact_pairs_app; [exact D3|apply exact_pairs_added].
  - rewrite pair_equal_cons. cbv zeta.
    destruct (take_exact x b_set) as [[y r]|] eqn:Et.
    + destruct (take_exact_spec x b_set y r Et) as [HP HK].
      destruct (negb (rough_eq x x2)).
      * destruct (flush rem r) as [es b2] eqn:Ef. destruct (flush_spec rem r es b2 Ef) as [F1 [F2 F3]].
        destruct (drain (last_or x rem) b2) as [ds b3] eqn:Ed. destruct (drain_spec _ b2 ds b3 Ed) as [D1 [D2 D3]].
        destruct (IH x2 [] b3) as [I1 [I2 I3]].
        rewrite !olds_app, !news_app, F1, D1. rewrite ?olds_cons, ?news_cons, ?olds_nil, ?news_nil in *; cbn [old_of new_of app] in *.
        repeat split.
        -- apply Permutation_cons_app. apply Permutation_app_head. exact I1.
        -- apply perm_trans with (y :: r); [|apply Permutation_sym, HP]. apply perm_skip.
           apply perm_trans with (news es ++ b2); [|apply Permutation_sym, F2]. apply Permutation_app_head.
           rewrite D2. apply Permutation_app_head. exact I2.
        -- first [apply exact_pairs_hit; [exact HK|] | apply exact_pairs_app; [constructor; [exact HK|constructor]|]].
           apply exact_pairs_app; [exact F3|]. apply exact_pairs_app; [exact D3|exact I3].
      * destruct (IH x2 rem r) as [I1 [I2 I3]].
        rewrite !olds_app, !news_app. rewrite ?olds_cons, ?news_cons, ?olds_nil, ?news_nil in *; cbn [old_of new_of app] in *. repeat split.
        -- apply Permutation_cons_app. exact I1.
        -- apply perm_trans with (y :: r); [|apply Permutation_sym, HP]. apply perm_skip. exact I2.
        -- first [apply exact_pairs_hit; [exact HK|exact I3] | apply exact_pairs_app; [constructor; [exact HK|constructor]|exact I3]].
    + destruct (negb (rough_eq x x2)).
      * destruct (flush (rem ++ [x]) b_set) as [es b2] eqn:Ef. destruct (flush_spec _ b_set es b2 Ef) as [F1 [F2 F3]].
        destruct (drain (last_or x (rem ++ [x])) b2) as [ds b3] eqn:Ed. destruct (drain_spec _ b2 ds b3 Ed) as [D1 [D2 D3]].
        destruct (IH x2 [] b3) as [I1 [I2 I3]].
        cbn [app]. rewrite !olds_app, !news_app, F1, D1. cbn [app] in *. repeat split.
        -- rewrite <- app_assoc. cbn [app]. apply Permutation_app_head. apply perm_skip. exact I1.
        -- apply perm_trans with (news es ++ b2); [|apply Permutation_sym, F2]. apply Permutation_app_head.
           rewrite D2. apply Permutation_app_head. exact I2.
        -- apply exact_pairs_app; [exact F3|]. apply exact_pairs_app; [exact D3|exact I3].
      * destruct (IH x2 (rem ++ [x]) b_set) as [I1 [I2 I3]]. cbn [app].
        repeat split; try assumption. rewrite <- app_assoc in I1. exact I1.
Qed.

Lemma pair_equal_block a_set b_set :
  Permutation (olds (pair_equal a_set [] b_set)) a_set /\
  Permutation (news (pair_equal a_set [] b_set)) b_set /\
  exact_pairs (pair_equal a_set [] b_set).
Proof.
  destruct a_set as [|x a'].
  - rewrite pair_equal_nil, olds_added, news_added. split; [apply Permutation_refl|split; [apply Permutation_refl|apply exact_pairs_added]].
  - exact (pair_equal_spec x a' [] b_set).
Qed.

Lemma assemble_op_sides a b o :
  tag_ok o ->
  Permutation (olds (assemble_op a b o)) (slice a (fst (op_a o)) (snd (op_a o))) /\
  Permutation (news (assemble_op a b o)) (slice b (fst (op_b o)) (snd (op_b o))) /\
  exact_pairs (assemble_op a b o).
Proof.
  unfold assemble_op, tag_ok. destruct (op_tag o); intros Hok.
  - apply pair_equal_block.
  - rewrite olds_app, news_app, olds_added, news_added, olds_removed, news_removed, app_nil_r. cbn [app].
    split; [apply Permutation_refl|split; [apply Permutation_refl|]].
    apply exact_pairs_app; [apply exact_pairs_added|apply exact_pairs_removed].
  - rewrite olds_removed, news_removed. unfold slice. rewrite Hok, Nat.sub_diag. cbn [firstn].
    split; [apply Permutation_refl|split; [apply Permutation_refl|apply exact_pairs_removed]].
  - rewrite olds_added, news_added. unfold slice. rewrite Hok, Nat.sub_diag. cbn [firstn].
    split; [apply Permutation_refl|split; [apply Permutation_refl|apply exact_pairs_added]].
Qed.

Lemma assemble_chain a b ops : forall i j ei ej,
  chain ops i j ei ej ->
  let d := List.concat (map (assemble_op a b) ops) in
  Permutation (olds d) (slice a i ei) /\ Permutation (news d) (slice b j ej) /\ exact_pairs d.
Proof.
  induction ops as [|o r IH]; intros i j ei ej H; cbn [chain] in H; cbv zeta.
  - destruct H as [-> ->]. cbn [map List.concat]. unfold slice. rewrite !Nat.sub_diag. cbn [firstn].
    split; [apply Permutation_refl|split; [apply Permutation_refl|constructor]].
  - destruct H as (H1 & H2 & H3 & H4 & H5 & H6).
    destruct (chain_mono _ _ _ _ _ H6) as [M1 M2].
    destruct (IH _ _ _ _ H6) as (I1 & I2 & I3). cbv zeta in I1, I2, I3.
    destruct (assemble_op_sides a b o H5) as (A1 & A2 & A3).
    cbn [map List.concat]. rewrite olds_app, news_app. subst i j.
    split; [|split; [|apply exact_pairs_app; assumption]].
    + unfold slice. rewrite <- (slice_app a (fst (op_a o)) (snd (op_a o)) ei) by assumption.
      apply Permutation_app; assumption.
    + unfold slice. rewrite <- (slice_app b (fst (op_b o)) (snd (op_b o)) ej) by assumption.
      apply Permutation_app; assumption.
Qed.

(* ------------------------------------------------------------------ the re-balancing pass keeps the list contiguous *)
Definition optl (o : option opcode) : list opcode := match o with Some x => [x] | None => [] end.
Definition tl3 (t : triple) : list opcode := let '(p, c, n) := t in optl p ++ [c] ++ optl n.
Definition size_b (o : opcode) : nat := snd (op_b o) - fst (op_b o).
Definition size_a (o : opcode) : nat := snd (op_a o) - fst (op_a o).

Lemma shift_last_b p c rest si sj ti tj :
  chain (p :: c :: rest) si sj ti tj -> 1 <= size_b c -> is_equal (op_tag p) = true -> has_insert (op_tag c) = true ->
  chain (grow_end_b p :: shrink_start_b c :: rest) si sj ti tj.
Proof.
  destruct p as [[tp [pa1 pa2]] [pb1 pb2]]. destruct c as [[tc [ca1 ca2]] [cb1 cb2]].
  unfold size_b, grow_end_b, shrink_start_b, mk_op, op_tag, op_a, op_b, tag_ok. cbn [chain fst snd].
  intros (H1 & H2 & H3 & H4 & H5 & H6 & H7 & H8 & H9 & H10 & H11) Hs Hp Hc.
  destruct tp; try discriminate. destruct tc; try discriminate; cbn in *; repeat split; try assumption; try lia.
Qed.

Lemma shift_next_b c n rest i j ti tj :
  chain (c :: n :: rest) i j ti tj -> 1 <= size_b c -> is_equal (op_tag n) = true -> has_insert (op_tag c) = true ->
  chain (shrink_end_b c :: grow_start_b n :: rest) i j ti tj.
Proof.
  destruct n as [[tn [na1 na2]] [nb1 nb2]]. destruct c as [[tc [ca1 ca2]] [cb1 cb2]].
  unfold size_b, grow_start_b, shrink_end_b, mk_op, op_tag, op_a, op_b, tag_ok. cbn [chain fst snd].
  intros (H1 & H2 & H3 & H4 & H5 & H6 & H7 & H8 & H9 & H10 & H11) Hs Hp Hc.
  destruct tn; try discriminate. destruct tc; try discriminate; cbn in *; repeat split; try assumption; try lia.
Qed.

Lemma shift_last_a p c rest si sj ti tj :
  chain (p :: c :: rest) si sj ti tj -> 1 <= size_a c -> is_equal (op_tag p) = true -> has_delete (op_tag c) = true ->
  chain (grow_end_a p :: shrink_start_a c :: rest) si sj ti tj.
Proof.
  destruct p as [[tp [pa1 pa2]] [pb1 pb2]]. destruct c as [[tc [ca1 ca2]] [cb1 cb2]].
  unfold size_a, grow_end_a, shrink_start_a, mk_op, op_tag, op_a, op_b, tag_ok. cbn [chain fst snd].
  intros (H1 & H2 & H3 & H4 & H5 & H6 & H7 & H8 & H9 & H10 & H11) Hs Hp Hc.
  destruct tp; try discriminate. destruct tc; try discriminate; cbn in *; repeat split; try assumption; try lia.
Qed.

Lemma shift_next_a c n rest i j ti tj :
  chain (c :: n :: rest) i j ti tj -> 1 <= size_a c -> is_equal (op_tag n) = true -> has_delete (op_tag c) = true ->
  chain (shrink_end_a c :: grow_start_a n :: rest) i j ti tj.
Proof.
  destruct n as [[tn [na1 na2]] [nb1 nb2]]. destruct c as [[tc [ca1 ca2]] [cb1 cb2]].
  unfold size_a, grow_start_a, shrink_end_a, mk_op, op_tag, op_a, op_b, tag_ok. cbn [chain fst snd].
  intros (H1 & H2 & H3 & H4 & H5 & H6 & H7 & H8 & H9 & H10 & H11) Hs Hp Hc.
  destruct tn; try discriminate. destruct tc; try discriminate; cbn in *; repeat split; try assumption; try lia.
Qed.

(* what stays fixed while one opcode is re-balanced *)
Record stable (le ne : option link) (t : triple) : Prop := {
  st_prev : le <> None -> exists p, fst (fst t) = Some p /\ is_equal (op_tag p) = true;
  st_next : ne <> None -> exists n, snd t = Some n /\ is_equal (op_tag n) = true
}.

Definition same_shape (t t' : triple) : Prop :=
  (fst (fst t) = None <-> fst (fst t') = None) /\ (snd t = None <-> snd t' = None) /\
  op_tag (snd (fst t)) = op_tag (snd (fst t')).

Lemma chain_prefix_swap pre l l' i j ei ej :
  (forall mi mj, chain l mi mj ei ej -> chain l' mi mj ei ej) ->
  chain (pre ++ l) i j ei ej -> chain (pre ++ l') i j ei ej.
Proof.
  intros H Hc. apply chain_app in Hc as (mi & mj & H1 & H2). apply chain_app. exists mi, mj. split; [exact H1|apply H, H2].
Qed.

Lemma rebalance_b_step le ne t lk si sj ti tj k :
  chain (tl3 t) si sj ti tj -> stable le ne t -> has_insert (op_tag (snd (fst t))) = true -> S k <= size_b (snd (fst t)) ->
  let t' := rebalance_b le ne t lk in
  chain (tl3 t') si sj ti tj /\ stable le ne t' /\ same_shape t t' /\ k <= size_b (snd (fst t')) /\
  op_a (snd (fst t')) = op_a (snd (fst t)).
Proof.
  destruct t as [[prev cur] next]. cbn [fst snd]. intros Hc [Hp Hn] Hi Hk. cbv zeta.
  assert (Keep : chain (tl3 (prev, cur, next)) si sj ti tj /\ stable le ne (prev, cur, next) /\
                 same_shape (prev, cur, next) (prev, cur, next) /\ k <= size_b cur /\ op_a cur = op_a cur).
  { split; [exact Hc|]. split; [constructor; assumption|]. split; [|split; [lia|reflexivity]].
    unfold same_shape. cbn. tauto. }
  assert (Next : forall ne0 n, ne = Some ne0 -> next = Some n -> rough_eq ne0 lk = true ->
            chain (tl3 (prev, shrink_end_b cur, Some (grow_start_b n))) si sj ti tj /\
            stable le ne (prev, shrink_end_b cur, Some (grow_start_b n)) /\
            same_shape (prev, cur, next) (prev, shrink_end_b cur, Some (grow_start_b n)) /\
            k <= size_b (shrink_end_b cur) /\ op_a (shrink_end_b cur) = op_a cur).
  { intros ne0 n -> -> _.
    destruct (Hn ltac:(discriminate)) as [n' [Hn' Hne']]. cbn [snd] in Hn'. injection Hn' as <-.
    split; [|split; [|split; [|split]]].
    - cbn [tl3 optl app] in *. apply (chain_prefix_swap (optl prev) [cur; n]); [|exact Hc].
      intros mi mj H. apply shift_next_b; try assumption. lia.
    - constructor; cbn [fst snd].
      + exact Hp.
      + intros _. exists (grow_start_b n). split; [reflexivity|]. destruct n as [[tn na] nb]. exact Hne'.
    - unfold same_shape. cbn [fst snd]. repeat split; try tauto; try discriminate; try (destruct cur as [[tc ca] cb]; reflexivity).
    - destruct cur as [[tc [ca1 ca2]] [cb1 cb2]]. unfold size_b, shrink_end_b, mk_op, op_b in *. cbn [fst snd] in *. lia.
    - destruct cur as [[tc ca] cb]. reflexivity. }
  unfold rebalance_b.
  destruct le as [le0|]; [destruct prev as [p|]|].
  - destruct (rough_eq le0 lk) eqn:El.
    + destruct (Hp ltac:(discriminate)) as [p' [Hp' Hpe]]. cbn [fst] in Hp'. injection Hp' as <-.
      split; [|split; [|split; [|split]]].
      * cbn [tl3 optl app] in *. apply shift_last_b; try assumption. lia.
      * constructor; cbn [fst snd].
        -- intros _. exists (grow_end_b p). split; [reflexivity|]. destruct p as [[tp pa] pb]. exact Hpe.
        -- exact Hn.
      * unfold same_shape. cbn [fst snd]. repeat split; try tauto; try discriminate; try (destruct cur as [[tc ca] cb]; reflexivity).
      * destruct cur as [[tc [ca1 ca2]] [cb1 cb2]]. unfold size_b, shrink_start_b, mk_op, op_b in *. cbn [fst snd] in *. lia.
      * destruct cur as [[tc ca] cb]. reflexivity.
    + destruct ne as [ne0|]; [destruct next as [n|]|]; try exact Keep.
      destruct (rough_eq ne0 lk) eqn:En; [apply (Next ne0 n eq_refl eq_refl En)|exact Keep].
  - destruct ne as [ne0|]; [destruct next as [n|]|]; try exact Keep.
    destruct (rough_eq ne0 lk) eqn:En; [apply (Next ne0 n eq_refl eq_refl En)|exact Keep].
  - destruct ne as [ne0|]; [destruct next as [n|]|]; try exact Keep.
    destruct (rough_eq ne0 lk) eqn:En; [apply (Next ne0 n eq_refl eq_refl En)|exact Keep].
Qed.

Lemma rebalance_a_step le ne t lk si sj ti tj k :
  chain (tl3 t) si sj ti tj -> stable le ne t -> has_delete (op_tag (snd (fst t))) = true -> S k <= size_a (snd (fst t)) ->
  let t' := rebalance_a le ne t lk in
  chain (tl3 t') si sj ti tj /\ stable le ne t' /\ same_shape t t' /\ k <= size_a (snd (fst t')) /\
  op_b (snd (fst t')) = op_b (snd (fst t)).
Proof.
  destruct t as [[prev cur] next]. cbn [fst snd]. intros Hc [Hp Hn] Hi Hk. cbv zeta.
  assert (Keep : chain (tl3 (prev, cur, next)) si sj ti tj /\ stable le ne (prev, cur, next) /\
                 same_shape (prev, cur, next) (prev, cur, next) /\ k <= size_a cur /\ op_b cur = op_b cur).
  { split; [exact Hc|]. split; [constructor; assumption|]. split; [|split; [lia|reflexivity]].
    unfold same_shape. cbn. tauto. }
  assert (Next : forall ne0 n, ne = Some ne0 -> next = Some n -> rough_eq ne0 lk = true ->
            chain (tl3 (prev, shrink_end_a cur, Some (grow_start_a n))) si sj ti tj /\
            stable le ne (prev, shrink_end_a cur, Some (grow_start_a n)) /\
            same_shape (prev, cur, next) (prev, shrink_end_a cur, Some (grow_start_a n)) /\
            k <= size_a (shrink_end_a cur) /\ op_b (shrink_end_a cur) = op_b cur).
  { intros ne0 n -> -> _.
    destruct (Hn ltac:(discriminate)) as [n' [Hn' Hne']]. cbn [snd] in Hn'. injection Hn' as <-.
    split; [|split; [|split; [|split]]].
    - cbn [tl3 optl app] in *. apply (chain_prefix_swap (optl prev) [cur; n]); [|exact Hc].
      intros mi mj H. apply shift_next_a; try assumption. lia.
    - constructor; cbn [fst snd].
      + exact Hp.
      + intros _. exists (grow_start_a n). split; [reflexivity|]. destruct n as [[tn na] nb]. exact Hne'.
    - unfold same_shape. cbn [fst snd]. repeat split; try tauto; try discriminate; try (destruct cur as [[tc ca] cb]; reflexivity).
    - destruct cur as [[tc [ca1 ca2]] [cb1 cb2]]. unfold size_a, shrink_end_a, mk_op, op_a in *. cbn [fst snd] in *. lia.
    - destruct cur as [[tc ca] cb]. reflexivity. }
  unfold rebalance_a.
  destruct le as [le0|]; [destruct prev as [p|]|].
  - destruct (rough_eq le0 lk) eqn:El.
    + destruct (Hp ltac:(discriminate)) as [p' [Hp' Hpe]]. cbn [fst] in Hp'. injection Hp' as <-.
      split; [|split; [|split; [|split]]].
      * cbn [tl3 optl app] in *. apply shift_last_a; try assumption. lia.
      * constructor; cbn [fst snd].
        -- intros _. exists (grow_end_a p). split; [reflexivity|]. destruct p as [[tp pa] pb]. exact Hpe.
        -- exact Hn.
      * unfold same_shape. cbn [fst snd]. repeat split; try tauto; try discriminate; try (destruct cur as [[tc ca] cb]; reflexivity).
      * destruct cur as [[tc [ca1 ca2]] [cb1 cb2]]. unfold size_a, shrink_start_a, mk_op, op_a in *. cbn [fst snd] in *. lia.
      * destruct cur as [[tc ca] cb]. reflexivity.
    + destruct ne as [ne0|]; [destruct next as [n|]|]; try exact Keep.
      destruct (rough_eq ne0 lk) eqn:En; [apply (Next ne0 n eq_refl eq_refl En)|exact Keep].
  - destruct ne as [ne0|]; [destruct next as [n|]|]; try exact Keep.
    destruct (rough_eq ne0 lk) eqn:En; [apply (Next ne0 n eq_refl eq_refl En)|exact Keep].
  - destruct ne as [ne0|]; [destruct next as [n|]|]; try exact Keep.
    destruct (rough_eq ne0 lk) eqn:En; [apply (Next ne0 n eq_refl eq_refl En)|exact Keep].
Qed.

(* the two inner loops *)
Lemma fold_b le ne si sj ti tj : forall links t,
  chain (tl3 t) si sj ti tj -> stable le ne t -> has_insert (op_tag (snd (fst t))) = true ->
  length links <= size_b (snd (fst t)) ->
  let t' := fold_left (rebalance_b le ne) links t in
  chain (tl3 t') si sj ti tj /\ stable le ne t' /\ same_shape t t' /\ op_a (snd (fst t')) = op_a (snd (fst t)).
Proof.
  induction links as [|lk links IH]; intros t Hc Hs Hi Hk; cbn [fold_left].
  - split; [exact Hc|split; [exact Hs|split; [unfold same_shape; repeat split; auto|reflexivity]]].
  - cbn [length] in Hk.
    destruct (rebalance_b_step le ne t lk si sj ti tj (length links) Hc Hs Hi Hk) as (C1 & S1 & Sh1 & K1 & A1).
    cbv zeta in *.
    assert (Hi1 : has_insert (op_tag (snd (fst (rebalance_b le ne t lk)))) = true).
    { destruct Sh1 as (_ & _ & Ht). rewrite <- Ht. exact Hi. }
    destruct (IH _ C1 S1 Hi1 K1) as (C2 & S2 & Sh2 & A2). cbv zeta in *.
    split; [exact C2|split; [exact S2|split; [|congruence]]].
    destruct Sh1 as (X1 & X2 & X3). destruct Sh2 as (Y1 & Y2 & Y3). unfold same_shape. repeat split; try tauto; congruence.
Qed.

Lemma fold_a le ne si sj ti tj : forall links t,
  chain (tl3 t) si sj ti tj -> stable le ne t -> has_delete (op_tag (snd (fst t))) = true ->
  length links <= size_a (snd (fst t)) ->
  let t' := fold_left (rebalance_a le ne) links t in
  chain (tl3 t') si sj ti tj /\ stable le ne t' /\ same_shape t t' /\ op_b (snd (fst t')) = op_b (snd (fst t)).
Proof.
  induction links as [|lk links IH]; intros t Hc Hs Hi Hk; cbn [fold_left].
  - split; [exact Hc|split; [exact Hs|split; [unfold same_shape; repeat split; auto|reflexivity]]].
  - cbn [length] in Hk.
    destruct (rebalance_a_step le ne t lk si sj ti tj (length links) Hc Hs Hi Hk) as (C1 & S1 & Sh1 & K1 & A1).
    cbv zeta in *.
    assert (Hi1 : has_delete (op_tag (snd (fst (rebalance_a le ne t lk)))) = true).
    { destruct Sh1 as (_ & _ & Ht). rewrite <- Ht. exact Hi. }
    destruct (IH _ C1 S1 Hi1 K1) as (C2 & S2 & Sh2 & A2). cbv zeta in *.
    split; [exact C2|split; [exact S2|split; [|congruence]]].
    destruct Sh1 as (X1 & X2 & X3). destruct Sh2 as (Y1 & Y2 & Y3). unfold same_shape. repeat split; try tauto; congruence.
Qed.

Lemma slice_length (l : list link) lo hi : length (slice l lo hi) <= hi - lo.
Proof. unfold slice. rewrite firstn_length. lia. Qed.

Lemma rebalance_one_chain a b t si sj ti tj :
  chain (tl3 t) si sj ti tj ->
  chain (tl3 (rebalance_one a b t)) si sj ti tj /\ same_shape t (rebalance_one a b t).
Proof.
  destruct t as [[prev cur] next]. intros Hc. unfold rebalance_one.
  destruct (is_equal (op_tag cur)) eqn:Ee.
  { split; [exact Hc|unfold same_shape; repeat split; auto]. }
  set (le := match prev with
             | Some p => if is_equal (op_tag p) then Some (nth_link (snd (op_a p) - 1) a) else None
             | None => None end).
  set (ne := match next with
             | Some n => if is_equal (op_tag n) then Some (nth_link (fst (op_a n)) a) else None
             | None => None end).
  assert (Hs : stable le ne (prev, cur, next)).
  { constructor; cbn [fst snd].
    - unfold le. destruct prev as [p|]; [|congruence]. destruct (is_equal (op_tag p)) eqn:E; [|congruence]. intros _. eauto.
    - unfold ne. destruct next as [n|]; [|congruence]. destruct (is_equal (op_tag n)) eqn:E; [|congruence]. intros _. eauto. }
  (* insertion side *)
  assert (B : let t1 := if has_insert (op_tag cur)
                        then fold_left (rebalance_b le ne) (slice b (fst (op_b cur)) (snd (op_b cur))) (prev, cur, next)
                        else (prev, cur, next) in
              chain (tl3 t1) si sj ti tj /\ stable le ne t1 /\ same_shape (prev, cur, next) t1).
  { cbv zeta. destruct (has_insert (op_tag cur)) eqn:Ei.
    - destruct (fold_b le ne si sj ti tj (slice b (fst (op_b cur)) (snd (op_b cur))) (prev, cur, next) Hc Hs Ei
                  (slice_length b _ _)) as (C & S & Sh & _). auto.
    - split; [exact Hc|split; [exact Hs|unfold same_shape; repeat split; auto]]. }
  cbv zeta in B.
  destruct (if has_insert (op_tag cur)
            then fold_left (rebalance_b le ne) (slice b (fst (op_b cur)) (snd (op_b cur))) (prev, cur, next)
            else (prev, cur, next)) as [[p1 cur1] n1] eqn:E1.
  destruct B as (C1 & S1 & Sh1).
  destruct (has_delete (op_tag cur)) eqn:Ed.
  - assert (Hd1 : has_delete (op_tag (snd (fst (p1, cur1, n1)))) = true).
    { destruct Sh1 as (_ & _ & Ht). cbn [fst snd] in *. rewrite <- Ht. exact Ed. }
    destruct (fold_a le ne si sj ti tj (slice a (fst (op_a cur1)) (snd (op_a cur1))) (p1, cur1, n1) C1 S1 Hd1
                (slice_length a _ _)) as (C2 & S2 & Sh2 & _).
    cbv zeta in *. split; [exact C2|].
    destruct Sh1 as (X1 & X2 & X3). destruct Sh2 as (Y1 & Y2 & Y3). unfold same_shape. repeat split; try tauto; congruence.
  - split; [exact C1|exact Sh1].
Qed.

Lemma chain_replace_middle pre mid mid' post i j ei ej :
  (forall mi mj ni nj, chain mid mi mj ni nj -> chain mid' mi mj ni nj) ->
  chain (pre ++ mid ++ post) i j ei ej -> chain (pre ++ mid' ++ post) i j ei ej.
Proof.
  intros H Hc. apply chain_app in Hc as (mi & mj & H1 & H2). apply chain_app in H2 as (ni & nj & H2 & H3).
  apply chain_app. exists mi, mj. split; [exact H1|]. apply chain_app. exists ni, nj. split; [apply H, H2|exact H3].
Qed.

Lemma rebalance_from_chain a b : forall rest done cur i j ei ej,
  chain (rev done ++ cur :: rest) i j ei ej -> chain (rebalance_from a b done cur rest) i j ei ej.
Proof.
  induction rest as [|n r IH]; intros done cur i j ei ej Hc; cbn [rebalance_from].
  - destruct done as [|p d].
    + destruct (rebalance_one_chain a b (None, cur, None) i j ei ej Hc) as [C Sh].
      destruct (rebalance_one a b (None, cur, None)) as [[p' c'] n'].
      destruct Sh as (S1 & S2 & _). cbn [fst snd] in *.
      destruct p' as [x|]; [discriminate (proj1 S1 eq_refl)|]. destruct n' as [y|]; [discriminate (proj1 S2 eq_refl)|].
      exact C.
    + cbn [rev] in Hc. rewrite <- app_assoc in Hc. cbn [app] in Hc.
      assert (Hm : chain (rev d ++ tl3 (Some p, cur, None) ++ []) i j ei ej) by (cbn [tl3 optl app]; exact Hc).
      pose proof (rebalance_one_chain a b (Some p, cur, None)) as R.
      destruct (rebalance_one a b (Some p, cur, None)) as [[p' c'] n'] eqn:E.
      assert (Hm' : chain (rev d ++ tl3 (p', c', n') ++ []) i j ei ej).
      { apply (chain_replace_middle (rev d) (tl3 (Some p, cur, None))); [|exact Hm]. intros mi mj ni nj H. apply (R mi mj ni nj H). }
      assert (Sh : same_shape (Some p, cur, None) (p', c', n')).
      { apply chain_app in Hm as (mi & mj & _ & H2). rewrite app_nil_r in H2. exact (proj2 (R mi mj ei ej H2)). }
      destruct Sh as (S1 & S2 & _). cbn [fst snd] in *.
      destruct p' as [x|]; [|discriminate (proj2 S1 eq_refl)].
      destruct n' as [y|]; [discriminate (proj1 S2 eq_refl)|].
      cbn [rev tl3 optl app] in *. rewrite <- app_assoc. cbn [app]. exact Hm'.
  - destruct done as [|p d].
    + assert (Hm : chain ([] ++ tl3 (None, cur, Some n) ++ r) i j ei ej) by (cbn [tl3 optl app]; exact Hc).
      pose proof (rebalance_one_chain a b (None, cur, Some n)) as R.
      destruct (rebalance_one a b (None, cur, Some n)) as [[p' c'] n'] eqn:E.
      assert (Hm' : chain ([] ++ tl3 (p', c', n') ++ r) i j ei ej).
      { apply (chain_replace_middle [] (tl3 (None, cur, Some n))); [|exact Hm]. intros mi mj ni nj H. apply (R mi mj ni nj H). }
      assert (Sh : same_shape (None, cur, Some n) (p', c', n')).
      { cbn [app] in Hm. apply chain_app in Hm as (mi & mj & H1 & _). exact (proj2 (R i j mi mj H1)). }
      destruct Sh as (S1 & S2 & _). cbn [fst snd] in *.
      destruct p' as [x|]; [discriminate (proj1 S1 eq_refl)|].
      destruct n' as [y|]; [|discriminate (proj2 S2 eq_refl)].
      apply IH. cbn [rev tl3 optl app] in *. exact Hm'.
    + cbn [rev] in Hc. rewrite <- app_assoc in Hc. cbn [app] in Hc.
      assert (Hm : chain (rev d ++ tl3 (Some p, cur, Some n) ++ r) i j ei ej) by (cbn [tl3 optl app]; exact Hc).
      pose proof (rebalance_one_chain a b (Some p, cur, Some n)) as R.
      destruct (rebalance_one a b (Some p, cur, Some n)) as [[p' c'] n'] eqn:E.
      assert (Hm' : chain (rev d ++ tl3 (p', c', n') ++ r) i j ei ej).
      { apply (chain_replace_middle (rev d) (tl3 (Some p, cur, Some n))); [|exact Hm]. intros mi mj ni nj H. apply (R mi mj ni nj H). }
      assert (Sh : same_shape (Some p, cur, Some n) (p', c', n')).
      { apply chain_app in Hm as (mi & mj & _ & H2). apply chain_app in H2 as (ni & nj & H2 & _). exact (proj2 (R mi mj ni nj H2)). }
      destruct Sh as (S1 & S2 & _). cbn [fst snd] in *.
      destruct p' as [x|]; [|discriminate (proj2 S1 eq_refl)].
      destruct n' as [y|]; [|discriminate (proj2 S2 eq_refl)].
      apply IH. cbn [rev tl3 optl app] in *. rewrite <- !app_assoc. cbn [app]. exact Hm'.
Qed.

Theorem rebalance_chain a b ops i j ei ej :
  chain ops i j ei ej -> chain (rebalance a b ops) i j ei ej.
Proof.
  destruct ops as [|o rest]; [intros H; exact H|].
  intros H. unfold rebalance. apply rebalance_from_chain. exact H.
Qed.

(* the whole of _assemble_diff: for ANY contiguous opcode list over lists a and b, every link
   of a is listed exactly once as unchanged / changed / removed, every link of b exactly once as
   unchanged / changed / added, and unchanged entries pair links with the same exact key *)
Theorem assemble_diff_exactly_once a b ops :
  chain ops 0 0 (length a) (length b) ->
  Permutation (olds (assemble_diff a b ops)) a /\ Permutation (news (assemble_diff a b ops)) b /\
  exact_pairs (assemble_diff a b ops).
Proof.
  intros H. unfold assemble_diff.
  destruct (assemble_chain a b (rebalance a b ops) 0 0 (length a) (length b) (rebalance_chain a b ops _ _ _ _ H)) as (H1 & H2 & H3).
  cbv zeta in *. unfold slice in *. rewrite !slice_self in *. auto.
Qed.

(* ------------------------------------------------------------------ the whole links diff on two link lists *)
Definition diff_of_lists (a b : list link) : list entry :=
  assemble_diff a b (get_opcodes link same_key rough_eq dlink a b).

Theorem diff_of_lists_exactly_once a b :
  Permutation (olds (diff_of_lists a b)) a /\ Permutation (news (diff_of_lists a b)) b /\
  exact_pairs (diff_of_lists a b).
Proof. apply assemble_diff_exactly_once, get_opcodes_chain. Qed.

(* no change reported => the two lists pair up link by link with equal exact keys *)
Lemma no_change_pairs d :
  count_changes d = 0 -> exact_pairs d -> Forall2 (fun o n => same_key o n = true) (olds d) (news d).
Proof.
  unfold count_changes. induction d as [|e d IH]; intros Hc Hp; [constructor|].
  inversion Hp as [|? ? He Hd]; subst.
  destruct e as [o n|o n|o|n]; cbn [filter is_change] in Hc; try (cbn [List.length] in Hc; lia).
  rewrite olds_cons, news_cons. cbn [old_of new_of app]. constructor; [exact He|apply IH; assumption].
Qed.

Lemma Forall2_in_l {A B} (R : A -> B -> Prop) l l' x :
  Forall2 R l l' -> In x l -> exists y, In y l' /\ R x y.
Proof.
  induction 1 as [|a b l l' Hab Hl IH]; intros Hin; [destruct Hin|].
  destruct Hin as [->|Hin]; [exists b; split; [left; reflexivity|exact Hab]|].
  destruct (IH Hin) as [y [Hy Hr]]. exists y. split; [right; exact Hy|exact Hr].
Qed.

Lemma Forall2_in_r {A B} (R : A -> B -> Prop) l l' y :
  Forall2 R l l' -> In y l' -> exists x, In x l /\ R x y.
Proof.
  induction 1 as [|a b l l' Hab Hl IH]; intros Hin; [destruct Hin|].
  destruct Hin as [->|Hin]; [exists a; split; [left; reflexivity|exact Hab]|].
  destruct (IH Hin) as [x [Hx Hr]]. exists x. split; [right; exact Hx|exact Hr].
Qed.

Theorem zero_changes_same_links a b :
  count_changes (diff_of_lists a b) = 0 ->
  (forall x, In x a -> exists y, In y b /\ same_key x y = true) /\
  (forall y, In y b -> exists x, In x a /\ same_key x y = true).
Proof.
  intros Hc. destruct (diff_of_lists_exactly_once a b) as (Po & Pn & Ex).
  pose proof (no_change_pairs _ Hc Ex) as F. split.
  - intros x Hx. apply (Permutation_in _ (Permutation_sym Po)) in Hx.
    destruct (Forall2_in_l _ _ _ _ F Hx) as [y [Hy Hk]].
    exists y. split; [apply (Permutation_in _ Pn), Hy|exact Hk].
  - intros y Hy. apply (Permutation_in _ (Permutation_sym Pn)) in Hy.
    destruct (Forall2_in_r _ _ _ _ F Hy) as [x [Hx Hk]].
    exists x. split; [apply (Permutation_in _ Po), Hx|exact Hk].
Qed.

(* ------------------------------------------------------------------ the same links on both pages => zero changes *)
Lemma str_eqb_sym x y : str_eqb x y = str_eqb y x.
Proof.
  destruct (str_eqb_spec x y) as [->|Hne]; [rewrite str_eqb_refl; reflexivity|].
  destruct (str_eqb_spec y x) as [->|]; [congruence|reflexivity].
Qed.

Lemma rough_eq_sym x y : rough_eq x y = rough_eq y x.
Proof. unfold rough_eq. rewrite (str_eqb_sym (l_href x)), (str_eqb_sym (lower_text x)). reflexivity. Qed.

Lemma rough_eq_key x y z : same_key y z = true -> rough_eq z x = rough_eq y x.
Proof.
  unfold same_key, rough_eq. intros H. apply andb_true_iff in H as [H1 H2].
  apply str_eqb_eq in H1. apply str_eqb_eq in H2. rewrite H1, H2. reflexivity.
Qed.

Lemma same_key_refl x : same_key x x = true.
Proof. unfold same_key. rewrite !str_eqb_refl. reflexivity. Qed.

Lemma pair_equal_aligned a : forall b,
  Forall2 (fun x y => same_key x y = true) a b ->
  pair_equal a [] b = map (fun xy => Unchanged (fst xy) (snd xy)) (combine a b).
Proof.
  induction a as [|x a' IH]; intros b H; inversion H as [|? y ? b' Hxy Hab]; subst; [reflexivity|].
  rewrite pair_equal_cons. cbn [take_exact]. rewrite Hxy. cbv zeta. cbn [combine map fst snd].
  destruct a' as [|x2 a''].
  - inversion Hab; subst. cbn [flush last_or drain app pair_equal map]. reflexivity.
  - inversion Hab as [|? y2 ? b'' Hxy2 Hab2]; subst.
    destruct (rough_eq x x2) eqn:Er; cbn [negb].
    + cbn [app]. rewrite (IH _ Hab). reflexivity.
    + cbn [flush last_or drain].
      rewrite (rough_eq_key x x2 y2 Hxy2), rough_eq_sym, Er. cbn [app]. rewrite (IH _ Hab). reflexivity.
Qed.

Lemma count_all_unchanged (l : list (link * link)) :
  count_changes (map (fun xy => Unchanged (fst xy) (snd xy)) l) = 0.
Proof. unfold count_changes. induction l as [|xy l IH]; [reflexivity|exact IH]. Qed.

Theorem same_keys_zero_changes a b :
  Forall2 (fun x y => same_key x y = true) a b -> count_changes (diff_of_lists a b) = 0.
Proof.
  intros H. unfold diff_of_lists.
  assert (Hlen : length a = length b) by (induction H; cbn; congruence).
  destruct a as [|x a'].
  - inversion H; subst. reflexivity.
  - set (n := length (x :: a')).
    assert (Hn : 1 <= n) by (unfold n; cbn; lia).
    assert (Hal : forall i, i < n -> same_key (nth i b dlink) (nth i (x :: a') dlink) = true).
    { intros i Hi. clear -H Hi. revert i Hi. unfold n. induction H as [|u v l l' Huv Hl IH]; intros i Hi; [cbn in Hi; lia|].
      destruct i as [|i]; cbn [nth].
      - unfold same_key in *. rewrite (str_eqb_sym (l_href v)), (str_eqb_sym (lower_text v)). exact Huv.
      - apply IH. cbn in Hi. lia. }
    destruct (opcodes_aligned link same_key rough_eq dlink (x :: a') b n eq_refl (eq_sym Hlen) Hal Hn) as [Ho _].
    rewrite Ho. unfold assemble_diff, rebalance, rebalance_from, rebalance_one. cbn [is_equal op_tag fst snd rev app map List.concat].
    unfold assemble_op. cbn [op_tag op_a op_b fst snd]. unfold slice. rewrite Nat.sub_0_r. cbn [skipn].
    unfold n. rewrite firstn_all. rewrite Hlen at 1. rewrite firstn_all. rewrite app_nil_r.
    rewrite (pair_equal_aligned _ _ H). apply count_all_unchanged.
Qed.

(* links that only navigate within the page never become Link objects *)
Lemma outgoing_not_in_page a l :
  outgoing a = Some l -> exists c href, assoc_str n_href (fst a) = Some (c :: href) /\ c <> 35%N.
Proof.
  unfold outgoing. destruct (assoc_str n_href (fst a)) as [[|c href]|]; try discriminate.
  destruct (N.eqb_spec c 35); [discriminate|]. intros _. exists c, href. split; [reflexivity|assumption].
Qed.

(* C10: the link targets shown by a row are exactly the entry's target(s): one link for unchanged /
   added / removed entries and for changed entries whose target did not change, two (new, then old)
   otherwise - whatever the nested text diffs contain. *)
From Coq Require Import List NArith ZArith Arith Bool String Lia.
From WMD Require Import Gen.Tables Lib.Str Lib.PyChars Lib.Escape Model.LinksHtml Proofs.EscapeProofs Proofs.LinksHtmlProofs.
Import ListNotations.
Open Scope N_scope.

Definition anchors (l : list tok) : list (list (str * str)) :=
  flat_map (fun t => match t with TStart n a => if str_eqb n (s2l "a") then [a] else [] | _ => [] end) l.
Definition ev_anchors (l : list event) : list (list (str * str)) :=
  flat_map (fun ev => match ev with EvStart n a => if str_eqb n (s2l "a") then [a] else [] | _ => [] end) l.

Lemma anchors_app a b : anchors (a ++ b) = anchors a ++ anchors b.
Proof. unfold anchors. apply flat_map_app. Qed.
Lemma ev_anchors_app a b : ev_anchors (a ++ b) = ev_anchors a ++ ev_anchors b.
Proof. unfold ev_anchors. apply flat_map_app. Qed.

Lemma anchors_sem evs : forall acc, anchors (sem_events evs acc) = map (map lex_attr) (ev_anchors evs).
Proof.
  induction evs as [|ev evs IH]; intros acc.
  - cbn [sem_events]. destruct acc; reflexivity.
  - destruct ev as [n a|n|n a|p]; cbn [sem_events]; try (rewrite anchors_app; replace (anchors (match acc with [] => [] | _ :: _ => [TText acc] end)) with (@nil (list (str * str))) by (destruct acc; reflexivity)).
    + cbn [app anchors flat_map ev_anchors]. fold (anchors (sem_events evs [])). fold (ev_anchors evs). rewrite IH.
      destruct (str_eqb n (s2l "a")); reflexivity.
    + cbn [app anchors flat_map ev_anchors]. fold (anchors (sem_events evs [])). fold (ev_anchors evs). apply IH.
    + cbn [app anchors flat_map ev_anchors]. fold (anchors (sem_events evs [])). fold (ev_anchors evs). apply IH.
    + cbn [ev_anchors flat_map app]. fold (ev_anchors evs). apply IH.
Qed.

Lemma ev_anchors_text_diff d : ev_anchors (flat_map events (nodes_for_text_diff d)) = [].
Proof.
  induction d as [|[c t] d IH]; [reflexivity|]. cbn [nodes_for_text_diff map flat_map fst snd]. rewrite ev_anchors_app.
  fold (nodes_for_text_diff d). rewrite IH.
  destruct (Z.eqb c (-1)); [|destruct (Z.eqb c 1)]; reflexivity.
Qed.

Lemma ev_anchors_link url d :
  ev_anchors (events (href_link url (paren_l :: nodes_for_text_diff d ++ [paren_r]))) = [[(s2l "href", url)]].
Proof.
  unfold href_link, el. rewrite events_el. rewrite ev_anchors_app. cbn [flat_map paren_l events app].
  rewrite flat_map_app. cbn [ev_anchors flat_map]. fold (ev_anchors (flat_map events (nodes_for_text_diff d) ++ flat_map events [paren_r])).
  rewrite ev_anchors_app, ev_anchors_text_diff. reflexivity.
Qed.

Definition href_body (u : str) : list (str * str) := [(s2l "href", attr_body (html_escape false u))].

Lemma flat_map_cons {A B} (f : A -> list B) x l : flat_map f (x :: l) = f x ++ flat_map f l.
Proof. reflexivity. Qed.

Lemma ev_anchors_start n a l : ev_anchors (EvStart n a :: l) = (if str_eqb n (s2l "a") then [a] else []) ++ ev_anchors l.
Proof. reflexivity. Qed.

Lemma ev_anchors_cell name attrs children : str_eqb (s2l name) (s2l "a") = false ->
  ev_anchors (events (el name attrs children)) = ev_anchors (flat_map events children).
Proof.
  intros H. unfold el. rewrite events_el, ev_anchors_app, ev_anchors_start, H. cbn [app].
  change (ev_anchors [EvEnd (s2l name)]) with (@nil (list (str * str))). rewrite app_nil_r. reflexivity.
Qed.

Theorem row_link_targets e :
  anchors (row_tokens e) =
  match e with
  | EPlain _ _ href => [href_body href]
  | EChanged _ _ old new => href_body new :: (if str_eqb old new then [] else [href_body old])
  end.
Proof.
  unfold row_tokens. rewrite anchors_sem. unfold row_for. rewrite (ev_anchors_cell "tr") by reflexivity.
  rewrite !flat_map_cons, !ev_anchors_app. cbn [flat_map]. rewrite app_nil_r.
  replace (ev_anchors (events (change_cell (entry_code e)))) with (@nil (list (str * str)))
    by (unfold change_cell; destruct (change_info (entry_code e)) as [s [t|]]; reflexivity).
  cbn [app].
  destruct e as [c text href|td hd old new].
  - reflexivity.
  - unfold text_cell, href_cell. rewrite !(ev_anchors_cell "td") by reflexivity.
    rewrite flat_map_app, ev_anchors_app, ev_anchors_text_diff. cbn [app].
    replace (ev_anchors (flat_map events (if Nat.eqb (List.length td) 1 then [] else void "br" [] :: nodes_for_text_diff (filter not_inserted td))))
      with (@nil (list (str * str))).
    2: { destruct (Nat.eqb (List.length td) 1); [reflexivity|]. rewrite flat_map_cons, ev_anchors_app, ev_anchors_text_diff. reflexivity. }
    cbn [app]. rewrite flat_map_cons, ev_anchors_app, ev_anchors_link.
    destruct (str_eqb old new); [reflexivity|].
    rewrite !flat_map_cons, !ev_anchors_app, ev_anchors_link. reflexivity.
Qed.

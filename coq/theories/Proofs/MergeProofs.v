(* Lemmas about merge_changes (properties C01, C09, C15): an origin-labelled version of the
   marker state machine, its refinement to the executable model, conservation of the input
   chunks, and the invariant that no block-level chunk lies between a marker and its close. *)
From Coq Require Import List NArith Arith Bool String Lia.
From WMD Require Import Gen.Tables Lib.Str Lib.PyChars Lib.Escape Lib.Difflib Model.RenderTokens Model.RenderMerge Model.RenderLabelled.
Import ListNotations.
Open Scope N_scope.

(* the labelled machine is the executable model, label by label *)
Lemma merge_changes_l_refines tt : forall chunks st,
  map (render_o tt) (merge_changes_l chunks st) = merge_changes_aux chunks tt st.
Proof.
  induction chunks as [|chunk rest IH]; intros st; cbn [merge_changes_l merge_changes_aux].
  - destruct st as [cc|]; [|reflexivity].
    rewrite !map_app, !map_map. reflexivity.
  - destruct chunk as [|c0 cr]; [apply IH|].
    destruct (starts_lt (c0 :: cr)).
    + destruct (second_is_slash (c0 :: cr)).
      * destruct st as [cc|].
        -- destruct (is_block_name _).
           ++ rewrite !map_app, map_map. cbn [map render_o]. rewrite IH. reflexivity.
           ++ destruct (index_of _ cc 0).
              ** cbn [map app render_o]. rewrite IH. reflexivity.
              ** destruct (mem_str _ empty_tags).
                 --- cbn [map app render_o]. rewrite IH. reflexivity.
                 --- rewrite !map_app, !map_map. cbn [map render_o]. rewrite IH. reflexivity.
        -- cbn [map app render_o]. rewrite IH. reflexivity.
      * destruct (is_block_name _).
        -- destruct st as [cc|].
           ++ rewrite !map_app, map_map. cbn [map render_o]. rewrite IH. reflexivity.
           ++ cbn [map app render_o]. rewrite IH. reflexivity.
        -- destruct st as [cc|]; cbn [map app render_o]; rewrite IH; reflexivity.
    + destruct st as [cc|]; cbn [map app render_o]; rewrite IH; reflexivity.
Qed.

Theorem merge_changes_refines chunks tt :
  merge_changes chunks tt = map (render_o tt) (merge_changes_l chunks None).
Proof. symmetry. apply merge_changes_l_refines. Qed.

(* ------------------------------------------------------------------ conservation *)
Definition srcs (l : list ochunk) : list str :=
  flat_map (fun o => match o with OSrc s => [s] | _ => [] end) l.

Definition nonempty_chunks (l : list str) : list str :=
  filter (fun s => match s with [] => false | _ => true end) l.

Lemma srcs_app a b : srcs (a ++ b) = srcs a ++ srcs b.
Proof. unfold srcs. apply flat_map_app. Qed.

Lemma srcs_synclose l : srcs (map OSynClose l) = [].
Proof. induction l as [|x l IH]; [reflexivity|exact IH]. Qed.
Lemma srcs_synopen l : srcs (map OSynOpen l) = [].
Proof. induction l as [|x l IH]; [reflexivity|exact IH]. Qed.

Lemma srcs_cons_src x l : srcs (OSrc x :: l) = x :: srcs l.
Proof. reflexivity. Qed.
Lemma srcs_cons_open l : srcs (OOpen :: l) = srcs l.
Proof. reflexivity. Qed.
Lemma srcs_cons_close l : srcs (OClose :: l) = srcs l.
Proof. reflexivity. Qed.
Lemma srcs_nil : srcs [] = [].
Proof. reflexivity. Qed.

Ltac srcs_norm :=
  repeat (rewrite ?srcs_app, ?srcs_synclose, ?srcs_synopen, ?srcs_cons_src, ?srcs_cons_open, ?srcs_cons_close, ?srcs_nil;
          cbn [app]).

(* every non-empty input chunk is emitted exactly once, in order, unchanged; everything else in
   the output is a marker or a synthetic tag *)
Theorem merge_changes_conserves : forall chunks st,
  srcs (merge_changes_l chunks st) = nonempty_chunks chunks.
Proof.
  induction chunks as [|chunk rest IH]; intros st; cbn [merge_changes_l].
  - destruct st as [cc|]; [|reflexivity]. srcs_norm. reflexivity.
  - destruct chunk as [|c0 cr]; [apply IH|].
    change (nonempty_chunks ((c0 :: cr) :: rest)) with ((c0 :: cr) :: nonempty_chunks rest).
    destruct (starts_lt (c0 :: cr)).
    + destruct (second_is_slash (c0 :: cr)).
      * destruct st as [cc|].
        -- destruct (is_block_name _).
           ++ srcs_norm. rewrite IH. reflexivity.
           ++ destruct (index_of _ cc 0); [|destruct (mem_str _ empty_tags)]; srcs_norm; rewrite IH; reflexivity.
        -- srcs_norm. rewrite IH. reflexivity.
      * destruct (is_block_name _).
        -- destruct st as [cc|]; srcs_norm; rewrite IH; reflexivity.
        -- destruct st as [cc|]; srcs_norm; rewrite IH; reflexivity.
    + destruct st as [cc|]; srcs_norm; rewrite IH; reflexivity.
Qed.

(* ------------------------------------------------------------------ markers never enclose block-level chunks *)
Definition is_block_chunk (s : str) : bool := starts_lt s && is_block_name (chunk_tag_name s).

(* scanning the output: [inside] = between a marker and its close.  Inside, a source chunk must
   not be block-level and a synthetic tag must name a non-block element; markers alternate. *)
Fixpoint scan (inside : bool) (l : list ochunk) : option bool :=
  match l with
  | [] => Some inside
  | o :: l' =>
      match o with
      | OOpen => if inside then None else scan true l'
      | OClose => if inside then scan false l' else None
      | OSrc s => if inside && is_block_chunk s then None else scan inside l'
      | OSynClose n | OSynOpen n => if inside && is_block_name n then None else scan inside l'
      end
  end.

Lemma scan_app a : forall b inside mid,
  scan inside a = Some mid -> scan inside (a ++ b) = scan mid b.
Proof.
  induction a as [|o a IH]; intros b inside mid H; cbn [app scan] in *.
  - injection H as <-. reflexivity.
  - destruct o; repeat match goal with
                       | H : context [if ?c then _ else _] |- _ => destruct c eqn:?; try discriminate
                       end; eauto.
Qed.

Definition nonblock_names (cc : list str) : Prop := Forall (fun n => is_block_name n = false) cc.

Lemma scan_synclose cc : nonblock_names cc -> scan true (map OSynClose cc) = Some true.
Proof.
  induction 1 as [|n cc Hn Hcc IH]; cbn [map scan]; [reflexivity|]. rewrite Hn. exact IH.
Qed.

Lemma scan_synopen_outside cc : scan false (map OSynOpen cc) = Some false.
Proof. induction cc as [|n cc IH]; cbn [map scan andb]; [reflexivity|exact IH]. Qed.

Lemma scan_synopen_inside cc : nonblock_names cc -> scan true (map OSynOpen cc) = Some true.
Proof.
  induction 1 as [|n cc Hn Hcc IH]; cbn [map scan]; [reflexivity|]. rewrite Hn. exact IH.
Qed.

Lemma nonblock_skipn n cc : nonblock_names cc -> nonblock_names (skipn n cc).
Proof.
  revert cc. induction n as [|n IH]; intros cc H; [exact H|].
  destruct cc as [|x cc]; [constructor|]. inversion H; subst. apply IH. assumption.
Qed.

Lemma nonblock_rev cc : nonblock_names cc -> nonblock_names (rev cc).
Proof. intros H. apply Forall_rev. exact H. Qed.

(* the output of the marker state machine scans successfully and ends outside any marker *)
Theorem merge_changes_no_block_in_marker : forall chunks st,
  (match st with Some cc => nonblock_names cc | None => True end) ->
  scan (match st with Some _ => true | None => false end) (merge_changes_l chunks st) = Some false.
Proof.
  induction chunks as [|chunk rest IH]; intros st Hst; cbn [merge_changes_l].
  - destruct st as [cc|]; [|reflexivity].
    rewrite (scan_app _ _ true true (scan_synclose cc Hst)). cbn [app scan]. apply scan_synopen_outside.
  - destruct chunk as [|c0 cr]; [apply IH, Hst|].
    set (chunk := c0 :: cr) in *.
    destruct (starts_lt chunk) eqn:Elt.
    + destruct (second_is_slash chunk).
      * destruct st as [cc|].
        -- destruct (is_block_name (chunk_tag_name chunk)) eqn:Eb.
           ++ rewrite (scan_app _ _ true true (scan_synclose cc Hst)). cbn [app scan andb]. apply (IH None I).
           ++ destruct (index_of (chunk_tag_name chunk) cc 0) as [i|].
              ** cbn [app scan]. unfold is_block_chunk. rewrite Elt, Eb. cbn [andb].
                 apply (IH (Some (skipn (S i) cc))). apply nonblock_skipn, Hst.
              ** destruct (mem_str _ empty_tags).
                 { cbn [app scan]. unfold is_block_chunk. rewrite Elt, Eb. cbn [andb]. apply (IH (Some cc) Hst). }
                 rewrite (scan_app _ _ true true (scan_synclose cc Hst)). cbn [app scan andb].
                 rewrite (scan_app _ _ true true (scan_synopen_inside _ (nonblock_rev cc Hst))).
                 apply (IH (Some cc) Hst).
        -- cbn [app scan andb]. apply (IH None I).
      * destruct (is_block_name (chunk_tag_name chunk)) eqn:Eb.
        -- destruct st as [cc|].
           ++ rewrite (scan_app _ _ true true (scan_synclose cc Hst)). cbn [app scan andb]. apply (IH None I).
           ++ cbn [app scan andb]. apply (IH None I).
        -- destruct st as [cc|]; cbn [app scan].
           ++ unfold is_block_chunk. rewrite Elt, Eb. cbn [andb].
              destruct (tracks_open (chunk_tag_name chunk)); apply (IH (Some _)); [constructor; assumption|exact Hst].
           ++ unfold is_block_chunk. rewrite Elt, Eb. cbn [andb].
              destruct (tracks_open (chunk_tag_name chunk)); apply (IH (Some _)); [constructor; [exact Eb|constructor]|constructor].
    + destruct st as [cc|]; cbn [app scan]; unfold is_block_chunk; rewrite Elt; cbn [andb].
      * apply (IH (Some cc) Hst).
      * apply (IH (Some [])). constructor.
Qed.

(* ------------------------------------------------------------------ merge_change_groups *)
Inductive litem := LTag (s : str) | LSynTag (name : str) | LGroup (g : list ochunk).

Definition render_og (tt : option str) (o : ochunk) : list str :=
  match o, tt with
  | OOpen, Some t => [open_marker t]
  | OClose, Some t => [close_tag_of t]
  | OOpen, None => []
  | OClose, None => []
  | OSrc s, _ => [s]
  | OSynClose n, _ => [close_tag_of n]
  | OSynOpen n, _ => [open_tag_of n]
  end.

Definition render_item (tt : option str) (it : litem) : item :=
  match it with
  | LTag s => ITag s
  | LSynTag n => ITag (open_tag_of n)
  | LGroup g => IGroup (flat_map (render_og tt) g)
  end.

(* [g] = labelled group under construction, newest first *)
Fixpoint merge_groups_l (chunks : list str) (st : option (list ochunk * list str)) : list litem :=
  match chunks with
  | [] =>
      match st with
      | Some (g, cc) => LGroup (rev g ++ map OSynClose cc ++ [OClose]) :: map LSynTag (rev cc)
      | None => []
      end
  | chunk :: rest =>
      if skip_group_chunk chunk then merge_groups_l rest st
      else
          let plain (st0 : option (list ochunk * list str)) (track : option str) :=
            let '(g, cc) := match st0 with
                            | None => ([OOpen], [])
                            | Some gc => gc
                            end in
            let cc' := match track with Some n => n :: cc | None => cc end in
            merge_groups_l rest (Some (OSrc chunk :: g, cc')) in
          if starts_lt chunk then
            let name := chunk_tag_name chunk in
            if second_is_slash chunk then
              match st with
              | Some (g, cc) =>
                  if is_block_name name then
                    LGroup (rev g ++ map OSynClose cc ++ [OClose]) :: LTag chunk :: merge_groups_l rest None
                  else
                    match index_of name cc 0 with
                    | Some i => merge_groups_l rest (Some (OSrc chunk :: g, skipn (S i) cc))
                    | None =>
                        if mem_str name Tables.empty_tags then merge_groups_l rest (Some (OSrc chunk :: g, cc))
                        else
                        let g' := rev (map OSynOpen (rev cc)) ++ [OOpen] ++ [OSrc chunk] ++ [OClose] ++
                                  rev (map OSynClose cc) ++ g in
                        merge_groups_l rest (Some (g', cc))
                    end
              | None => LTag chunk :: merge_groups_l rest None
              end
            else if is_block_name name then
              match st with
              | Some (g, cc) => LGroup (rev g ++ map OSynClose cc ++ [OClose]) :: LTag chunk :: merge_groups_l rest None
              | None => LTag chunk :: merge_groups_l rest None
              end
            else plain st (if tracks_open name then Some name else None)
          else plain st None
  end.

Lemma flat_map_rev {A B} (f : A -> list B) (l : list A) :
  (forall x, List.length (f x) <= 1)%nat -> flat_map f (rev l) = rev (flat_map f l).
Proof.
  intros H. induction l as [|x l IH]; [reflexivity|].
  cbn [rev flat_map]. rewrite flat_map_app, IH, rev_app_distr. cbn [flat_map]. rewrite app_nil_r.
  specialize (H x). destruct (f x) as [|y [|z r]]; cbn in *; try reflexivity; lia.
Qed.

Lemma render_og_short tt o : (List.length (render_og tt o) <= 1)%nat.
Proof. destruct o, tt; cbn; lia. Qed.

Lemma render_synclose tt cc : flat_map (render_og tt) (map OSynClose cc) = map close_tag_of cc.
Proof. induction cc as [|n cc IH]; [reflexivity|]. cbn [map flat_map render_og app]. rewrite IH. destruct tt; reflexivity. Qed.
Lemma render_synopen tt cc : flat_map (render_og tt) (map OSynOpen cc) = map open_tag_of cc.
Proof. induction cc as [|n cc IH]; [reflexivity|]. cbn [map flat_map render_og app]. rewrite IH. destruct tt; reflexivity. Qed.

Definition render_gstate (tt : option str) (st : option (list ochunk * list str)) : option (list str * list str) :=
  match st with
  | Some (g, cc) => Some (rev (flat_map (render_og tt) (rev g)), cc)
  | None => None
  end.

Lemma render_rev_cons tt o g :
  rev (flat_map (render_og tt) (rev (o :: g))) = rev (render_og tt o) ++ rev (flat_map (render_og tt) (rev g)).
Proof. cbn [rev]. rewrite flat_map_app. cbn [flat_map]. rewrite app_nil_r, rev_app_distr. reflexivity. Qed.

Lemma merge_groups_l_refines tt : forall chunks st,
  map (render_item tt) (merge_groups_l chunks st) = merge_groups_aux chunks tt (render_gstate tt st).
Proof.
  assert (CM : forall cc g, flat_map (render_og tt) (rev g ++ map OSynClose cc ++ [OClose]) =
                       rev (rev (flat_map (render_og tt) (rev g))) ++ map close_tag_of cc ++
                       match tt with Some t => [close_tag_of t] | None => [] end).
  { intros cc g. rewrite !flat_map_app, render_synclose, rev_involutive. cbn [flat_map render_og]. destruct tt; reflexivity. }
  induction chunks as [|chunk rest IH]; intros st; cbn [merge_groups_l merge_groups_aux].
  - destruct st as [[g cc]|]; [|reflexivity]. cbn [render_gstate map render_item].
    rewrite CM. f_equal. rewrite !map_map. reflexivity.
  - destruct (skip_group_chunk chunk); [apply IH|].
    destruct (starts_lt chunk).
    + destruct (second_is_slash chunk).
      * destruct st as [[g cc]|]; cbn [render_gstate].
        -- destruct (is_block_name _).
           ++ cbn [map render_item]. rewrite CM, (IH None). reflexivity.
           ++ destruct (index_of _ cc 0).
              ** rewrite IH. cbn [render_gstate]. rewrite render_rev_cons. reflexivity.
              ** destruct (mem_str _ empty_tags).
                 { rewrite IH. cbn [render_gstate]. rewrite render_rev_cons. reflexivity. }
                 rewrite IH. cbn [render_gstate]. f_equal. f_equal. f_equal.
                 pose proof (render_og_short tt) as Hs.
                 rewrite (flat_map_rev _ _ Hs), rev_involutive, !flat_map_app.
                 rewrite (flat_map_rev _ (map OSynOpen (rev cc)) Hs), render_synopen.
                 rewrite (flat_map_rev _ (map OSynClose cc) Hs), render_synclose.
                 rewrite (flat_map_rev _ g Hs), rev_involutive.
                 cbn [flat_map render_og app]. destruct tt; cbn [rev app]; reflexivity.
        -- cbn [map render_item]. rewrite (IH None). reflexivity.
      * destruct (is_block_name _).
        -- destruct st as [[g cc]|]; cbn [render_gstate map render_item]; rewrite ?CM, (IH None); reflexivity.
        -- destruct st as [[g cc]|]; cbn [render_gstate]; rewrite IH; cbn [render_gstate]; rewrite render_rev_cons;
             cbn [rev flat_map render_og app]; destruct tt; reflexivity.
    + destruct st as [[g cc]|]; cbn [render_gstate]; rewrite IH; cbn [render_gstate]; rewrite render_rev_cons;
        cbn [rev flat_map render_og app]; destruct tt; reflexivity.
Qed.

Definition groups_closed (l : list litem) : Prop :=
  Forall (fun it => match it with
                    | LGroup g => scan false g = Some false
                    | LSynTag n => is_block_name n = false
                    | LTag _ => True
                    end) l.

Lemma scan_snoc inside l o mid : scan inside l = Some mid -> scan inside (l ++ [o]) = scan mid [o].
Proof. intros H. apply (scan_app l [o] inside mid H). Qed.

Lemma groups_closed_syntags cc : nonblock_names cc -> groups_closed (map LSynTag cc).
Proof. induction 1; constructor; assumption. Qed.

(* every group produced brackets its markers and holds no block-level chunk; loose tags stay outside *)
Theorem merge_groups_closed : forall chunks st,
  (match st with Some (g, cc) => scan false (rev g) = Some true /\ nonblock_names cc | None => True end) ->
  groups_closed (merge_groups_l chunks st).
Proof.
  assert (Close : forall g cc, scan false (rev g) = Some true -> nonblock_names cc ->
                    scan false (rev g ++ map OSynClose cc ++ [OClose]) = Some false).
  { intros g cc Hg Hcc. rewrite (scan_app _ _ false true Hg).
    rewrite (scan_app _ _ true true (scan_synclose cc Hcc)). reflexivity. }
  induction chunks as [|chunk rest IH]; intros st Hst; cbn [merge_groups_l].
  - destruct st as [[g cc]|]; [|constructor]. destruct Hst as [Hg Hcc].
    constructor; [apply Close; assumption|apply groups_closed_syntags, nonblock_rev, Hcc].
  - destruct (skip_group_chunk chunk); [apply IH, Hst|].
    destruct (starts_lt chunk) eqn:Elt.
    + destruct (second_is_slash chunk).
      * destruct st as [[g cc]|].
        -- destruct Hst as [Hg Hcc]. destruct (is_block_name (chunk_tag_name chunk)) eqn:Eb.
           ++ constructor; [apply Close; assumption|]. constructor; [exact I|apply (IH None I)].
           ++ destruct (index_of (chunk_tag_name chunk) cc 0) as [i|].
              ** apply IH. split; [|apply nonblock_skipn, Hcc]. cbn [rev].
                 rewrite (scan_snoc _ _ _ true Hg). cbn [scan]. unfold is_block_chunk. rewrite Elt, Eb. reflexivity.
              ** destruct (mem_str _ empty_tags).
                 { apply IH. split; [|exact Hcc]. cbn [rev].
                   rewrite (scan_snoc _ _ _ true Hg). cbn [scan]. unfold is_block_chunk. rewrite Elt, Eb. reflexivity. }
                 apply IH. split; [|exact Hcc].
                 rewrite !rev_app_distr, rev_involutive. cbn [rev app]. rewrite rev_involutive.
                 rewrite <- !app_assoc.
                 rewrite (scan_app _ _ false true Hg).
                 rewrite (scan_app _ _ true true (scan_synclose cc Hcc)). cbn [app scan andb].
                 apply scan_synopen_inside, nonblock_rev, Hcc.
        -- constructor; [exact I|apply (IH None I)].
      * destruct (is_block_name (chunk_tag_name chunk)) eqn:Eb.
        -- destruct st as [[g cc]|].
           ++ destruct Hst as [Hg Hcc]. constructor; [apply Close; assumption|]. constructor; [exact I|apply (IH None I)].
           ++ constructor; [exact I|apply (IH None I)].
        -- destruct st as [[g cc]|].
           ++ destruct Hst as [Hg Hcc]. apply IH. cbn [rev]. rewrite (scan_snoc _ _ _ true Hg). cbn [scan].
              unfold is_block_chunk. rewrite Elt, Eb. cbn [andb]. split; [reflexivity|].
              destruct (tracks_open (chunk_tag_name chunk)); [constructor; assumption|exact Hcc].
           ++ apply IH. cbn [rev app scan]. unfold is_block_chunk. rewrite Elt, Eb. cbn [andb]. split; [reflexivity|].
              destruct (tracks_open (chunk_tag_name chunk)); [constructor; [exact Eb|constructor]|constructor].
    + destruct st as [[g cc]|].
      * destruct Hst as [Hg Hcc]. apply IH. cbn [rev]. rewrite (scan_snoc _ _ _ true Hg). cbn [scan].
        unfold is_block_chunk. rewrite Elt. cbn [andb]. split; [reflexivity|exact Hcc].
      * apply IH. cbn [rev app scan]. unfold is_block_chunk. rewrite Elt. cbn [andb]. split; [reflexivity|constructor].
Qed.

(* conservation through grouping: every input chunk other than '' and ' ' appears exactly once, in order *)
Definition item_srcs (it : litem) : list str :=
  match it with LTag s => [s] | LSynTag _ => [] | LGroup g => srcs g end.

Definition kept_chunks (l : list str) : list str := filter (fun s => negb (skip_group_chunk s)) l.

Theorem merge_groups_conserves : forall chunks st,
  flat_map item_srcs (merge_groups_l chunks st) =
  (match st with Some (g, _) => srcs (rev g) | None => [] end) ++ kept_chunks chunks.
Proof.
  assert (SynTags : forall cc, flat_map item_srcs (map LSynTag cc) = []).
  { induction cc as [|n cc IH]; [reflexivity|exact IH]. }
  induction chunks as [|chunk rest IH]; intros st; cbn [merge_groups_l kept_chunks filter].
  - destruct st as [[g cc]|]; [|reflexivity]. cbn [flat_map item_srcs]. rewrite SynTags. srcs_norm. rewrite !app_nil_r. reflexivity.
  - fold (kept_chunks rest). destruct (skip_group_chunk chunk) eqn:Es; cbn [negb]; [apply IH|].
    assert (Snoc : forall g, srcs (rev (OSrc chunk :: g)) = srcs (rev g) ++ [chunk]).
    { intros g. cbn [rev]. srcs_norm. reflexivity. }
    destruct (starts_lt chunk).
    + destruct (second_is_slash chunk).
      * destruct st as [[g cc]|].
        -- destruct (is_block_name _).
           ++ cbn [flat_map item_srcs]. rewrite (IH None). srcs_norm. rewrite <- !app_assoc. reflexivity.
           ++ destruct (index_of _ cc 0).
              ** rewrite IH, Snoc, <- app_assoc. reflexivity.
              ** destruct (mem_str _ empty_tags); [rewrite IH, Snoc, <- app_assoc; reflexivity|].
                 rewrite IH. rewrite !rev_app_distr, !rev_involutive. srcs_norm.
                 cbn [rev app]. srcs_norm. rewrite !app_nil_r, <- !app_assoc. reflexivity.
        -- cbn [flat_map item_srcs app]. rewrite (IH None). reflexivity.
      * destruct (is_block_name _).
        -- destruct st as [[g cc]|]; cbn [flat_map item_srcs app]; rewrite (IH None); srcs_norm; rewrite <- ?app_assoc; reflexivity.
        -- destruct st as [[g cc]|]; rewrite IH; rewrite ?Snoc, <- ?app_assoc; reflexivity.
    + destruct st as [[g cc]|]; rewrite IH; rewrite ?Snoc, <- ?app_assoc; reflexivity.
Qed.

(* Tree-level reading of the single-sided views (properties C15 and C01).

   MergeProofs shows, at the level of the chunk stream, that no block-level chunk lies between a
   marker and its close.  Here the stream is read the way a tag-soup-free parser reads it - with a
   stack of open elements - and the statement becomes one about the element tree:

     if the chunk stream of the page is well nested (every end tag closes the element on top of
     the stack) and no block-level tag occurs inside an open inline element, then the stream of
     the view is well nested as well, markers included, every marker is closed by its own end
     tag, markers do not nest, and NO BLOCK-LEVEL ELEMENT IS OPENED WHILE A MARKER IS ON THE
     STACK - i.e. in the tree the stack parser builds, no marker element has a block-level
     descendant; the stack after the view is the stack after the page.

   The hypothesis is decidable ([balc]) and is discharged for concrete trees by computation; the
   harness evaluates it on every generated page through the extracted model, so the per-input
   residue of C15 shrinks to "html5-parser reads a well-nested stream like a stack parser". *)
From Coq Require Import List NArith Arith Bool String Lia.
From WMD Require Import Gen.Tables Lib.Str Lib.PyChars Lib.Escape Lib.Difflib Model.RenderTokens Model.RenderMerge Model.RenderLabelled
     Proofs.DifflibProofs Proofs.MergeProofs Proofs.EscapeProofs Proofs.TokenProofs Proofs.AssembleProofs Proofs.RenderProofs.
Import ListNotations.
Open Scope N_scope.

(* ------------------------------------------------------------------ how a chunk acts on the stack of open elements *)
Lemma nest_app a : forall b st, nest (a ++ b) st = match nest a st with Some m => nest b m | None => None end.
Proof.
  induction a as [|o a IH]; intros b st; cbn [app nest]; [reflexivity|].
  destruct (ostep o st); [apply IH|reflexivity].
Qed.

Lemma balc_app a : forall b st, balc (a ++ b) st = match balc a st with Some m => balc b m | None => None end.
Proof.
  induction a as [|s a IH]; intros b st; cbn [app balc]; [reflexivity|].
  destruct (chunk_event s).
  - destruct (is_block_name n && negb (all_block st)); [reflexivity|apply IH].
  - destruct st as [|m st']; [reflexivity|]. destruct (str_eqb m n); [apply IH|reflexivity].
  - destruct (all_block st); [apply IH|reflexivity].
  - destruct st; [apply IH|reflexivity].
  - apply IH.
Qed.

Lemma no_marker_names S : no_marker (names S) = true.
Proof. induction S as [|n S IH]; [reflexivity|exact IH]. Qed.

Lemma names_app a b : names (a ++ b) = names a ++ names b.
Proof. apply map_app. Qed.

Lemma nw_app a b : nw (a ++ b) = nw a ++ nw b.
Proof. apply filter_app. Qed.

Lemma nw_rev l : nw (rev l) = rev (nw l).
Proof.
  induction l as [|x l IH]; [reflexivity|]. cbn [rev]. rewrite nw_app, IH. cbn [nw filter].
  destruct (negb (is_wrapper x)); cbn [rev app]; [reflexivity|apply app_nil_r].
Qed.

Lemma nw_In c cc : In c (nw cc) -> In c cc.
Proof. intros H. apply filter_In in H. apply H. Qed.

Lemma nw_nil_skipn k : forall l, nw l = [] -> nw (skipn k l) = [].
Proof.
  induction k as [|k IH]; intros l H; [exact H|]. destruct l as [|x l]; [reflexivity|]. cbn [skipn].
  apply IH. cbn [nw filter] in H. destruct (negb (is_wrapper x)); [discriminate|exact H].
Qed.

(* html/head/body are inline, tracked names for the marker machine *)
Lemma wrappers_table :
  forallb (fun n => negb (is_block_name n) && tracks_open n && negb (mem_str n Tables.empty_tags)) wrappers = true.
Proof. vm_compute. reflexivity. Qed.

Lemma wrapper_facts n : is_wrapper n = true ->
  is_block_name n = false /\ tracks_open n = true /\ mem_str n Tables.empty_tags = false.
Proof.
  intros H. apply mem_str_In in H. pose proof wrappers_table as T. rewrite forallb_forall in T.
  specialize (T n H). apply andb_prop in T as [T T3]. apply andb_prop in T as [T1 T2].
  repeat split; [destruct (is_block_name n)|exact T2|destruct (mem_str n Tables.empty_tags)]; try reflexivity; discriminate.
Qed.

(* names tracked inside a marker: inline elements that get an end tag *)
Definition inline_names (cc : list str) : Prop := Forall (fun n => is_block_name n = false) cc.

Lemma nest_synclose cc : forall R, nest (map OSynClose cc) (names (nw cc) ++ R) = Some R.
Proof.
  induction cc as [|n cc IH]; intros R; cbn [map nw filter nest ostep]; [reflexivity|].
  destruct (is_wrapper n); cbn [negb]; [apply IH|].
  cbn [names map app pop_close]. rewrite str_eqb_refl. apply IH.
Qed.

Lemma nest_synopen l : forall R, inline_names l -> nest (map OSynOpen l) R = Some (names (rev (nw l)) ++ R).
Proof.
  induction l as [|n l IH]; intros R H; cbn [map nest ostep rev nw filter]; [reflexivity|].
  inversion H as [|n' l' Hn Hl]; subst. destruct (is_wrapper n); cbn [negb]; [apply (IH _ Hl)|].
  unfold push_open. rewrite Hn. cbn [andb].
  rewrite (IH _ Hl). cbn [rev]. unfold names. rewrite map_app, <- app_assoc. reflexivity.
Qed.

Lemma nest_synopen_rev cc R : inline_names cc -> nest (map OSynOpen (rev cc)) R = Some (names (nw cc) ++ R).
Proof. intros H. rewrite nest_synopen by (apply Forall_rev, H). rewrite nw_rev, rev_involutive. reflexivity. Qed.

Lemma all_block_inline cc S : inline_names cc -> all_block (nw cc ++ S) = true -> nw cc = [].
Proof.
  intros Hcc H. destruct (nw cc) as [|c r] eqn:E; [reflexivity|].
  assert (Hc : In c cc) by (apply nw_In; rewrite E; left; reflexivity).
  unfold inline_names in Hcc. rewrite Forall_forall in Hcc. specialize (Hcc c Hc).
  cbn [app all_block forallb] in H. rewrite Hcc in H. discriminate.
Qed.

Lemma index_of_In x : forall l k i, index_of x l k = Some i -> In x l.
Proof.
  induction l as [|y l IH]; intros k i H; cbn [index_of] in H; [discriminate|].
  destruct (str_eqb x y) eqn:E; [left; symmetry; apply str_eqb_eq, E|right; eapply IH, H].
Qed.

Lemma index_of_none x : forall l k, index_of x l k = None -> ~ In x l.
Proof.
  induction l as [|y l IH]; intros k H Hin; cbn [index_of] in H; [exact Hin|].
  destruct (str_eqb x y) eqn:E; [discriminate|]. destruct Hin as [->|Hin]; [rewrite str_eqb_refl in E; discriminate|].
  exact (IH _ H Hin).
Qed.

(* the first occurrence: everything in front of it is a different name *)
Lemma index_of_split x : forall l k i, index_of x l k = Some i ->
  exists pre post, l = pre ++ x :: post /\ ~ In x pre /\ skipn (S (i - k)) l = post /\ (k <= i)%nat.
Proof.
  induction l as [|y l IH]; intros k i H; cbn [index_of] in H; [discriminate|].
  destruct (str_eqb x y) eqn:E.
  - injection H as <-. apply str_eqb_eq in E. subst y. exists [], l. rewrite Nat.sub_diag. repeat split; auto.
  - destruct (IH _ _ H) as (pre & post & -> & Hn & Hs & Hk). exists (y :: pre), post.
    repeat split; [| |lia].
    + intros [->|Hin]; [rewrite str_eqb_refl in E; discriminate|exact (Hn Hin)].
    + replace (S (i - k)) with (S (S (i - S k))) by lia. cbn [skipn]. exact Hs.
Qed.

Definition tracked_inline (cc : list str) : Prop :=
  Forall (fun n => is_block_name n = false /\ tracks_open n = true) cc.

Lemma tracked_inline_names cc : tracked_inline cc -> inline_names cc.
Proof. intros H. eapply Forall_impl; [|exact H]. intros n [Hn _]. exact Hn. Qed.

Definition cc_of (st : option (list str)) : list str := match st with Some cc => cc | None => [] end.

Definition out_stack (st : option (list str)) (S : list str) : list entry :=
  match st with
  | Some cc => names (nw cc) ++ None :: names S
  | None => names S
  end.

Lemma nw_cons_wrapper n cc : is_wrapper n = true -> nw (n :: cc) = nw cc.
Proof. intros H. cbn [nw filter]. rewrite H. reflexivity. Qed.
Lemma nw_cons_plain n cc : is_wrapper n = false -> nw (n :: cc) = n :: nw cc.
Proof. intros H. cbn [nw filter]. rewrite H. reflexivity. Qed.
Lemma out_stack_cons_wrapper n cc S : is_wrapper n = true -> out_stack (Some (n :: cc)) S = out_stack (Some cc) S.
Proof. intros H. cbn [out_stack]. rewrite (nw_cons_wrapper _ _ H). reflexivity. Qed.
Lemma out_stack_cons_plain n cc S : is_wrapper n = false -> out_stack (Some (n :: cc)) S = Some n :: out_stack (Some cc) S.
Proof. intros H. cbn [out_stack]. rewrite (nw_cons_plain _ _ H). reflexivity. Qed.

(* ------------------------------------------------------------------ the marker state machine keeps the nesting *)
Lemma nest_cons o l st : nest (o :: l) st = match ostep o st with Some st' => nest l st' | None => None end.
Proof. reflexivity. Qed.
Lemma ostep_open st : no_marker st = true -> ostep OOpen st = Some (None :: st).
Proof. intros H. cbn [ostep]. rewrite H. reflexivity. Qed.
Lemma ostep_close st : ostep OClose (None :: st) = Some st.
Proof. reflexivity. Qed.

Ltac src_step := rewrite nest_cons; unfold ostep, chunk_event;
  repeat match goal with
         | E : ?b = _ |- context [if ?b then _ else _] => rewrite E
         end.

Theorem merge_changes_nests : forall chunks st S S',
  (match st with Some cc => tracked_inline cc | None => True end) ->
  balc chunks (nw (cc_of st) ++ S) = Some S' ->
  nest (merge_changes_l chunks st) (out_stack st S) = Some (names S').
Proof.
  induction chunks as [|chunk rest IH]; intros st S S' Hst Hb; cbn [merge_changes_l].
  - cbn [balc] in Hb. destruct st as [cc|]; cbn [cc_of out_stack nw filter app] in *.
    + injection Hb as <-. rewrite nest_app, nest_synclose; cbn [app]; rewrite nest_cons, ostep_close.
      rewrite nest_synopen_rev by (apply tracked_inline_names, Hst). rewrite names_app. reflexivity.
    + injection Hb as <-. reflexivity.
  - destruct chunk as [|c0 cr].
    { cbn [balc] in Hb. unfold chunk_event in Hb. cbn [starts_lt] in Hb. apply IH; assumption. }
    set (chunk := c0 :: cr) in *. cbn [balc] in Hb. unfold chunk_event in Hb.
    destruct (starts_lt chunk) eqn:Elt.
    2: { (* text *)
      destruct st as [cc|]; cbn [cc_of out_stack nw filter app] in *.
      - src_step. apply (IH (Some cc) S S' Hst Hb).
      - rewrite nest_cons, ostep_open by apply no_marker_names. src_step. apply (IH (Some []) S S'); [constructor|exact Hb]. }
    destruct (is_wrapper (chunk_tag_name chunk)) eqn:Ew.
    + (* an html/head/body tag: nothing is open; the marker machine tracks it as an inline element, the stack ignores it *)
      destruct (wrapper_facts _ Ew) as (Eb & Etr & Hne).
      assert (Hnil : nw (cc_of st) = [] /\ S = [] /\ balc rest [] = Some S').
      { destruct (nw (cc_of st) ++ S) eqn:E; [|discriminate]. apply app_eq_nil in E as [E1 E2]. auto. }
      clear Hb. destruct Hnil as (Hcc & -> & Hb).
      destruct (second_is_slash chunk) eqn:Esl.
      * destruct st as [cc|]; cbn [cc_of out_stack] in *.
        -- rewrite Eb. destruct (index_of (chunk_tag_name chunk) cc 0) as [i|] eqn:Ei.
           ++ cbn [app]. src_step.
              pose proof (IH (Some (skipn (S i) cc)) [] S') as IH'. cbn [out_stack cc_of] in IH'.
              rewrite (nw_nil_skipn _ _ Hcc) in IH'. rewrite Hcc. apply IH'; [apply Forall_skipn, Hst|exact Hb].
           ++ rewrite Hne. rewrite nest_app, nest_synclose; cbn [app]; rewrite nest_cons, ostep_close. src_step.
              rewrite nest_cons, ostep_open by reflexivity.
              rewrite nest_app, nest_synopen_rev by (apply tracked_inline_names, Hst).
              apply (IH (Some cc) [] S' Hst). cbn [cc_of]. rewrite Hcc. exact Hb.
        -- cbn [app]. src_step. apply (IH None [] S' I Hb).
      * rewrite Eb.
        destruct st as [cc|]; cbn [cc_of out_stack] in *.
        -- rewrite Etr; cbv zeta; cbn [app]. src_step.
           change (names (nw cc) ++ None :: names []) with (out_stack (Some cc) []). rewrite <- (out_stack_cons_wrapper _ cc [] Ew).
           apply (IH (Some (chunk_tag_name chunk :: cc)) [] S'); [constructor; [split; assumption|exact Hst]|].
           cbn [cc_of]. rewrite (nw_cons_wrapper _ _ Ew), Hcc. exact Hb.
        -- rewrite Etr; cbv zeta; cbn [app]. rewrite nest_cons, ostep_open by reflexivity. src_step.
           change (None :: names []) with (out_stack (Some []) []). rewrite <- (out_stack_cons_wrapper _ [] [] Ew).
           apply (IH (Some [chunk_tag_name chunk]) [] S'); [constructor; [split; assumption|constructor]|].
           cbn [cc_of]. rewrite (nw_cons_wrapper _ _ Ew). exact Hb.
    + destruct (second_is_slash chunk) eqn:Esl.
      * (* an end tag *)
        destruct st as [cc|]; cbn [cc_of out_stack] in *.
        -- destruct (is_block_name (chunk_tag_name chunk)) eqn:Eb.
           ++ (* block-level end tag inside a marker: nothing inline can be open *)
              destruct (tracks_open (chunk_tag_name chunk)) eqn:Etr.
              ** destruct (nw cc) as [|c cc'] eqn:Ecc.
                 --- cbn [app] in Hb. destruct S as [|m S2]; [discriminate|].
                     destruct (str_eqb m (chunk_tag_name chunk)) eqn:Em; [|discriminate].
                     rewrite nest_app; rewrite <- Ecc, nest_synclose; cbn [app]; rewrite nest_cons, ostep_close. src_step.
                     cbn [names map pop_close]. rewrite Em. apply (IH None S2 S' I Hb).
                 --- exfalso. cbn [app] in Hb. destruct (str_eqb c (chunk_tag_name chunk)) eqn:Ec; [|discriminate].
                     apply str_eqb_eq in Ec. subst c.
                     assert (Hin : In (chunk_tag_name chunk) cc) by (apply nw_In; rewrite Ecc; left; reflexivity).
                     unfold tracked_inline in Hst. rewrite Forall_forall in Hst. destruct (Hst _ Hin) as [Hc _]. congruence.
              ** destruct (all_block (nw cc ++ S)) eqn:Eall; [|discriminate].
                 pose proof (all_block_inline cc S (tracked_inline_names cc Hst) Eall) as Ecc.
                 rewrite nest_app, nest_synclose; cbn [app]; rewrite nest_cons, ostep_close. src_step. rewrite no_marker_names.
                 rewrite Ecc in Hb. apply (IH None S S' I Hb).
           ++ destruct (index_of (chunk_tag_name chunk) cc 0) as [i|] eqn:Ei.
              ** (* closes an element opened inside the marker: it is the innermost one *)
                 assert (Htr : tracks_open (chunk_tag_name chunk) = true).
                 { apply index_of_In in Ei. unfold tracked_inline in Hst. rewrite Forall_forall in Hst. apply (Hst _ Ei). }
                 rewrite Htr in Hb.
                 destruct (index_of_split _ _ _ _ Ei) as (pre & post & -> & Hnp & Hsk & _). rewrite Nat.sub_0_r in Hsk. rewrite Hsk.
                 rewrite nw_app in *. cbn [nw filter] in *. rewrite Ew in *. cbn [negb] in *. fold (nw post) in *.
                 assert (Hpre : nw pre = []).
                 { destruct (nw pre) as [|p r] eqn:Ep; [reflexivity|]. exfalso. cbn [app] in Hb.
                   destruct (str_eqb p (chunk_tag_name chunk)) eqn:Ec; [|discriminate]. apply str_eqb_eq in Ec. subst p.
                   apply Hnp, nw_In. rewrite Ep. left. reflexivity. }
                 rewrite Hpre in *. cbn [app] in *. rewrite str_eqb_refl in Hb.
                 src_step. cbn [names map app pop_close]. rewrite str_eqb_refl.
                 apply (IH (Some post) S S'); [|exact Hb].
                 unfold tracked_inline in *. apply Forall_app in Hst as [_ Hst]. inversion Hst; assumption.
              ** apply index_of_none in Ei.
                 destruct (tracks_open (chunk_tag_name chunk)) eqn:Etr.
                 --- (* closes an element opened before the marker: the marker is split around it *)
                     assert (Hne : mem_str (chunk_tag_name chunk) Tables.empty_tags = false).
                     { unfold tracks_open in Etr. apply andb_prop in Etr as [_ Etr]. destruct (mem_str _ Tables.empty_tags); [discriminate|reflexivity]. }
                     rewrite Hne.
                     assert (Ecc : nw cc = []).
                     { destruct (nw cc) as [|c r] eqn:Ecc; [reflexivity|]. exfalso. cbn [app] in Hb.
                       destruct (str_eqb c (chunk_tag_name chunk)) eqn:Ec; [|discriminate]. apply str_eqb_eq in Ec. subst c.
                       apply Ei, nw_In. rewrite Ecc. left. reflexivity. }
                     rewrite Ecc in Hb. cbn [app] in Hb. destruct S as [|m S2]; [discriminate|].
                     destruct (str_eqb m (chunk_tag_name chunk)) eqn:Em; [|discriminate].
                     rewrite nest_app, nest_synclose; cbn [app]; rewrite nest_cons, ostep_close. src_step.
                     cbn [names map pop_close]. rewrite Em. fold (names S2).
                     rewrite nest_cons, ostep_open by apply no_marker_names.
                     rewrite nest_app, nest_synopen_rev by (apply tracked_inline_names, Hst).
                     apply (IH (Some cc) S2 S' Hst). cbn [cc_of]. rewrite Ecc. exact Hb.
                 --- (* an end tag of an element that is never tracked: emitted as it is (</iframe>), or - for a name
                        that is not in empty_tags - marker closed and re-opened around it, inline elements too *)
                     destruct (mem_str (chunk_tag_name chunk) Tables.empty_tags).
                     { cbn [app]. src_step. apply (IH (Some cc) S S' Hst Hb). }
                     rewrite nest_app, nest_synclose; cbn [app]; rewrite nest_cons, ostep_close. src_step.
                     rewrite nest_cons, ostep_open by apply no_marker_names.
                     rewrite nest_app, nest_synopen_rev by (apply tracked_inline_names, Hst).
                     apply (IH (Some cc) S S' Hst Hb).
        -- (* outside a marker *)
           cbn [nw filter app] in *.
           destruct (tracks_open (chunk_tag_name chunk)) eqn:Etr.
           ++ src_step. destruct S as [|m S2]; [discriminate|]. destruct (str_eqb m (chunk_tag_name chunk)) eqn:Em; [|discriminate].
              cbn [names map pop_close]. rewrite Em. apply (IH None S2 S' I Hb).
           ++ destruct (is_block_name (chunk_tag_name chunk)) eqn:Eb.
              ** src_step. destruct (all_block S) eqn:Eall; [|discriminate]. rewrite no_marker_names. apply (IH None S S' I Hb).
              ** src_step. apply (IH None S S' I Hb).
      * (* a start tag *)
        destruct (is_block_name (chunk_tag_name chunk)) eqn:Eb.
        -- (* block-level: every open element is block-level, so no inline element is open inside the marker *)
           assert (Hall : all_block (nw (cc_of st) ++ S) = true /\
                          balc rest (if tracks_open (chunk_tag_name chunk) then chunk_tag_name chunk :: nw (cc_of st) ++ S else nw (cc_of st) ++ S) = Some S').
           { destruct (tracks_open (chunk_tag_name chunk)); rewrite ?Eb in Hb; cbn [andb] in Hb; destruct (all_block (nw (cc_of st) ++ S)); cbn [negb] in Hb;
               try discriminate; split; try reflexivity; exact Hb. }
           clear Hb. destruct Hall as [Hall Hb].
           destruct st as [cc|]; cbn [cc_of out_stack] in *.
           ++ pose proof (all_block_inline cc S (tracked_inline_names cc Hst) Hall) as Ecc.
              rewrite Ecc in Hb. cbn [app] in Hb.
              rewrite nest_app, nest_synclose; cbn [app]; rewrite nest_cons, ostep_close.
              destruct (tracks_open (chunk_tag_name chunk)) eqn:Etr; src_step.
              ** unfold push_open. rewrite Eb, no_marker_names. cbn [andb negb]. apply (IH None (chunk_tag_name chunk :: S) S' I Hb).
              ** rewrite no_marker_names. apply (IH None S S' I Hb).
           ++ cbn [nw filter app] in *. destruct (tracks_open (chunk_tag_name chunk)) eqn:Etr; src_step.
              ** unfold push_open. rewrite Eb, no_marker_names. cbn [andb negb]. apply (IH None (chunk_tag_name chunk :: S) S' I Hb).
              ** rewrite no_marker_names. apply (IH None S S' I Hb).
        -- (* inline: stays inside the marker (which is opened if need be) *)
           destruct st as [cc|]; cbn [cc_of out_stack] in *.
           ++ destruct (tracks_open (chunk_tag_name chunk)) eqn:Etr; cbv zeta; cbn [app]; src_step; rewrite ?Eb in Hb; cbn [andb] in Hb.
              ** unfold push_open. rewrite Eb. cbn [andb].
                 change (Some (chunk_tag_name chunk) :: names (nw cc) ++ None :: names S) with (Some (chunk_tag_name chunk) :: out_stack (Some cc) S).
                 rewrite <- (out_stack_cons_plain _ cc S Ew).
                 apply (IH (Some (chunk_tag_name chunk :: cc)) S S'); [constructor; [split; assumption|exact Hst]|].
                 cbn [cc_of]. rewrite (nw_cons_plain _ _ Ew). exact Hb.
              ** apply (IH (Some cc) S S' Hst Hb).
           ++ cbn [nw filter app] in *. destruct (tracks_open (chunk_tag_name chunk)) eqn:Etr; cbv zeta; cbn [app]; (rewrite nest_cons, ostep_open by apply no_marker_names); src_step; rewrite ?Eb in Hb; cbn [andb] in Hb.
              ** unfold push_open. rewrite Eb. cbn [andb].
                 change (Some (chunk_tag_name chunk) :: None :: names S) with (Some (chunk_tag_name chunk) :: out_stack (Some []) S).
                 rewrite <- (out_stack_cons_plain _ [] S Ew).
                 apply (IH (Some [chunk_tag_name chunk]) S S'); [constructor; [split; assumption|constructor]|].
                 cbn [cc_of]. rewrite (nw_cons_plain _ _ Ew). exact Hb.
              ** apply (IH (Some []) S S'); [constructor|exact Hb].
Qed.

(* ------------------------------------------------------------------ unchanged runs *)
Lemma nest_srcs l : forall S S', balc l S = Some S' -> nest (map OSrc l) (names S) = Some (names S').
Proof.
  induction l as [|s l IH]; intros S S' H; cbn [balc map nest ostep] in *.
  - injection H as <-. reflexivity.
  - destruct (chunk_event s).
    + unfold push_open. rewrite no_marker_names. cbn [negb]. rewrite andb_false_r.
      destruct (is_block_name n && negb (all_block S)); [discriminate|]. apply (IH (n :: S) S' H).
    + destruct S as [|m S2]; [discriminate|]. cbn [names map pop_close]. destruct (str_eqb m n); [|discriminate]. apply (IH S2 S' H).
    + rewrite no_marker_names. destruct (all_block S); [|discriminate]. apply (IH S S' H).
    + destruct S; [|discriminate]. apply (IH [] S' H).
    + apply (IH S S' H).
Qed.

(* blank chunks ('' and ' ') do not act on the stack *)
Lemma balc_nb l : forall S, balc (nb l) S = balc l S.
Proof.
  induction l as [|s l IH]; intros S; [reflexivity|]. unfold nb in *. cbn [filter].
  destruct (blank s) eqn:Eb; cbn [negb].
  - rewrite IH. cbn [balc]. unfold chunk_event.
    destruct s as [|c [|d r]]; cbn [blank] in Eb; try discriminate; cbn [starts_lt]; [reflexivity|].
    apply N.eqb_eq in Eb. subst c. reflexivity.
  - cbn [balc]. destruct (chunk_event s).
    + destruct (is_block_name n && negb (all_block S)); [reflexivity|apply IH].
    + destruct S as [|m S2]; [reflexivity|]. destruct (str_eqb m n); [apply IH|reflexivity].
    + destruct (all_block S); [apply IH|reflexivity].
    + destruct S; [apply IH|reflexivity].
    + apply IH.
Qed.

(* a link target hidden in an unchanged run is a blank chunk *)
Lemma balc_expand_equal ts : Forall hidden_blank ts -> forall S, balc (expand_tokens true ts) S = balc (expand_tokens false ts) S.
Proof.
  intros H S. rewrite <- (balc_nb (expand_tokens true ts)), <- (balc_nb (expand_tokens false ts)).
  rewrite (nb_expand_tokens_equal ts H). reflexivity.
Qed.

(* ------------------------------------------------------------------ whole single-sided views *)
Definition side_slice (new_side : bool) (old new : list token) (o : opcode) : list token :=
  if new_side then slice_tokens new (fst (op_b o)) (snd (op_b o)) else slice_tokens old (fst (op_a o)) (snd (op_a o)).

Lemma single_nests (new_side : bool) (old new : list token) (o : opcode) S S' :
  Forall hidden_blank old -> Forall hidden_blank new ->
  (if new_side then does_insert (op_tag o) || is_equal (op_tag o) else does_delete (op_tag o) || is_equal (op_tag o)) = true ->
  balc (expand_tokens false (side_slice new_side old new o)) S = Some S' ->
  nest (single_l new_side old new o) (names S) = Some (names S').
Proof.
  intros Ho Hn Hrel Hb. unfold single_l, side_slice in *. destruct o as [[t [i1 i2]] [j1 j2]]. cbn [op_tag op_a op_b fst snd] in *.
  assert (Hs : Forall hidden_blank (if new_side then slice_tokens new j1 j2 else slice_tokens old i1 i2)).
  { destruct new_side; apply Forall_slice; assumption. }
  destruct t.
  - apply nest_srcs. rewrite balc_expand_equal by exact Hs. exact Hb.
  - destruct new_side; cbn [does_insert does_delete]; apply (merge_changes_nests _ None S S' I); exact Hb.
  - destruct new_side; cbn [does_insert does_delete is_equal orb] in *; [discriminate|].
    apply (merge_changes_nests _ None S S' I); exact Hb.
  - destruct new_side; cbn [does_insert does_delete is_equal orb] in *; [|discriminate].
    apply (merge_changes_nests _ None S S' I); exact Hb.
Qed.

Lemma view_nests (new_side : bool) (old new : list token) (ops : list opcode) : forall i j ei ej S S',
  Forall hidden_blank old -> Forall hidden_blank new ->
  chain ops i j ei ej ->
  balc (expand_tokens false (if new_side then slice_tokens new j ej else slice_tokens old i ei)) S = Some S' ->
  nest (view_l new_side old new ops) (names S) = Some (names S').
Proof.
  induction ops as [|o ops IH]; intros i j ei ej S S' Ho Hn Hc Hb; cbn [chain] in Hc.
  - destruct Hc as [-> ->]. unfold view_l, slice_tokens in *. cbn [flat_map nest]. rewrite !Nat.sub_diag in Hb.
    destruct new_side; cbn in Hb; injection Hb as <-; reflexivity.
  - destruct Hc as (H1 & H2 & H3 & H4 & H5 & H6).
    destruct (chain_mono _ _ _ _ _ H6) as [M1 M2].
    unfold view_l in *. cbn [flat_map]. rewrite nest_app.
    assert (Split : (if new_side then slice_tokens new j ej else slice_tokens old i ei) =
                    side_slice new_side old new o ++
                    (if new_side then slice_tokens new (snd (op_b o)) ej else slice_tokens old (snd (op_a o)) ei)).
    { subst i j. unfold side_slice, slice_tokens. destruct new_side; symmetry; apply slice_app; assumption. }
    rewrite Split, expand_tokens_app, balc_app in Hb.
    destruct (balc (expand_tokens false (side_slice new_side old new o)) S) as [M|] eqn:Em; [|discriminate].
    destruct (if new_side then does_insert (op_tag o) || is_equal (op_tag o) else does_delete (op_tag o) || is_equal (op_tag o)) eqn:Erel.
    + rewrite (single_nests new_side old new o S M Ho Hn Erel Em). apply (IH _ _ _ _ M S' Ho Hn H6 Hb).
    + pose proof (irrelevant_empty new_side o H5 Erel) as Hemp.
      assert (Enil : single_l new_side old new o = []).
      { unfold single_l. destruct o as [[t [i1 i2]] [j1 j2]]. cbn [op_tag] in Erel.
        destruct new_side; destruct t; cbn in Erel; try discriminate; reflexivity. }
      rewrite Enil. cbn [nest].
      assert (EM : M = S).
      { unfold side_slice, slice_tokens in Em. destruct new_side; rewrite Hemp, Nat.sub_diag in Em; cbn in Em; injection Em as <-; reflexivity. }
      subst M. apply (IH _ _ _ _ S S' Ho Hn H6 Hb).
Qed.

(* For every two token lists and EVERY contiguous opcode list: if the chosen page's chunk stream
   is well nested with block-level tags only under block-level elements, the view is well nested,
   its markers are closed by their own end tags and never nest, and no block-level element is
   opened (nor any block-level tag met) while a marker is open. *)
Theorem single_sided_nests (new_side : bool) (old new : list token) (ops : list opcode) :
  Forall hidden_blank old -> Forall hidden_blank new ->
  chain ops 0 0 (List.length old) (List.length new) ->
  balc (expand_tokens false (if new_side then new else old)) [] = Some [] ->
  nest (view_l new_side old new ops) [] = Some [].
Proof.
  intros Ho Hn Hc Hb.
  apply (view_nests new_side old new ops 0%nat 0%nat _ _ [] [] Ho Hn Hc).
  unfold slice_tokens. destruct new_side; rewrite slice_self; exact Hb.
Qed.

(* ... stated for two pages: the hypothesis is about the page's own serialisation *)
Theorem pages_single_sided_nest (old_root new_root : el) rules cap (new_side : bool) :
  let old := prepare old_root cap in
  let new := prepare new_root cap in
  let ops := token_opcodes rules old new in
  balc (nb (map chunk_str (flatten_root (if new_side then new_root else old_root)))) [] = Some [] ->
  nest (view_l new_side old new ops) [] = Some [].
Proof.
  cbv zeta. intros Hb.
  apply single_sided_nests; try apply prepare_hidden.
  - unfold token_opcodes. apply insensitive_opcodes_chain.
  - assert (E : forall root, nb (expand_tokens false (prepare root cap)) = nb (map chunk_str (flatten_root root))).
    { intros root. change (expand_tokens false (prepare root cap)) with (flat (prepare root cap)).
      rewrite <- (nb_ne (flat _)). change (ne (flat (prepare root cap))) with (flat_ne (prepare root cap)).
      rewrite prepare_conserves. apply nb_ne. }
    rewrite <- balc_nb. destruct new_side; rewrite E; exact Hb.
Qed.

(* ------------------------------------------------------------------ which trees meet the hypothesis *)
Definition is_top (S : list str) : bool := match S with [] => true | _ => false end.

Lemma balc_neutral_cons s l S : neutral_ok (all_block S) s = true -> balc (s :: l) S = balc l S.
Proof.
  unfold neutral_ok. intros H. cbn [balc]. destruct (chunk_event s); try discriminate; [|reflexivity].
  rewrite H. reflexivity.
Qed.

Lemma word_event_none w : ~ In 60 w -> chunk_event w = ENone.
Proof. intros H. unfold chunk_event. rewrite (no_lt_not_tag w H). reflexivity. Qed.

Lemma balc_words text l S : balc (map chunk_str (word_chunks text) ++ l) S = balc l S.
Proof.
  unfold word_chunks. induction (split_words text) as [|w ws IH]; [reflexivity|].
  cbn [map app balc chunk_str]. rewrite word_event_none; [exact IH|].
  apply (escape_no_angle true w).
Qed.

Definition el_balanced (c : el) : Prop :=
  forall S, tree_ok (is_top S) (all_block S) c = true -> balc (map chunk_str (flatten_el c)) S = Some S.

Lemma balc_kids children : forall S,
  Forall el_balanced children ->
  forallb (tree_ok (is_top S) (all_block S)) children = true ->
  forall l, balc (map chunk_str (List.concat (map flatten_el children)) ++ l) S = balc l S.
Proof.
  induction children as [|c cs IH]; intros S HF Hok l; [reflexivity|].
  inversion HF as [|c' cs' Hc Hcs]; subst. cbn [forallb] in Hok. apply andb_prop in Hok as [Hk Hks].
  cbn [map List.concat]. rewrite map_app, <- app_assoc, balc_app, (Hc S Hk). apply (IH S Hcs Hks).
Qed.

Lemma href_chunk_none tag (attrs : list (str * str)) l S :
  balc (map chunk_str (match str_eqb tag [97], assoc_str (s2l "href") attrs with
                       | true, Some ((_ :: _) as h) => [CHref h]
                       | _, _ => []
                       end) ++ l) S = balc l S.
Proof.
  destruct (str_eqb tag [97]); [|reflexivity]. destruct (assoc_str (s2l "href") attrs) as [[|x h]|]; reflexivity.
Qed.

(* the serialisation of an admissible tree leaves the stack as it found it *)
Theorem flatten_el_balanced e : el_balanced e.
Proof.
  induction e as [tag attrs text children tail source IHc] using el_ind'. intros S Hok.
  cbn [flatten_el tree_ok] in *.
  destruct (mem_str tag undiffable_content_tags && negb (str_eqb tag (s2l "img"))).
  { cbn [map chunk_str]. rewrite balc_neutral_cons by exact Hok. reflexivity. }
  set (e0 := El tag attrs text children tail source) in *.
  assert (Hhead : forall l, map chunk_str ((if str_eqb tag (s2l "img") then [CImg (img_srcs e0) (start_tag e0)] else [CStart (start_tag e0)]) ++ l)
                            = start_tag e0 :: map chunk_str l).
  { intros l. destruct (str_eqb tag (s2l "img")); reflexivity. }
  destruct (is_void tag) eqn:Ev.
  - (* a void element: its start tag does not touch the stack; no end tag *)
    apply andb_prop in Hok as [Hst Hkids].
    assert (Hgen : balc (map chunk_str ((if str_eqb tag (s2l "img") then [CImg (img_srcs e0) (start_tag e0)] else [CStart (start_tag e0)]) ++
                      word_chunks text ++ List.concat (map flatten_el children) ++
                      match str_eqb tag [97], assoc_str (s2l "href") attrs with
                      | true, Some ((_ :: _) as h) => [CHref h] | _, _ => [] end ++ [] ++ word_chunks tail)) S = Some S).
    { rewrite Hhead, balc_neutral_cons by exact Hst. rewrite !map_app, balc_words, (balc_kids children S IHc Hkids), href_chunk_none.
      cbn [map app]. rewrite <- (app_nil_r (map chunk_str (word_chunks tail))), balc_words. reflexivity. }
    assert (Honly : balc (map chunk_str (if str_eqb tag (s2l "img") then [CImg (img_srcs e0) (start_tag e0)] else [CStart (start_tag e0)])) S = Some S).
    { rewrite <- (app_nil_r (if str_eqb tag (s2l "img") then _ else _)), Hhead, balc_neutral_cons by exact Hst. reflexivity. }
    destruct text; destruct children; destruct tail; first [exact Honly | exact Hgen].
  - assert (Hgen : balc (map chunk_str ((if str_eqb tag (s2l "img") then [CImg (img_srcs e0) (start_tag e0)] else [CStart (start_tag e0)]) ++
                      word_chunks text ++ List.concat (map flatten_el children) ++
                      match str_eqb tag [97], assoc_str (s2l "href") attrs with
                      | true, Some ((_ :: _) as h) => [CHref h] | _, _ => [] end ++ [CEnd (end_tag e0)] ++ word_chunks tail)) S = Some S).
    { rewrite Hhead. cbn [balc].
      destruct (chunk_event (start_tag e0)) as [n| | | |] eqn:Es; destruct (chunk_event (end_tag e0)) as [|m| | |] eqn:Ee; try discriminate.
      - (* an element with an end tag *)
        apply andb_prop in Hok as [Hok Hkids]. apply andb_prop in Hok as [Hnm Hblk].
        assert (Hchk : is_block_name n && negb (all_block S) = false).
        { destruct (is_block_name n); [|reflexivity]. cbn [negb orb andb] in *. rewrite Hblk. reflexivity. }
        rewrite Hchk. rewrite !map_app, balc_words.
        change (is_block_name n && all_block S) with (all_block (n :: S)) in Hkids.
        change false with (is_top (n :: S)) in Hkids.
        rewrite (balc_kids children (n :: S) IHc Hkids), href_chunk_none.
        cbn [map app chunk_str balc]. rewrite Ee, Hnm.
        rewrite <- (app_nil_r (map chunk_str (word_chunks tail))), balc_words. reflexivity.
      - (* start and end tag that do not touch the stack *)
        apply andb_prop in Hok as [Hab Hkids]. rewrite Hab.
        rewrite !map_app, balc_words, (balc_kids children S IHc Hkids), href_chunk_none.
        cbn [map app chunk_str balc]. rewrite Ee, Hab.
        rewrite <- (app_nil_r (map chunk_str (word_chunks tail))), balc_words. reflexivity.
      - (* head / body: only at the top *)
        apply andb_prop in Hok as [Htop Hkids]. destruct S as [|x S]; [|discriminate].
        rewrite !map_app, balc_words, (balc_kids children [] IHc Hkids), href_chunk_none.
        cbn [map app chunk_str balc]. rewrite Ee.
        rewrite <- (app_nil_r (map chunk_str (word_chunks tail))), balc_words. reflexivity.
      - rewrite !map_app, balc_words, (balc_kids children S IHc Hok), href_chunk_none.
        cbn [map app chunk_str balc]. rewrite Ee.
        rewrite <- (app_nil_r (map chunk_str (word_chunks tail))), balc_words. reflexivity. }
    destruct text; destruct children; destruct tail; exact Hgen.
Qed.

Theorem page_ok_balanced root : page_ok root = true -> balc (nb (map chunk_str (flatten_root root))) [] = Some [].
Proof.
  intros Hok. rewrite balc_nb. destruct root as [tag attrs text children tail source]. cbn [flatten_root el_children page_ok] in *.
  rewrite !map_app, balc_words.
  assert (HF : Forall el_balanced children).
  { apply Forall_forall. intros c _. apply flatten_el_balanced. }
  rewrite (balc_kids children [] HF Hok).
  rewrite <- (app_nil_r (map chunk_str _)), href_chunk_none. reflexivity.
Qed.

(* For every two element trees, every rule set and every spacer cap: if the chosen page is
   admissible, its single-sided view is well nested with no block-level element under a marker. *)
Theorem admissible_pages_nest (old_root new_root : el) rules cap (new_side : bool) :
  page_ok (if new_side then new_root else old_root) = true ->
  nest (view_l new_side (prepare old_root cap) (prepare new_root cap)
               (token_opcodes rules (prepare old_root cap) (prepare new_root cap))) [] = Some [].
Proof. intros H. apply pages_single_sided_nest, page_ok_balanced, H. Qed.


(* Detection at page level: the words, opaque elements and link targets carried by the token list
   are exactly those of the flattened page, through tokenising, customisation and the spacer cap;
   so "no change reported" (rules off) means the two pages have the same such sequence. *)
From Coq Require Import List NArith Arith Bool Lia String.
From WMD Require Import Gen.Tables Lib.Str Lib.PyChars Lib.Escape Lib.Difflib Model.RenderTokens Model.RenderMerge
     Proofs.DifflibProofs Proofs.DifflibSound Proofs.UrlRuleProofs.
Import ListNotations.
Close Scope N_scope.
Open Scope nat_scope.

(* what a token carries: 0 = word or opaque element (by its text), 1 = link target *)
Definition vis (t : token) : list (nat * str) :=
  match t_kind t with
  | KWord | KUndiff => match t_text t with [] => [] | s => [(0, s)] end
  | KHref => [(1, t_text t)]
  | _ => []
  end.
Definition vis_all (ts : list token) : list (nat * str) := flat_map vis ts.

Definition chunk_vis (c : chunk) : list (nat * str) :=
  match c with
  | CWord w => match fst (split_trailing_ws w) with [] => [] | s => [(0, s)] end
  | CUndiff s => match s with [] => [] | _ => [(0, s)] end
  | CHref h => [(1, h)]
  | _ => []
  end.
Definition page_vis (root : el) : list (nat * str) := flat_map chunk_vis (flatten_root root).

Lemma vis_all_app a b : vis_all (a ++ b) = vis_all a ++ vis_all b.
Proof. unfold vis_all. apply flat_map_app. Qed.

Lemma vis_set_pre t p : vis (set_pre t p) = vis t.  Proof. reflexivity. Qed.
Lemma vis_set_post t p : vis (set_post t p) = vis t.  Proof. reflexivity. Qed.

(* ---- fixup_chunks ---- *)
Lemma vis_all_rev_cons t l : vis_all (rev (t :: l)) = vis_all (rev l) ++ vis t.
Proof. cbn [rev]. rewrite vis_all_app. cbn [vis_all flat_map]. rewrite app_nil_r. reflexivity. Qed.

Lemma fixup_aux_vis : forall cs acc res,
  vis_all (fixup_aux cs acc res) = vis_all (rev res) ++ flat_map chunk_vis cs.
Proof.
  induction cs as [|c cs IH]; intros acc res; cbn [fixup_aux flat_map].
  - rewrite app_nil_r. destruct res as [|last rest]; [reflexivity|]. rewrite !vis_all_rev_cons, vis_set_post. reflexivity.
  - destruct c as [srcs html|s|s|s|w|h]; cbn [chunk_vis].
    + destruct (split_trailing_ws html). rewrite IH, vis_all_rev_cons. cbn [vis mk_token t_kind]. rewrite app_nil_r. reflexivity.
    + rewrite IH, vis_all_rev_cons. cbn [vis mk_token t_kind t_text]. rewrite <- app_assoc. destruct s; reflexivity.
    + rewrite IH. reflexivity.
    + destruct acc; [destruct res as [|last rest]|]; rewrite IH; try reflexivity.
      rewrite !vis_all_rev_cons, vis_set_post. reflexivity.
    + destruct (split_trailing_ws w) as [body trail] eqn:E. rewrite IH, vis_all_rev_cons. cbn [fst]. rewrite <- app_assoc. reflexivity.
    + rewrite IH, vis_all_rev_cons. rewrite <- app_assoc. reflexivity.
Qed.

Lemma tokenize_vis root : vis_all (tokenize root) = page_vis root.
Proof. unfold tokenize, fixup_chunks. rewrite fixup_aux_vis. reflexivity. Qed.

(* ---- customisation ---- *)
Lemma rebalance_pair_vis p t : let (p', t') := rebalance_pair p t in vis p' = vis p /\ vis t' = vis t.
Proof.
  unfold rebalance_pair. destruct (span_closing (t_post p)) as [closing rest]. destruct rest.
  - destruct (span_closing (t_pre t)). split; reflexivity.
  - split; reflexivity.
Qed.

Lemma rebalance_tokens_vis rest : forall p, vis_all (rebalance_tokens p rest) = vis_all (p :: rest).
Proof.
  induction rest as [|t rest IH]; intros p; cbn [rebalance_tokens]; [reflexivity|].
  pose proof (rebalance_pair_vis p t) as H. destruct (rebalance_pair p t) as [p' t']. destruct H as [H1 H2].
  cbn [vis_all flat_map] in *. rewrite H1. fold (vis_all (rebalance_tokens t' rest)). rewrite IH. cbn [vis_all flat_map]. rewrite H2. reflexivity.
Qed.

Lemma spacers_vis (l : list token) : Forall (fun t => t_kind t = KSpacer) l -> vis_all l = [].
Proof. induction 1 as [|t l Ht Hl IH]; [reflexivity|]. cbn [vis_all flat_map]. unfold vis at 1. rewrite Ht. exact IH. Qed.

Lemma split_pre_spacers fuel : forall pre from, Forall (fun t => t_kind t = KSpacer) (fst (split_pre fuel pre from)).
Proof.
  induction fuel as [|fuel IH]; intros pre from; cbn [split_pre]; [constructor|].
  destruct (find_sep pre 0 from) as [t|]; [|constructor].
  destruct (Nat.ltb 1 (List.length (skipn t pre))).
  - specialize (IH (skipn t pre) 1). destruct (split_pre fuel (skipn t pre) 1) as [more final]. cbn [fst] in *.
    repeat (constructor; [reflexivity|]). exact IH.
  - cbn [fst]. repeat (constructor; [reflexivity|]). constructor.
Qed.

Lemma customize_one_vis all i tok : vis_all (customize_one all i tok) = vis tok.
Proof.
  unfold customize_one.
  assert (S1 : Forall (fun t => t_kind t = KSpacer)
                 (fst (match t_pre tok with [] => ([], []) | p => split_pre (S (List.length p)) p 0 end))).
  { destruct (t_pre tok); [constructor|apply split_pre_spacers]. }
  destruct (match t_pre tok with [] => ([], []) | p => split_pre (S (List.length p)) p 0 end) as [sp1 pre1]. cbn [fst] in S1.
  destruct (find_empty_link pre1 0) as [k|];
    destruct (find_sep_post (t_post (set_pre tok _)) 0) as [k2|];
    rewrite !vis_all_app, (spacers_vis sp1 S1); cbn [vis_all flat_map app]; rewrite ?app_nil_r; reflexivity.
Qed.

Lemma customize_all_vis all : forall l i, vis_all (customize_all all i l) = vis_all l.
Proof.
  induction l as [|t l IH]; intros i; cbn [customize_all]; [reflexivity|].
  rewrite vis_all_app, customize_one_vis, IH. reflexivity.
Qed.

Lemma customize_tokens_vis ts : vis_all (customize_tokens ts) = vis_all ts.
Proof. destruct ts as [|t rest]; [reflexivity|]. unfold customize_tokens. rewrite customize_all_vis, rebalance_tokens_vis. reflexivity. Qed.

(* ---- the spacer cap ---- *)
Lemma limit_aux_vis : forall l budget dropped res,
  vis_all (limit_aux l budget dropped res) = vis_all (rev res) ++ vis_all l.
Proof.
  induction l as [|t l IH]; intros budget dropped res; cbn [limit_aux].
  - cbn [vis_all flat_map]. rewrite app_nil_r. destruct dropped; [reflexivity|].
    destruct res as [|last rest]; [reflexivity|]. fold (vis_all (rev (set_post last (t_post last ++ s :: dropped) :: rest))).
    rewrite !vis_all_rev_cons. reflexivity.
  - destruct (is_spacer t && N.eqb budget 0) eqn:E.
    + rewrite IH. apply andb_true_iff in E as [Es _].
      assert (Hv : vis t = []) by (unfold vis; unfold is_spacer in Es; destruct (t_kind t); try discriminate Es; reflexivity).
      cbn [vis_all flat_map]. rewrite Hv. reflexivity.
    + rewrite IH, vis_all_rev_cons. cbn [vis_all flat_map]. rewrite <- app_assoc. f_equal. f_equal. destruct dropped; reflexivity.
Qed.

Theorem prepare_vis root cap : vis_all (prepare root cap) = page_vis root.
Proof.
  unfold prepare, limit_spacers. rewrite limit_aux_vis. cbn [rev vis_all flat_map app].
  fold (vis_all (customize_tokens (tokenize root))). rewrite customize_tokens_vis. apply tokenize_vis.
Qed.

(* ---- detection ---- *)
Lemma token_eq_none_vis x y : token_eq None x y = true -> vis x = vis y.
Proof.
  unfold token_eq, vis. destruct (t_kind x), (t_kind y); intros H; try discriminate H; try reflexivity;
    try (apply str_eqb_eq in H; rewrite H; reflexivity);
    try (unfold url_eq in H; apply str_eqb_eq in H; rewrite H; reflexivity).
Qed.

Lemma pointwise_vis (a : list token) : forall b, List.length a = List.length b ->
  (forall i, i < List.length a -> vis (nth i a dtoken) = vis (nth i b dtoken)) -> vis_all a = vis_all b.
Proof.
  induction a as [|x a IH]; intros [|y b] L H; cbn [List.length] in L; try discriminate; [reflexivity|].
  cbn [vis_all flat_map]. f_equal.
  - apply (H 0). cbn. lia.
  - apply IH; [lia|]. intros i Hi. apply (H (S i)). cbn. lia.
Qed.

(* rules off: if no change is reported the two pages carry the same words, opaque elements and link
   targets, in the same order - so a page pair that differs in any of them always reports a change *)
Theorem no_change_same_page_content old_root new_root cap :
  change_count (count_changes (token_opcodes None (prepare old_root cap) (prepare new_root cap))) = 0 ->
  page_vis old_root = page_vis new_root.
Proof.
  intros H. destruct (no_change_means_related None _ _ H) as [L R].
  rewrite <- (prepare_vis old_root cap), <- (prepare_vis new_root cap).
  apply pointwise_vis; [exact L|]. intros i Hi. apply token_eq_none_vis.
  destruct (R i Hi) as [K|E]; [apply same_key_token_eq_none, K|exact E].
Qed.

(* Invariants of the worker-pool protocol (properties C07 and C20), by induction over
   every event sequence; no bound on the number of requests, pools or steps. *)
From Coq Require Import List Arith Bool Lia.
From WMD Require Import Model.Pool.
Import ListNotations.

(* ------------------------------------------------------------------ basic facts *)
Lemma mem_In x l : mem x l = true <-> In x l.
Proof.
  induction l as [|y l IH]; cbn [mem In]; [split; [discriminate|tauto]|].
  rewrite orb_true_iff, IH, Nat.eqb_eq. split; intros [H|H]; auto.
Qed.

Lemma get_set_same r s l : get_req r (set_req r s l) = s.
Proof.
  induction l as [|[r' s'] l IH]; cbn [set_req get_req].
  - rewrite Nat.eqb_refl. reflexivity.
  - destruct (Nat.eqb r r') eqn:E; cbn [get_req]; [rewrite Nat.eqb_refl; reflexivity|rewrite E; exact IH].
Qed.

Lemma get_set_other r r' s l : r' <> r -> get_req r' (set_req r s l) = get_req r' l.
Proof.
  intros Hne. induction l as [|[r0 s0] l IH]; cbn [set_req get_req].
  - destruct (Nat.eqb_spec r' r); [contradiction|reflexivity].
  - destruct (Nat.eqb r r0) eqn:E; cbn [get_req].
    + apply Nat.eqb_eq in E. subst r0. destruct (Nat.eqb_spec r' r); [contradiction|reflexivity].
    + destruct (Nat.eqb r' r0); [reflexivity|exact IH].
Qed.

Lemma NoDup_app_l {A} (l l' : list A) : NoDup (l ++ l') -> NoDup l.
Proof.
  induction l as [|a l IH]; cbn; intros H; [constructor|].
  inversion H as [|? ? Hn Hd]; subst. constructor; [|apply IH, Hd].
  intros Hin. apply Hn. apply in_or_app. left. exact Hin.
Qed.

Definition opt_list (o : option pool) : list pool := match o with Some p => [p] | None => [] end.

(* ------------------------------------------------------------------ pool bookkeeping *)
Record InvA (st : state) : Prop := {
  a_seq : created st = seq 0 (length (created st));
  a_shape : created st = rev (replaced st) ++ opt_list (current st);
  a_none : current st = None -> created st = [];
  a_shut : incl (replaced st) (shut st);
  a_broken : incl (replaced st) (broken st);
  a_bc : incl (broken st) (created st)
}.

Lemma InvA_init : InvA init.
Proof. constructor; cbn; try reflexivity; intros x []. Qed.

Lemma InvA_ext st st' :
  current st' = current st -> created st' = created st -> incl (shut st) (shut st') ->
  incl (broken st) (broken st') -> incl (broken st') (created st) -> replaced st' = replaced st -> InvA st -> InvA st'.
Proof.
  intros H1 H2 H3 H4 H4' H5 [Ha Hb Hc Hd He Hf].
  constructor; rewrite ?H1, ?H2, ?H5; try assumption.
  - intros x Hx. apply H3, Hd, Hx.
  - intros x Hx. apply H4, He, Hx.
Qed.

Lemma InvA_with_req st r s : InvA st -> InvA (with_req st r s).
Proof. intros H. apply (InvA_ext st); try reflexivity; try apply incl_refl; [exact (a_bc st H)|exact H]. Qed.
Lemma InvA_add_submit st r p : InvA st -> InvA (add_submit st r p).
Proof. intros H. apply (InvA_ext st); try reflexivity; try apply incl_refl; [exact (a_bc st H)|exact H]. Qed.
Lemma InvA_add_quit st : InvA st -> InvA (add_quit st).
Proof. intros H. apply (InvA_ext st); try reflexivity; try apply incl_refl; [exact (a_bc st H)|exact H]. Qed.

Lemma current_in_created st p : InvA st -> current st = Some p -> In p (created st).
Proof. intros HA Ec. rewrite (a_shape st HA), Ec. apply in_or_app. right. left. reflexivity. Qed.

(* what a call of get_diff_executor / the retry clause may change *)
Record same_but_pools (st st' : state) : Prop := {
  sb_broken : broken st' = broken st;
  sb_submits : submits st' = submits st;
  sb_quits : quits st' = quits st;
  sb_reqs : reqs st' = reqs st;
  sb_term : terminating st' = terminating st;
  sb_killed : killed st' = killed st;
  sb_created : incl (created st) (created st');
  sb_shut : incl (shut st) (shut st')
}.

Lemma same_refl st : same_but_pools st st.
Proof. constructor; try reflexivity; apply incl_refl. Qed.

Lemma get_executor_first st :
  InvA st ->
  let '(e, st') := get_executor st false in
  InvA st' /\ current st' = Some e /\ same_but_pools st st'.
Proof.
  intros HA. unfold get_executor. destruct (current st) as [p|] eqn:Ec.
  - split; [exact HA|]. split; [exact Ec|apply same_refl].
  - pose proof (a_none st HA Ec) as Hn.
    assert (Hr : replaced st = []).
    { pose proof (a_shape st HA) as Hs. rewrite Hn, Ec in Hs. cbn in Hs. rewrite app_nil_r in Hs.
      destruct (replaced st) as [|x l]; [reflexivity|]. cbn in Hs. symmetry in Hs.
      apply app_eq_nil in Hs as [_ Hs]. discriminate. }
    unfold fresh. rewrite Hn. cbn [length app].
    split; [|split; [reflexivity|constructor; cbn; try reflexivity; try apply incl_refl; rewrite Hn; intros x []]].
    constructor; cbn.
    + reflexivity.
    + rewrite Hr. reflexivity.
    + discriminate.
    + rewrite Hr. intros x [].
    + rewrite Hr. intros x [].
    + intros x Hx. apply (a_bc st HA) in Hx. rewrite Hn in Hx. destruct Hx.
Qed.

Lemma get_executor_some st c : current st = Some c -> get_executor st false = (c, st).
Proof. intros H. unfold get_executor. rewrite H. reflexivity. Qed.

Lemma get_executor_reset st p :
  InvA st -> current st = Some p -> In p (broken st) ->
  let '(e, st') := get_executor st true in
  InvA st' /\ current st' = Some e /\ e <> p /\ replaced st' = p :: replaced st /\ same_but_pools st st'.
Proof.
  intros HA Ec Hb. unfold get_executor. rewrite Ec. unfold fresh.
  pose proof (current_in_created st p HA Ec) as Hp.
  assert (Hlt : p < length (created st)).
  { rewrite (a_seq st HA) in Hp. apply in_seq in Hp. lia. }
  split; [|split; [reflexivity|split; [lia|split; [reflexivity|]]]].
  - constructor; cbn.
    + rewrite app_length. cbn. rewrite Nat.add_1_r, seq_S. cbn. rewrite <- (a_seq st HA). reflexivity.
    + rewrite (a_shape st HA) at 1. rewrite Ec. cbn. rewrite <- app_assoc. reflexivity.
    + discriminate.
    + intros x [<-|Hx]; [left; reflexivity|right; apply (a_shut st HA), Hx].
    + intros x [<-|Hx]; [exact Hb|apply (a_broken st HA), Hx].
    + intros x Hx. apply in_or_app. left. apply (a_bc st HA), Hx.
  - constructor; cbn; try reflexivity.
    + intros x Hx. apply in_or_app. left. exact Hx.
    + intros x Hx. right. exact Hx.
Qed.

Lemma retry_target_spec st c p :
  InvA st -> current st = Some c -> In p (broken st) ->
  let '(e, st') := retry_target st p in
  InvA st' /\ current st' = Some e /\ e <> p /\ same_but_pools st st' /\
  (replaced st' = replaced st \/ (c = p /\ replaced st' = p :: replaced st)).
Proof.
  intros HA Ec Hb. unfold retry_target. rewrite (get_executor_some st c Ec).
  destruct (Nat.eqb_spec c p) as [->|Hne].
  - pose proof (get_executor_reset st p HA Ec Hb) as G.
    destruct (get_executor st true) as [e st'].
    destruct G as (HA' & Hc' & Hne' & Hr' & Hs').
    split; [exact HA'|split; [exact Hc'|split; [exact Hne'|split; [exact Hs'|right; split; [reflexivity|exact Hr']]]]].
  - split; [exact HA|split; [exact Ec|split; [exact Hne|split; [apply same_refl|left; reflexivity]]]].
Qed.

(* ------------------------------------------------------------------ requests *)
Section Protocol.
  Variable tries : nat.
  Variable restart : bool.
  Hypothesis tries_pos : 1 <= tries.

  Notation run_from := (Pool.run_from tries restart).
  Notation step := (Pool.step tries restart).
  Notation run := (Pool.run tries restart).

  Definition req_ok (st : state) (r : req) : Prop :=
    match get_req r (reqs st) with
    | NotStarted => count_submits r (submits st) = 0
    | Waiting att p => S att <= tries /\ count_submits r (submits st) = S att /\ In p (created st)
    | Done ErrBroken => count_submits r (submits st) = tries /\ (restart = false -> 1 <= quits st)
    | Done _ => count_submits r (submits st) <= tries
    end.

  Definition quit_sound (st : state) : Prop :=
    1 <= quits st -> restart = false /\ exists r, get_req r (reqs st) = Done ErrBroken.

  Definition term_ok (st : state) : Prop :=
    terminating st = true -> forall p, In p (created st) -> In p (shut st) \/ In p (killed st).

  Record Inv (st : state) : Prop := {
    i_a : InvA st;
    i_req : forall r, req_ok st r;
    i_quit : quit_sound st;
    i_term : term_ok st
  }.

  Lemma Inv_init : Inv init.
  Proof.
    constructor.
    - exact InvA_init.
    - intros r. unfold req_ok. cbn. reflexivity.
    - unfold quit_sound. cbn. lia.
    - unfold term_ok. cbn. discriminate.
  Qed.

  Lemma count_other r r' p l : r' <> r -> count_submits r' ((r, p) :: l) = count_submits r' l.
  Proof. intros H. cbn [count_submits]. destruct (Nat.eqb_spec r' r); [contradiction|reflexivity]. Qed.

  Lemma count_same r p l : count_submits r ((r, p) :: l) = S (count_submits r l).
  Proof. cbn [count_submits]. rewrite Nat.eqb_refl. reflexivity. Qed.

  Definition others_ok (st : state) (r : req) : Prop := forall r', r' <> r -> req_ok st r'.

  (* req_ok of another request survives anything that only touches r, grows created / quits *)
  Lemma req_ok_mono st st' r r' :
    r' <> r ->
    get_req r' (reqs st') = get_req r' (reqs st) ->
    count_submits r' (submits st') = count_submits r' (submits st) ->
    incl (created st) (created st') -> quits st <= quits st' ->
    req_ok st r' -> req_ok st' r'.
  Proof.
    intros Hne Hg Hcount Hcr Hq H. unfold req_ok in *. rewrite Hg, Hcount.
    destruct (get_req r' (reqs st)) as [|att p|[| |]]; try assumption.
    - destruct H as [H1 [H2 H3]]. repeat split; try assumption. apply Hcr, H3.
    - destruct H as [H1 H2]. split; [assumption|]. intros Hr. specialize (H2 Hr). lia.
  Qed.

  Lemma others_same st st' r :
    same_but_pools st st' -> others_ok st r -> others_ok st' r.
  Proof.
    intros [Hb Hs Hq Hr Ht Hk Hc Hsh] H r' Hne.
    apply (req_ok_mono st st' r r' Hne); [rewrite Hr; reflexivity|rewrite Hs; reflexivity|exact Hc|rewrite Hq; lia|apply H, Hne].
  Qed.

  (* r finishes with outcome o: everything else is untouched *)
  Lemma finish_inv st r o :
    InvA st -> others_ok st r -> quit_sound st -> term_ok st ->
    (match get_req r (reqs st) with Done _ => False | _ => True end) ->
    (match o with
     | ErrBroken => count_submits r (submits st) = tries /\ (restart = false -> 1 <= quits st)
     | _ => count_submits r (submits st) <= tries
     end) ->
    Inv (with_req st r (Done o)).
  Proof.
    intros HA Hoth Hq Ht Hnd Ho. constructor.
    - apply InvA_with_req, HA.
    - intros r'. destruct (Nat.eq_dec r' r) as [->|Hne].
      + unfold req_ok. cbn [with_req reqs submits quits]. rewrite get_set_same. destruct o; exact Ho.
      + apply (req_ok_mono st _ r r' Hne); [cbn [with_req reqs]; apply get_set_other, Hne|reflexivity|apply incl_refl|cbn; lia|apply Hoth, Hne].

    - unfold quit_sound. cbn [with_req quits reqs]. intros H1.
      destruct (Hq H1) as [Hr [r0 Hr0]]. split; [exact Hr|].
      destruct (Nat.eq_dec r0 r) as [->|Hne].
      + rewrite Hr0 in Hnd. destruct Hnd.
      + exists r0. rewrite get_set_other by exact Hne. exact Hr0.
    - exact Ht.
  Qed.

  Lemma finish_broken_inv st r :
    InvA st -> others_ok st r -> term_ok st ->
    (match get_req r (reqs st) with Done _ => False | _ => True end) ->
    restart = false -> count_submits r (submits st) = tries -> 1 <= quits st ->
    Inv (with_req st r (Done ErrBroken)).
  Proof.
    intros HA Hoth Ht Hnd Hr Hc Hq. constructor.
    - apply InvA_with_req, HA.
    - intros r'. destruct (Nat.eq_dec r' r) as [->|Hne].
      + unfold req_ok. cbn [with_req reqs submits quits]. rewrite get_set_same. split; [exact Hc|intros _; exact Hq].
      + apply (req_ok_mono st _ r r' Hne); [cbn [with_req reqs]; apply get_set_other, Hne|reflexivity|apply incl_refl|cbn; lia|apply Hoth, Hne].

    - unfold quit_sound. cbn [with_req quits reqs]. intros _. split; [exact Hr|].
      exists r. apply get_set_same.
    - exact Ht.
  Qed.

  (* the retry loop from "try number [attempt] submits to [p]" *)
  Lemma run_from_inv : forall fuel st r attempt p c,
    fuel + attempt = tries -> 1 <= fuel ->
    InvA st -> In p (created st) -> current st = Some c ->
    count_submits r (submits st) = attempt ->
    (match get_req r (reqs st) with Done _ => False | _ => True end) ->
    others_ok st r -> quit_sound st -> terminating st = false ->
    let st' := run_from fuel st r attempt p in
    Inv st' /\ terminating st' = false /\
    (match get_req r (reqs st') with NotStarted => False | Waiting a _ => attempt <= a | Done _ => True end).
  Proof.
    induction fuel as [|fuel IH]; intros st r attempt p c Hfa Hf HA Hp Hcur Hcount Hnd Hoth Hq Hterm; [lia|].
    cbn [Pool.run_from].
    set (st1 := add_submit st r p).
    assert (HA1 : InvA st1) by (apply InvA_add_submit, HA).
    assert (Hc1 : count_submits r (submits st1) = S attempt)
      by (unfold st1; cbn [add_submit submits]; rewrite count_same, Hcount; reflexivity).
    assert (Hoth1 : others_ok st1 r).
    { intros r' Hne. apply (req_ok_mono st st1 r r' Hne); [reflexivity|unfold st1; cbn [add_submit submits]; apply count_other, Hne|apply incl_refl|cbn; lia|apply Hoth, Hne]. }

    assert (Hterm_ok1 : term_ok st1) by (unfold term_ok; cbn; rewrite Hterm; discriminate).
    change (broken st1) with (broken st). change (terminating st1) with (terminating st).
    destruct (mem p (broken st)) eqn:Eb.
    - apply mem_In in Eb.
      destruct (Nat.ltb (S attempt) tries) eqn:El.
      + apply Nat.ltb_lt in El. rewrite Hterm.
        pose proof (retry_target_spec st1 c p HA1 Hcur Eb) as G.
        destruct (retry_target st1 p) as [e st3].
        destruct G as (HA3 & Hc3 & Hne3 & Hs3 & _).
        assert (Hrec : let st' := run_from fuel st3 r (S attempt) e in
                       Inv st' /\ terminating st' = false /\
                       match get_req r (reqs st') with NotStarted => False | Waiting a _ => S attempt <= a | Done _ => True end).
        2: { cbv zeta in Hrec. destruct Hrec as [H1 [H2 H3]]. split; [exact H1|split; [exact H2|]].
             destruct (get_req r (reqs (run_from fuel st3 r (S attempt) e))); try assumption. lia. }
        apply (IH st3 r (S attempt) e e); try assumption; try lia.
        * apply (current_in_created st3 e HA3 Hc3).
        * rewrite (sb_submits _ _ Hs3). exact Hc1.
        * rewrite (sb_reqs _ _ Hs3). exact Hnd.
        * apply (others_same st1 st3 r Hs3 Hoth1).
        * unfold quit_sound. rewrite (sb_quits _ _ Hs3), (sb_reqs _ _ Hs3). exact Hq.
        * rewrite (sb_term _ _ Hs3). exact Hterm.
      + apply Nat.ltb_ge in El.
        assert (Hat : S attempt = tries) by lia.
        destruct restart eqn:Er.
        * split; [|split; [exact Hterm|cbn [with_req reqs]; rewrite get_set_same; try exact I; try lia]].
          apply finish_inv; try assumption.
          split; [lia|]. rewrite Er. discriminate.
        * split; [|split; [exact Hterm|cbn [with_req reqs]; rewrite get_set_same; try exact I; try lia]].
          apply finish_broken_inv.
          -- apply InvA_add_quit, HA1.
          -- intros r' Hne. apply (req_ok_mono st1 _ r r' Hne); [reflexivity|reflexivity|apply incl_refl|cbn; lia|apply Hoth1, Hne].
          -- unfold term_ok. cbn. rewrite Hterm. discriminate.
          -- exact Hnd.
          -- exact Er.
          -- cbn [add_quit submits]. lia.
          -- cbn. lia.
    - split; [|split; [exact Hterm|cbn [with_req reqs]; rewrite get_set_same; try exact I; try lia]].
      constructor.
      + apply InvA_with_req, HA1.
      + intros r'. destruct (Nat.eq_dec r' r) as [->|Hne].
        * unfold req_ok. cbn [with_req reqs submits created]. rewrite get_set_same. repeat split; [lia|exact Hc1|exact Hp].
        * apply (req_ok_mono st1 _ r r' Hne); [cbn [with_req reqs]; apply get_set_other, Hne|reflexivity|apply incl_refl|cbn; lia|apply Hoth1, Hne].

      + unfold quit_sound. cbn [with_req quits reqs]. intros H1.
        destruct (Hq H1) as [Hr [r0 Hr0]]. split; [exact Hr|].
        destruct (Nat.eq_dec r0 r) as [->|Hne]; [rewrite Hr0 in Hnd; destruct Hnd|].
        exists r0. rewrite get_set_other by exact Hne. exact Hr0.
      + exact Hterm_ok1.
  Qed.

  Lemma others_of_all st r : (forall r', req_ok st r') -> others_ok st r.
  Proof. intros H r' _. apply H. Qed.

  Lemma tries_nonzero : Nat.eqb tries 0 = false.
  Proof. apply Nat.eqb_neq. lia. Qed.

  (* every step preserves the invariant *)
  Lemma step_inv st e : Inv st -> Inv (step st e).
  Proof.
    intros [HA Hreq Hq Ht]. destruct e as [r|r|r|p|imm]; cbn [Pool.step].
    - (* Start *)
      destruct (get_req r (reqs st)) eqn:Er; try (constructor; assumption).
      rewrite tries_nonzero.
      pose proof (Hreq r) as Hr. unfold req_ok in Hr. rewrite Er in Hr.
      destruct (terminating st) eqn:Eterm.
      + apply finish_inv; try assumption; [apply others_of_all, Hreq|rewrite Er; exact I|lia].
      + pose proof (get_executor_first st HA) as G.
        destruct (get_executor st false) as [p st1].
        destruct G as (HA1 & Hc1 & Hs1).
        refine (proj1 (run_from_inv tries st1 r 0 p p _ _ HA1 _ Hc1 _ _ _ _ _)); try lia.
        * apply (current_in_created st1 p HA1 Hc1).
        * rewrite (sb_submits _ _ Hs1). exact Hr.
        * rewrite (sb_reqs _ _ Hs1), Er. exact I.
        * apply (others_same st st1 r Hs1), others_of_all, Hreq.
        * unfold quit_sound. rewrite (sb_quits _ _ Hs1), (sb_reqs _ _ Hs1). exact Hq.
        * rewrite (sb_term _ _ Hs1). exact Eterm.
    - (* DeliverOk *)
      destruct (get_req r (reqs st)) as [|att p|o] eqn:Er; try (constructor; assumption).
      pose proof (Hreq r) as Hr. unfold req_ok in Hr. rewrite Er in Hr. destruct Hr as [H1 [H2 H3]].
      apply finish_inv; try assumption; [apply others_of_all, Hreq|rewrite Er; exact I|lia].
    - (* DeliverBroken *)
      destruct (get_req r (reqs st)) as [|att p|o] eqn:Er; try (constructor; assumption).
      pose proof (Hreq r) as Hr. unfold req_ok in Hr. rewrite Er in Hr. destruct Hr as [H1 [H2 H3]].
      destruct (mem p (broken st)) eqn:Eb; [|constructor; assumption].
      apply mem_In in Eb.
      destruct (Nat.ltb (S att) tries) eqn:El.
      + apply Nat.ltb_lt in El.
        destruct (terminating st) eqn:Eterm.
        * apply finish_inv; try assumption; [apply others_of_all, Hreq|rewrite Er; exact I|lia].
        * assert (Hcur : exists c, current st = Some c).
          { destruct (current st) as [c|] eqn:Ec; [eauto|]. rewrite (a_none st HA Ec) in H3. destruct H3. }
          destruct Hcur as [c Hcur].
          pose proof (retry_target_spec st c p HA Hcur Eb) as G.
          destruct (retry_target st p) as [e' st3].
          destruct G as (HA3 & Hc3 & Hne3 & Hs3 & _).
          refine (proj1 (run_from_inv (tries - S att) st3 r (S att) e' e' _ _ HA3 _ Hc3 _ _ _ _ _)); try lia.
          -- apply (current_in_created st3 e' HA3 Hc3).
          -- rewrite (sb_submits _ _ Hs3). exact H2.
          -- rewrite (sb_reqs _ _ Hs3), Er. exact I.
          -- apply (others_same st st3 r Hs3), others_of_all, Hreq.
          -- unfold quit_sound. rewrite (sb_quits _ _ Hs3), (sb_reqs _ _ Hs3). exact Hq.
          -- rewrite (sb_term _ _ Hs3). exact Eterm.
      + apply Nat.ltb_ge in El.
        destruct restart eqn:Erst.
        * apply finish_inv; try assumption; [apply others_of_all, Hreq|rewrite Er; exact I|].
          split; [lia|]. rewrite Erst. discriminate.
        * apply finish_broken_inv.
          -- apply InvA_add_quit, HA.
          -- intros r' Hne. apply (req_ok_mono st _ r r' Hne); [reflexivity|reflexivity|apply incl_refl|cbn; lia|apply Hreq].
          -- exact Ht.
          -- cbn [add_quit reqs]. rewrite Er. exact I.
          -- exact Erst.
          -- cbn [add_quit submits]. lia.
          -- cbn. lia.
    - (* Break *)
      destruct (mem p (created st) && negb (mem p (broken st))) eqn:E; [|constructor; assumption].
      apply andb_true_iff in E as [E1 _]. apply mem_In in E1.
      constructor; try assumption.
      apply (InvA_ext st); cbn; try reflexivity; try apply incl_refl; try assumption.
      + intros x Hx. right. exact Hx.
      + intros x [<-|Hx]; [exact E1|apply (a_bc st HA), Hx].
    - (* BeginShutdown *)
      destruct (current st) as [p|] eqn:Ec.
      + pose proof (current_in_created st p HA Ec) as Hp.
        assert (Hall : forall q, In q (created st) -> q = p \/ In q (shut st)).
        { intros q Hq'. rewrite (a_shape st HA), Ec in Hq'. apply in_app_or in Hq' as [Hq'|[<-|[]]]; [|left; reflexivity].
          right. apply (a_shut st HA). apply in_rev. exact Hq'. }
        destruct imm.
        * constructor; try assumption.
          -- apply (InvA_ext st); cbn; try reflexivity; try (symmetry; exact Ec); try apply incl_refl; try assumption.
             ++ destruct (mem p (broken st)); [apply incl_refl|intros x Hx; right; exact Hx].
             ++ destruct (mem p (broken st)); [exact (a_bc st HA)|].
                intros x [<-|Hx]; [exact Hp|apply (a_bc st HA), Hx].
          -- unfold term_ok. cbn. intros _ q Hq'. destruct (Hall q Hq') as [->|Hs]; [right; left; reflexivity|left; exact Hs].
        * constructor; try assumption.
          -- apply (InvA_ext st); cbn; try reflexivity; try (symmetry; exact Ec); try apply incl_refl; try assumption.
             ++ intros x Hx. right. exact Hx.
             ++ exact (a_bc st HA).
          -- unfold term_ok. cbn. intros _ q Hq'. destruct (Hall q Hq') as [->|Hs]; [left; left; reflexivity|left; right; exact Hs].
      + constructor; try assumption.
        * apply (InvA_ext st); cbn; try reflexivity; try (symmetry; exact Ec); try apply incl_refl; try assumption. exact (a_bc st HA).
        * unfold term_ok. cbn. intros _ q Hq'. rewrite (a_none st HA Ec) in Hq'. destruct Hq'.
  Qed.

  Theorem run_inv evs : Inv (run evs).
  Proof.
    unfold Pool.run.
    assert (G : forall st, Inv st -> Inv (fold_left step evs st)).
    { induction evs as [|e evs IH]; intros st H; cbn [fold_left]; [exact H|]. apply IH, step_inv, H. }
    apply G, Inv_init.
  Qed.

  (* ---------------------------------------------------------------- consequences *)
  Theorem at_most_tries evs r : count_submits r (submits (run evs)) <= tries.
  Proof.
    pose proof (i_req _ (run_inv evs) r) as H. unfold req_ok in H.
    destruct (get_req r (reqs (run evs))) as [|att p|[| |]]; lia.
  Qed.

  Theorem replaced_once evs :
    let st := run evs in
    NoDup (replaced st) /\ incl (replaced st) (broken st) /\ incl (replaced st) (shut st) /\
    (forall p, In p (created st) -> current st <> Some p -> In p (replaced st)) /\
    length (created st) <= S (length (broken st)).
  Proof.
    cbv zeta. pose proof (i_a _ (run_inv evs)) as HA. set (st := run evs) in *.
    assert (Hnd : NoDup (replaced st)).
    { pose proof (seq_NoDup (length (created st)) 0) as Hs. rewrite <- (a_seq st HA), (a_shape st HA) in Hs.
      apply NoDup_app_l in Hs. apply NoDup_rev in Hs. rewrite rev_involutive in Hs. exact Hs. }
    split; [exact Hnd|]. split; [exact (a_broken st HA)|]. split; [exact (a_shut st HA)|]. split.
    - intros p Hp Hc. rewrite (a_shape st HA) in Hp. apply in_app_or in Hp as [Hp|Hp]; [apply in_rev; exact Hp|].
      destruct (current st) as [c|]; cbn in Hp; [|destruct Hp]. destruct Hp as [->|[]]. congruence.
    - rewrite (a_shape st HA), app_length, rev_length.
      pose proof (NoDup_incl_length Hnd (a_broken st HA)) as Hl.
      destruct (current st); cbn; lia.
  Qed.

  Theorem quit_iff evs :
    1 <= quits (run evs) <-> restart = false /\ exists r, get_req r (reqs (run evs)) = Done ErrBroken.
  Proof.
    split.
    - exact (i_quit _ (run_inv evs)).
    - intros [Hr [r Hd]]. pose proof (i_req _ (run_inv evs) r) as H. unfold req_ok in H. rewrite Hd in H.
      destruct H as [_ H]. exact (H Hr).
  Qed.

  Theorem failed_request_used_all_tries evs r :
    get_req r (reqs (run evs)) = Done ErrBroken -> count_submits r (submits (run evs)) = tries.
  Proof.
    intros Hd. pose proof (i_req _ (run_inv evs) r) as H. unfold req_ok in H. rewrite Hd in H. exact (proj1 H).
  Qed.

  Theorem waiting_attempt_bound evs r att p :
    get_req r (reqs (run evs)) = Waiting att p -> S att <= tries /\ In p (created (run evs)).
  Proof.
    intros Hw. pose proof (i_req _ (run_inv evs) r) as H. unfold req_ok in H. rewrite Hw in H. tauto.
  Qed.

  Theorem all_pools_accounted evs :
    terminating (run evs) = true ->
    forall p, In p (created (run evs)) -> In p (shut (run evs)) \/ In p (killed (run evs)).
  Proof. exact (i_term _ (run_inv evs)). Qed.

  (* ---- single steps ---- *)
  Lemma deliver_ok_finishes st r att p :
    get_req r (reqs st) = Waiting att p -> get_req r (reqs (step st (DeliverOk r))) = Done OkDiff.
  Proof. intros H. cbn [Pool.step]. rewrite H. cbn [with_req reqs]. apply get_set_same. Qed.

  Lemma terminating_monotone st e : terminating st = true -> terminating (step st e) = true.
  Proof.
    intros Ht. destruct e as [r|r|r|p|imm]; cbn [Pool.step].
    - destruct (get_req r (reqs st)); try exact Ht. rewrite tries_nonzero, Ht. exact Ht.
    - destruct (get_req r (reqs st)); exact Ht.
    - destruct (get_req r (reqs st)) as [|att p|o]; try exact Ht.
      destruct (mem p (broken st)); [|exact Ht].
      destruct (Nat.ltb (S att) tries); [rewrite Ht; exact Ht|destruct restart; exact Ht].
    - destruct (mem p (created st) && negb (mem p (broken st))); exact Ht.
    - destruct (current st); [destruct imm|]; reflexivity.
  Qed.

  Lemma no_creation_while_terminating st e :
    terminating st = true -> created (step st e) = created st /\ current (step st e) = current st.
  Proof.
    intros Ht. destruct e as [r|r|r|p|imm]; cbn [Pool.step].
    - destruct (get_req r (reqs st)); try (split; reflexivity). rewrite tries_nonzero, Ht. split; reflexivity.
    - destruct (get_req r (reqs st)); split; reflexivity.
    - destruct (get_req r (reqs st)) as [|att p|o]; try (split; reflexivity).
      destruct (mem p (broken st)); [|split; reflexivity].
      destruct (Nat.ltb (S att) tries); [rewrite Ht; split; reflexivity|destruct restart; split; reflexivity].
    - destruct (mem p (created st) && negb (mem p (broken st))); split; reflexivity.
    - destruct (current st) eqn:Ec; [destruct imm|]; cbn; split; try reflexivity; symmetry; exact Ec.
  Qed.

  Lemma late_request_errors st r :
    terminating st = true -> get_req r (reqs st) = NotStarted ->
    get_req r (reqs (step st (Start r))) = Done ErrShutdown.
  Proof.
    intros Ht Hn. cbn [Pool.step]. rewrite Hn, tries_nonzero, Ht. cbn [with_req reqs]. apply get_set_same.
  Qed.

  Lemma retry_while_terminating_errors st r att p :
    terminating st = true -> get_req r (reqs st) = Waiting att p -> In p (broken st) ->
    exists o, get_req r (reqs (step st (DeliverBroken r))) = Done o /\ o <> OkDiff.
  Proof.
    intros Ht Hw Hb. cbn [Pool.step]. rewrite Hw. apply mem_In in Hb. rewrite Hb.
    destruct (Nat.ltb (S att) tries).
    - rewrite Ht. exists ErrShutdown. cbn [with_req reqs]. rewrite get_set_same. split; [reflexivity|discriminate].
    - exists ErrBroken. destruct restart; cbn [with_req add_quit reqs]; rewrite get_set_same; split; try reflexivity; discriminate.
  Qed.

  Lemma begin_shutdown_sets_terminating st imm : terminating (step st (BeginShutdown imm)) = true.
  Proof. cbn [Pool.step]. destruct (current st); [destruct imm|]; reflexivity. Qed.

  (* a delivery to a waiting request finishes it or moves it to a strictly later try *)
  Theorem delivery_progress evs r att p e :
    get_req r (reqs (run evs)) = Waiting att p ->
    (e = DeliverOk r \/ (e = DeliverBroken r /\ In p (broken (run evs)))) ->
    match get_req r (reqs (step (run evs) e)) with
    | NotStarted => False
    | Waiting a _ => att < a /\ S a <= tries
    | Done _ => True
    end.
  Proof.
    intros Hw He.
    pose proof (run_inv evs) as HI. set (st := run evs) in *.
    pose proof (step_inv st e HI) as HI'.
    destruct He as [->|[-> Hb]].
    - rewrite (deliver_ok_finishes st r att p Hw). exact I.
    - pose proof (i_req _ HI' r) as Hr'. unfold req_ok in Hr'.
      destruct HI as [HA Hreq Hq Ht].
      pose proof (Hreq r) as Hr. unfold req_ok in Hr. rewrite Hw in Hr. destruct Hr as [H1 [H2 H3]].
      revert Hr'. cbn [Pool.step]. rewrite Hw. apply mem_In in Hb. rewrite Hb. apply mem_In in Hb.
      destruct (Nat.ltb (S att) tries) eqn:El.
      + apply Nat.ltb_lt in El. destruct (terminating st) eqn:Eterm.
        * cbn [with_req reqs]. rewrite get_set_same. intros _. exact I.
        * assert (Hcur : exists c, current st = Some c).
          { destruct (current st) as [c|] eqn:Ec; [eauto|]. rewrite (a_none st HA Ec) in H3. destruct H3. }
          destruct Hcur as [c Hcur].
          pose proof (retry_target_spec st c p HA Hcur Hb) as G.
          destruct (retry_target st p) as [e' st3].
          destruct G as (HA3 & Hc3 & Hne3 & Hs3 & _).
          assert (R : let st' := run_from (tries - S att) st3 r (S att) e' in
                      Inv st' /\ terminating st' = false /\
                      match get_req r (reqs st') with NotStarted => False | Waiting a _ => S att <= a | Done _ => True end).
          { apply (run_from_inv (tries - S att) st3 r (S att) e' e'); try lia; try assumption.
            - apply (current_in_created st3 e' HA3 Hc3).
            - rewrite (sb_submits _ _ Hs3). exact H2.
            - rewrite (sb_reqs _ _ Hs3), Hw. exact I.
            - apply (others_same st st3 r Hs3), others_of_all, Hreq.
            - unfold quit_sound. rewrite (sb_quits _ _ Hs3), (sb_reqs _ _ Hs3). exact Hq.
            - rewrite (sb_term _ _ Hs3). exact Eterm. }
          cbv zeta in R. destruct R as [_ [_ R]].
          destruct (get_req r (reqs (run_from (tries - S att) st3 r (S att) e'))) as [|a q|o]; [destruct R| |intros _; exact I].
          intros [Hb1 _]. split; lia.
      + destruct restart; cbn [with_req add_quit reqs]; rewrite get_set_same; intros _; exact I.
  Qed.
End Protocol.

(* reconcile_change_groups conserves groups: its output is a sequence of whole items - every group
   of the inserted and of the deleted side exactly once, the rest tags - for all item lists in which
   loose items are tags and deleted groups carry the deletion marker. *)
From Coq Require Import List NArith Arith Bool Lia Permutation.
From WMD Require Import Lib.Str Lib.PyChars Model.RenderTokens Model.RenderMerge.
Import ListNotations.

Definition flat (l : list item) : list str := flat_map item_chunks l.
Definition groups (l : list item) : list (list str) :=
  flat_map (fun it => match it with IGroup g => [g] | ITag _ => [] end) l.
Definition tag_item (it : item) : Prop := match it with ITag s => starts_lt s = true | IGroup _ => True end.
Definition tags_ok (l : list item) : Prop := Forall tag_item l.
Definition del_group (g : list str) : Prop := has_del_marker g = true.

Lemma flat_app a b : flat (a ++ b) = flat a ++ flat b.
Proof. unfold flat. apply flat_map_app. Qed.
Lemma groups_app a b : groups (a ++ b) = groups a ++ groups b.
Proof. unfold groups. apply flat_map_app. Qed.
Lemma flat_tags l : flat (map ITag l) = l.
Proof. induction l as [|x l IH]; [reflexivity|]. cbn. f_equal. exact IH. Qed.
Lemma groups_tags l : groups (map ITag l) = [].
Proof. induction l as [|x l IH]; [reflexivity|]. cbn. exact IH. Qed.
Lemma tags_ok_tags l : Forall (fun s => starts_lt s = true) l -> tags_ok (map ITag l).
Proof. intros H. unfold tags_ok. induction H; cbn; constructor; assumption. Qed.
Lemma tags_ok_app a b : tags_ok a -> tags_ok b -> tags_ok (a ++ b).
Proof. intros. apply Forall_app. split; assumption. Qed.

(* the three buffers hold whole items; their groups are exactly G; deleted-side buffer holds only marked groups *)
Definition Inv (st : rstate) (G : list (list str)) : Prop :=
  exists D I X, r_doc st = flat D /\ r_ins st = flat I /\ r_del st = flat X /\
                Permutation (groups D ++ groups I ++ groups X) G /\
                tags_ok D /\ tags_ok I /\ tags_ok X /\ Forall del_group (groups X).

Lemma Inv_perm st G G' : Permutation G G' -> Inv st G -> Inv st G'.
Proof.
  intros P (D & I & X & H1 & H2 & H3 & H4 & H5). exists D, I, X. repeat split; try tauto.
  rewrite H4. exact P.
Qed.

Lemma Inv_same st st' G : r_doc st' = r_doc st -> r_ins st' = r_ins st -> r_del st' = r_del st -> Inv st G -> Inv st' G.
Proof. intros E1 E2 E3 (D & I & X & H). exists D, I, X. rewrite E1, E2, E3. exact H. Qed.

Lemma inv_set_buf st t G : Inv st G -> Inv (set_buf st t) G.
Proof. apply Inv_same; reflexivity. Qed.
Lemma inv_set_dstack st s G : Inv st G -> Inv (set_dstack st s) G.
Proof. apply Inv_same; reflexivity. Qed.
Lemma inv_set_dunstack st s G : Inv st G -> Inv (set_dunstack st s) G.
Proof. apply Inv_same; reflexivity. Qed.
Lemma inv_set_istack st s G : Inv st G -> Inv (set_istack st s) G.
Proof. apply Inv_same; reflexivity. Qed.

Lemma inv_flush_del st G : Inv st G -> Inv (flush_del st) G.
Proof.
  intros (D & I & X & H1 & H2 & H3 & H4 & H5 & H6 & H7 & H8). exists (D ++ X), I, []. cbn [flush_del r_doc r_ins r_del].
  repeat split; try assumption.
  - rewrite H1, H3, flat_app. reflexivity.
  - rewrite groups_app. cbn [groups flat_map]. rewrite app_nil_r. rewrite <- H4.
    rewrite <- !app_assoc. apply Permutation_app_head. apply Permutation_app_comm.
  - apply tags_ok_app; assumption.
  - constructor.
  - constructor.
Qed.

Lemma inv_flush_ins st G : Inv st G -> Inv (flush_ins st) G.
Proof.
  intros (D & I & X & H1 & H2 & H3 & H4 & H5 & H6 & H7 & H8). exists (D ++ I), [], X. cbn [flush_ins r_doc r_ins r_del].
  repeat split; try assumption.
  - rewrite H1, H2, flat_app. reflexivity.
  - rewrite groups_app. cbn [groups flat_map app]. rewrite <- H4. rewrite <- !app_assoc. reflexivity.
  - apply tags_ok_app; assumption.
  - constructor.
Qed.

Lemma inv_ext_tags st t l G : Forall (fun s => starts_lt s = true) l -> Inv st G -> Inv (extend st t l) G.
Proof.
  intros Hl (D & I & X & H1 & H2 & H3 & H4 & H5 & H6 & H7 & H8).
  destruct t; cbn [extend].
  - exists (D ++ map ITag l), I, X. cbn [r_doc r_ins r_del]. repeat split; try assumption.
    + rewrite H1, flat_app, flat_tags. reflexivity.
    + rewrite groups_app, groups_tags, app_nil_r. exact H4.
    + apply tags_ok_app; [assumption|apply tags_ok_tags, Hl].
  - exists D, I, (X ++ map ITag l). cbn [r_doc r_ins r_del]. repeat split; try assumption.
    + rewrite H3, flat_app, flat_tags. reflexivity.
    + rewrite groups_app, groups_tags, app_nil_r. exact H4.
    + apply tags_ok_app; [assumption|apply tags_ok_tags, Hl].
    + rewrite groups_app, groups_tags, app_nil_r. exact H8.
  - exists D, (I ++ map ITag l), X. cbn [r_doc r_ins r_del]. repeat split; try assumption.
    + rewrite H2, flat_app, flat_tags. reflexivity.
    + rewrite groups_app, groups_tags, app_nil_r. exact H4.
    + apply tags_ok_app; [assumption|apply tags_ok_tags, Hl].
Qed.

Lemma inv_ext_tag st t d G : starts_lt d = true -> Inv st G -> Inv (extend st t [d]) G.
Proof. intros H. apply inv_ext_tags. constructor; [exact H|constructor]. Qed.

Lemma inv_ext_group st t g G : (t = TDel -> del_group g) -> Inv st G -> Inv (extend st t g) (g :: G).
Proof.
  intros Hg (D & I & X & H1 & H2 & H3 & H4 & H5 & H6 & H7 & H8).
  assert (Fg : flat [IGroup g] = g) by (cbn; apply app_nil_r).
  destruct t; cbn [extend].
  - exists (D ++ [IGroup g]), I, X. cbn [r_doc r_ins r_del]. repeat split; try assumption.
    + rewrite H1, flat_app, Fg. reflexivity.
    + rewrite groups_app. cbn [groups flat_map app]. rewrite <- H4. rewrite <- app_assoc. cbn [app].
      symmetry. apply Permutation_middle.
    + apply tags_ok_app; [assumption|constructor; [exact Logic.I|constructor]].
  - exists D, I, (X ++ [IGroup g]). cbn [r_doc r_ins r_del]. repeat split; try assumption.
    + rewrite H3, flat_app, Fg. reflexivity.
    + rewrite groups_app. cbn [groups flat_map app]. rewrite <- H4. rewrite !app_assoc.
      symmetry. rewrite <- (app_nil_r ((groups D ++ groups I) ++ groups X)) at 1.
      replace (((groups D ++ groups I) ++ groups X) ++ [g]) with (((groups D ++ groups I) ++ groups X) ++ g :: []) by reflexivity.
      apply Permutation_middle.
    + apply tags_ok_app; [assumption|constructor; [exact Logic.I|constructor]].
    + rewrite groups_app. apply Forall_app. split; [exact H8|]. cbn. constructor; [apply Hg; reflexivity|constructor].
  - exists D, (I ++ [IGroup g]), X. cbn [r_doc r_ins r_del]. repeat split; try assumption.
    + rewrite H2, flat_app, Fg. reflexivity.
    + rewrite groups_app. cbn [groups flat_map app]. rewrite <- H4.
      replace (groups D ++ (groups I ++ [g]) ++ groups X) with ((groups D ++ groups I) ++ g :: groups X)
        by (rewrite <- !app_assoc; reflexivity).
      rewrite (app_assoc (groups D)). symmetry. apply Permutation_middle.
    + apply tags_ok_app; [assumption|constructor; [exact Logic.I|constructor]].
Qed.

(* ------------------------------------------------------------------ one step of the loop *)
Definition item_groups (o : option item) : list (list str) := match o with Some (IGroup g) => [g] | _ => [] end.
Definition opt_tag_ok (o : option item) : Prop := match o with Some it => tag_item it | None => True end.

Lemma close_tag_starts n : starts_lt (close_tag_of n) = true.
Proof. reflexivity. Qed.

Lemma closers_ok (s : list tinfo) : Forall (fun c => starts_lt c = true) (map (fun t => close_tag_of (ti_name t)) s).
Proof. induction s as [|t s IH]; cbn [map]; constructor; [apply close_tag_starts|exact IH]. Qed.

Lemma eqb_n_Sn n : Nat.eqb n (S n) = false.
Proof. induction n as [|n IH]; [reflexivity|exact IH]. Qed.

Ltac inv_tac :=
  repeat first
    [ assumption
    | apply inv_set_buf | apply inv_set_dstack | apply inv_set_dunstack | apply inv_set_istack
    | apply inv_flush_del | apply inv_flush_ins
    | apply inv_ext_tags; [apply closers_ok|]
    | apply inv_ext_tag; [assumption|]
    | apply inv_ext_group; [let E := fresh in intros E; first [discriminate E | match goal with Hd : forall g, _ = Some (IGroup g) -> del_group g |- _ => apply Hd; reflexivity end]|] ].

Opaque extend set_buf set_dstack set_dunstack set_istack flush_del flush_ins.

Lemma step_inv st ins del ii di st' ii' di' G :
  Inv st G -> opt_tag_ok ins -> opt_tag_ok del ->
  (forall g, del = Some (IGroup g) -> del_group g) ->
  (forall x y, ins = Some (IGroup x) -> del = Some (IGroup y) -> list_eqb x y = false) ->
  reconcile_step st ins del ii di = Continue st' ii' di' ->
  Inv st' ((if Nat.eqb ii' (S ii) then item_groups ins else []) ++ (if Nat.eqb di' (S di) then item_groups del else []) ++ G).
Proof.
  intros HI Hti Htd Hdg Hne H. unfold reconcile_step in H.
  destruct ins as [[i|gi]|]; destruct del as [[d|gd]|]; cbn [opt_tag_ok tag_item] in Hti, Htd; cbn [item_groups];
    repeat match type of H with
           | context [match ?x with _ => _ end] => destruct x eqn:?; try discriminate H
           end;
    try (injection H as <- <- <-);
    rewrite ?Nat.eqb_refl, ?eqb_n_Sn; cbn [app]; inv_tac.
  all: match goal with
       | Hq : items_equal _ _ && _ = true |- _ =>
           cbn [items_equal andb] in Hq; first [discriminate Hq | rewrite (Hne _ _ eq_refl eq_refl) in Hq; discriminate Hq]
       end.
Qed.

Transparent extend set_buf set_dstack set_dunstack set_istack flush_del flush_ins.

Opaque extend set_buf set_dstack set_dunstack set_istack flush_del flush_ins.

Lemma step_break_inv st ins del ii di st' G :
  Inv st G -> reconcile_step st ins del ii di = Break st' -> Inv st' G.
Proof.
  intros HI H. unfold reconcile_step in H.
  destruct ins as [[i|gi]|]; destruct del as [[d|gd]|];
    repeat match type of H with
           | context [match ?x with _ => _ end] => destruct x eqn:?; try discriminate H
           end;
    try (injection H as <-); inv_tac.
Qed.

Lemma step_indices st ins del ii di st' ii' di' :
  reconcile_step st ins del ii di = Continue st' ii' di' ->
  (ii' = ii \/ (ii' = S ii /\ ins <> None)) /\ (di' = di \/ (di' = S di /\ del <> None)).
Proof.
  intros H. unfold reconcile_step in H.
  destruct ins as [[i|gi]|]; destruct del as [[d|gd]|];
    repeat match type of H with
           | context [match ?x with _ => _ end] => destruct x eqn:?; try discriminate H
           end;
    try (injection H as <- <- <-); split; first [left; reflexivity | right; split; [reflexivity|discriminate]].
Qed.

Transparent extend set_buf set_dstack set_dunstack set_istack flush_del flush_ins.

(* ------------------------------------------------------------------ the loop *)
Lemma truthy_some o it : truthy_item o = Some it -> o = Some it.
Proof. destruct o as [[[|c s]|[|c g]]|]; cbn; congruence. Qed.

Lemma firstn_S_nth {A} (l : list A) : forall n x, nth_error l n = Some x -> firstn (S n) l = firstn n l ++ [x].
Proof.
  induction l as [|y l IH]; intros [|n] x H; cbn in H; try discriminate.
  - injection H as ->. reflexivity.
  - change (firstn (S (S n)) (y :: l)) with (y :: firstn (S n) l). rewrite (IH n x H). reflexivity.
Qed.

Lemma groups_item it : groups [it] = item_groups (Some it).
Proof. destruct it; reflexivity. Qed.

Lemma perm4 {A} (a b gi gd : list A) : Permutation (a ++ b ++ gi ++ gd) ((gi ++ a) ++ (gd ++ b)).
Proof.
  rewrite <- app_assoc.
  apply (Permutation_trans (l' := a ++ gi ++ b ++ gd)); [apply Permutation_app_head, Permutation_app_swap_app|].
  apply (Permutation_trans (l' := gi ++ a ++ b ++ gd)); [apply Permutation_app_swap_app|].
  do 2 apply Permutation_app_head. apply Permutation_app_comm.
Qed.

Lemma perm_d {A} (d gi gd : list A) : Permutation (d ++ gi ++ gd) (gi ++ gd ++ d).
Proof. rewrite (app_assoc gi). apply Permutation_app_comm. Qed.
Lemma perm_i {A} (a gi gd : list A) : Permutation (a ++ gi ++ gd) ((gi ++ a) ++ gd).
Proof. rewrite <- app_assoc. apply Permutation_app_swap_app. Qed.

Section Loop.
  Variables igs dgs : list item.
  Hypothesis Hit : tags_ok igs.
  Hypothesis Hdt : tags_ok dgs.
  Hypothesis Hdm : Forall del_group (groups dgs).
  Hypothesis Hne : forall x y, In x (groups igs) -> In y (groups dgs) -> list_eqb x y = false.

  Definition seen (ii di : nat) : list (list str) := groups (firstn ii igs) ++ groups (firstn di dgs).

  Lemma in_groups it l : In it l -> forall g, it = IGroup g -> In g (groups l).
  Proof.
    intros Hin g ->. unfold groups. apply in_flat_map. exists (IGroup g). split; [exact Hin|left; reflexivity].
  Qed.

  Lemma loop_inv fuel : forall st ii di st' ii' di',
    Inv st (seen ii di) -> reconcile_loop fuel igs dgs st ii di = (st', ii', di') -> Inv st' (seen ii' di').
  Proof.
    induction fuel as [|fuel IH]; intros st ii di st' ii' di' HI H; cbn [reconcile_loop] in H.
    - injection H as <- <- <-. exact HI.
    - destruct (truthy_item (nth_error igs ii)) as [it_i|] eqn:Ei; destruct (truthy_item (nth_error dgs di)) as [it_d|] eqn:Ed.
      4: { injection H as <- <- <-. exact HI. }
      all: destruct (reconcile_step st _ _ ii di) as [st2 ii2 di2|st2] eqn:Es;
        [|injection H as <- <- <-; exact (step_break_inv _ _ _ _ _ _ _ HI Es)].
      all: apply (IH st2 ii2 di2 st' ii' di'); [|exact H].
      all: pose proof (step_indices _ _ _ _ _ _ _ _ Es) as [Hi Hd].
      all: assert (Ti : forall it, truthy_item (nth_error igs ii) = Some it -> tag_item it /\ In it igs /\ firstn (S ii) igs = firstn ii igs ++ [it])
             by (intros it E; apply truthy_some in E; split; [exact (proj1 (Forall_forall _ _) Hit it (nth_error_In _ _ E))|split; [exact (nth_error_In _ _ E)|exact (firstn_S_nth _ _ _ E)]]).
      all: assert (Td : forall it, truthy_item (nth_error dgs di) = Some it -> tag_item it /\ In it dgs /\ firstn (S di) dgs = firstn di dgs ++ [it])
             by (intros it E; apply truthy_some in E; split; [exact (proj1 (Forall_forall _ _) Hdt it (nth_error_In _ _ E))|split; [exact (nth_error_In _ _ E)|exact (firstn_S_nth _ _ _ E)]]).
      + (* both present *)
        destruct (Ti _ Ei) as (Ti1 & Ti2 & Ti3). destruct (Td _ Ed) as (Td1 & Td2 & Td3).
        assert (S1 := step_inv st (Some it_i) (Some it_d) ii di st2 ii2 di2 (seen ii di) HI Ti1 Td1).
        assert (Hg : forall g, Some it_d = Some (IGroup g) -> del_group g).
        { intros g E. injection E as ->. rewrite Forall_forall in Hdm. apply Hdm. apply (in_groups _ _ Td2 g eq_refl). }
        assert (Hn : forall x y, Some it_i = Some (IGroup x) -> Some it_d = Some (IGroup y) -> list_eqb x y = false).
        { intros x y E1 E2. injection E1 as ->. injection E2 as ->. apply Hne; [apply (in_groups _ _ Ti2 x eq_refl)|apply (in_groups _ _ Td2 y eq_refl)]. }
        specialize (S1 Hg Hn Es). unfold seen in *.
        destruct Hi as [->|[-> _]]; destruct Hd as [->|[-> _]]; rewrite ?Nat.eqb_refl, ?eqb_n_Sn in S1; cbn [app] in S1;
          rewrite ?Ti3, ?Td3, ?groups_app, ?groups_item.
        * exact S1.
        * eapply Inv_perm; [|exact S1]. apply perm_d.
        * eapply Inv_perm; [|exact S1]. apply perm_i.
        * eapply Inv_perm; [|exact S1]. apply perm4.
      + (* only the inserted side *)
        destruct (Ti _ Ei) as (Ti1 & Ti2 & Ti3).
        assert (S1 := step_inv st (Some it_i) None ii di st2 ii2 di2 (seen ii di) HI Ti1 Logic.I
                        (fun g E => ltac:(discriminate E)) (fun x y _ E => ltac:(discriminate E)) Es).
        unfold seen in *. destruct Hd as [->|[_ Hc]]; [|congruence].
        destruct Hi as [->|[-> _]]; rewrite ?Nat.eqb_refl, ?eqb_n_Sn in S1; cbn [app] in S1; rewrite ?Ti3, ?groups_app, ?groups_item.
        * exact S1.
        * eapply Inv_perm; [|exact S1]. apply perm_i.
      + (* only the deleted side *)
        destruct (Td _ Ed) as (Td1 & Td2 & Td3).
        assert (Hg : forall g, Some it_d = Some (IGroup g) -> del_group g).
        { intros g E. injection E as ->. rewrite Forall_forall in Hdm. apply Hdm. apply (in_groups _ _ Td2 g eq_refl). }
        assert (S1 := step_inv st None (Some it_d) ii di st2 ii2 di2 (seen ii di) HI Logic.I Td1 Hg (fun x y E _ => ltac:(discriminate E)) Es).
        unfold seen in *. destruct Hi as [->|[_ Hc]]; [|congruence].
        destruct Hd as [->|[-> _]]; rewrite ?Nat.eqb_refl, ?eqb_n_Sn in S1; cbn [app] in S1; rewrite ?Td3, ?groups_app, ?groups_item.
        * exact S1.
        * eapply Inv_perm; [|exact S1]. apply perm_d.
  Qed.
End Loop.

(* ------------------------------------------------------------------ the whole function *)
Lemma flat_group_items l : flat (map IGroup (groups l)) = flat_map (fun it => match it with IGroup g => g | ITag _ => [] end) l.
Proof.
  induction l as [|[s|g] l IH]; [reflexivity|exact IH|]. cbn [groups flat_map map app flat item_chunks]. fold (groups l).
  change (flat_map item_chunks (map IGroup (groups l))) with (flat (map IGroup (groups l))). rewrite IH. reflexivity.
Qed.

Lemma groups_group_items l : groups (map IGroup l) = l.
Proof. induction l as [|g l IH]; [reflexivity|]. cbn. f_equal. exact IH. Qed.

Lemma tags_ok_group_items l : tags_ok (map IGroup l).
Proof. induction l; cbn; constructor; [exact Logic.I|assumption]. Qed.

Lemma marker_in_flat X g : In g (groups X) -> has_del_marker g = true -> has_del_marker (flat X) = true.
Proof.
  intros Hin Hm. unfold has_del_marker in *. apply existsb_exists in Hm as [c [Hc E]]. apply existsb_exists. exists c. split; [|exact E].
  unfold groups in Hin. apply in_flat_map in Hin as [it [Hit Hg]]. destruct it as [s|g']; [destruct Hg|]. destruct Hg as [<-|[]].
  unfold flat. apply in_flat_map. exists (IGroup g'). split; [exact Hit|exact Hc].
Qed.

Lemma no_marker_no_groups X : Forall del_group (groups X) -> has_del_marker (flat X) = false -> groups X = [].
Proof.
  intros H Hm. destruct (groups X) as [|g l] eqn:E; [reflexivity|]. exfalso.
  assert (Hin : In g (groups X)) by (rewrite E; left; reflexivity).
  inversion H; subst. rewrite (marker_in_flat X g Hin) in Hm; [discriminate Hm|assumption].
Qed.

Lemma tags_ok_skipn n l : tags_ok l -> tags_ok (skipn n l).
Proof. intros H. rewrite <- (firstn_skipn n l) in H. apply Forall_app in H. tauto. Qed.

Lemma perm_final {A} (D I X gi1 gi2 gd1 gd2 : list A) :
  Permutation (D ++ I ++ X) (gi1 ++ gd1) -> Permutation (D ++ X ++ I ++ gd2 ++ gi2) ((gi1 ++ gi2) ++ (gd1 ++ gd2)).
Proof.
  intros H.
  apply (Permutation_trans (l' := (D ++ I ++ X) ++ gd2 ++ gi2)).
  { rewrite <- !app_assoc. apply Permutation_app_head. apply Permutation_app_swap_app. }
  apply (Permutation_trans (l' := (gi1 ++ gd1) ++ gd2 ++ gi2)); [apply Permutation_app_tail, H|].
  rewrite <- !app_assoc. apply Permutation_app_head.
  rewrite (app_assoc gd1). apply Permutation_app_comm.
Qed.

(* the output is a sequence of whole items: every group of either side exactly once, everything else tags *)
Theorem reconcile_conserves igs dgs :
  tags_ok igs -> tags_ok dgs -> Forall del_group (groups dgs) ->
  (forall x y, In x (groups igs) -> In y (groups dgs) -> list_eqb x y = false) ->
  exists out, reconcile_change_groups igs dgs = flat out /\
              Permutation (groups out) (groups igs ++ groups dgs) /\ tags_ok out.
Proof.
  intros Hit Hdt Hdm Hne. unfold reconcile_change_groups.
  set (st0 := {| r_doc := []; r_ins := []; r_del := []; r_istack := []; r_dstack := []; r_dunstack := []; r_buf := TDoc |}).
  assert (H0 : Inv st0 (seen igs dgs 0 0)).
  { exists [], [], []. cbn. repeat split; constructor. }
  destruct (reconcile_loop (S (List.length igs + List.length dgs)) igs dgs st0 0 0) as [[st ii] di] eqn:E.
  pose proof (loop_inv igs dgs Hit Hdt Hdm Hne _ _ _ _ _ _ _ H0 E) as (D & I & X & H1 & H2 & H3 & H4 & H5 & H6 & H7 & H8).
  unfold seen in H4.
  set (closers := map (fun t => close_tag_of (ti_name t)) (rev (r_dstack st))).
  exists (D ++ (if has_del_marker (r_del st) then X ++ map ITag closers else []) ++ I ++ map IGroup (groups (skipn di dgs)) ++ skipn ii igs).
  split; [|split].
  - rewrite !flat_app, flat_group_items, <- H1, <- H2. f_equal. f_equal.
    destruct (has_del_marker (r_del st)); [rewrite flat_app, flat_tags, <- H3; reflexivity|reflexivity].
  - rewrite !groups_app, groups_group_items.
    rewrite <- (firstn_skipn ii igs) at 2. rewrite <- (firstn_skipn di dgs) at 2. rewrite !groups_app.
    set (gi1 := groups (firstn ii igs)) in *. set (gi2 := groups (skipn ii igs)). set (gd1 := groups (firstn di dgs)) in *. set (gd2 := groups (skipn di dgs)).
    assert (HX : groups (if has_del_marker (r_del st) then X ++ map ITag closers else []) = groups X).
    { destruct (has_del_marker (r_del st)) eqn:Em; [rewrite groups_app, groups_tags, app_nil_r; reflexivity|].
      rewrite H3 in Em. rewrite (no_marker_no_groups X H8 Em). reflexivity. }
    rewrite HX.
    apply perm_final. exact H4.
  - repeat apply tags_ok_app; try assumption.
    + destruct (has_del_marker (r_del st)); [apply tags_ok_app; [assumption|apply tags_ok_tags, closers_ok]|constructor].
    + apply tags_ok_group_items.
    + apply tags_ok_skipn, Hit.
Qed.

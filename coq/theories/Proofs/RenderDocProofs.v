(* Document assembly of html_diff_render: what each view is made of, that the title diff can be
   read back into both titles, and that every script/style below a deletion marker ends up inside
   an inert template. *)
From Coq Require Import List NArith ZArith Arith Bool String Lia.
From WMD Require Import Gen.Tables Lib.Str Lib.PyChars Lib.Escape Model.LinksHtml Model.RenderDoc Proofs.EscapeProofs.
Import ListNotations.
Open Scope N_scope.

(* ------------------------------------------------------------------ induction over trees *)
Section SInd.
  Variable P : snode -> Prop.
  Hypothesis Ht : forall s, P (SText s).
  Hypothesis He : forall n a v cs, Forall P cs -> P (SEl n a v cs).
  Fixpoint snode_ind' (n : snode) : P n :=
    match n with
    | SText s => Ht s
    | SEl name a v cs =>
        He name a v cs ((fix go (l : list snode) : Forall P l :=
                           match l with [] => Forall_nil _ | x :: l' => Forall_cons _ (snode_ind' x) (go l') end) cs)
    end.
End SInd.

(* ------------------------------------------------------------------ what a view is made of *)
Definition base_of (k : kind) (old new : sdoc) : sdoc := match k with KDeletions => old | _ => new end.

Theorem view_keeps_attributes k old new ops ic dc body :
  let v := view_doc k old new ops ic dc body in
  d_doctype v = d_doctype (base_of k old new) /\ d_html_attrs v = d_html_attrs (base_of k old new) /\
  d_head_attrs v = d_head_attrs (base_of k old new) /\ d_body_attrs v = d_body_attrs (base_of k old new).
Proof. destruct k; cbn; repeat split; reflexivity. Qed.

Theorem single_sided_view_parts k old new ops ic dc body : k <> KCombined ->
  let v := view_doc k old new ops ic dc body in
  d_head v = d_head (base_of k old new) ++ [style_node ic dc] /\ d_body v = body ++ [script_node].
Proof. destruct k; intros H; [congruence| |]; cbn; split; reflexivity. Qed.

Lemma deactivate_style ic dc : deactivate false (style_node ic dc) = [style_node ic dc].
Proof. reflexivity. Qed.
Lemma deactivate_script : deactivate false script_node = [script_node].
Proof. reflexivity. Qed.
Lemma deactivate_meta ops : deactivate false (title_meta ops) = [title_meta ops].
Proof. reflexivity. Qed.

Theorem combined_view_parts old new ops ic dc body :
  let v := view_doc KCombined old new ops ic dc body in
  d_head v = flat_map (deactivate false) (d_head new) ++
             [title_meta ops; SEl (s2l "template") [(s2l "id", s2l "wm-diff-old-head")] false (flat_map (deactivate false) (d_head old));
              style_node ic dc] /\
  d_body v = flat_map (deactivate false) body ++ [script_node].
Proof.
  cbn [view_doc d_head d_body]. rewrite !flat_map_app. cbn [flat_map]. rewrite !app_nil_r. split; reflexivity.
Qed.

(* trees without a <del> element are left alone *)
Fixpoint has_del (n : snode) : bool :=
  match n with
  | SText _ => false
  | SEl name _ _ cs => str_eqb name (s2l "del") || existsb has_del cs
  end.

Lemma flat_map_singletons {A} (f : A -> list A) l : Forall (fun x => f x = [x]) l -> flat_map f l = l.
Proof. induction 1 as [|x l Hx _ IH]; [reflexivity|]. cbn [flat_map]. rewrite Hx, IH. reflexivity. Qed.
Lemma flat_map_nils {A B} (f : A -> list B) l : Forall (fun x => f x = []) l -> flat_map f l = [].
Proof. induction 1 as [|x l Hx _ IH]; [reflexivity|]. cbn [flat_map]. rewrite Hx, IH. reflexivity. Qed.

Lemma Forall_has_del (P : snode -> Prop) cs :
  Forall (fun n => has_del n = false -> P n) cs -> existsb has_del cs = false -> Forall P cs.
Proof.
  induction 1 as [|c cs Hc _ IH]; intros H; [constructor|]. cbn [existsb] in H. apply orb_false_iff in H as [H1 H2].
  constructor; [exact (Hc H1)|exact (IH H2)].
Qed.

Lemma no_del_no_deleted_actives n : has_del n = false -> deleted_actives false n = [].
Proof.
  induction n as [s|name a v cs IH] using snode_ind'; intros H; [reflexivity|].
  cbn [has_del] in H. apply orb_false_iff in H as [Hn Hc]. cbn [deleted_actives andb]. unfold is_del. rewrite Hn. cbn [orb].
  apply flat_map_nils. exact (Forall_has_del _ cs IH Hc).
Qed.
Lemma no_del_strip_id n : has_del n = false -> strip_deleted_actives false n = [n].
Proof.
  induction n as [s|name a v cs IH] using snode_ind'; intros H; [reflexivity|].
  cbn [has_del] in H. apply orb_false_iff in H as [Hn Hc]. cbn [strip_deleted_actives andb]. unfold is_del. rewrite Hn. cbn [orb].
  do 2 f_equal. apply flat_map_singletons. exact (Forall_has_del _ cs IH Hc).
Qed.

Lemma deactivate_no_del n : has_del n = false -> deactivate false n = [n].
Proof.
  induction n as [s|name a v cs IH] using snode_ind'; intros H; [reflexivity|].
  cbn [deactivate]. destruct (is_foreign name) eqn:F.
  { rewrite (no_del_no_deleted_actives _ H), (no_del_strip_id _ H). reflexivity. }
  cbn [has_del] in H. apply orb_false_iff in H as [Hn Hc]. cbn [andb]. unfold is_del. rewrite Hn. cbn [orb].
  do 2 f_equal. apply flat_map_singletons. exact (Forall_has_del _ cs IH Hc).
Qed.

Theorem combined_head_unchanged_without_del old new ops ic dc body :
  forallb (fun n => negb (has_del n)) (d_head new) = true -> forallb (fun n => negb (has_del n)) (d_head old) = true ->
  d_head (view_doc KCombined old new ops ic dc body) =
  d_head new ++ [title_meta ops; old_head_template (d_head old); style_node ic dc].
Proof.
  intros Hn Ho. rewrite (proj1 (combined_view_parts old new ops ic dc body)).
  assert (M : forall l, forallb (fun n => negb (has_del n)) l = true -> flat_map (deactivate false) l = l).
  { intros l H. apply flat_map_singletons. apply Forall_forall. intros x Hx.
    rewrite forallb_forall in H. apply deactivate_no_del, negb_true_iff, H, Hx. }
  rewrite (M _ Hn), (M _ Ho). reflexivity.
Qed.

(* ------------------------------------------------------------------ deleted active elements are inert *)
Definition is_inert_template (name : str) (attrs : list (str * str)) : bool :=
  str_eqb name (s2l "template") &&
  match attrs with [(k, v)] => str_eqb k (s2l "class") && str_eqb v (s2l "wm-diff-deleted-inert") | _ => false end.

(* every script/style that has a <del> ancestor lies inside an inert template, and that template is not itself inside
   embedded SVG or MathML (where a <template> element is no HTML template and nothing is inert) *)
Fixpoint inert_ok (under_del inert_anc in_foreign : bool) (n : snode) : bool :=
  match n with
  | SText _ => true
  | SEl name attrs _ cs =>
      (negb (under_del && is_active name) || inert_anc) &&
      forallb (inert_ok (under_del || str_eqb name (s2l "del"))
                        (inert_anc || (is_inert_template name attrs && negb in_foreign))
                        (in_foreign || is_foreign name)) cs
  end.

Lemma template_not_active : is_active (s2l "template") = false.
Proof. vm_compute. reflexivity. Qed.
Lemma template_not_del : str_eqb (s2l "template") (s2l "del") = false.
Proof. reflexivity. Qed.
Lemma template_not_foreign : is_foreign (s2l "template") = false.
Proof. reflexivity. Qed.

Lemma forallb_flat_map {A B} (p : B -> bool) (f : A -> list B) l :
  (forall x, In x l -> forallb p (f x) = true) -> forallb p (flat_map f l) = true.
Proof.
  intros H. apply forallb_forall. intros y Hy. apply in_flat_map in Hy as [x [Hx Hy]].
  specialize (H x Hx). rewrite forallb_forall in H. exact (H y Hy).
Qed.

Lemma inert_ok_below_inert n : forall u f, inert_ok u true f n = true.
Proof.
  induction n as [s|name a v cs IH] using snode_ind'; intros u f; [reflexivity|].
  cbn [inert_ok orb]. rewrite orb_true_r. cbn [andb].
  apply forallb_forall. intros c Hin. rewrite Forall_forall in IH. apply (IH c Hin).
Qed.

Lemma inert_wrap_ok u ia n : inert_ok u ia false (inert_wrap n) = true.
Proof.
  unfold inert_wrap. cbn [inert_ok]. rewrite template_not_active, andb_false_r. cbn [negb orb andb forallb].
  replace (is_inert_template (s2l "template") [(s2l "class", s2l "wm-diff-deleted-inert")]) with true by reflexivity.
  cbn [negb andb]. rewrite orb_true_r, andb_true_r. apply inert_ok_below_inert.
Qed.

(* what is left of a tree once its deleted scripts/styles are taken out has none *)
Lemma strip_inert n : forall u ia f, forallb (inert_ok u ia f) (strip_deleted_actives u n) = true.
Proof.
  induction n as [s|name a v cs IH] using snode_ind'; intros u ia f; [reflexivity|].
  cbn [strip_deleted_actives]. destruct (u && is_active name) eqn:E; [reflexivity|].
  cbn [forallb inert_ok]. rewrite E. cbn [negb orb andb]. rewrite andb_true_r.
  unfold is_del. apply forallb_flat_map. intros c Hin. rewrite Forall_forall in IH. apply (IH c Hin).
Qed.

Theorem deactivate_inert n : forall u ia, forallb (inert_ok u ia false) (deactivate u n) = true.
Proof.
  induction n as [s|name a v cs IH] using snode_ind'; intros u ia; [reflexivity|].
  cbn [deactivate]. destruct (is_foreign name) eqn:F.
  - rewrite forallb_app. rewrite strip_inert. cbn [andb].
    apply forallb_forall. intros x Hx. apply in_map_iff in Hx as [y [<- _]]. apply inert_wrap_ok.
  - assert (Hkids : forall ia', forallb (inert_ok (u || str_eqb name (s2l "del")) ia' false)
                            (flat_map (deactivate (u || is_del name)) cs) = true).
    { intros ia'. unfold is_del. apply forallb_flat_map. intros c Hin. rewrite Forall_forall in IH. apply (IH c Hin). }
    destruct (u && is_active name) eqn:E; cbn [forallb]; rewrite andb_true_r; [apply inert_wrap_ok|].
    cbn [inert_ok]. rewrite E, F. cbn [negb orb andb]. apply Hkids.
Qed.

(* the deleted scripts/styles of a graphic are moved, not dropped: each one is in the result, wrapped, in document order *)
Lemma deactivate_foreign_keeps_actives name a v cs u : is_foreign name = true ->
  exists rest, deactivate u (SEl name a v cs) = rest ++ map inert_wrap (deleted_actives u (SEl name a v cs)).
Proof. intros F. cbn [deactivate]. rewrite F. eexists. reflexivity. Qed.

(* in the combined view every script/style below a deletion marker sits in an inert template *)
Theorem combined_view_inert old new ops ic dc body :
  let v := view_doc KCombined old new ops ic dc body in
  forallb (inert_ok false false false) (d_body v) = true /\ forallb (inert_ok false false false) (d_head v) = true.
Proof.
  cbn [view_doc d_body d_head]. split; apply forallb_flat_map; intros x _; apply deactivate_inert.
Qed.

(* ------------------------------------------------------------------ the title diff reads back into both titles *)
Fixpoint span_to_lt (s : str) : str * str :=
  match s with
  | [] => ([], [])
  | c :: r => if N.eqb c 60 then ([], s) else let (a, b) := span_to_lt r in (c :: a, b)
  end.

(* reading the marked-up title: text counts for both titles, <del class="wm-diff">..</del> only for
   the old one, <ins class="wm-diff">..</ins> only for the new one; anything else is an error *)
Fixpoint unmark (fuel : nat) (s : str) : option (str * str) :=
  match fuel with
  | O => match s with [] => Some ([], []) | _ => None end
  | S f =>
      match s with
      | [] => Some ([], [])
      | c :: r =>
          match drop_prefix del_open s with
          | Some r1 =>
              let (t, r2) := span_to_lt r1 in
              match drop_prefix del_close r2 with
              | Some r3 => option_map (fun p => (t ++ fst p, snd p)) (unmark f r3)
              | None => None
              end
          | None =>
              match drop_prefix ins_open s with
              | Some r1 =>
                  let (t, r2) := span_to_lt r1 in
                  match drop_prefix ins_close r2 with
                  | Some r3 => option_map (fun p => (fst p, t ++ snd p)) (unmark f r3)
                  | None => None
                  end
              | None => if N.eqb c 60 then None else option_map (fun p => (c :: fst p, c :: snd p)) (unmark f r)
              end
          end
      end
  end.

Definition old_title_of (ops : list (Z * str)) : str := List.concat (map snd (filter (fun op => negb (Z.eqb (fst op) 1)) ops)).
Definition new_title_of (ops : list (Z * str)) : str := List.concat (map snd (filter (fun op => negb (Z.eqb (fst op) (-1))) ops)).

Lemma drop_prefix_app' p : forall r, drop_prefix p (p ++ r) = Some r.
Proof. induction p as [|x p IH]; intros r; cbn [drop_prefix app]; [reflexivity|]. rewrite N.eqb_refl. apply IH. Qed.

Lemma span_to_lt_app v rest : ~ In 60 v -> (rest = [] \/ exists r, rest = 60 :: r) -> span_to_lt (v ++ rest) = (v, rest).
Proof.
  induction v as [|c v IH]; intros Hv Hr; cbn [app span_to_lt].
  - destruct Hr as [->|[r ->]]; [reflexivity|]. cbn [span_to_lt]. rewrite N.eqb_refl. reflexivity.
  - destruct (N.eqb_spec c 60) as [->|Hne]; [exfalso; apply Hv; left; reflexivity|].
    rewrite IH; [reflexivity| |exact Hr]. intros H. apply Hv. right. exact H.
Qed.

(* plain (escaped) text in front of anything *)
Lemma unmark_text v : forall fuel rest, ~ In 60 v -> (List.length v + List.length rest <= fuel)%nat ->
  unmark fuel (v ++ rest) = option_map (fun p => (v ++ fst p, v ++ snd p)) (unmark (fuel - List.length v) rest).
Proof.
  induction v as [|c v IH]; intros fuel rest Hv Hf.
  - cbn [app List.length]. rewrite Nat.sub_0_r. destruct (unmark fuel rest) as [[a b]|]; reflexivity.
  - cbn [List.length] in Hf. destruct fuel as [|fuel]; [lia|].
    assert (Hc : N.eqb c 60 = false) by (apply N.eqb_neq; intros ->; apply Hv; left; reflexivity).
    cbn [app]. cbn [unmark].
    assert (D1 : drop_prefix del_open (c :: v ++ rest) = None).
    { change del_open with (60 :: s2l "del class=""wm-diff"">"). cbn [drop_prefix]. rewrite N.eqb_sym, Hc. reflexivity. }
    assert (D2 : drop_prefix ins_open (c :: v ++ rest) = None).
    { change ins_open with (60 :: s2l "ins class=""wm-diff"">"). cbn [drop_prefix]. rewrite N.eqb_sym, Hc. reflexivity. }
    rewrite D1, D2, Hc. rewrite IH; [|intros H; apply Hv; right; exact H|lia].
    cbn [List.length Nat.sub]. destruct (unmark (fuel - List.length v) rest) as [[a b]|]; reflexivity.
Qed.

Lemma html_escape_app' q a b : html_escape q (a ++ b) = html_escape q a ++ html_escape q b.
Proof. unfold html_escape. apply flat_map_app. Qed.

Lemma escape_true_no_lt s : ~ In 60 (html_escape true s).
Proof. exact (proj1 (escape_no_angle true s)). Qed.

Lemma markup_starts ops : title_markup ops = [] \/ (exists r, title_markup ops = 60 :: r) \/
                          (exists c r, title_markup ops = c :: r /\ c <> 60).
Proof.
  destruct (title_markup ops) as [|c r]; [left; reflexivity|right].
  destruct (N.eq_dec c 60) as [->|Hne]; [left; exists r; reflexivity|right; exists c, r; split; [reflexivity|exact Hne]].
Qed.

Theorem unmark_title_markup ops : forall fuel, (List.length (title_markup ops) <= fuel)%nat ->
  unmark fuel (title_markup ops) = Some (html_escape true (old_title_of ops), html_escape true (new_title_of ops)).
Proof.
  induction ops as [|[c t] ops IH]; intros fuel Hf.
  - destruct fuel; reflexivity.
  - unfold title_markup in *. cbn [flat_map] in *. fold (title_markup ops) in *.
    unfold old_title_of, new_title_of. cbn [filter fst snd]. unfold op_html at 1. cbn [fst snd].
    unfold op_html at 1 in Hf. cbn [fst snd] in Hf.
    set (v := html_escape true t) in *.
    assert (Hv : ~ In 60 v) by apply escape_true_no_lt.
    destruct (Z.eqb_spec c (-1)) as [->|N1].
    + (* deleted segment *)
      change (negb (Z.eqb (-1) 1)) with true. change (negb (Z.eqb (-1) (-1))) with false. cbv iota.
      cbn [map List.concat]. fold (old_title_of ops). fold (new_title_of ops).
      rewrite !app_length in Hf. rewrite <- !app_assoc.
      destruct fuel as [|fuel]; [cbn in Hf; lia|].
      change (del_open ++ v ++ del_close ++ title_markup ops) with ((60 :: s2l "del class=""wm-diff"">") ++ v ++ del_close ++ title_markup ops).
      cbn [app]. cbn [unmark].
      change (60 :: s2l "del class=""wm-diff"">" ++ v ++ del_close ++ title_markup ops) with (del_open ++ v ++ del_close ++ title_markup ops).
      rewrite drop_prefix_app'.
      rewrite (span_to_lt_app v (del_close ++ title_markup ops) Hv) by (right; eexists; reflexivity).
      rewrite drop_prefix_app'. rewrite IH by (cbn in Hf; lia). cbn [option_map fst snd].
      rewrite html_escape_app'. reflexivity.
    + destruct (Z.eqb_spec c 1) as [->|N2].
      * cbn [negb Z.eqb Pos.eqb]. cbv iota.
        cbn [map List.concat]. fold (old_title_of ops). fold (new_title_of ops).
        rewrite !app_length in Hf. rewrite <- !app_assoc.
        destruct fuel as [|fuel]; [cbn in Hf; lia|].
        change (ins_open ++ v ++ ins_close ++ title_markup ops) with ((60 :: s2l "ins class=""wm-diff"">") ++ v ++ ins_close ++ title_markup ops).
        cbn [app]. cbn [unmark].
        change (60 :: s2l "ins class=""wm-diff"">" ++ v ++ ins_close ++ title_markup ops) with (ins_open ++ v ++ ins_close ++ title_markup ops).
        assert (D1 : drop_prefix del_open (ins_open ++ v ++ ins_close ++ title_markup ops) = None) by reflexivity.
        rewrite D1. rewrite drop_prefix_app'.
        rewrite (span_to_lt_app v (ins_close ++ title_markup ops) Hv) by (right; eexists; reflexivity).
        rewrite drop_prefix_app'. rewrite IH by (cbn in Hf; lia). cbn [option_map fst snd].
        rewrite html_escape_app'. reflexivity.
      * (* unchanged segment: plain text for both *)
        cbn [negb]. cbv iota.
        cbn [map List.concat]. fold (old_title_of ops). fold (new_title_of ops).
        rewrite app_length in Hf.
        rewrite (unmark_text v fuel (title_markup ops) Hv Hf).
        rewrite IH by lia. cbn [option_map fst snd]. rewrite !html_escape_app'. reflexivity.
Qed.

(* ------------------------------------------------------------------ the diffable fragment *)
Fixpoint has_insdel (n : snode) : bool :=
  match n with
  | SText _ => false
  | SEl name _ _ cs => is_insdel name || existsb has_insdel cs
  end.

(* after unwrapping no <ins>/<del> of the source page is left, at any depth *)
Theorem unwrap_removes_insdel n : forallb (fun m => negb (has_insdel m)) (unwrap_insdel n) = true.
Proof.
  induction n as [s|name a v cs IH] using snode_ind'; [reflexivity|]. cbn [unwrap_insdel].
  assert (Hcs : forallb (fun m => negb (has_insdel m)) (flat_map unwrap_insdel cs) = true).
  { induction cs as [|c cs IHcs]; [reflexivity|]. inversion IH as [|? ? Hc Hcs]; subst. cbn [flat_map].
    rewrite forallb_app, Hc. cbn [andb]. apply IHcs, Hcs. }
  destruct (is_insdel name) eqn:E; [exact Hcs|]. cbn [forallb has_insdel]. rewrite E. cbn [orb].
  rewrite andb_true_r. apply negb_true_iff.
  destruct (existsb has_insdel (flat_map unwrap_insdel cs)) eqn:X; [|reflexivity].
  apply existsb_exists in X as [m [Hin Hm]]. rewrite forallb_forall in Hcs. specialize (Hcs m Hin). rewrite Hm in Hcs. discriminate Hcs.
Qed.

(* unwrapping keeps every text node, in order *)
Fixpoint texts (n : snode) : list str :=
  match n with SText s => [s] | SEl _ _ _ cs => flat_map texts cs end.

Theorem unwrap_keeps_texts n : flat_map texts (unwrap_insdel n) = texts n.
Proof.
  induction n as [s|name a v cs IH] using snode_ind'; [reflexivity|]. cbn [unwrap_insdel texts].
  assert (Hcs : flat_map texts (flat_map unwrap_insdel cs) = flat_map texts cs).
  { induction cs as [|c cs IHcs]; [reflexivity|]. inversion IH as [|? ? Hc Hcs]; subst. cbn [flat_map].
    rewrite flat_map_app, Hc, (IHcs Hcs). reflexivity. }
  destruct (is_insdel name); [exact Hcs|]. cbn [flat_map texts]. rewrite app_nil_r. exact Hcs.
Qed.

(* a text node that sits directly in <body> reaches the tokeniser escaped: it cannot open a tag *)
Theorem fragment_body_text_escaped s rest :
  diffable_fragment (SText s :: rest) = html_escape false s ++ diffable_fragment rest /\
  ~ In 60%N (html_escape false s).
Proof. split; [reflexivity|exact (proj1 (escape_no_angle false s))]. Qed.

(* ------------------------------------------------------------------ the page's title (get_title) *)
Lemma first_title_foreign name a v cs : holds_no_page_title name = true -> first_title (SEl name a v cs) = None.
Proof. intros F. cbn [first_title]. rewrite F. reflexivity. Qed.

(* a graphic contributes no title, whatever it contains *)
Lemma first_title_in_skips_graphic name a v cs rest : holds_no_page_title name = true ->
  first_title_in (SEl name a v cs :: rest) = first_title_in rest.
Proof. intros F. cbn [first_title_in]. rewrite (first_title_foreign _ a v cs F). reflexivity. Qed.

Lemma first_title_of_title a v t : first_title (SEl (s2l "title") a v [SText t]) = Some t.
Proof. reflexivity. Qed.
Lemma first_title_of_empty_title a v : first_title (SEl (s2l "title") a v []) = Some [].
Proof. reflexivity. Qed.

Lemma first_title_in_app l1 l2 :
  first_title_in (l1 ++ l2) = match first_title_in l1 with Some t => Some t | None => first_title_in l2 end.
Proof.
  induction l1 as [|c r IH]; [reflexivity|]. cbn [app first_title_in]. destruct (first_title c); [reflexivity|exact IH].
Qed.

(* the head's title wins over anything in the body; without one in the head the body's first title outside graphics counts *)
Theorem doc_title_head_first d t : first_title_in (d_head d) = Some t -> doc_title d = t.
Proof. intros H. unfold doc_title. rewrite first_title_in_app, H. reflexivity. Qed.
Theorem doc_title_body_graphics_ignored d name a v cs rest :
  first_title_in (d_head d) = None -> d_body d = SEl name a v cs :: rest -> holds_no_page_title name = true ->
  doc_title d = match first_title_in rest with Some t => t | None => [] end.
Proof.
  intros H B F. unfold doc_title. rewrite first_title_in_app, H, B, (first_title_in_skips_graphic _ a v cs rest F). reflexivity.
Qed.
Example doc_title_example :
  doc_title {| d_doctype := None; d_html_attrs := []; d_head_attrs := []; d_head := [];
               d_body_attrs := [];
               d_body := [SEl (s2l "svg") [] false [SEl (s2l "title") [] false [SText (s2l "Icon")]]; SText (s2l "hi")] |} = [].
Proof. reflexivity. Qed.

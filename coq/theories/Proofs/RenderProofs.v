(* Composition of the render lemmas into statements about _htmldiff's pipeline
   (prepare -> opcodes -> assemble), for every pair of trees, every URL rule set and every cap. *)
From Coq Require Import List NArith Arith Bool String Lia.
From WMD Require Import Gen.Tables Lib.Str Lib.PyChars Lib.Escape Lib.Difflib Model.RenderTokens Model.RenderMerge Model.RenderLabelled
     Proofs.DifflibProofs Proofs.MergeProofs Proofs.TokenProofs Proofs.AssembleProofs.
Import ListNotations.
Open Scope N_scope.

(* ------------------------------------------------------------------ link-target tokens render as a blank *)
Definition href_shape (t : token) : Prop :=
  match t_kind t with KHref => t_html t = [] /\ t_trail t = [32] | _ => True end.

Lemma href_shape_hidden t : href_shape t -> hidden_blank t.
Proof.
  unfold href_shape, hidden_blank, hide_when_equal. destruct (t_kind t); try discriminate.
  intros [-> ->] _. reflexivity.
Qed.

Lemma href_shape_set_pre t p : href_shape t -> href_shape (set_pre t p).
Proof. exact (fun H => H). Qed.
Lemma href_shape_set_post t p : href_shape t -> href_shape (set_post t p).
Proof. exact (fun H => H). Qed.

Lemma fixup_aux_shape : forall cs acc res, Forall href_shape res -> Forall href_shape (fixup_aux cs acc res).
Proof.
  induction cs as [|c cs IH]; intros acc res H; cbn [fixup_aux].
  - destruct res as [|last rest]; [repeat constructor|].
    inversion H; subst. apply Forall_rev. constructor; assumption.
  - destruct c as [srcs html|s|s|s|w|h].
    + destruct (split_trailing_ws html). apply IH. constructor; [exact I|exact H].
    + apply IH. constructor; [exact I|exact H].
    + apply IH, H.
    + destruct acc; [|apply IH, H]. destruct res as [|last rest]; [apply IH, H|].
      inversion H; subst. apply IH. constructor; assumption.
    + destruct (split_trailing_ws w). apply IH. constructor; [exact I|exact H].
    + apply IH. constructor; [split; reflexivity|exact H].
Qed.

Lemma rebalance_pair_shape p t : href_shape p -> href_shape t ->
  let (p', t') := rebalance_pair p t in href_shape p' /\ href_shape t'.
Proof.
  intros Hp Ht. unfold rebalance_pair. destruct (span_closing (t_post p)) as [closing rest]. destruct rest.
  - destruct (span_closing (t_pre t)). split; assumption.
  - split; assumption.
Qed.

Lemma rebalance_tokens_shape rest : forall p, Forall href_shape (p :: rest) -> Forall href_shape (rebalance_tokens p rest).
Proof.
  induction rest as [|t rest IH]; intros p H; cbn [rebalance_tokens]; [exact H|].
  inversion H as [|? ? Hp Hr]; subst. inversion Hr as [|? ? Ht Hrest]; subst.
  pose proof (rebalance_pair_shape p t Hp Ht) as K. destruct (rebalance_pair p t) as [p' t'].
  destruct K as [K1 K2]. constructor; [exact K1|]. apply IH. constructor; assumption.
Qed.

Lemma spacers_shape (l : list token) : Forall (fun t => t_kind t = KSpacer) l -> Forall href_shape l.
Proof. intros H. eapply Forall_impl; [|exact H]. intros t Ht. unfold href_shape. rewrite Ht. exact I. Qed.

Lemma split_pre_kinds fuel : forall pre from, Forall (fun t => t_kind t = KSpacer) (fst (split_pre fuel pre from)).
Proof.
  induction fuel as [|fuel IH]; intros pre from; cbn [split_pre]; [constructor|].
  destruct (find_sep pre 0 from) as [t|]; [|constructor].
  destruct (Nat.ltb 1 (List.length (skipn t pre))).
  - specialize (IH (skipn t pre) 1%nat). destruct (split_pre fuel (skipn t pre) 1) as [more final]. cbn [fst] in *.
    repeat constructor. exact IH.
  - repeat constructor.
Qed.

Lemma pre_split_kinds tok :
  Forall (fun t => t_kind t = KSpacer)
         (fst (match t_pre tok with [] => ([], []) | p => split_pre (S (List.length p)) p 0 end)).
Proof. destruct (t_pre tok); [constructor|apply split_pre_kinds]. Qed.

Lemma customize_one_shape all i tok : href_shape tok -> Forall href_shape (customize_one all i tok).
Proof.
  intros H. unfold customize_one.
  pose proof (pre_split_kinds tok) as K1.
  destruct (match t_pre tok with [] => ([], []) | p => split_pre (S (List.length p)) p 0 end) as [sp1 pre1]. cbn [fst] in K1.
  destruct (find_empty_link pre1 0) as [k|]; destruct (find_sep_post _ 0) as [k2|];
    (apply Forall_app; split; [apply spacers_shape, K1|]);
    (apply Forall_app; split; [repeat constructor|]);
    (apply Forall_app; split; [repeat constructor; exact H|]); repeat constructor.
Qed.

Lemma customize_all_shape all : forall l i, Forall href_shape l -> Forall href_shape (customize_all all i l).
Proof.
  induction l as [|t l IH]; intros i H; cbn [customize_all]; [constructor|].
  inversion H; subst. apply Forall_app. split; [apply customize_one_shape; assumption|apply IH; assumption].
Qed.

Lemma limit_aux_shape : forall l budget dropped res,
  Forall href_shape l -> Forall href_shape res -> Forall href_shape (limit_aux l budget dropped res).
Proof.
  induction l as [|t l IH]; intros budget dropped res Hl Hres; cbn [limit_aux].
  - destruct dropped; [apply Forall_rev, Hres|]. destruct res as [|last rest]; [repeat constructor|].
    inversion Hres; subst. apply Forall_rev. constructor; assumption.
  - inversion Hl; subst. destruct (is_spacer t && N.eqb budget 0); [apply IH; assumption|].
    apply IH; [assumption|]. constructor; [|exact Hres]. destruct dropped; assumption.
Qed.

Theorem prepare_shape root cap : Forall href_shape (prepare root cap).
Proof.
  unfold prepare, limit_spacers, tokenize. apply limit_aux_shape; [|constructor].
  unfold customize_tokens. destruct (fixup_chunks (flatten_root root)) as [|t rest] eqn:E; [constructor|].
  apply customize_all_shape, rebalance_tokens_shape. rewrite <- E. apply fixup_aux_shape. constructor.
Qed.

Lemma prepare_hidden root cap : Forall hidden_blank (prepare root cap).
Proof. eapply Forall_impl; [|apply prepare_shape]. apply href_shape_hidden. Qed.

(* ------------------------------------------------------------------ the single-sided views of two pages *)
Definition side_root (new_side : bool) (old_root new_root : el) : el := if new_side then new_root else old_root.

Theorem single_sided_view_is_page_plus_markers old_root new_root rules cap new_side :
  let old := prepare old_root cap in
  let new := prepare new_root cap in
  let ops := token_opcodes rules old new in
  let v := view_l new_side old new ops in
  assemble_diff (side_mode new_side) old new ops = map (render_o (side_tag new_side)) v /\
  scan false v = Some false /\
  nb (srcs v) = nb (map chunk_str (flatten_root (side_root new_side old_root new_root))).
Proof.
  cbv zeta. split; [apply single_sided_refines|]. split; [apply view_no_block_in_marker|].
  rewrite single_sided_conserves; try apply prepare_hidden.
  2: { unfold token_opcodes. apply insensitive_opcodes_chain. }
  assert (E : forall root, nb (expand_tokens false (prepare root cap)) = nb (map chunk_str (flatten_root root))).
  { intros root. change (expand_tokens false (prepare root cap)) with (flat (prepare root cap)).
    rewrite <- (nb_ne (flat _)). change (ne (flat (prepare root cap))) with (flat_ne (prepare root cap)).
    rewrite prepare_conserves. apply nb_ne. }
  destruct new_side; apply E.
Qed.

(* the view does not depend on which other views are requested: the model renders each view by
   the same function of the same arguments (assemble_diff mode old new ops) *)

(* ------------------------------------------------------------------ a page against itself *)
Lemma token_same_key_refl t : token_same_key t t = true.
Proof.
  unfold token_same_key. destruct (t_kind t) as [| |srcs| |]; try apply str_eqb_refl.
  induction srcs as [|s l IH]; [reflexivity|]. cbn [list_str_eqb]. rewrite str_eqb_refl. exact IH.
Qed.

Lemma fixup_aux_nonempty : forall cs acc res, fixup_aux cs acc res <> [].
Proof.
  induction cs as [|c cs IH]; intros acc res; cbn [fixup_aux].
  - destruct res as [|last rest]; [discriminate|]. cbn [rev]. intros H. apply app_eq_nil in H as [_ H]. discriminate.
  - destruct c as [srcs html|s|s|s|w|h].
    + destruct (split_trailing_ws html). apply IH.
    + apply IH.
    + apply IH.
    + destruct acc; [|apply IH]. destruct res; apply IH.
    + destruct (split_trailing_ws w). apply IH.
    + apply IH.
Qed.

Lemma customize_one_nonempty all i tok : customize_one all i tok <> [].
Proof.
  unfold customize_one.
  destruct (match t_pre tok with [] => ([], []) | p => split_pre (S (List.length p)) p 0 end) as [sp1 pre1].
  destruct (find_empty_link pre1 0); destruct (find_sep_post _ 0); intros H;
    apply app_eq_nil in H as [_ H]; apply app_eq_nil in H as [_ H]; discriminate.
Qed.

Lemma customize_one_keeps all i tok :
  exists t', In t' (customize_one all i tok) /\ is_spacer t' = is_spacer tok.
Proof.
  unfold customize_one.
  destruct (match t_pre tok with [] => ([], []) | p => split_pre (S (List.length p)) p 0 end) as [sp1 pre1].
  destruct (find_empty_link pre1 0); destruct (find_sep_post _ 0);
    eexists; (split; [apply in_or_app; right; apply in_or_app; right; apply in_or_app; left; left; reflexivity|reflexivity]).
Qed.

Lemma limit_keeps_nonspacer : forall l budget dropped res,
  (res <> [] \/ exists t, In t l /\ is_spacer t = false) -> limit_aux l budget dropped res <> [].
Proof.
  induction l as [|t l IH]; intros budget dropped res H; cbn [limit_aux].
  - destruct H as [H|[t [[] _]]]. destruct dropped.
    + intros E. apply H. apply (f_equal (@rev token)) in E. rewrite rev_involutive in E. exact E.
    + destruct res as [|last rest]; [congruence|]. cbn [rev]. intros E. apply app_eq_nil in E as [_ E]. discriminate.
  - destruct (is_spacer t && N.eqb budget 0) eqn:E.
    + apply IH. destruct H as [H|[t0 [[<-|Hin] Hs]]]; [left; exact H| |right; exists t0; split; assumption].
      apply andb_true_iff in E as [E _]. congruence.
    + apply IH. left. discriminate.
Qed.

Theorem prepare_nonempty root cap : prepare root cap <> [].
Proof.
  unfold prepare, limit_spacers, tokenize, customize_tokens.
  pose proof (fixup_aux_nonempty (flatten_root root) [] []) as Hf. fold (fixup_chunks (flatten_root root)) in Hf.
  destruct (fixup_chunks (flatten_root root)) as [|t rest] eqn:E; [congruence|].
  apply limit_keeps_nonspacer. right.
  (* the customized image of the first token is a non-spacer token *)
  pose proof (fixup_aux_no_spacers (flatten_root root) [] [] (Forall_nil _)) as Hns. fold (fixup_chunks (flatten_root root)) in Hns.
  rewrite E in Hns.
  set (l := rebalance_tokens t rest).
  assert (Hl : exists t0 l0, l = t0 :: l0 /\ is_spacer t0 = false).
  { unfold l. destruct rest as [|t2 rest']; cbn [rebalance_tokens].
    - exists t, []. split; [reflexivity|]. inversion Hns; assumption.
    - pose proof (rebalance_pair_kinds t t2) as K. destruct (rebalance_pair t t2) as [p' t'].
      destruct K as [(K1 & _) _]. eexists _, _. split; [reflexivity|]. rewrite K1. inversion Hns; assumption. }
  destruct Hl as (t0 & l0 & -> & Hs0). cbn [customize_all].
  destruct (customize_one_keeps (t0 :: l0) 0%nat t0) as [t' [Hin Hs']].
  exists t'. split; [apply in_or_app; left; exact Hin|congruence].
Qed.

Theorem identity_opcodes root rules cap :
  let t := prepare root cap in
  token_opcodes rules t t = [(Equal, (0, List.length t), (0, List.length t))]%nat.
Proof.
  cbv zeta. unfold token_opcodes.
  assert (Hn : (1 <= List.length (prepare root cap))%nat).
  { pose proof (prepare_nonempty root cap). destruct (prepare root cap); [congruence|cbn; lia]. }
  apply (opcodes_aligned token token_same_key (token_eq rules) dtoken (prepare root cap) (prepare root cap)
           (List.length (prepare root cap)) eq_refl eq_refl (fun i _ => token_same_key_refl _) Hn).
Qed.

(* a page diffed against itself: all counts are zero and the single-sided views are the page's
   own chunks without any marker *)
Theorem identity_no_changes root rules cap new_side :
  let t := prepare root cap in
  let ops := token_opcodes rules t t in
  count_changes ops = {| change_count := 0; deletions_count := 0; insertions_count := 0 |} /\
  view_l new_side t t ops = map OSrc (expand_tokens true t).
Proof.
  cbv zeta. rewrite identity_opcodes. split; [reflexivity|].
  unfold view_l. cbn [flat_map single_l]. rewrite app_nil_r.
  unfold slice_tokens. rewrite Nat.sub_0_r. cbn [skipn]. rewrite firstn_all. destruct new_side; reflexivity.
Qed.

(* counts are consistent: change = insertions + deletions, for every opcode list *)
Theorem counts_consistent ops :
  let c := count_changes ops in (change_count c = insertions_count c + deletions_count c)%nat.
Proof. cbv zeta. unfold count_changes. cbn. lia. Qed.

(* a single-sided view contains a marker only if its count is non-zero *)
Lemma no_changes_no_markers (new_side : bool) (old new : list token) (ops : list opcode) :
  (if new_side then insertions_count (count_changes ops) else deletions_count (count_changes ops)) = 0%nat ->
  Forall (fun o => match o with OOpen | OClose => False | _ => True end) (view_l new_side old new ops).
Proof.
  unfold count_changes, view_l. cbn [insertions_count deletions_count].
  induction ops as [|o ops IH]; intros H; cbn [flat_map]; [constructor|].
  destruct o as [[t [i1 i2]] [j1 j2]].
  assert (Hrest : (if new_side then (count_tag Insert ops + count_tag Replace ops)%nat
                   else (count_tag Delete ops + count_tag Replace ops)%nat) = 0%nat).
  { destruct new_side; unfold count_tag in *; cbn [filter op_tag fst] in H; destruct t; cbn [List.length] in H; lia. }
  apply Forall_app. split; [|apply IH, Hrest].
  unfold single_l. destruct t.
  - apply Forall_forall. intros x Hx. apply in_map_iff in Hx as [s [<- _]]. exact I.
  - exfalso. destruct new_side; unfold count_tag in H; cbn [filter op_tag fst List.length] in H; lia.
  - destruct new_side; cbn [does_insert does_delete]; [constructor|].
    exfalso. unfold count_tag in H; cbn [filter op_tag fst List.length] in H; lia.
  - destruct new_side; cbn [does_insert does_delete]; [|constructor].
    exfalso. unfold count_tag in H; cbn [filter op_tag fst List.length] in H; lia.
Qed.

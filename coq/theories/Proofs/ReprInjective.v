(* Python's repr of str and of dict[str,str] (as modelled in Model/Etag.v) is
   injective and self-delimiting: a decoder is defined and the round trip proved. *)
From Coq Require Import List NArith Bool Lia.
From WMD Require Import Lib.Str Lib.PyChars Model.Server Model.Etag.
Import ListNotations.
Open Scope N_scope.

(* ------------------------------------------------------------------ hex *)
Definition digit_val (d : N) : N := if N.ltb d 58 then d - 48 else d - 87.

Lemma digit_val_hex k : k < 16 -> digit_val (hex_digit k) = k.
Proof.
  intros Hk. unfold digit_val, hex_digit.
  destruct (N.ltb_spec k 10) as [H|H].
  - destruct (N.ltb_spec (48 + k) 58); lia.
  - destruct (N.ltb_spec (87 + k) 58); lia.
Qed.

Definition hexval (s : str) : N := fold_left (fun acc d => acc * 16 + digit_val d) s 0.

Lemma hex_fixed_length n c : List.length (hex_fixed n c) = n.
Proof.
  revert c. induction n as [|n IH]; intros c; cbn [hex_fixed]; [reflexivity|].
  rewrite app_length, IH. cbn. lia.
Qed.

Lemma fold_hex_fixed n : forall c acc,
  fold_left (fun acc d => acc * 16 + digit_val d) (hex_fixed n c) acc =
  acc * 16 ^ (N.of_nat n) + c mod 16 ^ (N.of_nat n).
Proof.
  induction n as [|n IH]; intros c acc.
  - cbn [hex_fixed fold_left]. change (N.of_nat 0) with 0. rewrite N.pow_0_r, N.mod_1_r. lia.
  - cbn [hex_fixed]. rewrite fold_left_app, IH. cbn [fold_left].
    rewrite digit_val_hex by (apply N.mod_lt; lia).
    rewrite Nat2N.inj_succ, N.pow_succ_r'.
    assert (Hp : 16 ^ N.of_nat n <> 0) by (apply N.pow_nonzero; lia).
    rewrite (N.mod_mul_r c 16 (16 ^ N.of_nat n)) by lia.
    lia.
Qed.

Lemma hexval_hex_fixed n c : c < 16 ^ (N.of_nat n) -> hexval (hex_fixed n c) = c.
Proof.
  intros H. unfold hexval. rewrite fold_hex_fixed. rewrite N.mod_small by exact H. lia.
Qed.

Lemma firstn_app_exact {A} (a b : list A) : firstn (List.length a) (a ++ b) = a.
Proof. induction a as [|x a IH]; cbn; [destruct b; reflexivity|rewrite IH; reflexivity]. Qed.

Lemma skipn_app_exact {A} (a b : list A) : skipn (List.length a) (a ++ b) = b.
Proof. induction a as [|x a IH]; cbn; [reflexivity|exact IH]. Qed.

Definition take_hex (n : nat) (s : str) : N * str := (hexval (firstn n s), skipn n s).

Lemma take_hex_fixed n c rest :
  c < 16 ^ (N.of_nat n) -> take_hex n (hex_fixed n c ++ rest) = (c, rest).
Proof.
  intros H. unfold take_hex.
  rewrite <- (hex_fixed_length n c) at 1 3.
  rewrite firstn_app_exact, skipn_app_exact, hexval_hex_fixed by exact H. reflexivity.
Qed.

(* ------------------------------------------------------------------ one character *)
Definition dec1 (q : N) (s : str) : option (N * str) :=
  match s with
  | [] => None
  | c :: r =>
      if N.eqb c bslash then
        match r with
        | [] => None
        | t :: r' =>
            if N.eqb t 116 then Some (9, r')
            else if N.eqb t 110 then Some (10, r')
            else if N.eqb t 114 then Some (13, r')
            else if N.eqb t 120 then Some (take_hex 2 r')
            else if N.eqb t 117 then Some (take_hex 4 r')
            else if N.eqb t 85 then Some (take_hex 8 r')
            else Some (t, r')
        end
      else if N.eqb c q then None
      else Some (c, r)
  end.

Definition valid_cp (c : N) : Prop := c < 1114112.

Lemma dec1_repr_char q c rest :
  q = q1 \/ q = q2 -> valid_cp c ->
  dec1 q (repr_char q c ++ rest) = Some (c, rest).
Proof.
  intros Hq Hv. unfold valid_cp in Hv. unfold repr_char.
  destruct (N.eqb c q || N.eqb c bslash) eqn:E1.
  { cbn [app dec1]. rewrite N.eqb_refl.
    apply orb_true_iff in E1 as [E|E]; apply N.eqb_eq in E; subst c.
    - destruct Hq as [->| ->]; reflexivity.
    - reflexivity. }
  apply orb_false_iff in E1 as [Eq Eb].
  destruct (N.eqb c 9) eqn:E9; [apply N.eqb_eq in E9; subst c; reflexivity|].
  destruct (N.eqb c 10) eqn:E10; [apply N.eqb_eq in E10; subst c; reflexivity|].
  destruct (N.eqb c 13) eqn:E13; [apply N.eqb_eq in E13; subst c; reflexivity|].
  destruct (N.ltb c 32 || N.eqb c 127) eqn:Ec.
  { cbn [app dec1]. rewrite N.eqb_refl. cbn [N.eqb bslash].
    change (N.eqb 120 116) with false. change (N.eqb 120 110) with false. change (N.eqb 120 114) with false.
    change (N.eqb 120 120) with true. cbv iota.
    rewrite take_hex_fixed; [reflexivity|].
    apply orb_true_iff in Ec as [E|E]; [apply N.ltb_lt in E|apply N.eqb_eq in E]; cbn; lia. }
  destruct (N.ltb c 127) eqn:E127.
  { cbn [app dec1]. rewrite Eb, Eq. reflexivity. }
  destruct (py_isprintable c) eqn:Ep.
  { cbn [app dec1]. rewrite Eb, Eq. reflexivity. }
  destruct (N.leb c 255) eqn:E255.
  { cbn [app dec1]. rewrite N.eqb_refl.
    change (N.eqb 120 116) with false. change (N.eqb 120 110) with false. change (N.eqb 120 114) with false.
    change (N.eqb 120 120) with true. cbv iota.
    rewrite take_hex_fixed; [reflexivity|]. apply N.leb_le in E255. cbn. lia. }
  destruct (N.leb c 65535) eqn:E65535.
  { cbn [app dec1]. rewrite N.eqb_refl.
    change (N.eqb 117 116) with false. change (N.eqb 117 110) with false. change (N.eqb 117 114) with false.
    change (N.eqb 117 120) with false. change (N.eqb 117 117) with true. cbv iota.
    rewrite take_hex_fixed; [reflexivity|]. apply N.leb_le in E65535. cbn. lia. }
  cbn [app dec1]. rewrite N.eqb_refl.
  change (N.eqb 85 116) with false. change (N.eqb 85 110) with false. change (N.eqb 85 114) with false.
  change (N.eqb 85 120) with false. change (N.eqb 85 117) with false. change (N.eqb 85 85) with true. cbv iota.
  rewrite take_hex_fixed; [reflexivity|]. cbn. lia.
Qed.

Lemma repr_char_nonempty q c : repr_char q c <> [].
Proof.
  unfold repr_char.
  repeat match goal with |- context [if ?b then _ else _] => destruct b end; discriminate.
Qed.

(* ------------------------------------------------------------------ a quoted string *)
(* decode characters until the bare closing quote *)
Fixpoint dec_body (fuel : nat) (q : N) (s : str) : option (str * str) :=
  match fuel with
  | O => None
  | S fuel' =>
      match s with
      | [] => None
      | c :: r =>
          if N.eqb c q then Some ([], r)
          else match dec1 q s with
               | Some (x, r') => match dec_body fuel' q r' with
                                 | Some (xs, rest) => Some (x :: xs, rest)
                                 | None => None
                                 end
               | None => None
               end
      end
  end.

Definition enc_body (q : N) (s : str) : str := flat_map (repr_char q) s.

Lemma repr_char_head_not_quote q c rest :
  q = q1 \/ q = q2 -> valid_cp c ->
  match repr_char q c ++ rest with
  | [] => False
  | h :: _ => N.eqb h q = false
  end.
Proof.
  intros Hq Hv.
  pose proof (dec1_repr_char q c rest Hq Hv) as Hd.
  destruct (repr_char q c ++ rest) as [|h t] eqn:E; [discriminate|].
  cbn [dec1] in Hd. destruct (N.eqb h bslash) eqn:Eb.
  - apply N.eqb_eq in Eb. subst h. destruct Hq as [->| ->]; reflexivity.
  - destruct (N.eqb h q); [discriminate|reflexivity].
Qed.

Lemma dec_body_enc q s rest : forall fuel,
  q = q1 \/ q = q2 -> Forall valid_cp s -> (List.length s < fuel)%nat ->
  dec_body fuel q (enc_body q s ++ q :: rest) = Some (s, rest).
Proof.
  induction s as [|c s IH]; intros fuel Hq Hv Hf.
  - destruct fuel; [inversion Hf|]. cbn [enc_body flat_map app dec_body]. rewrite N.eqb_refl. reflexivity.
  - destruct fuel; [inversion Hf|]. inversion Hv as [|? ? Hc Hs]; subst.
    cbn [enc_body flat_map]. rewrite <- app_assoc.
    pose proof (repr_char_head_not_quote q c (flat_map (repr_char q) s ++ q :: rest) Hq Hc) as Hh.
    pose proof (dec1_repr_char q c (flat_map (repr_char q) s ++ q :: rest) Hq Hc) as Hd.
    destruct (repr_char q c ++ flat_map (repr_char q) s ++ q :: rest) as [|h t] eqn:E; [destruct Hh|].
    cbn [dec_body]. rewrite Hh, Hd.
    fold (enc_body q s). rewrite IH; [reflexivity|exact Hq|exact Hs|]. cbn in Hf. lia.
Qed.

Lemma enc_body_length q s : (List.length s <= List.length (enc_body q s))%nat.
Proof.
  induction s as [|c s IH]; cbn [enc_body flat_map List.length]; [lia|].
  rewrite app_length. fold (enc_body q s).
  pose proof (repr_char_nonempty q c). destruct (repr_char q c); [congruence|]. cbn. lia.
Qed.

Definition dec_str (s : str) : option (str * str) :=
  match s with
  | [] => None
  | q :: r => dec_body (List.length r) q r
  end.

Lemma repr_quote_cases s : repr_quote s = q1 \/ repr_quote s = q2.
Proof. unfold repr_quote. destruct (mem_N q1 s && negb (mem_N q2 s)); auto. Qed.

Lemma dec_str_repr s rest :
  Forall valid_cp s -> dec_str (py_repr_str s ++ rest) = Some (s, rest).
Proof.
  intros Hv. unfold py_repr_str, dec_str. cbn [app].
  rewrite <- app_assoc. cbn [app].
  fold (enc_body (repr_quote s) s).
  apply dec_body_enc; [apply repr_quote_cases|exact Hv|].
  rewrite app_length. cbn [List.length]. pose proof (enc_body_length (repr_quote s) s). lia.
Qed.

Theorem py_repr_str_self_delimiting s s' r r' :
  Forall valid_cp s -> Forall valid_cp s' ->
  py_repr_str s ++ r = py_repr_str s' ++ r' -> s = s' /\ r = r'.
Proof.
  intros Hs Hs' H.
  pose proof (dec_str_repr s r Hs) as D1. pose proof (dec_str_repr s' r' Hs') as D2.
  rewrite H in D1. rewrite D1 in D2. injection D2 as -> ->. split; reflexivity.
Qed.

Lemma py_repr_str_head s rest :
  exists q t, py_repr_str s ++ rest = q :: t /\ (q = q1 \/ q = q2).
Proof.
  unfold py_repr_str. cbn [app]. eexists _, _. split; [reflexivity|apply repr_quote_cases].
Qed.

(* ------------------------------------------------------------------ dict items *)
Definition valid_dict (d : dict) : Prop :=
  Forall (fun kv => Forall valid_cp (fst kv) /\ Forall valid_cp (snd kv)) d.

Definition sep_items (t : dict) : str :=
  match t with
  | [] => []
  | _ => [44; 32] ++ repr_items t
  end.

Lemma repr_items_cons k v t :
  repr_items ((k, v) :: t) = py_repr_str k ++ [58; 32] ++ py_repr_str v ++ sep_items t.
Proof.
  destruct t as [|[k' v'] t]; cbn [repr_items sep_items].
  - rewrite app_nil_r. reflexivity.
  - reflexivity.
Qed.

Lemma items_head k v t rest :
  exists q tl, repr_items ((k, v) :: t) ++ rest = q :: tl /\ (q = q1 \/ q = q2).
Proof.
  rewrite repr_items_cons. unfold py_repr_str. cbn [app].
  eexists _, _. split; [reflexivity|apply repr_quote_cases].
Qed.

Lemma repr_items_injective d : forall d' r r',
  valid_dict d -> valid_dict d' ->
  repr_items d ++ 125 :: r = repr_items d' ++ 125 :: r' -> d = d' /\ r = r'.
Proof.
  induction d as [|[k v] t IH]; intros d' r r' Hd Hd' H.
  - destruct d' as [|[k' v'] t'].
    + cbn in H. injection H as ->. split; reflexivity.
    + exfalso. destruct (items_head k' v' t' (125 :: r')) as [q [tl [E Hq]]].
      rewrite E in H. cbn [repr_items app] in H. injection H as H _.
      destruct Hq as [->| ->]; discriminate.
  - destruct d' as [|[k' v'] t'].
    + exfalso. destruct (items_head k v t (125 :: r)) as [q [tl [E Hq]]].
      rewrite E in H. cbn [repr_items app] in H. injection H as H _.
      destruct Hq as [->| ->]; discriminate.
    + rewrite !repr_items_cons in H. rewrite <- !app_assoc in H.
      inversion Hd as [|? ? [Hk Hv] Ht]; subst. inversion Hd' as [|? ? [Hk' Hv'] Ht']; subst.
      cbn [fst snd] in *.
      apply py_repr_str_self_delimiting in H as [-> H]; [|assumption|assumption].
      apply app_inv_head in H.
      apply py_repr_str_self_delimiting in H as [-> H]; [|assumption|assumption].
      destruct t as [|kv1 t1]; destruct t' as [|kv1' t1'].
      * cbn [sep_items app] in H. injection H as ->. split; reflexivity.
      * cbn [sep_items app] in H. discriminate.
      * cbn [sep_items app] in H. discriminate.
      * unfold sep_items in H. rewrite <- !app_assoc in H. apply app_inv_head in H.
        destruct (IH (kv1' :: t1') r r' Ht Ht' H) as [E ->]. rewrite E. split; reflexivity.
Qed.

Theorem py_repr_dict_injective d d' :
  valid_dict d -> valid_dict d' -> py_repr_dict d = py_repr_dict d' -> d = d'.
Proof.
  intros Hd Hd' H. unfold py_repr_dict in H. injection H as H.
  replace (repr_items d ++ [125]) with (repr_items d ++ 125 :: []) in H by reflexivity.
  replace (repr_items d' ++ [125]) with (repr_items d' ++ 125 :: []) in H by reflexivity.
  exact (proj1 (repr_items_injective d d' [] [] Hd Hd' H)).
Qed.

(* ------------------------------------------------------------------ the validator's pre-image *)
From WMD Require Import Proofs.EtagProofs.

Lemma valid_dict_set k v d :
  Forall valid_cp k -> Forall valid_cp v -> valid_dict d -> valid_dict (dict_set k v d).
Proof.
  intros Hk Hv. induction d as [|[k0 v0] d IH]; intros Hd; cbn [dict_set].
  - constructor; [split; assumption|constructor].
  - inversion Hd as [|? ? Hkv Hd']; subst.
    destruct (str_eqb k k0).
    + constructor; [split; assumption|exact Hd'].
    + constructor; [exact Hkv|apply IH, Hd'].
Qed.

Lemma valid_decode_query_params raw : valid_dict raw -> valid_dict (decode_query_params raw).
Proof.
  unfold decode_query_params.
  assert (G : forall acc, valid_dict acc -> valid_dict raw ->
            valid_dict (fold_left (fun acc kv => dict_set (fst kv) (snd kv) acc) raw acc)).
  { induction raw as [|[k v] raw IH]; intros acc Ha Hr; cbn [fold_left]; [exact Ha|].
    inversion Hr as [|? ? [Hk Hv] Hr']; subst. apply IH; [|exact Hr'].
    apply valid_dict_set; assumption. }
  intros H. apply G; [constructor|exact H].
Qed.

(* Two requests with the same pre-image have the same path and the same effective
   parameter list (keys, values and order). *)
Theorem etag_preimage_injective version path path' raw raw' :
  ~ In 123 path -> ~ In 123 path' -> valid_dict raw -> valid_dict raw' ->
  etag_preimage version path raw = etag_preimage version path' raw' ->
  path = path' /\ decode_query_params raw = decode_query_params raw'.
Proof.
  intros Hp Hp' Hr Hr' H. unfold etag_preimage in H.
  destruct (preimage_split _ _ _ _ _ Hp Hp' H) as [-> Hd]. split; [reflexivity|].
  apply py_repr_dict_injective; [apply valid_decode_query_params, Hr|apply valid_decode_query_params, Hr'|exact Hd].
Qed.

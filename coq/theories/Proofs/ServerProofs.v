(* Lemmas about the request-handler model (properties C06, C08, C13, C18, C19). *)
From Coq Require Import List NArith Bool String Lia.
From WMD Require Import Gen.Tables Lib.Str Lib.PyChars Model.Server.
Import ListNotations.
Open Scope N_scope.

(* ------------------------------------------------------------------ dicts *)
Lemma dict_get_set k k' v d :
  dict_get k (dict_set k' v d) = if str_eqb k k' then Some v else dict_get k d.
Proof.
  induction d as [|[k0 v0] d IH]; cbn [dict_set dict_get].
  - destruct (str_eqb k k'); reflexivity.
  - destruct (str_eqb k' k0) eqn:E0; cbn [dict_get].
    + apply str_eqb_eq in E0. subst k0.
      destruct (str_eqb k k'); reflexivity.
    + destruct (str_eqb k k0) eqn:E1.
      * apply str_eqb_eq in E1. subst k0.
        destruct (str_eqb k k') eqn:E2; [|reflexivity].
        apply str_eqb_eq in E2. subst k'. rewrite str_eqb_refl in E0. discriminate.
      * exact IH.
Qed.

Lemma dict_get_remove k k' d :
  dict_get k (dict_remove k' d) = if str_eqb k k' then None else dict_get k d.
Proof.
  induction d as [|[k0 v0] d IH]; cbn [dict_remove dict_get].
  - destruct (str_eqb k k'); reflexivity.
  - destruct (str_eqb k' k0) eqn:E0.
    + apply str_eqb_eq in E0. subst k0. rewrite IH.
      destruct (str_eqb k k'); reflexivity.
    + cbn [dict_get]. destruct (str_eqb k k0) eqn:E1; [|exact IH].
      apply str_eqb_eq in E1. subst k0.
      destruct (str_eqb k k') eqn:E2; [|reflexivity].
      apply str_eqb_eq in E2. subst k'. rewrite str_eqb_refl in E0. discriminate.
Qed.

(* ------------------------------------------------------------------ C18: pass_headers *)
Definition listed (keys : str) (k : str) : Prop := In k (map py_strip (split_char 44 keys)).

Lemma upstream_fold_spec req_headers keys acc k :
  dict_get k (fold_left (fun acc key =>
                 let key := py_strip key in
                 match hdr_get key req_headers with
                 | Some ((_ :: _) as v) => dict_set key v acc
                 | _ => acc
                 end) keys acc) =
  if existsb (fun key => str_eqb k (py_strip key) && truthy (hdr_get (py_strip key) req_headers)) keys
  then hdr_get k req_headers
  else dict_get k acc.
Proof.
  revert acc. induction keys as [|key keys IH]; intros acc; cbn [fold_left existsb]; [reflexivity|].
  rewrite IH. cbv zeta.
  destruct (existsb _ keys) eqn:Ex.
  - rewrite orb_true_r. reflexivity.
  - rewrite orb_false_r.
    destruct (hdr_get (py_strip key) req_headers) as [[|c v]|] eqn:Eh; cbn [truthy].
    + rewrite andb_false_r. reflexivity.
    + rewrite andb_true_r, dict_get_set.
      destruct (str_eqb k (py_strip key)) eqn:Ek; [|reflexivity].
      apply str_eqb_eq in Ek. subst k. rewrite Eh. reflexivity.
    + rewrite andb_false_r. reflexivity.
Qed.

Lemma upstream_headers_spec q rh k v :
  dict_get k (upstream_headers q rh) = Some v <->
  exists keys, dict_get k_pass_headers q = Some keys /\ keys <> [] /\ listed keys k /\
               hdr_get k rh = Some v /\ v <> [].
Proof.
  unfold upstream_headers, listed.
  destruct (dict_get k_pass_headers q) as [[|c keys]|] eqn:Eq.
  - cbn [dict_get]. split; [discriminate|]. intros [keys [H [Hne _]]]. injection H as <-. congruence.
  - rewrite upstream_fold_spec. cbn [dict_get].
    set (ks := split_char 44 (c :: keys)).
    destruct (existsb _ ks) eqn:Ex.
    + apply existsb_exists in Ex as [key [Hin Hk]].
      apply andb_true_iff in Hk as [Hk Ht]. apply str_eqb_eq in Hk. subst k.
      split.
      * intros Hv. exists (c :: keys). repeat split; try congruence.
        -- apply in_map, Hin.
        -- rewrite Hv in Ht. destruct v; [discriminate|congruence].
      * intros [keys' [_ [_ [_ [Hv _]]]]]. exact Hv.
    + split; [discriminate|].
      intros [keys' [H [_ [Hl [Hv Hne]]]]]. injection H as <-.
      apply in_map_iff in Hl as [key [Hkey Hin]]. exfalso.
      assert (existsb (fun key0 => str_eqb k (py_strip key0) && truthy (hdr_get (py_strip key0) rh)) ks = true) as Hc.
      { apply existsb_exists. exists key. split; [exact Hin|].
        rewrite Hkey, str_eqb_refl, Hv. destruct v; [congruence|reflexivity]. }
      rewrite Hc in Ex. discriminate.
  - cbn [dict_get]. split; [discriminate|]. intros [keys [H _]]. discriminate.
Qed.

(* ------------------------------------------------------------------ C18: CORS *)
Lemma cors_spec conf rh o :
  cors_allow_origin conf rh = Some o <->
  exists c, conf = Some c /\ hdr_get k_origin rh = Some o /\ o <> [] /\
            (In o (map py_strip (split_char 44 c)) \/ In star (map py_strip (split_char 44 c))).
Proof.
  unfold cors_allow_origin.
  destruct conf as [c|]; [|split; [discriminate|intros [c [H _]]; discriminate]].
  destruct (hdr_get k_origin rh) as [[|x o']|] eqn:Eo.
  - split; [discriminate|]. intros [c' [_ [H [Hne _]]]]. injection H as <-. congruence.
  - remember (map py_strip (split_char 44 c)) as allowed eqn:Ea.
    destruct allowed as [|a0 al].
    + split; [discriminate|]. intros [c' [H [_ [_ Hin]]]]. injection H as <-. rewrite <- Ea in Hin. destruct Hin as [[]|[]].
    + destruct (mem_str (x :: o') (a0 :: al) || mem_str star (a0 :: al)) eqn:Em.
      * split.
        -- intros H. injection H as <-. exists c. rewrite <- Ea. repeat split; try congruence.
           apply orb_true_iff in Em as [Em|Em]; apply mem_str_In in Em; [left|right]; exact Em.
        -- intros [c' [H [Ho _]]]. congruence.
      * split; [discriminate|].
        intros [c' [H [Ho [_ Hin]]]]. injection H as <-. injection Ho as <-. rewrite <- Ea in Hin.
        apply orb_false_iff in Em as [E1 E2].
        destruct Hin as [Hin|Hin]; apply mem_str_In in Hin; congruence.
  - split; [discriminate|]. intros [c' [_ [H _]]]. discriminate.
Qed.

(* ------------------------------------------------------------------ fetch *)
Section Fetch.
  Variable production : bool.
  Variable upstream_of : str -> upstream.
  Variable file_of : str -> str.
  Variable file_headers_of : str -> dict.
  Variable sha256_hex : str -> str.

  Notation fetch := (fetch_diffable_content production upstream_of file_of file_headers_of sha256_hex).

  Definition is_http (u : str) : bool := starts_with http_prefix u || starts_with https_prefix u.

  Lemma file_not_http u : starts_with file_prefix u = true -> is_http u = false.
  Proof.
    intros H. apply starts_with_app in H as [r ->]. reflexivity.
  Qed.

  Lemma fetch_effects url h q rh eff res :
    fetch url h q rh = (eff, res) ->
    (eff = [] /\ (exists e, res = inr e) /\ (is_http url = false)) \/
    (eff = [EOpen (skipn 7 url)] /\ starts_with file_prefix url = true /\ production = false) \/
    (eff = [EFetch url (upstream_headers q rh)] /\ is_http url = true /\ starts_with file_prefix url = false).
  Proof.
    unfold fetch_diffable_content, is_http.
    destruct (starts_with file_prefix url) eqn:Ef.
    - pose proof (file_not_http url Ef) as Hn. unfold is_http in Hn.
      destruct production.
      + intros H. injection H as <- <-. left. repeat split; eauto.
      + intros H. injection H as <- <-. right. left. repeat split.
    - destruct (starts_with http_prefix url) eqn:E1; destruct (starts_with https_prefix url) eqn:E2; cbn [negb andb orb].
      all: try (intros H; right; right;
                destruct (upstream_of url) as [hh bb|code [[hh bb]|]| | | | |n];
                try destruct (hdr_get k_memento hh);
                injection H as <- <-; repeat split; reflexivity).
      intros H. injection H as <- <-. left. repeat split; eauto.
  Qed.

  (* a hash that was supplied and a successful fetch: the body has that hash *)
  Lemma check_hash_ok url r h r' :
    check_hash sha256_hex url r h = inl r' ->
    r' = r /\ (forall x, h = Some x -> sha256_hex (f_body r) = x).
  Proof.
    unfold check_hash. destruct h as [x|].
    - destruct (str_eqb (sha256_hex (f_body r)) x) eqn:E; [|discriminate].
      intros H. injection H as <-. split; [reflexivity|].
      intros y Hy. injection Hy as <-. apply str_eqb_eq, E.
    - intros H. injection H as <-. split; [reflexivity|]. intros x Hx. discriminate.
  Qed.

  Lemma check_hash_err url r h e :
    check_hash sha256_hex url r h = inr e ->
    e = E502HashMismatch /\ exists x, h = Some x /\ sha256_hex (f_body r) <> x.
  Proof.
    unfold check_hash. destruct h as [x|]; [|discriminate].
    destruct (str_eqb (sha256_hex (f_body r)) x) eqn:E; [discriminate|].
    intros H. injection H as <-. split; [reflexivity|]. exists x. split; [reflexivity|].
    intros Heq. apply str_eqb_eq in Heq. congruence.
  Qed.

  Lemma fetch_ok_hash url h q rh eff r :
    fetch url h q rh = (eff, inl r) ->
    forall x, h = Some x -> sha256_hex (f_body r) = x.
  Proof.
    unfold fetch_diffable_content.
    destruct (starts_with file_prefix url).
    - destruct production; [discriminate|].
      intros H. injection H as _ H. apply check_hash_ok in H as [-> H]. exact H.
    - destruct (negb (starts_with http_prefix url) && negb (starts_with https_prefix url)); [discriminate|].
      destruct (upstream_of url) as [hh bb|code [[hh bb]|]| | | | |n]; try discriminate.
      + intros H. injection H as _ H. apply check_hash_ok in H as [-> H]. exact H.
      + destruct (hdr_get k_memento hh); [|discriminate].
        intros H. injection H as _ H. apply check_hash_ok in H as [-> H]. exact H.
  Qed.

  (* the body handed on is the body that was fetched *)
  Lemma fetch_ok_body url h q rh eff r :
    fetch url h q rh = (eff, inl r) ->
    f_url r = url /\
    ((starts_with file_prefix url = true /\ f_body r = file_of (skipn 7 url)) \/
     (exists hh, upstream_of url = UOk hh (f_body r) /\ f_headers r = hh) \/
     (exists code hh, upstream_of url = UHttpError code (Some (hh, f_body r)) /\ f_headers r = hh /\
                      hdr_get k_memento hh <> None)).
  Proof.
    unfold fetch_diffable_content.
    destruct (starts_with file_prefix url) eqn:Ef.
    - destruct production; [discriminate|].
      intros H. injection H as _ H. apply check_hash_ok in H as [-> _]. cbn [f_url f_body f_headers]. split; [reflexivity|]. left. split; reflexivity.
    - destruct (negb (starts_with http_prefix url) && negb (starts_with https_prefix url)); [discriminate|].
      destruct (upstream_of url) as [hh bb|code [[hh bb]|]| | | | |n] eqn:Eu; try discriminate.
      + intros H. injection H as _ H. apply check_hash_ok in H as [-> _]. cbn [f_url f_body f_headers]. split; [reflexivity|].
        right. left. exists hh. split; reflexivity.
      + destruct (hdr_get k_memento hh) eqn:Em; [|discriminate].
        intros H. injection H as _ H. apply check_hash_ok in H as [-> _]. cbn [f_url f_body f_headers]. split; [reflexivity|].
        right. right. exists code, hh. repeat split. rewrite Em. discriminate.
  Qed.

  (* upstream failures map to 502 / 504 / 400 *)
  Lemma fetch_err_status url h q rh eff e :
    fetch url h q rh = (eff, inr e) ->
    match e with
    | E403Production => production = true /\ starts_with file_prefix url = true
    | E400Scheme => is_http url = false /\ starts_with file_prefix url = false
    | E502HashMismatch => exists x, h = Some x
    | E400Value => upstream_of url = UValueError
    | E502OS => upstream_of url = UOSError
    | E504Timeout => upstream_of url = UTimeoutSimple \/ upstream_of url = UCurl curl_operation_timedout
    | E502Closed => upstream_of url = UStreamClosed
    | E400CurlUrl => upstream_of url = UCurl curl_url_malformat
    | E502TooBig => upstream_of url = UCurl curl_filesize_exceeded
    | E502CurlConnect | E502CurlUnknown => exists n, upstream_of url = UCurl n
    | E502Upstream code =>
        upstream_of url = UHttpError code None \/
        exists hh bb, upstream_of url = UHttpError code (Some (hh, bb)) /\ hdr_get k_memento hh = None
    | _ => False
    end.
  Proof.
    unfold fetch_diffable_content, is_http.
    destruct (starts_with file_prefix url) eqn:Ef.
    - destruct production.
      + intros H. injection H as _ <-. split; reflexivity.
      + intros H. injection H as _ H. apply check_hash_err in H as [-> [x [Hx _]]]. eauto.
    - destruct (starts_with http_prefix url) eqn:E1; destruct (starts_with https_prefix url) eqn:E2; cbn [negb andb orb].
      4: { intros H. injection H as _ <-. split; reflexivity. }
      all: destruct (upstream_of url) as [hh bb|code [[hh bb]|]| | | | |n] eqn:Eu.
      all: try (intros H; injection H as _ H; try (apply check_hash_err in H as [-> [x [Hx _]]]; eauto; fail);
                try (subst e; eauto; fail)).
      all: try (destruct (hdr_get k_memento hh) eqn:Em; intros H; injection H as _ H;
                [apply check_hash_err in H as [-> [x [Hx _]]]; eauto | subst e; right; eauto]).
      all: try (subst e;
           destruct (N.eqb n curl_url_malformat) eqn:N1; [apply N.eqb_eq in N1; subst n; reflexivity|];
           destruct (N.eqb n curl_filesize_exceeded) eqn:N2; [apply N.eqb_eq in N2; subst n; reflexivity|];
           destruct (N.eqb n curl_couldnt_resolve_proxy || N.eqb n curl_couldnt_connect
                     || N.eqb n curl_weird_server_reply || N.eqb n curl_remote_access_denied
                     || N.eqb n curl_http2); [eauto|];
           destruct (N.eqb n curl_operation_timedout) eqn:N3; [apply N.eqb_eq in N3; subst n; right; reflexivity|];
           eauto).
  Qed.
End Fetch.

(* ------------------------------------------------------------------ caller *)
Lemma bind_args_sound sig q kwargs :
  bind_args sig q = inl kwargs ->
  forall name src, In (name, src) kwargs ->
    (exists d, In (name, d) sig) /\
    match reserved_source name with
    | Some s => src = s
    | None => exists v, dict_get name q = Some v /\ src = FromQuery v
    end.
Proof.
  revert kwargs. induction sig as [|[n d] sig IH]; cbn [bind_args]; intros kwargs H name src Hin.
  - injection H as <-. destruct Hin.
  - destruct (bind_args sig q) as [l|m] eqn:Eb.
    + destruct (reserved_source n) as [s|] eqn:Er.
      * injection H as <-. destruct Hin as [Hin|Hin].
        -- injection Hin as <- <-. split; [exists d; left; reflexivity|]. rewrite Er. reflexivity.
        -- destruct (IH l eq_refl name src Hin) as [[d' Hd] Hs]. split; [exists d'; right; exact Hd|exact Hs].
      * destruct (dict_get n q) as [v|] eqn:Eq.
        -- injection H as <-. destruct Hin as [Hin|Hin].
           ++ injection Hin as <- <-. split; [exists d; left; reflexivity|]. rewrite Er. eauto.
           ++ destruct (IH l eq_refl name src Hin) as [[d' Hd] Hs]. split; [exists d'; right; exact Hd|exact Hs].
        -- destruct d; [|discriminate]. injection H as <-.
           destruct (IH l eq_refl name src Hin) as [[d' Hd] Hs]. split; [exists d'; right; exact Hd|exact Hs].
    + destruct (reserved_source n); [discriminate|].
      destruct (dict_get n q); [discriminate|]. destruct d; discriminate.
Qed.

(* every parameter of the signature that can be bound is bound *)
Lemma bind_args_complete sig q kwargs :
  bind_args sig q = inl kwargs ->
  forall name d, In (name, d) sig ->
    match reserved_source name with
    | Some s => In (name, s) kwargs
    | None => match dict_get name q with
              | Some v => In (name, FromQuery v) kwargs
              | None => d = true
              end
    end.
Proof.
  revert kwargs. induction sig as [|[n d0] sig IH]; cbn [bind_args]; intros kwargs H name d Hin; [destruct Hin|].
  destruct (bind_args sig q) as [l|m] eqn:Eb.
  - destruct Hin as [Hin|Hin].
    + injection Hin as -> ->.
      destruct (reserved_source name) as [s|]; [injection H as <-; left; reflexivity|].
      destruct (dict_get name q) as [v|]; [injection H as <-; left; reflexivity|].
      destruct d; [reflexivity|discriminate].
    + specialize (IH l eq_refl name d Hin).
      assert (Hk : exists x, kwargs = x ++ l).
      { destruct (reserved_source n); [injection H as <-; exists [(n, a)]; reflexivity|].
        destruct (dict_get n q); [injection H as <-; eexists [_]; reflexivity|].
        destruct d0; [injection H as <-; exists []; reflexivity|discriminate]. }
      destruct Hk as [x ->].
      destruct (reserved_source name); [apply in_or_app; right; exact IH|].
      destruct (dict_get name q); [apply in_or_app; right; exact IH|exact IH].
  - destruct (reserved_source n); [discriminate|].
    destruct (dict_get n q); [discriminate|]. destruct d0; discriminate.
Qed.

(* ------------------------------------------------------------------ get *)
Section Get.
  Variable production : bool.
  Variable upstream_of : str -> upstream.
  Variable file_of : str -> str.
  Variable file_headers_of : str -> dict.
  Variable sha256_hex : str -> str.
  Variable decode_ok : bool -> bool -> bool.
  Variable run_differ : str -> list (str * arg_source) -> differ_outcome.

  Notation get := (Server.get production upstream_of file_of file_headers_of sha256_hex decode_ok run_differ).
  Notation fetch := (fetch_diffable_content production upstream_of file_of file_headers_of sha256_hex).

  (* the query after the handler removed a, b and the two hashes *)
  Definition q_rest (raw : dict) : dict :=
    dict_remove k_b_hash (dict_remove k_a_hash (dict_remove k_b (dict_remove k_a (decode_query_params raw)))).
  Definition q_hash_a (raw : dict) : option str :=
    dict_get k_a_hash (dict_remove k_b (dict_remove k_a (decode_query_params raw))).
  Definition q_hash_b (raw : dict) : option str :=
    dict_get k_b_hash (dict_remove k_a_hash (dict_remove k_b (dict_remove k_a (decode_query_params raw)))).

  Lemma err_status_not_ok e : err_status e <> 200 /\ err_status e <> 304.
  Proof. destruct e; cbn; split; discriminate. Qed.

  (* shape of every response *)
  Lemma response_shape differ raw rh em resp eff :
    get differ raw rh em = (resp, eff) ->
    match r_err resp with
    | Some e => r_status resp = err_status e /\ r_body resp = BError (err_status e) /\ r_etag resp = false
    | None => (r_status resp = 304 /\ em = true /\ r_body resp = BNone /\ eff = []) \/
              (r_status resp = 200 /\ em = false /\ r_etag resp = true /\ exists kw t, r_body resp = BDiff differ kw t)
    end.
  Proof.
    unfold Server.get.
    destruct em.
    { intros H. injection H as <- <-. cbn. left. repeat split. }
    destruct (assoc_str differ diff_routes) as [sig|]; [|intros H; injection H as <- <-; cbn; repeat split].
    destruct (dict_get k_a (decode_query_params raw)) as [ua|]; [|intros H; injection H as <- <-; cbn; repeat split].
    destruct (dict_get k_b (decode_query_params raw)) as [ub|]; [|intros H; injection H as <- <-; cbn; repeat split].
    cbv zeta.
    destruct (fetch ua _ _ rh) as [ea ra].
    destruct (fetch ub _ _ rh) as [eb rb].
    destruct ra as [fa|e]; destruct rb as [fb|e'].
    2,3: intros H; injection H as <- <-; cbn; repeat split.
    2: { destruct (negb (is_sync_failure ua) && is_sync_failure ub); intros H; injection H as <- <-; cbn; repeat split. }
    destruct (match dict_get k_func _ with Some _ => true | None => false end);
      [intros H; injection H as <- <-; cbn; repeat split|].
    destruct (uses_text true sig && negb (decode_ok true _)); [intros H; injection H as <- <-; cbn; repeat split|].
    destruct (uses_text false sig && negb (decode_ok false _)); [intros H; injection H as <- <-; cbn; repeat split|].
    destruct (bind_args sig _) as [kw|m]; [|intros H; injection H as <- <-; cbn; repeat split].
    destruct (run_differ differ kw) as [t| |]; intros H; injection H as <- <-; cbn; try (repeat split; fail).
    right. repeat split. eauto.
  Qed.

  Lemma status_304_iff differ raw rh em resp eff :
    get differ raw rh em = (resp, eff) ->
    (r_status resp = 304 <-> em = true) /\ (em = true -> eff = [] /\ r_body resp = BNone).
  Proof.
    intros H. pose proof (response_shape _ _ _ _ _ _ H) as Hs.
    destruct (r_err resp) as [e|].
    - destruct Hs as [Hst _]. destruct em.
      + unfold Server.get in H. injection H as <- <-. cbn in *. split; [split; reflexivity|]. intros _. split; reflexivity.
      + split; [|discriminate]. split; [|discriminate]. rewrite Hst. intros Hc. destruct (err_status_not_ok e) as [_ Hn]. contradiction.
    - destruct Hs as [[Hst [-> [Hb He]]]|[Hst [-> _]]].
      + split; [split; intros; congruence|]. intros _. split; assumption.
      + split; [|discriminate]. split; [|discriminate]. rewrite Hst. discriminate.
  Qed.

  Lemma unknown_differ differ raw rh resp eff :
    assoc_str differ Tables.diff_routes = None ->
    get differ raw rh false = (resp, eff) ->
    r_status resp = 404 /\ r_err resp = Some E404Unknown /\ eff = [].
  Proof.
    unfold Server.get. intros ->. intros H. injection H as <- <-. repeat split.
  Qed.

  Lemma missing_url differ raw rh resp eff :
    assoc_str differ Tables.diff_routes <> None ->
    dict_get k_a (decode_query_params raw) = None \/ dict_get k_b (decode_query_params raw) = None ->
    get differ raw rh false = (resp, eff) ->
    r_status resp = 400 /\ r_err resp = Some E400Missing /\ eff = [].
  Proof.
    unfold Server.get. intros Hd Hm.
    destruct (assoc_str differ diff_routes); [|congruence].
    destruct Hm as [-> | Hb].
    - intros H. injection H as <- <-. repeat split.
    - rewrite Hb. destruct (dict_get k_a _); intros H; injection H as <- <-; repeat split.
  Qed.

  (* every effect is the open of a file:// URL's path outside production or the fetch of
     an http(s) URL, and only of the values of a and b *)
  Lemma effects_gatekept differ raw rh em resp eff :
    get differ raw rh em = (resp, eff) ->
    forall e, In e eff ->
      exists url, (dict_get k_a (decode_query_params raw) = Some url \/
                   dict_get k_b (decode_query_params raw) = Some url) /\
        match e with
        | EFetch u hdrs => u = url /\ is_http url = true /\ starts_with file_prefix url = false /\
                           hdrs = upstream_headers (q_rest raw) rh
        | EOpen p => production = false /\ starts_with file_prefix url = true /\ p = skipn 7 url
        end.
  Proof.
    unfold Server.get.
    destruct em; [intros H; injection H as _ <-; intros e []|].
    destruct (assoc_str differ diff_routes) as [sig|]; [|intros H; injection H as _ <-; intros e []].
    destruct (dict_get k_a (decode_query_params raw)) as [ua|] eqn:Ea; [|intros H; injection H as _ <-; intros e []].
    destruct (dict_get k_b (decode_query_params raw)) as [ub|] eqn:Eb; [|intros H; injection H as _ <-; intros e []].
    cbv zeta. fold (q_rest raw).
    destruct (fetch ua _ _ rh) as [ea ra] eqn:Fa.
    destruct (fetch ub _ _ rh) as [eb rb] eqn:Fb.
    intros H.
    assert (Heff : eff = ea ++ eb).
    { destruct ra as [fa|e1]; destruct rb as [fb|e2].
      2,3: injection H as _ <-; reflexivity.
      2: destruct (negb (is_sync_failure ua) && is_sync_failure ub); injection H as _ <-; reflexivity.
      destruct (match dict_get k_func _ with Some _ => true | None => false end); [injection H as _ <-; reflexivity|].
      destruct (uses_text true sig && negb (decode_ok true _)); [injection H as _ <-; reflexivity|].
      destruct (uses_text false sig && negb (decode_ok false _)); [injection H as _ <-; reflexivity|].
      destruct (bind_args sig _) as [kw|m]; [|injection H as _ <-; reflexivity].
      destruct (run_differ differ kw); injection H as _ <-; reflexivity. }
    subst eff. clear H.
    intros e Hin. apply in_app_or in Hin as [Hin|Hin].
    - exists ua. split; [left; reflexivity|].
      destruct (fetch_effects _ _ _ _ _ _ _ _ _ _ _ Fa) as [[-> _]|[[-> [Hf Hp]]|[-> [Hh Hf]]]]; [destruct Hin| |].
      + destruct Hin as [<-|[]]. repeat split; assumption.
      + destruct Hin as [<-|[]]. repeat split; assumption.
    - exists ub. split; [right; reflexivity|].
      destruct (fetch_effects _ _ _ _ _ _ _ _ _ _ _ Fb) as [[-> _]|[[-> [Hf Hp]]|[-> [Hh Hf]]]]; [destruct Hin| |].
      + destruct Hin as [<-|[]]. repeat split; assumption.
      + destruct Hin as [<-|[]]. repeat split; assumption.
  Qed.

  (* a successful response: both sides fetched, supplied hashes hold, arguments bound to fetched content *)
  Lemma ok_response differ raw rh resp eff :
    get differ raw rh false = (resp, eff) ->
    r_status resp = 200 ->
    exists sig ua ub ea eb fa fb kw t,
      assoc_str differ Tables.diff_routes = Some sig /\
      dict_get k_a (decode_query_params raw) = Some ua /\
      dict_get k_b (decode_query_params raw) = Some ub /\
      fetch ua (q_hash_a raw) (q_rest raw) rh = (ea, inl fa) /\
      fetch ub (q_hash_b raw) (q_rest raw) rh = (eb, inl fb) /\
      bind_args sig (q_rest raw) = inl kw /\
      r_body resp = BDiff differ kw t /\
      run_differ differ kw = DResult t.
  Proof.
    unfold Server.get.
    destruct (assoc_str differ diff_routes) as [sig|]; [|intros H; injection H as <- _; discriminate].
    destruct (dict_get k_a (decode_query_params raw)) as [ua|] eqn:Ea; [|intros H; injection H as <- _; discriminate].
    destruct (dict_get k_b (decode_query_params raw)) as [ub|] eqn:Eb; [|intros H; injection H as <- _; discriminate].
    cbv zeta. fold (q_rest raw) (q_hash_a raw) (q_hash_b raw).
    destruct (fetch ua _ _ rh) as [ea ra] eqn:Fa.
    destruct (fetch ub _ _ rh) as [eb rb] eqn:Fb.
    destruct ra as [fa|e1]; destruct rb as [fb|e2].
    2,3: intros H; injection H as <- _; cbn; intros Hc;
         match goal with Hc : err_status ?e = 200 |- _ => destruct (err_status_not_ok e) as [Hn _]; contradiction end.
    2: { destruct (negb (is_sync_failure ua) && is_sync_failure ub); intros H; injection H as <- _; cbn; intros Hc;
         match goal with Hc : err_status ?e = 200 |- _ => destruct (err_status_not_ok e) as [Hn _]; contradiction end. }
    destruct (match dict_get k_func _ with Some _ => true | None => false end); [intros H; injection H as <- _; discriminate|].
    destruct (uses_text true sig && negb (decode_ok true _)); [intros H; injection H as <- _; discriminate|].
    destruct (uses_text false sig && negb (decode_ok false _)); [intros H; injection H as <- _; discriminate|].
    destruct (bind_args sig _) as [kw|m] eqn:Ebind; [|intros H; injection H as <- _; discriminate].
    destruct (run_differ differ kw) as [t| |] eqn:Er; intros H; injection H as <- _; try discriminate.
    intros _. exists sig, ua, ub, ea, eb, fa, fb, kw, t. cbn [r_body]. repeat split; first [reflexivity | assumption].
  Qed.
  (* a 200: the differ's arguments with reserved names are the fetched values, the
     others the query's (last) values *)
  Lemma ok_kwargs differ raw rh resp eff :
    get differ raw rh false = (resp, eff) ->
    r_status resp = 200 ->
    exists kw t, r_body resp = BDiff differ kw t /\ run_differ differ kw = DResult t /\
      forall name src, In (name, src) kw ->
        match reserved_source name with
        | Some s => src = s
        | None => exists v, dict_get name (q_rest raw) = Some v /\ src = FromQuery v
        end.
  Proof.
    intros H Hs.
    destruct (ok_response _ _ _ _ _ H Hs) as (sig & ua & ub & ea & eb & fa & fb & kw & t & _ & _ & _ & _ & _ & Hb & Hr & Hd).
    exists kw, t. repeat split; try assumption.
    intros name src Hin. exact (proj2 (bind_args_sound _ _ _ Hb name src Hin)).
  Qed.

  (* a 200 with a supplied hash: the fetched body of that side has exactly that hash *)
  Lemma ok_hashes differ raw rh resp eff :
    get differ raw rh false = (resp, eff) ->
    r_status resp = 200 ->
    exists ua ub ea eb fa fb,
      dict_get k_a (decode_query_params raw) = Some ua /\
      dict_get k_b (decode_query_params raw) = Some ub /\
      fetch ua (q_hash_a raw) (q_rest raw) rh = (ea, inl fa) /\
      fetch ub (q_hash_b raw) (q_rest raw) rh = (eb, inl fb) /\
      (forall x, q_hash_a raw = Some x -> sha256_hex (f_body fa) = x) /\
      (forall x, q_hash_b raw = Some x -> sha256_hex (f_body fb) = x).
  Proof.
    intros H Hs.
    destruct (ok_response _ _ _ _ _ H Hs) as (sig & ua & ub & ea & eb & fa & fb & kw & t & _ & Ha & Hb & Fa & Fb & _).
    exists ua, ub, ea, eb, fa, fb. repeat split; try assumption.
    - exact (fetch_ok_hash _ _ _ _ _ _ _ _ _ _ _ Fa).
    - exact (fetch_ok_hash _ _ _ _ _ _ _ _ _ _ _ Fb).
  Qed.
End Get.

(* the effective parameters are the last value of each key *)
Fixpoint last_binding (k : str) (raw : dict) (acc : option str) : option str :=
  match raw with
  | [] => acc
  | (k', v) :: raw' => last_binding k raw' (if str_eqb k k' then Some v else acc)
  end.

Lemma decode_query_fold k raw acc :
  dict_get k (fold_left (fun acc kv => dict_set (fst kv) (snd kv) acc) raw acc) =
  last_binding k raw (dict_get k acc).
Proof.
  revert acc. induction raw as [|[k' v] raw IH]; intros acc; cbn [fold_left last_binding]; [reflexivity|].
  rewrite IH. cbn [fst snd]. rewrite dict_get_set. reflexivity.
Qed.

Lemma decode_query_params_last k raw :
  dict_get k (decode_query_params raw) = last_binding k raw None.
Proof. unfold decode_query_params. rewrite decode_query_fold. reflexivity. Qed.

(* Order independence (C17, C04): the sorted, de-duplicated link list is the same for every
   iteration order of the set it is sorted from; scans over tag sets compute existentials; a
   memo cache never changes results. *)
From Coq Require Import List NArith Arith Bool Lia Permutation Sorted.
From WMD Require Import Lib.Str Lib.PyChars Model.Links.
Import ListNotations.

(* ------------------------------------------------------------------ str_ltb is a strict total order *)
Lemma str_ltb_irrefl a : str_ltb a a = false.
Proof. induction a as [|x a IH]; [reflexivity|]. cbn [str_ltb]. rewrite N.ltb_irrefl. exact IH. Qed.

Lemma str_ltb_trans a : forall b c, str_ltb a b = true -> str_ltb b c = true -> str_ltb a c = true.
Proof.
  induction a as [|x a IH]; intros [|y b] [|z c] H1 H2; cbn [str_ltb] in *; try discriminate; try reflexivity.
  destruct (N.ltb_spec x y) as [Hxy|Hxy].
  - destruct (N.ltb_spec y z) as [Hyz|Hyz].
    + destruct (N.ltb_spec x z); [reflexivity|lia].
    + destruct (N.ltb_spec z y); [discriminate|]. assert (y = z) by lia. subst. destruct (N.ltb_spec x z); [reflexivity|lia].
  - destruct (N.ltb_spec y x); [discriminate|]. assert (x = y) by lia. subst y.
    destruct (N.ltb_spec x z); [reflexivity|]. destruct (N.ltb_spec z x); [discriminate|]. apply (IH b c); assumption.
Qed.

Lemma str_ltb_total a : forall b, str_ltb a b = false -> str_ltb b a = false -> a = b.
Proof.
  induction a as [|x a IH]; intros [|y b] H1 H2; cbn [str_ltb] in *; try discriminate; [reflexivity|].
  destruct (N.ltb_spec x y); [discriminate|]. destruct (N.ltb_spec y x); [discriminate|].
  assert (x = y) by lia. subst. f_equal. apply IH; assumption.
Qed.

Lemma str_ltb_asym a b : str_ltb a b = true -> str_ltb b a = false.
Proof.
  intros H. destruct (str_ltb b a) eqn:E; [|reflexivity].
  pose proof (str_ltb_trans a b a H E) as C. rewrite str_ltb_irrefl in C. discriminate C.
Qed.

(* ------------------------------------------------------------------ the sort key *)
Definition key (x : link) : str * str := (lower_text x, l_href x).

Lemma link_ltb_irrefl x : link_ltb x x = false.
Proof. unfold link_ltb. rewrite !str_ltb_irrefl. reflexivity. Qed.

Lemma link_ltb_trans x y z : link_ltb x y = true -> link_ltb y z = true -> link_ltb x z = true.
Proof.
  unfold link_ltb. intros H1 H2.
  destruct (str_ltb (lower_text x) (lower_text y)) eqn:A.
  - destruct (str_ltb (lower_text y) (lower_text z)) eqn:B.
    + rewrite (str_ltb_trans _ _ _ A B). reflexivity.
    + destruct (str_ltb (lower_text z) (lower_text y)) eqn:B'; [discriminate|].
      rewrite <- (str_ltb_total _ _ B B'). rewrite A. reflexivity.
  - destruct (str_ltb (lower_text y) (lower_text x)) eqn:A'; [discriminate|].
    rewrite (str_ltb_total _ _ A A').
    destruct (str_ltb (lower_text y) (lower_text z)) eqn:B; [reflexivity|].
    destruct (str_ltb (lower_text z) (lower_text y)) eqn:B'; [discriminate|].
    apply (str_ltb_trans _ _ _ H1 H2).
Qed.

(* incomparable links have the same key: the key is injective up to what the set identifies *)
Lemma link_ltb_total x y : link_ltb x y = false -> link_ltb y x = false -> key x = key y.
Proof.
  unfold link_ltb, key. intros H1 H2.
  destruct (str_ltb (lower_text x) (lower_text y)) eqn:A; [discriminate|].
  destruct (str_ltb (lower_text y) (lower_text x)) eqn:A'; [discriminate|].
  rewrite (str_ltb_total _ _ A A') in *. f_equal. apply str_ltb_total; assumption.
Qed.

Lemma link_ltb_key x x' y y' : key x = key x' -> key y = key y' -> link_ltb x y = link_ltb x' y'.
Proof. unfold key, link_ltb. intros Hx Hy. injection Hx as -> ->. injection Hy as -> ->. reflexivity. Qed.

Definition le (x y : link) : Prop := link_ltb y x = false.

Lemma le_trans x y z : le x y -> le y z -> le x z.
Proof.
  unfold le. intros H1 H2. destruct (link_ltb z x) eqn:E; [|reflexivity]. exfalso.
  destruct (link_ltb x y) eqn:A.
  - rewrite (link_ltb_trans z x y E A) in H2. discriminate H2.
  - pose proof (link_ltb_total x y A H1) as K. rewrite (link_ltb_key z z x y eq_refl K) in E. congruence.
Qed.

Lemma le_total x y : le x y \/ le y x.
Proof.
  unfold le. destruct (link_ltb y x) eqn:E; [right|left; reflexivity].
  destruct (link_ltb x y) eqn:E'; [|reflexivity].
  pose proof (link_ltb_trans x y x E' E) as C. rewrite link_ltb_irrefl in C. discriminate C.
Qed.

Lemma same_key_iff x y : same_key x y = true <-> key x = key y.
Proof.
  unfold same_key, key. rewrite andb_true_iff, !str_eqb_eq. split; [intros [-> ->]; reflexivity|intros H; injection H as -> ->; split; reflexivity].
Qed.

(* ------------------------------------------------------------------ insertion sort *)
Definition sorted (l : list link) : Prop := StronglySorted le l.

Lemma insert_perm x l : Permutation (insert_sorted x l) (x :: l).
Proof.
  induction l as [|y l IH]; cbn [insert_sorted]; [reflexivity|].
  destruct (link_ltb y x || negb (link_ltb x y)); [|reflexivity].
  rewrite IH. apply perm_swap.
Qed.

Lemma insert_sorted_ok x l : sorted l -> sorted (insert_sorted x l).
Proof.
  induction l as [|y l IH]; intros H; cbn [insert_sorted]; [constructor; constructor|].
  inversion H as [|? ? Hs Hall]; subst.
  destruct (link_ltb y x || negb (link_ltb x y)) eqn:E.
  - constructor; [apply IH, Hs|].
    assert (Hyx : le y x).
    { unfold le. apply orb_true_iff in E as [E|E]; [|apply negb_true_iff, E].
      destruct (link_ltb x y) eqn:E'; [|reflexivity]. pose proof (link_ltb_trans x y x E' E) as C. rewrite link_ltb_irrefl in C. discriminate C. }
    apply Forall_forall. intros z Hz. apply (Permutation_in _ (insert_perm x l)) in Hz. destruct Hz as [<-|Hz]; [exact Hyx|].
    rewrite Forall_forall in Hall. apply Hall, Hz.
  - apply orb_false_iff in E as [E1 E2]. apply negb_false_iff in E2.
    constructor; [exact H|]. constructor; [unfold le; exact E1|].
    apply Forall_forall. intros z Hz. rewrite Forall_forall in Hall. apply (le_trans x y z); [unfold le; exact E1|apply Hall, Hz].
Qed.

Lemma fold_insert l : forall acc, sorted acc ->
  sorted (fold_left (fun acc x => insert_sorted x acc) l acc) /\
  Permutation (fold_left (fun acc x => insert_sorted x acc) l acc) (l ++ acc).
Proof.
  induction l as [|x l IH]; intros acc H; cbn [fold_left app]; [split; [exact H|reflexivity]|].
  destruct (IH (insert_sorted x acc) (insert_sorted_ok x acc H)) as [S P]. split; [exact S|].
  rewrite P. rewrite (insert_perm x acc). symmetry. apply Permutation_middle.
Qed.

Lemma sort_links_spec l : sorted (sort_links l) /\ Permutation (sort_links l) l.
Proof.
  unfold sort_links. destruct (fold_insert l [] (SSorted_nil _)) as [S P]. split; [exact S|]. rewrite app_nil_r in P. exact P.
Qed.

(* ------------------------------------------------------------------ uniqueness of the sorted list *)
Lemma nodup_key_inj l x y : NoDup (map key l) -> In x l -> In y l -> key x = key y -> x = y.
Proof.
  induction l as [|z l IH]; intros Hn Hx Hy K; [destruct Hx|].
  cbn [map] in Hn. inversion Hn as [|? ? Hnotin Hn']; subst.
  destruct Hx as [->|Hx]; destruct Hy as [->|Hy]; try reflexivity.
  - exfalso. apply Hnotin. rewrite K. apply in_map, Hy.
  - exfalso. apply Hnotin. rewrite <- K. apply in_map, Hx.
  - apply IH; assumption.
Qed.

Lemma sorted_perm_unique l1 : forall l2,
  sorted l1 -> sorted l2 -> Permutation l1 l2 -> NoDup (map key l1) -> l1 = l2.
Proof.
  induction l1 as [|x l1 IH]; intros l2 S1 S2 P Hn.
  - apply Permutation_nil in P. subst. reflexivity.
  - destruct l2 as [|y l2]; [apply Permutation_sym, Permutation_nil in P; discriminate P|].
    inversion S1 as [|? ? S1' A1]; subst. inversion S2 as [|? ? S2' A2]; subst.
    assert (Hxy : x = y).
    { assert (Hy : In y (x :: l1)) by (apply (Permutation_in _ (Permutation_sym P)); left; reflexivity).
      assert (Hx : In x (y :: l2)) by (apply (Permutation_in _ P); left; reflexivity).
      destruct Hy as [->|Hy]; [reflexivity|]. destruct Hx as [->|Hx]; [reflexivity|].
      rewrite Forall_forall in A1, A2. specialize (A1 y Hy). specialize (A2 x Hx). unfold le in A1, A2.
      apply (nodup_key_inj (x :: l1)); [exact Hn|left; reflexivity|right; exact Hy|apply link_ltb_total; assumption]. }
    subst y. f_equal. apply IH; [exact S1'|exact S2'|apply (Permutation_cons_inv P)|].
    cbn [map] in Hn. inversion Hn; assumption.
Qed.

(* sorting any two arrangements of the same de-duplicated links gives the same list *)
Theorem sort_links_order_free l1 l2 : Permutation l1 l2 -> NoDup (map key l1) -> sort_links l1 = sort_links l2.
Proof.
  intros P Hn. destruct (sort_links_spec l1) as [S1 P1]. destruct (sort_links_spec l2) as [S2 P2].
  apply sorted_perm_unique; [exact S1|exact S2|rewrite P1, P; symmetry; exact P2|].
  apply (Permutation_NoDup (l := map key l1)); [apply Permutation_map; symmetry; exact P1|exact Hn].
Qed.

(* the de-duplicated list has pairwise different keys *)
Lemma dedup_nodup l : forall seen,
  NoDup (map key (dedup l seen)) /\ forall x, In x (dedup l seen) -> forall s, In s seen -> key x <> key s.
Proof.
  induction l as [|x l IH]; intros seen; cbn [dedup]; [split; [constructor|intros ? []]|].
  destruct (existsb (same_key x) seen) eqn:E; [apply IH|].
  destruct (IH (x :: seen)) as [N D]. split.
  - cbn [map]. constructor; [|exact N]. intros Hin. apply in_map_iff in Hin as [y [K Hy]].
    apply (D y Hy x); [left; reflexivity|exact K].
  - intros y [<-|Hy] s Hs K.
    + assert (existsb (same_key x) seen = true) by (apply existsb_exists; exists s; split; [exact Hs|apply same_key_iff, K]). congruence.
    + apply (D y Hy s); [right; exact Hs|exact K].
Qed.

(* whatever order the set of links is iterated in, the sorted list handed to the matcher is the same *)
Theorem page_links_order_free found arrangement :
  Permutation arrangement (dedup found []) -> sort_links arrangement = sort_links (dedup found []).
Proof.
  intros P. symmetry. apply sort_links_order_free; [symmetry; exact P|apply dedup_nodup].
Qed.

(* sorted output: ascending in the key, no two entries with the same key *)
Theorem sort_links_sorted l : StronglySorted le (sort_links l).
Proof. apply sort_links_spec. Qed.

(* ------------------------------------------------------------------ scans over sets, memo caches *)
Theorem existsb_order_free {A} (p : A -> bool) l l' : Permutation l l' -> existsb p l = existsb p l'.
Proof.
  intros P. destruct (existsb p l) eqn:E.
  - symmetry. apply existsb_exists in E as [x [Hx Px]]. apply existsb_exists. exists x. split; [apply (Permutation_in _ P Hx)|exact Px].
  - symmetry. destruct (existsb p l') eqn:E'; [|reflexivity].
    apply existsb_exists in E' as [x [Hx Px]].
    assert (existsb p l = true) by (apply existsb_exists; exists x; split; [apply (Permutation_in _ (Permutation_sym P) Hx)|exact Px]). congruence.
Qed.

Section Cache.
  (* functools.lru_cache around a pure function: explicit cache state, arbitrary eviction *)
  Variable K V : Type.
  Variable keq : K -> K -> bool.
  Hypothesis keq_eq : forall a b, keq a b = true -> a = b.
  Variable f : K -> V.
  Variable evict : list (K * V) -> list (K * V).        (* any policy that only removes entries *)
  Hypothesis evict_incl : forall c kv, In kv (evict c) -> In kv c.

  Fixpoint cache_find (k : K) (c : list (K * V)) : option V :=
    match c with [] => None | (k', v) :: c' => if keq k k' then Some v else cache_find k c' end.

  Definition cached_call (c : list (K * V)) (k : K) : V * list (K * V) :=
    match cache_find k c with
    | Some v => (v, c)
    | None => (f k, evict ((k, f k) :: c))
    end.

  Definition cache_ok (c : list (K * V)) : Prop := forall k v, In (k, v) c -> v = f k.

  Lemma cache_find_ok c k v : cache_ok c -> cache_find k c = Some v -> v = f k.
  Proof.
    induction c as [|[k' v'] c IH]; intros H E; cbn [cache_find] in E; [discriminate|].
    destruct (keq k k') eqn:Ek.
    - injection E as <-. rewrite (keq_eq _ _ Ek). apply H. left. reflexivity.
    - apply IH; [intros k0 v0 Hin; apply H; right; exact Hin|exact E].
  Qed.

  Lemma cached_call_ok c k : cache_ok c -> fst (cached_call c k) = f k /\ cache_ok (snd (cached_call c k)).
  Proof.
    intros H. unfold cached_call. destruct (cache_find k c) as [v|] eqn:E; cbn [fst snd].
    - split; [apply (cache_find_ok c k v H E)|exact H].
    - split; [reflexivity|]. intros k0 v0 Hin. apply evict_incl in Hin. destruct Hin as [Hin|Hin]; [injection Hin as <- <-; reflexivity|apply H, Hin].
  Qed.

  (* for every history of calls, every result is the pure function's *)
  Theorem cache_transparent ks : forall c, cache_ok c ->
    fst (fold_left (fun st k => let '(out, c) := st in let '(v, c') := cached_call c k in (out ++ [v], c')) ks ([], c)) = map f ks.
  Proof.
    assert (G : forall l out c, cache_ok c ->
      fst (fold_left (fun st k => let '(out, c) := st in let '(v, c') := cached_call c k in (out ++ [v], c')) l (out, c)) = out ++ map f l).
    { intros l. induction l as [|k l IH]; intros out c H; [cbn [fold_left fst map]; symmetry; apply app_nil_r|]. cbn [fold_left map].
      destruct (cached_call_ok c k H) as [Hv Hc]. destruct (cached_call c k) as [v c']. cbn [fst snd] in *. subst v.
      rewrite (IH _ _ Hc). rewrite <- app_assoc. reflexivity. }
    intros c H. apply (G ks [] c H).
  Qed.
End Cache.

(* ------------------------------------------------------------------ same key set => same sorted keys *)
Lemma sorted_keys_unique l1 : forall l2,
  sorted l1 -> sorted l2 -> NoDup (map key l1) -> NoDup (map key l2) ->
  (forall k, In k (map key l1) <-> In k (map key l2)) -> map key l1 = map key l2.
Proof.
  induction l1 as [|x l1 IH]; intros l2 S1 S2 N1 N2 Hk.
  - destruct l2 as [|y l2]; [reflexivity|]. exfalso. apply (proj2 (Hk (key y))). left. reflexivity.
  - destruct l2 as [|y l2]; [exfalso; apply (proj1 (Hk (key x))); left; reflexivity|].
    inversion S1 as [|? ? S1' A1]; subst. inversion S2 as [|? ? S2' A2]; subst.
    cbn [map] in *. inversion N1 as [|? ? Nx N1']; subst. inversion N2 as [|? ? Ny N2']; subst.
    assert (Kxy : key x = key y).
    { destruct (proj1 (Hk (key x)) (or_introl eq_refl)) as [E|Hin]; [symmetry; exact E|].
      destruct (proj2 (Hk (key y)) (or_introl eq_refl)) as [E|Hin']; [exact E|].
      apply in_map_iff in Hin as [y' [Ky' Hy']]. apply in_map_iff in Hin' as [x' [Kx' Hx']].
      rewrite Forall_forall in A1, A2. specialize (A1 x' Hx'). specialize (A2 y' Hy'). unfold le in A1, A2.
      (* x <= x' with key x' = key y ;  y <= y' with key y' = key x *)
      apply link_ltb_total.
      - rewrite (link_ltb_key x y' y y (eq_sym Ky') eq_refl). exact A2.
      - rewrite (link_ltb_key y x' x x (eq_sym Kx') eq_refl). exact A1. }
    f_equal; [exact Kxy|]. apply IH; try assumption.
    intros k. split; intros Hin.
    + destruct (proj1 (Hk k) (or_intror Hin)) as [E|H]; [|exact H]. exfalso. apply Nx. rewrite Kxy, E. exact Hin.
    + destruct (proj2 (Hk k) (or_intror Hin)) as [E|H]; [|exact H]. exfalso. apply Ny. rewrite <- Kxy, E. exact Hin.
Qed.

Lemma map_key_forall2 l1 : forall l2, map key l1 = map key l2 -> Forall2 (fun x y => same_key x y = true) l1 l2.
Proof.
  induction l1 as [|x l1 IH]; intros [|y l2] H; cbn [map] in H; try discriminate; [constructor|].
  assert (K : key x = key y) by congruence. assert (T : map key l1 = map key l2) by congruence.
  constructor; [apply same_key_iff, K|apply IH, T].
Qed.

(* two pages whose de-duplicated links have the same keys give position-wise key-equal sorted lists,
   whatever order the sets were iterated in *)
Theorem same_link_sets_sorted_alike fa fb arr_a arr_b :
  Permutation arr_a (dedup fa []) -> Permutation arr_b (dedup fb []) ->
  (forall k, In k (map key (dedup fa [])) <-> In k (map key (dedup fb []))) ->
  Forall2 (fun x y => same_key x y = true) (sort_links arr_a) (sort_links arr_b).
Proof.
  intros Pa Pb Hk. apply map_key_forall2.
  destruct (sort_links_spec arr_a) as [Sa Qa]. destruct (sort_links_spec arr_b) as [Sb Qb].
  assert (Na : NoDup (map key (sort_links arr_a))).
  { apply (Permutation_NoDup (l := map key (dedup fa []))); [apply Permutation_map; rewrite Qa, Pa; reflexivity|apply dedup_nodup]. }
  assert (Nb : NoDup (map key (sort_links arr_b))).
  { apply (Permutation_NoDup (l := map key (dedup fb []))); [apply Permutation_map; rewrite Qb, Pb; reflexivity|apply dedup_nodup]. }
  apply sorted_keys_unique; try assumption.
  pose proof (Permutation_map key (Permutation_trans Qa Pa)) as Ma.
  pose proof (Permutation_map key (Permutation_trans Qb Pb)) as Mb.
  intros k. split; intros Hin.
  - apply (Permutation_in _ (Permutation_sym Mb)). apply Hk. apply (Permutation_in _ Ma). exact Hin.
  - apply (Permutation_in _ (Permutation_sym Ma)). apply Hk. apply (Permutation_in _ Mb). exact Hin.
Qed.

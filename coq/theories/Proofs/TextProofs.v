(* Detection stated on the text of the page (property C03).

   PageWords shows: no change reported (rules off) => the two pages carry the same sequence of words,
   opaque elements and link targets.  Here the word sequence is tied back to the TEXT of the element
   tree: the non-whitespace characters of every text and tail, in document order (in their escaped
   spelling, which is an injective recoding), with every opaque element as one atom, are a function
   of that sequence.  Hence: if the readable text of two pages differs in any non-whitespace
   character, the reported change count is greater than zero - for all element trees, every cap. *)
From Coq Require Import List NArith Arith Bool Lia String.
From WMD Require Import Gen.Tables Lib.Str Lib.PyChars Lib.Escape Lib.Difflib Model.RenderTokens Model.RenderMerge Model.RenderLabelled
     Proofs.EscapeProofs Proofs.TokenProofs Proofs.PageWords.
Import ListNotations.
Open Scope N_scope.

(* the non-whitespace characters of a string *)
Definition nws (s : str) : str := filter (fun c => negb (py_isspace c)) s.

Lemma nws_app a b : nws (a ++ b) = nws a ++ nws b.
Proof. apply filter_app. Qed.

Lemma nws_rev s : nws (rev s) = rev (nws s).
Proof.
  induction s as [|c s IH]; [reflexivity|]. cbn [rev]. rewrite nws_app, IH. cbn [nws filter].
  destruct (negb (py_isspace c)); cbn [rev app]; [reflexivity|apply app_nil_r].
Qed.

Lemma nws_lstrip s : nws (py_lstrip s) = nws s.
Proof.
  unfold py_lstrip. induction s as [|c s IH]; [reflexivity|]. cbn [lstrip nws filter].
  destruct (py_isspace c) eqn:E; cbn [negb]; [exact IH|]. cbn [nws filter]. rewrite E. reflexivity.
Qed.

Lemma nws_rstrip s : nws (py_rstrip s) = nws s.
Proof.
  unfold py_rstrip, rstrip. rewrite nws_rev. fold (py_lstrip (rev s)). rewrite nws_lstrip, nws_rev, rev_involutive. reflexivity.
Qed.

(* the regular expression's \s and str.isspace are the same class in the running interpreter *)
Lemma re_space_is_isspace c : re_space c = py_isspace c.
Proof. unfold re_space, py_isspace. assert (E : Tables.re_space_ranges = Tables.py_isspace_ranges) by (vm_compute; reflexivity). rewrite E. reflexivity. Qed.

(* ---- split_words keeps every non-whitespace character, in order ---- *)
Lemma span_ws_spec s : let (a, r) := span_ws s in s = a ++ r /\ nws a = [].
Proof.
  induction s as [|c s IH]; cbn [span_ws]; [split; reflexivity|].
  destruct (re_space c) eqn:E.
  - destruct (span_ws s) as [a r]. destruct IH as [-> Hn]. split; [reflexivity|].
    cbn [nws filter]. rewrite <- re_space_is_isspace, E. exact Hn.
  - split; reflexivity.
Qed.

Lemma span_not_ws_spec s : let (a, r) := span_not_ws s in s = a ++ r /\ (List.length r <= List.length s)%nat.
Proof.
  induction s as [|c s IH]; cbn [span_not_ws]; [split; [reflexivity|cbn; lia]|].
  destruct (re_space c); [split; [reflexivity|lia]|].
  destruct (span_not_ws s) as [a r]. destruct IH as [-> Hl]. split; [reflexivity|]. cbn [List.length]. rewrite app_length in *. lia.
Qed.

Lemma span_ws_length s : (List.length (snd (span_ws s)) <= List.length s)%nat.
Proof.
  induction s as [|c s IH]; cbn [span_ws]; [cbn; lia|]. destruct (re_space c); [|cbn; lia].
  destruct (span_ws s) as [a r]. cbn [snd List.length] in *. lia.
Qed.

Lemma span_not_ws_progress s : match s with [] => True | c :: _ => re_space c = false -> (List.length (snd (span_not_ws s)) < List.length s)%nat end.
Proof.
  destruct s as [|c s]; [exact I|]. intros E. cbn [span_not_ws]. rewrite E.
  pose proof (span_not_ws_spec s) as H. destruct (span_not_ws s) as [a r]. destruct H as [_ Hl]. cbn [snd List.length]. lia.
Qed.

Lemma span_ws_head s : match snd (span_ws s) with [] => True | c :: _ => re_space c = false end.
Proof.
  induction s as [|c s IH]; cbn [span_ws]; [exact I|]. destruct (re_space c) eqn:E; [|exact E].
  destruct (span_ws s) as [a r]. exact IH.
Qed.

Lemma split_words_aux_nws : forall fuel s, (List.length s < fuel)%nat ->
  List.concat (map nws (split_words_aux fuel s)) = nws s.
Proof.
  induction fuel as [|fuel IH]; intros s Hf; [lia|]. cbn [split_words_aux].
  pose proof (span_ws_spec s) as H1. pose proof (span_ws_length s) as L1. pose proof (span_ws_head s) as Hd.
  destruct (span_ws s) as [lead s1]. cbn [snd] in *. destruct H1 as [-> Hlead].
  rewrite nws_app, Hlead. cbn [app].
  destruct s1 as [|c s1']; [reflexivity|].
  pose proof (span_not_ws_spec (c :: s1')) as H2. pose proof (span_not_ws_progress (c :: s1') Hd) as P2.
  destruct (span_not_ws (c :: s1')) as [w r]. cbn [snd] in P2. destruct H2 as [E2 _].
  pose proof (span_ws_spec r) as H3. pose proof (span_ws_length r) as L3.
  destruct (span_ws r) as [sp r']. cbn [snd] in L3. destruct H3 as [-> Hsp].
  cbn [map List.concat]. rewrite IH.
  - rewrite E2, !nws_app. rewrite <- app_assoc. reflexivity.
  - rewrite app_length in *. lia.
Qed.

Theorem split_words_nws text : List.concat (map nws (split_words text)) = nws text.
Proof. unfold split_words. apply split_words_aux_nws. lia. Qed.

(* ---- escaping commutes with dropping whitespace ---- *)
Lemma specials_not_space : forallb (fun c => negb (py_isspace c)) [38; 60; 62; 34; 39] = true.
Proof. vm_compute. reflexivity. Qed.

Lemma escape_char_space quote c : py_isspace c = true -> escape_char quote c = [c].
Proof.
  intros H. pose proof specials_not_space as T. cbn [forallb] in T.
  unfold escape_char.
  destruct (N.eqb_spec c 38) as [->|_]; [rewrite H in T; discriminate|].
  destruct (N.eqb_spec c 60) as [->|_]; [rewrite H in T; cbn in T; rewrite ?andb_false_r in T; discriminate|].
  destruct (N.eqb_spec c 62) as [->|_]; [rewrite H in T; cbn in T; rewrite ?andb_false_r in T; discriminate|].
  destruct (N.eqb_spec c 34) as [->|_]; [rewrite H in T; cbn in T; rewrite ?andb_false_r in T; discriminate|].
  destruct (N.eqb_spec c 39) as [->|_]; [rewrite H in T; cbn in T; rewrite ?andb_false_r in T; discriminate|].
  rewrite !andb_false_r. reflexivity.
Qed.

Lemma entities_no_space : forallb (fun e => forallb (fun c => negb (py_isspace c)) e) [e_amp; e_lt; e_gt; e_quot; e_apos] = true.
Proof. vm_compute. reflexivity. Qed.

Lemma escape_char_nonspace quote c : py_isspace c = false -> nws (escape_char quote c) = escape_char quote c.
Proof.
  intros H. pose proof entities_no_space as T. cbn [forallb] in T.
  repeat (apply andb_prop in T as [?T T]).
  assert (F : forall e, forallb (fun c => negb (py_isspace c)) e = true -> nws e = e).
  { intros e He. unfold nws. induction e as [|x e IH]; [reflexivity|]. cbn [forallb filter] in *. apply andb_prop in He as [Hx He]. rewrite Hx, (IH He). reflexivity. }
  unfold escape_char.
  destruct (N.eqb c 38); [apply F; assumption|].
  destruct (N.eqb c 60); [apply F; assumption|].
  destruct (N.eqb c 62); [apply F; assumption|].
  destruct (quote && N.eqb c 34); [apply F; assumption|].
  destruct (quote && N.eqb c 39); [apply F; assumption|].
  cbn [nws filter]. rewrite H. reflexivity.
Qed.

Theorem nws_escape quote s : nws (html_escape quote s) = html_escape quote (nws s).
Proof.
  induction s as [|c s IH]; [reflexivity|]. rewrite html_escape_cons, nws_app, IH. cbn [nws filter].
  destruct (py_isspace c) eqn:E; cbn [negb].
  - rewrite (escape_char_space quote c E). cbn [nws filter]. rewrite E. reflexivity.
  - rewrite (escape_char_nonspace quote c E). fold (nws s). rewrite html_escape_cons. reflexivity.
Qed.

(* escaping is injective: two texts have the same escaped non-whitespace characters iff they have the same non-whitespace characters *)
Theorem escaped_text_faithful quote s t : nws (html_escape quote s) = nws (html_escape quote t) <-> nws s = nws t.
Proof.
  rewrite !nws_escape. split; [|intros ->; reflexivity]. intros H.
  rewrite <- (unescape_escape quote (nws s) _ (le_n _)), <- (unescape_escape quote (nws t) (List.length (html_escape quote (nws s)))).
  - rewrite H. reflexivity.
  - rewrite H. apply le_n.
Qed.

(* ---- the text of a page ---- *)
(* in document order: the non-whitespace characters of every text and tail (escaped spelling), every opaque
   element (script, style, svg, select, ... with its tail) as one atom *)
Definition text_e (t : str) : str := nws (html_escape true t).

Fixpoint el_text_e (e : el) : str :=
  match e with
  | El tag attrs text children tail source =>
      if mem_str tag Tables.undiffable_content_tags && negb (str_eqb tag (s2l "img")) then nws source
      else text_e text ++ List.concat (map el_text_e children) ++ text_e tail
  end.

Definition page_text_e (root : el) : str :=
  match root with
  | El tag attrs text children tail source => text_e text ++ List.concat (map el_text_e children)
  end.

(* what the token sequence says about text: the non-whitespace characters of the word and opaque entries *)
Definition vis_text (l : list (nat * str)) : str :=
  List.concat (map (fun p => match fst p with O => nws (snd p) | _ => [] end) l).

Lemma vis_text_app a b : vis_text (a ++ b) = vis_text a ++ vis_text b.
Proof. unfold vis_text. rewrite map_app, concat_app. reflexivity. Qed.

Lemma vis_text_word x : vis_text (chunk_vis (CWord x)) = nws x.
Proof.
  cbn [chunk_vis]. change (fst (split_trailing_ws x)) with (py_rstrip x).
  rewrite <- (nws_rstrip x). destruct (py_rstrip x) as [|c r]; [reflexivity|].
  unfold vis_text. cbn [map fst snd List.concat]. apply app_nil_r.
Qed.

Lemma html_escape_app q a b : html_escape q (a ++ b) = html_escape q a ++ html_escape q b.
Proof. unfold html_escape. apply flat_map_app. Qed.

Lemma vis_text_words text : vis_text (flat_map chunk_vis (word_chunks text)) = text_e text.
Proof.
  unfold text_e, word_chunks. rewrite nws_escape, <- (split_words_nws text).
  induction (split_words text) as [|w ws IH]; [reflexivity|].
  cbn [map flat_map List.concat]. rewrite vis_text_app, IH, vis_text_word, nws_escape, html_escape_app. reflexivity.
Qed.

Lemma vis_text_href tag (attrs : list (str * str)) :
  vis_text (flat_map chunk_vis (match str_eqb tag [97], assoc_str (s2l "href") attrs with
                                | true, Some ((_ :: _) as h) => [CHref h]
                                | _, _ => []
                                end)) = [].
Proof. destruct (str_eqb tag [97]); [|reflexivity]. destruct (assoc_str (s2l "href") attrs) as [[|x h]|]; reflexivity. Qed.

Lemma vis_text_kids children :
  Forall (fun c => vis_text (flat_map chunk_vis (flatten_el c)) = el_text_e c) children ->
  vis_text (flat_map chunk_vis (List.concat (map flatten_el children))) = List.concat (map el_text_e children).
Proof.
  induction 1 as [|c cs Hc Hcs IH]; [reflexivity|].
  cbn [map List.concat]. rewrite flat_map_app, vis_text_app, Hc, IH. reflexivity.
Qed.

Theorem flatten_el_text e : vis_text (flat_map chunk_vis (flatten_el e)) = el_text_e e.
Proof.
  induction e as [tag attrs text children tail source IHc] using el_ind'. cbn [flatten_el el_text_e].
  destruct (mem_str tag undiffable_content_tags && negb (str_eqb tag (s2l "img"))).
  { cbn [flat_map chunk_vis app]. destruct source; [reflexivity|]. unfold vis_text. cbn [map fst snd List.concat]. apply app_nil_r. }
  set (e0 := El tag attrs text children tail source).
  assert (Hhead : flat_map chunk_vis (if str_eqb tag (s2l "img") then [CImg (img_srcs e0) (start_tag e0)] else [CStart (start_tag e0)]) = []).
  { destruct (str_eqb tag (s2l "img")); reflexivity. }
  assert (Hgen : vis_text (flat_map chunk_vis ((if str_eqb tag (s2l "img") then [CImg (img_srcs e0) (start_tag e0)] else [CStart (start_tag e0)]) ++
                    word_chunks text ++ List.concat (map flatten_el children) ++
                    match str_eqb tag [97], assoc_str (s2l "href") attrs with
                    | true, Some ((_ :: _) as h) => [CHref h] | _, _ => [] end ++
                    (if is_void tag then [] else [CEnd (end_tag e0)]) ++ word_chunks tail))
                 = text_e text ++ List.concat (map el_text_e children) ++ text_e tail).
  { rewrite !flat_map_app, Hhead. cbn [app]. rewrite !vis_text_app, vis_text_words, (vis_text_kids children IHc), vis_text_href, vis_text_words.
    destruct (is_void tag); cbn [flat_map chunk_vis app]; reflexivity. }
  destruct (is_void tag) eqn:Ev; destruct text; destruct children; destruct tail; try exact Hgen.
  rewrite Hhead. reflexivity.
Qed.

Theorem page_text_is_carried root : vis_text (page_vis root) = page_text_e root.
Proof.
  destruct root as [tag attrs text children tail source]. unfold page_vis. cbn [flatten_root page_text_e].
  rewrite !flat_map_app, !vis_text_app, vis_text_words, vis_text_href, app_nil_r. f_equal.
  apply vis_text_kids. apply Forall_forall. intros c _. apply flatten_el_text.
Qed.

(* For all element trees and every spacer cap, rules off: if no change is reported the two pages have the same
   text; so two pages whose text differs in any non-whitespace character report a change. *)
Theorem no_change_same_text old_root new_root cap :
  change_count (count_changes (token_opcodes None (prepare old_root cap) (prepare new_root cap))) = 0%nat ->
  page_text_e old_root = page_text_e new_root.
Proof.
  intros H. rewrite <- !page_text_is_carried. f_equal. apply (no_change_same_page_content _ _ cap H).
Qed.

Theorem text_change_is_reported old_root new_root cap :
  page_text_e old_root <> page_text_e new_root ->
  (0 < change_count (count_changes (token_opcodes None (prepare old_root cap) (prepare new_root cap))))%nat.
Proof.
  intros H. destruct (change_count _) eqn:E; [|lia]. exfalso. apply H. apply (no_change_same_text _ _ cap E).
Qed.

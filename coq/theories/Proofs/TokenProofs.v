(* Conservation lemmas for the tokenising half (properties C01, C03, C09): the flat chunk
   sequence of a token list (pre tags, html + trailing whitespace, post tags) is unchanged by
   _customize_tokens and, for every cap, by _limit_spacers; fixup_chunks turns the chunk stream
   of flatten_el into tokens with the same flat sequence; text chunks never contain '<' or '>'. *)
From Coq Require Import List NArith Arith Bool String Lia.
From WMD Require Import Gen.Tables Lib.Str Lib.PyChars Lib.Escape Model.RenderTokens Model.RenderMerge Model.RenderLabelled
     Proofs.EscapeProofs.
Import ListNotations.
Open Scope N_scope.

Definition ne (l : list str) : list str := filter (fun s => match s with [] => false | _ => true end) l.
Definition flat (ts : list token) : list str := flat_map (expand_token false) ts.
Definition flat_ne (ts : list token) : list str := ne (flat ts).

Lemma ne_app a b : ne (a ++ b) = ne a ++ ne b.
Proof. unfold ne. apply filter_app. Qed.

Lemma flat_app a b : flat (a ++ b) = flat a ++ flat b.
Proof. unfold flat. apply flat_map_app. Qed.

Lemma flat_ne_app a b : flat_ne (a ++ b) = flat_ne a ++ flat_ne b.
Proof. unfold flat_ne. rewrite flat_app, ne_app. reflexivity. Qed.

Lemma flat_ne_cons t l : flat_ne (t :: l) = ne (expand_token false t) ++ flat_ne l.
Proof. unfold flat_ne, flat. cbn [flat_map]. apply ne_app. Qed.

Lemma flat_ne_nil_l : flat_ne [] = [].
Proof. reflexivity. Qed.

Lemma expand_false t : expand_token false t = t_pre t ++ [t_html t ++ t_trail t] ++ t_post t.
Proof. reflexivity. Qed.

(* spacers (and only they, together with href sentinels) render as nothing themselves *)
Definition blank_spacer (t : token) : Prop := is_spacer t = true -> t_html t = [] /\ t_trail t = [].
Definition spacers_blank (l : list token) : Prop := Forall blank_spacer l.

Lemma ne_spacer t : is_spacer t = true -> blank_spacer t -> ne (expand_token false t) = ne (t_pre t ++ t_post t).
Proof.
  intros Hs Hb. destruct (Hb Hs) as [H1 H2]. rewrite expand_false, H1, H2. cbn [app].
  rewrite !ne_app. cbn [ne filter app]. reflexivity.
Qed.

Lemma ne_blank : ne [[] ++ []] = [].
Proof. reflexivity. Qed.

Lemma flat_ne_blank_token k text pre post : flat_ne [mk_token k text [] pre post []] = ne (pre ++ post).
Proof.
  rewrite (flat_ne_cons _ []), flat_ne_nil_l, app_nil_r, expand_false.
  cbn [mk_token t_pre t_html t_trail t_post]. rewrite !ne_app, ne_blank. reflexivity.
Qed.

(* ------------------------------------------------------------------ _limit_spacers, for every cap *)
Lemma limit_aux_conserves : forall l budget dropped res,
  spacers_blank l ->
  flat_ne (limit_aux l budget dropped res) = flat_ne (rev res) ++ ne dropped ++ flat_ne l.
Proof.
  induction l as [|t l IH]; intros budget dropped res Hb; cbn [limit_aux].
  - unfold flat_ne at 3. cbn [flat flat_map ne filter]. rewrite app_nil_r.
    destruct dropped as [|d ds].
    + cbn [ne filter]. rewrite app_nil_r. reflexivity.
    + destruct res as [|last rest].
      * cbn [rev]. rewrite flat_ne_nil_l, flat_ne_blank_token, app_nil_r. reflexivity.
      * cbn [rev]. rewrite !flat_ne_app, <- app_assoc. f_equal.
        rewrite (flat_ne_cons _ []), (flat_ne_cons last []), flat_ne_nil_l, !app_nil_r, !expand_false.
        cbn [set_post t_pre t_html t_trail t_post]. rewrite !ne_app, <- !app_assoc. reflexivity.
  - inversion Hb as [|? ? Ht Hl]; subst.
    destruct (is_spacer t && N.eqb budget 0) eqn:E.
    + apply andb_true_iff in E as [Es _].
      rewrite (IH _ _ _ Hl). rewrite flat_ne_cons, (ne_spacer t Es Ht), !ne_app, <- !app_assoc. reflexivity.
    + rewrite (IH _ _ _ Hl). cbn [rev]. rewrite flat_ne_app, (flat_ne_cons t l). change (ne []) with (@nil str). cbn [app].
      rewrite <- !app_assoc. f_equal.
      destruct dropped as [|d ds].
      * rewrite (flat_ne_cons t []), flat_ne_nil_l, app_nil_r. reflexivity.
      * rewrite (flat_ne_cons _ []), flat_ne_nil_l, app_nil_r, !expand_false.
        cbn [set_pre t_pre t_html t_trail t_post]. rewrite !ne_app, <- !app_assoc. reflexivity.
Qed.

Theorem limit_conserves l cap : spacers_blank l -> flat_ne (limit_spacers l cap) = flat_ne l.
Proof. intros H. unfold limit_spacers. rewrite (limit_aux_conserves l cap [] [] H). reflexivity. Qed.

(* ------------------------------------------------------------------ _customize_tokens *)
Lemma span_closing_app l : let (a, r) := span_closing l in l = a ++ r.
Proof.
  induction l as [|t l IH]; cbn [span_closing]; [reflexivity|].
  destruct (is_closing t); [|reflexivity]. destruct (span_closing l) as [a r]. cbn [app]. rewrite IH. reflexivity.
Qed.

Lemma rebalance_pair_conserves p t :
  let (p', t') := rebalance_pair p t in
  expand_token false p' ++ expand_token false t' = expand_token false p ++ expand_token false t.
Proof.
  unfold rebalance_pair.
  pose proof (span_closing_app (t_post p)) as H1. destruct (span_closing (t_post p)) as [closing rest].
  destruct rest as [|r0 rest].
  - pose proof (span_closing_app (t_pre t)) as H2. destruct (span_closing (t_pre t)) as [closing' rest'].
    rewrite !expand_false. cbn [set_post set_pre t_pre t_html t_trail t_post]. rewrite H2, <- !app_assoc. reflexivity.
  - rewrite !expand_false. cbn [set_post set_pre t_pre t_html t_trail t_post]. rewrite H1, <- !app_assoc. reflexivity.
Qed.

Lemma rebalance_tokens_conserves rest : forall p, flat (rebalance_tokens p rest) = flat (p :: rest).
Proof.
  induction rest as [|t rest IH]; intros p; cbn [rebalance_tokens]; [reflexivity|].
  pose proof (rebalance_pair_conserves p t) as H. destruct (rebalance_pair p t) as [p' t'].
  unfold flat in *. cbn [flat_map]. rewrite IH. cbn [flat_map]. rewrite !app_assoc, H. reflexivity.
Qed.

Lemma spacer_blank pre post : blank_spacer (spacer pre post) /\ blank_spacer (empty_spacer pre post).
Proof. split; intros _; split; reflexivity. Qed.

Lemma flat_ne_spacer pre post : flat_ne [spacer pre post] = ne (pre ++ post).
Proof.
  unfold flat_ne, flat. cbn [flat_map]. rewrite app_nil_r. apply ne_spacer; [reflexivity|apply spacer_blank].
Qed.
Lemma flat_ne_empty_spacer pre post : flat_ne [empty_spacer pre post] = ne (pre ++ post).
Proof.
  unfold flat_ne, flat. cbn [flat_map]. rewrite app_nil_r. apply ne_spacer; [reflexivity|apply spacer_blank].
Qed.

Lemma split_pre_conserves fuel : forall pre from,
  let (sp, fin) := split_pre fuel pre from in flat_ne sp ++ ne fin = ne pre /\ spacers_blank sp.
Proof.
  induction fuel as [|fuel IH]; intros pre from; cbn [split_pre].
  - split; [reflexivity|constructor].
  - destruct (find_sep pre 0 from) as [t|]; [|split; [reflexivity|constructor]].
    assert (B3 : spacers_blank [spacer (firstn t pre) []; spacer [] []; spacer [] []]).
    { repeat constructor; apply spacer_blank. }
    assert (F3 : flat_ne [spacer (firstn t pre) []; spacer [] []; spacer [] []] = ne (firstn t pre)).
    { change [spacer (firstn t pre) []; spacer [] []; spacer [] []] with
        ([spacer (firstn t pre) []] ++ [spacer [] []] ++ [spacer [] []]).
      rewrite !flat_ne_app, !flat_ne_spacer. cbn [app ne filter]. rewrite !app_nil_r. reflexivity. }
    destruct (Nat.ltb 1 (List.length (skipn t pre))).
    + specialize (IH (skipn t pre) 1%nat). destruct (split_pre fuel (skipn t pre) 1) as [more final].
      destruct IH as [IH1 IH2]. split.
      * rewrite flat_ne_app, F3, <- app_assoc, IH1, <- ne_app, firstn_skipn. reflexivity.
      * apply Forall_app. split; assumption.
    + split; [|exact B3]. rewrite F3, <- ne_app, firstn_skipn. reflexivity.
Qed.

Lemma flat_ne_nil : flat_ne [] = [].
Proof. reflexivity. Qed.

(* one token through phase 2: the spacers emitted carry exactly the tags taken from the token *)
Lemma customize_one_conserves all i tok :
  flat_ne (customize_one all i tok) = flat_ne [tok] /\
  (blank_spacer tok -> spacers_blank (customize_one all i tok)).
Proof.
  unfold customize_one.
  (* pre tags *)
  assert (P1 : let (sp1, pre1) := match t_pre tok with [] => ([], []) | p => split_pre (S (List.length p)) p 0 end in
               flat_ne sp1 ++ ne pre1 = ne (t_pre tok) /\ spacers_blank sp1).
  { destruct (t_pre tok) as [|p0 pr] eqn:Ep; [split; [reflexivity|constructor]|]. apply split_pre_conserves. }
  destruct (match t_pre tok with [] => ([], []) | p => split_pre (S (List.length p)) p 0 end) as [sp1 pre1].
  destruct P1 as [P1 B1].
  assert (P2 : let '(sp2, pre2) := match find_empty_link pre1 0 with
                                   | Some k => ([empty_spacer (firstn k pre1) (skipn k pre1)], [])
                                   | None => ([], pre1) end in
               flat_ne sp2 ++ ne pre2 = ne pre1 /\ spacers_blank sp2).
  { destruct (find_empty_link pre1 0) as [k|].
    - split; [rewrite flat_ne_empty_spacer, firstn_skipn; cbn [ne filter]; apply app_nil_r|repeat constructor; apply spacer_blank].
    - split; [reflexivity|constructor]. }
  destruct (match find_empty_link pre1 0 with
            | Some k => ([empty_spacer (firstn k pre1) (skipn k pre1)], [])
            | None => ([], pre1) end) as [sp2 pre2].
  destruct P2 as [P2 B2].
  set (tok1 := set_pre tok pre2).
  set (post3 := t_post tok1).
  assert (P4 : let '(sp4, post4) := match find_sep_post post3 0 with
                                    | Some k => ([spacer [] (skipn k post3); spacer [] []; spacer [] []], firstn k post3)
                                    | None => ([], post3) end in
               ne post4 ++ flat_ne sp4 = ne post3 /\ spacers_blank sp4).
  { destruct (find_sep_post post3 0) as [k|].
    - split; [|repeat constructor; apply spacer_blank].
      change [spacer [] (skipn k post3); spacer [] []; spacer [] []] with ([spacer [] (skipn k post3)] ++ [spacer [] []] ++ [spacer [] []]).
      rewrite !flat_ne_app, !flat_ne_spacer. cbn [app ne filter]. rewrite !app_nil_r, <- ne_app, firstn_skipn. reflexivity.
    - split; [rewrite flat_ne_nil, app_nil_r; reflexivity|constructor]. }
  destruct (match find_sep_post post3 0 with
            | Some k => ([spacer [] (skipn k post3); spacer [] []; spacer [] []], firstn k post3)
            | None => ([], post3) end) as [sp4 post4].
  destruct P4 as [P4 B4].
  split.
  - rewrite !flat_ne_app. rewrite (flat_ne_cons (set_post tok1 post4) []), flat_ne_nil, app_nil_r.
    rewrite (flat_ne_cons tok []), flat_ne_nil, app_nil_r.
    rewrite !expand_false. cbn [set_post set_pre tok1 t_pre t_html t_trail t_post]. rewrite !ne_app.
    rewrite <- P1, <- P2. change (t_post tok) with post3. rewrite <- P4, <- !app_assoc. reflexivity.
  - intros Hb. apply Forall_app. split; [exact B1|]. apply Forall_app. split; [exact B2|].
    constructor; [|exact B4].
    intros Hs. apply Hb. exact Hs.
Qed.

Lemma customize_all_conserves all : forall l i,
  flat_ne (customize_all all i l) = flat_ne l /\ (spacers_blank l -> spacers_blank (customize_all all i l)).
Proof.
  induction l as [|t l IH]; intros i; cbn [customize_all]; [split; [reflexivity|intros _; constructor]|].
  destruct (customize_one_conserves all i t) as [C1 C2]. destruct (IH (S i)) as [I1 I2]. split.
  - rewrite flat_ne_app, C1, I1. rewrite (flat_ne_cons t l), (flat_ne_cons t []), flat_ne_nil, app_nil_r. reflexivity.
  - intros Hb. inversion Hb; subst. apply Forall_app. split; [apply C2; assumption|apply I2; assumption].
Qed.

Lemma rebalance_pair_kinds p t : let (p', t') := rebalance_pair p t in
  (is_spacer p' = is_spacer p /\ t_html p' = t_html p /\ t_trail p' = t_trail p) /\
  (is_spacer t' = is_spacer t /\ t_html t' = t_html t /\ t_trail t' = t_trail t).
Proof.
  unfold rebalance_pair. destruct (span_closing (t_post p)) as [closing rest]. destruct rest.
  - destruct (span_closing (t_pre t)). repeat split.
  - repeat split.
Qed.

Lemma rebalance_tokens_blank rest : forall p, spacers_blank (p :: rest) -> spacers_blank (rebalance_tokens p rest).
Proof.
  induction rest as [|t rest IH]; intros p H; cbn [rebalance_tokens]; [exact H|].
  inversion H as [|? ? Hp Hr]; subst. inversion Hr as [|? ? Ht Hrest]; subst.
  pose proof (rebalance_pair_kinds p t) as K. destruct (rebalance_pair p t) as [p' t'].
  destruct K as [(K1 & K2 & K3) (K4 & K5 & K6)].
  constructor.
  - unfold blank_spacer in *. rewrite K1, K2, K3. exact Hp.
  - apply IH. constructor; [|exact Hrest]. unfold blank_spacer in *. rewrite K4, K5, K6. exact Ht.
Qed.

Theorem customize_conserves tokens :
  flat_ne (customize_tokens tokens) = flat_ne tokens /\
  (spacers_blank tokens -> spacers_blank (customize_tokens tokens)).
Proof.
  destruct tokens as [|t rest]; [split; [reflexivity|intros _; constructor]|].
  unfold customize_tokens.
  destruct (customize_all_conserves (rebalance_tokens t rest) (rebalance_tokens t rest) 0%nat) as [C1 C2]. split.
  - rewrite C1. unfold flat_ne. rewrite rebalance_tokens_conserves. reflexivity.
  - intros Hb. apply C2, rebalance_tokens_blank, Hb.
Qed.

(* ------------------------------------------------------------------ fixup_chunks *)
Lemma lstrip_skipn ws s : exists k, lstrip ws s = skipn k s /\ (k <= List.length s)%nat.
Proof.
  induction s as [|c s [k [Hk Hl]]]; cbn [lstrip].
  - exists 0%nat. split; [reflexivity|cbn; lia].
  - destruct (ws c).
    + exists (S k). split; [exact Hk|cbn; lia].
    + exists 0%nat. split; [reflexivity|cbn; lia].
Qed.

Lemma split_trailing_ws_app w : let (body, trail) := split_trailing_ws w in body ++ trail = w.
Proof.
  unfold split_trailing_ws, py_rstrip, rstrip.
  destruct (lstrip_skipn py_isspace (rev w)) as [k [Hk Hl]]. rewrite Hk, skipn_rev, rev_involutive.
  rewrite firstn_length, rev_length in *. rewrite Nat.min_l by lia. apply firstn_skipn.
Qed.

Definition no_spacers (l : list token) : Prop := Forall (fun t => is_spacer t = false) l.

Lemma no_spacers_blank l : no_spacers l -> spacers_blank l.
Proof. intros H. eapply Forall_impl; [|exact H]. intros t Ht Hs. congruence. Qed.

Lemma fixup_aux_conserves : forall cs acc res,
  (acc <> [] \/ res <> []) ->
  flat_ne (fixup_aux cs acc res) = flat_ne (rev res) ++ ne acc ++ ne (map chunk_str cs).
Proof.
  induction cs as [|c cs IH]; intros acc res Hne; cbn [fixup_aux map].
  - cbn [ne filter]. rewrite app_nil_r. destruct res as [|last rest].
    + cbn [rev]. rewrite flat_ne_blank_token, app_nil_r, flat_ne_nil_l. reflexivity.
    + cbn [rev]. rewrite !flat_ne_app, <- app_assoc. f_equal.
      rewrite (flat_ne_cons _ []), (flat_ne_cons last []), flat_ne_nil_l, !app_nil_r, !expand_false.
      cbn [set_post t_pre t_html t_trail t_post]. rewrite !ne_app, <- !app_assoc. reflexivity.
  - assert (Tok : forall k text html trail, html ++ trail = chunk_str c ->
              flat_ne (fixup_aux cs [] (mk_token k text html acc [] trail :: res)) =
              flat_ne (rev res) ++ ne acc ++ ne (chunk_str c :: map chunk_str cs)).
    { intros k text html trail E. rewrite IH by (right; discriminate). cbn [rev]. rewrite flat_ne_app.
      rewrite (flat_ne_cons _ []), flat_ne_nil_l, app_nil_r, expand_false.
      cbn [mk_token t_pre t_html t_trail t_post]. rewrite E, !ne_app. change (ne []) with (@nil str).
      cbn [app]. rewrite app_nil_r, <- !app_assoc.
      change (chunk_str c :: map chunk_str cs) with ([chunk_str c] ++ map chunk_str cs). rewrite ne_app. reflexivity. }
    change (ne (chunk_str c :: map chunk_str cs)) with (ne ([chunk_str c] ++ map chunk_str cs)).
    destruct c as [srcs html|s|s|s|w|h].
    + pose proof (split_trailing_ws_app html) as E. destruct (split_trailing_ws html) as [tag trail]. apply Tok. exact E.
    + apply Tok. apply app_nil_r.
    + rewrite IH by (left; destruct acc; discriminate). rewrite !ne_app, <- !app_assoc. reflexivity.
    + destruct acc as [|a0 acc'].
      * destruct res as [|last rest]; [destruct Hne as [H|H]; congruence|].
        rewrite IH by (right; discriminate). cbn [rev]. rewrite !flat_ne_app, <- !app_assoc. f_equal.
        rewrite (flat_ne_cons _ []), (flat_ne_cons last []), flat_ne_nil_l, !app_nil_r, !expand_false.
        cbn [set_post t_pre t_html t_trail t_post]. rewrite !ne_app. change (ne []) with (@nil str). cbn [app].
        rewrite <- !app_assoc. reflexivity.
      * rewrite IH by (left; discriminate). rewrite !ne_app, <- !app_assoc. reflexivity.
    + pose proof (split_trailing_ws_app w) as E. destruct (split_trailing_ws w) as [body trail]. apply Tok. exact E.
    + apply Tok. reflexivity.
Qed.

Definition starts_with_end (cs : list chunk) : bool := match cs with CEnd _ :: _ => true | _ => false end.

Theorem fixup_conserves cs :
  starts_with_end cs = false -> flat_ne (fixup_chunks cs) = ne (map chunk_str cs).
Proof.
  unfold fixup_chunks. intros H. destruct cs as [|c cs]; [reflexivity|].
  assert (Tok : forall k text html trail, html ++ trail = chunk_str c ->
            flat_ne (fixup_aux cs [] [mk_token k text html [] [] trail]) = ne (map chunk_str (c :: cs))).
  { intros k text html trail E. rewrite fixup_aux_conserves by (right; discriminate). cbn [rev app].
    rewrite (flat_ne_cons _ []), flat_ne_nil_l, app_nil_r, expand_false.
    cbn [mk_token t_pre t_html t_trail t_post map]. rewrite E. change (ne []) with (@nil str). cbn [app].
    change (chunk_str c :: map chunk_str cs) with ([chunk_str c] ++ map chunk_str cs). rewrite ?ne_app. reflexivity. }
  destruct c as [srcs html|s|s|s|w|h]; cbn [fixup_aux]; try discriminate.
  - pose proof (split_trailing_ws_app html) as E. destruct (split_trailing_ws html) as [tag trail]. apply Tok. exact E.
  - apply Tok. apply app_nil_r.
  - rewrite fixup_aux_conserves by (left; discriminate). cbn [rev]. rewrite flat_ne_nil_l. cbn [app map chunk_str].
    change (s :: map chunk_str cs) with ([s] ++ map chunk_str cs). rewrite (ne_app [s]). reflexivity.
  - pose proof (split_trailing_ws_app w) as E. destruct (split_trailing_ws w) as [body trail]. apply Tok. exact E.
  - apply Tok. reflexivity.
Qed.

(* fixup never makes spacer tokens *)
Lemma fixup_aux_no_spacers : forall cs acc res, no_spacers res -> no_spacers (fixup_aux cs acc res).
Proof.
  induction cs as [|c cs IH]; intros acc res H; cbn [fixup_aux].
  - destruct res as [|last rest]; [repeat constructor|].
    inversion H; subst. apply Forall_rev. constructor; assumption.
  - destruct c as [srcs html|s|s|s|w|h].
    + destruct (split_trailing_ws html). apply IH. constructor; [reflexivity|exact H].
    + apply IH. constructor; [reflexivity|exact H].
    + apply IH, H.
    + destruct acc; [|apply IH, H]. destruct res as [|last rest]; [apply IH, H|].
      inversion H; subst. apply IH. constructor; assumption.
    + destruct (split_trailing_ws w). apply IH. constructor; [reflexivity|exact H].
    + apply IH. constructor; [reflexivity|exact H].
Qed.

(* flatten_root never starts with an end tag *)
Lemma flatten_el_head e : match flatten_el e with [] => False | CEnd _ :: _ => False | _ => True end.
Proof.
  destruct e as [tag attrs text children tail source]. cbn [flatten_el].
  destruct (mem_str tag undiffable_content_tags && negb (str_eqb tag (s2l "img"))); [exact I|].
  destruct (str_eqb tag (s2l "img")); destruct (is_void tag); destruct text; destruct children; destruct tail; exact I.
Qed.

Lemma flatten_root_head e : starts_with_end (flatten_root e) = false.
Proof.
  destruct e as [tag attrs text children tail source]. cbn [flatten_root].
  unfold word_chunks. destruct (split_words text) as [|w ws]; [|reflexivity]. cbn [map app].
  destruct children as [|c cs].
  - cbn [map List.concat app]. destruct (str_eqb tag [97]); [|reflexivity].
    destruct (assoc_str (s2l "href") attrs) as [[|x h]|]; reflexivity.
  - cbn [map List.concat]. pose proof (flatten_el_head c) as Hc.
    destruct (flatten_el c) as [|c0 r]; [destruct Hc|]. destruct c0; try reflexivity. destruct Hc.
Qed.

(* the whole tokenising pipeline conserves the serialisation of the tree, for every spacer cap *)
Theorem prepare_conserves root cap :
  flat_ne (prepare root cap) = ne (map chunk_str (flatten_root root)).
Proof.
  unfold prepare, tokenize.
  assert (Hns : no_spacers (fixup_chunks (flatten_root root))) by (apply fixup_aux_no_spacers; constructor).
  destruct (customize_conserves (fixup_chunks (flatten_root root))) as [C1 C2].
  rewrite limit_conserves by (apply C2, no_spacers_blank, Hns).
  rewrite C1. apply fixup_conserves, flatten_root_head.
Qed.

(* ------------------------------------------------------------------ text stays text *)
Definition word_ok (c : chunk) : Prop :=
  match c with CWord s => ~ In 60 s /\ ~ In 62 s | _ => True end.

Lemma word_chunks_ok text : Forall word_ok (word_chunks text).
Proof.
  unfold word_chunks. apply Forall_forall. intros c Hc. apply in_map_iff in Hc as [w [<- _]].
  apply escape_no_angle.
Qed.

Section ElInd.
  Variable P : el -> Prop.
  Hypothesis H : forall tag attrs text children tail source,
      Forall P children -> P (El tag attrs text children tail source).
  Fixpoint el_ind' (e : el) : P e :=
    match e with
    | El tag attrs text children tail source =>
        H tag attrs text children tail source
          ((fix go (l : list el) : Forall P l :=
              match l with
              | [] => Forall_nil P
              | y :: l' => Forall_cons y (el_ind' y) (go l')
              end) children)
    end.
End ElInd.

Lemma Forall_concat {A} (Q : A -> Prop) (ls : list (list A)) :
  Forall (Forall Q) ls -> Forall Q (List.concat ls).
Proof. induction 1 as [|l ls Hl Hls IH]; cbn [List.concat]; [constructor|apply Forall_app; split; assumption]. Qed.

Theorem flatten_el_words_ok e : Forall word_ok (flatten_el e).
Proof.
  induction e as [tag attrs text children tail source IHc] using el_ind'. cbn [flatten_el].
  destruct (mem_str tag undiffable_content_tags && negb (str_eqb tag (s2l "img"))); [repeat constructor|].
  assert (Hhead : Forall word_ok (if str_eqb tag (s2l "img")
                                  then [CImg (img_srcs (El tag attrs text children tail source)) (start_tag (El tag attrs text children tail source))]
                                  else [CStart (start_tag (El tag attrs text children tail source))])).
  { destruct (str_eqb tag (s2l "img")); repeat constructor. }
  assert (Hkids : Forall word_ok (List.concat (map flatten_el children))).
  { apply Forall_concat. apply Forall_forall. intros l Hl. apply in_map_iff in Hl as [c [<- Hc]].
    rewrite Forall_forall in IHc. apply IHc, Hc. }
  assert (Hrest : Forall word_ok
            (word_chunks text ++ List.concat (map flatten_el children) ++
             match str_eqb tag [97], assoc_str (s2l "href") attrs with
             | true, Some ((_ :: _) as h) => [CHref h] | _, _ => [] end ++
             (if is_void tag then [] else [CEnd (end_tag (El tag attrs text children tail source))]) ++ word_chunks tail)).
  { apply Forall_app. split; [apply word_chunks_ok|]. apply Forall_app. split; [exact Hkids|].
    apply Forall_app. split.
    - destruct (str_eqb tag [97]); [|constructor]. destruct (assoc_str (s2l "href") attrs) as [[|x h]|]; repeat constructor.
    - apply Forall_app. split; [destruct (is_void tag); repeat constructor|apply word_chunks_ok]. }
  destruct (is_void tag); destruct text; destruct children; destruct tail;
    first [exact Hhead | apply Forall_app; split; [exact Hhead|exact Hrest]].
Qed.

Theorem flatten_root_words_ok e : Forall word_ok (flatten_root e).
Proof.
  destruct e as [tag attrs text children tail source]. cbn [flatten_root].
  apply Forall_app. split; [apply word_chunks_ok|]. apply Forall_app. split.
  - apply Forall_concat. apply Forall_forall. intros l Hl. apply in_map_iff in Hl as [c [<- Hc]]. apply flatten_el_words_ok.
  - destruct (str_eqb tag [97]); [|constructor]. destruct (assoc_str (s2l "href") attrs) as [[|x h]|]; repeat constructor.
Qed.

(* a chunk without '<' is never classified as a tag by the marker state machines *)
Lemma no_lt_not_tag s : ~ In 60 s -> starts_lt s = false.
Proof. destruct s as [|c s]; [reflexivity|]. cbn [starts_lt]. intros H. destruct (N.eqb_spec c 60) as [->|Hne].
  - exfalso. apply H. left. reflexivity.
  - destruct c as [|p]; [reflexivity|]. destruct (N.eq_dec (N.pos p) 60) as [E|NE]; [contradiction|].
    unfold starts_lt. destruct p as [p|p|]; try reflexivity;
      repeat (destruct p as [p|p|]; try reflexivity); congruence.
Qed.

(* URL comparison rules (C16) and detection (C03) at token level.
   - each comparator ignores exactly the part it names (timestamp / session id), for every URL of
     the documented shape;  the compound comparator keeps the effect of each member;
   - two token lists that are ==-aligned under the rules and whose rewritten positions hold URLs
     that occur nowhere on the other side always give zero changes;
   - no change reported  =>  the lists are pairwise equal (so a differing link target or word is
     always reported when rules are off). *)
From Coq Require Import List NArith Arith Bool Lia String.
From WMD Require Import Gen.Tables Lib.Str Lib.PyChars Lib.Difflib Model.RenderTokens Model.RenderMerge
     Proofs.DifflibProofs Proofs.DifflibSound.
Import ListNotations.
Open Scope N_scope.

(* ------------------------------------------------------------------ Wayback comparators *)
Definition all_digit (d : str) : Prop := Forall (fun c => re_digit c = true) d.
Definition no_digit (s : str) : Prop := Forall (fun c => re_digit c = false) s.

Lemma all_digits_app : forall d R, all_digit d -> all_digits (List.length d) (d ++ R) = Some R.
Proof.
  induction d as [|c d IH]; intros R H; cbn [List.length all_digits app]; [reflexivity|].
  inversion H as [|? ? Hc Hd]; subst. rewrite Hc. apply IH, Hd.
Qed.

Lemma wayback_tail_digits mods d1 d2 R :
  List.length d1 = 14%nat -> List.length d2 = 14%nat -> all_digit d1 -> all_digit d2 ->
  wayback_tail mods (d1 ++ R) = wayback_tail mods (d2 ++ R).
Proof.
  intros L1 L2 H1 H2. unfold wayback_tail.
  rewrite <- L1 at 1. rewrite (all_digits_app d1 R H1).
  rewrite <- L2 at 1. rewrite (all_digits_app d2 R H2). reflexivity.
Qed.

Lemma drop_prefix_app p : forall r, drop_prefix p (p ++ r) = Some r.
Proof. induction p as [|x p IH]; intros r; cbn [drop_prefix app]; [reflexivity|]. rewrite N.eqb_refl. apply IH. Qed.

Lemma drop_prefix_nondigit_head p : forall Q Y r,
  (List.length p < List.length Q)%nat -> no_digit Q -> drop_prefix p (Q ++ Y) = Some r ->
  exists c r', r = c :: r' /\ re_digit c = false.
Proof.
  induction p as [|x p IH]; intros Q Y r HL HQ E.
  - cbn [drop_prefix] in E. injection E as <-. destruct Q as [|c Q]; [cbn in HL; lia|].
    inversion HQ; subst. exists c, (Q ++ Y). split; [reflexivity|assumption].
  - destruct Q as [|y Q]; [cbn in HL; lia|]. cbn [app drop_prefix] in E.
    destruct (N.eqb x y); [|discriminate E].
    inversion HQ; subst. apply (IH Q Y r); [cbn in HL; lia|assumption|exact E].
Qed.

Lemma wayback_tail_nondigit mods c r : re_digit c = false -> wayback_tail mods (c :: r) = None.
Proof. intros H. unfold wayback_tail. cbn [all_digits]. rewrite H. reflexivity. Qed.

(* the search skips a digit-free stretch in front of the literal prefix *)
Lemma search_skip prefix mods : forall P fuel X,
  no_digit (P ++ prefix) ->
  search_tail (List.length P + fuel) prefix mods (P ++ prefix ++ X) = search_tail fuel prefix mods (prefix ++ X).
Proof.
  induction P as [|c P IH]; intros fuel X H; [reflexivity|].
  cbn [List.length Nat.add search_tail].
  destruct (drop_prefix prefix ((c :: P) ++ prefix ++ X)) as [r|] eqn:E.
  - rewrite app_assoc in E.
    destruct (drop_prefix_nondigit_head prefix ((c :: P) ++ prefix) X r) as (c' & r' & -> & Hc); try assumption.
    { rewrite app_length. cbn [List.length]. lia. }
    rewrite (wayback_tail_nondigit mods c' r' Hc). cbn [app]. apply IH. inversion H; assumption.
  - cbn [app]. apply IH. inversion H; assumption.
Qed.

Lemma search_at prefix mods P Z y :
  no_digit (P ++ prefix) -> wayback_tail mods Z = Some y ->
  search_tail (S (List.length (P ++ prefix ++ Z))) prefix mods (P ++ prefix ++ Z) = Some y.
Proof.
  intros H Hy. rewrite app_length.
  replace (S (List.length P + List.length (prefix ++ Z)))%nat with (List.length P + S (List.length (prefix ++ Z)))%nat by lia.
  rewrite search_skip by exact H. cbn [search_tail]. rewrite drop_prefix_app, Hy. reflexivity.
Qed.

(* two URLs that differ only in the 14-digit timestamp after the archive prefix compare equal *)
Theorem wayback_compare_ignores_timestamp prefix mods P d1 d2 R :
  no_digit (P ++ prefix) ->
  List.length d1 = 14%nat -> List.length d2 = 14%nat -> all_digit d1 -> all_digit d2 ->
  wayback_tail mods (d1 ++ R) <> None ->
  wayback_compare prefix mods (P ++ prefix ++ d1 ++ R) (P ++ prefix ++ d2 ++ R) = true.
Proof.
  intros HP L1 L2 H1 H2 Hm. unfold wayback_compare.
  destruct (wayback_tail mods (d1 ++ R)) as [y|] eqn:E; [|congruence].
  rewrite (search_at prefix mods P (d1 ++ R) y HP E).
  rewrite (wayback_tail_digits mods d1 d2 R L1 L2 H1 H2) in E.
  rewrite (search_at prefix mods P (d2 ++ R) y HP E). apply str_eqb_refl.
Qed.

Lemma no_digit_app P Q : no_digit P -> no_digit Q -> no_digit (P ++ Q).
Proof. intros H1 H2. apply Forall_app. split; assumption. Qed.

Lemma forallb_no_digit s : forallb (fun c => negb (re_digit c)) s = true -> no_digit s.
Proof.
  intros H. apply Forall_forall. intros c Hc. rewrite forallb_forall in H. specialize (H c Hc).
  destruct (re_digit c); [discriminate H|reflexivity].
Qed.

Theorem wayback_rule_ignores_timestamp P d1 d2 R :
  no_digit P -> List.length d1 = 14%nat -> List.length d2 = 14%nat -> all_digit d1 -> all_digit d2 ->
  wayback_tail [s2l "im_"; s2l "js_"; s2l "cs_"] (d1 ++ R) <> None ->
  rule_compare RWayback (P ++ s2l "web/" ++ d1 ++ R) (P ++ s2l "web/" ++ d2 ++ R) = true.
Proof.
  intros HP. unfold rule_compare. apply wayback_compare_ignores_timestamp.
  apply no_digit_app; [exact HP|]. apply forallb_no_digit. vm_compute. reflexivity.
Qed.

Theorem wayback_uk_rule_ignores_timestamp P d1 d2 R :
  no_digit P -> List.length d1 = 14%nat -> List.length d2 = 14%nat -> all_digit d1 -> all_digit d2 ->
  wayback_tail [s2l "mp_"; s2l "im_"] (d1 ++ R) <> None ->
  rule_compare RWaybackUk (P ++ s2l "https://www.webarchive.org.uk/wayback/en/archive/" ++ d1 ++ R)
                          (P ++ s2l "https://www.webarchive.org.uk/wayback/en/archive/" ++ d2 ++ R) = true.
Proof.
  intros HP. unfold rule_compare. apply wayback_compare_ignores_timestamp.
  apply no_digit_app; [exact HP|]. apply forallb_no_digit. vm_compute. reflexivity.
Qed.

(* the timestamp directly followed by "/" always matches *)
Lemma wayback_tail_slash mods d rest :
  List.length d = 14%nat -> all_digit d -> Forall (fun m => starts_with m (47 :: rest) = false) mods ->
  wayback_tail mods (d ++ 47 :: rest) <> None.
Proof.
  intros L H Hm. unfold wayback_tail. rewrite <- L at 1. rewrite (all_digits_app d _ H).
  assert (F : find (fun m => starts_with m (47 :: rest)) mods = None).
  { induction mods as [|m mods IH]; [reflexivity|]. inversion Hm; subst. cbn [find].
    match goal with E : starts_with m _ = false |- _ => rewrite E end. apply IH. assumption. }
  rewrite F. discriminate.
Qed.

(* ------------------------------------------------------------------ session-id comparator *)
Definition no_semicolon (s : str) : Prop := Forall (fun c => N.eqb c 59 = false) s.
Definition jsid : str := s2l ";jsessionid=".

Lemma strip_session_skip : forall P X, no_semicolon P -> strip_session (P ++ X) = P ++ strip_session X.
Proof.
  induction P as [|c P IH]; intros X H; [reflexivity|].
  inversion H as [|? ? Hc HP]; subst. cbn [app].
  change (strip_session (c :: P ++ X)) with
    (match drop_prefix (s2l ";jsessionid=") (c :: P ++ X) with
     | Some ((c0 :: _) as r) => if N.eqb c0 59 then c :: strip_session (P ++ X)
                                else snd (span_pred_N (fun y => negb (N.eqb y 59)) r)
     | _ => c :: strip_session (P ++ X)
     end).
  assert (E : drop_prefix (s2l ";jsessionid=") (c :: P ++ X) = None).
  { change (s2l ";jsessionid=") with (59 :: s2l "jsessionid="). cbn [drop_prefix].
    rewrite N.eqb_sym, Hc. reflexivity. }
  rewrite E. f_equal. apply IH, HP.
Qed.

Lemma span_pred_app p : forall l rest,
  Forall (fun c => p c = true) l -> (rest = [] \/ exists c r, rest = c :: r /\ p c = false) ->
  span_pred_N p (l ++ rest) = (l, rest).
Proof.
  induction l as [|c l IH]; intros rest Hl Hr; cbn [app].
  - destruct Hr as [->|(c & r & -> & Hc)]; cbn [span_pred_N]; [reflexivity|]. rewrite Hc. reflexivity.
  - inversion Hl as [|? ? Hc Hl']; subst. cbn [span_pred_N]. rewrite Hc. rewrite (IH rest Hl' Hr). reflexivity.
Qed.

Lemma strip_session_at id rest :
  id <> [] -> no_semicolon id -> (rest = [] \/ exists r, rest = 59 :: r) ->
  strip_session (jsid ++ id ++ rest) = rest.
Proof.
  intros Hne Hid Hr. destruct id as [|c id]; [congruence|].
  inversion Hid as [|? ? Hc Hid']; subst.
  change (jsid ++ (c :: id) ++ rest) with (59 :: s2l "jsessionid=" ++ (c :: id) ++ rest).
  change (strip_session (59 :: s2l "jsessionid=" ++ (c :: id) ++ rest)) with
    (match drop_prefix jsid (jsid ++ (c :: id) ++ rest) with
     | Some ((c0 :: _) as r) => if N.eqb c0 59 then 59 :: strip_session (s2l "jsessionid=" ++ (c :: id) ++ rest)
                                else snd (span_pred_N (fun y => negb (N.eqb y 59)) r)
     | _ => 59 :: strip_session (s2l "jsessionid=" ++ (c :: id) ++ rest)
     end).
  rewrite drop_prefix_app. cbn [app]. rewrite Hc.
  change (c :: id ++ rest) with ((c :: id) ++ rest).
  rewrite (span_pred_app (fun y => negb (N.eqb y 59)) (c :: id) rest); [reflexivity| |].
  - apply Forall_forall. intros x Hx. unfold no_semicolon in Hid. rewrite Forall_forall in Hid. rewrite (Hid x Hx). reflexivity.
  - destruct Hr as [->|[r ->]]; [left; reflexivity|right]. exists 59, r. split; reflexivity.
Qed.

(* two URLs that differ only in the session id compare equal *)
Theorem jsession_rule_ignores_session P id1 id2 rest :
  no_semicolon P -> id1 <> [] -> id2 <> [] -> no_semicolon id1 -> no_semicolon id2 ->
  (rest = [] \/ exists r, rest = 59 :: r) ->
  rule_compare RJsession (P ++ jsid ++ id1 ++ rest) (P ++ jsid ++ id2 ++ rest) = true.
Proof.
  intros HP N1 N2 H1 H2 Hr. unfold rule_compare.
  rewrite (strip_session_skip P (jsid ++ id1 ++ rest) HP), (strip_session_skip P (jsid ++ id2 ++ rest) HP).
  rewrite (strip_session_at id1 rest N1 H1 Hr), (strip_session_at id2 rest N2 H2 Hr). apply str_eqb_refl.
Qed.

(* and the URL without any session id is equal to both *)
Theorem jsession_rule_ignores_presence P id rest :
  no_semicolon P -> id <> [] -> no_semicolon id -> (rest = [] \/ exists r, rest = 59 :: r) ->
  strip_session (P ++ jsid ++ id ++ rest) = P ++ rest.
Proof. intros HP N1 H1 Hr. rewrite strip_session_skip by exact HP. rewrite (strip_session_at id rest N1 H1 Hr). reflexivity. Qed.

(* ------------------------------------------------------------------ combined rules *)
Theorem compound_keeps_each rs r a b : In r rs -> rule_compare r a b = true -> url_eq (Some rs) a b = true.
Proof. intros Hin H. unfold url_eq. apply existsb_exists. exists r. split; assumption. Qed.

Theorem compound_only_members rs a b : url_eq (Some rs) a b = true -> exists r, In r rs /\ rule_compare r a b = true.
Proof. unfold url_eq. intros H. apply existsb_exists in H. exact H. Qed.

Theorem rules_off_is_equality a b : url_eq None a b = true <-> a = b.
Proof. unfold url_eq. apply str_eqb_eq. Qed.

(* ------------------------------------------------------------------ token level: zero changes *)
Definition zero_counts : counts := {| change_count := 0; deletions_count := 0; insertions_count := 0 |}.

(* position-wise ==-equal token lists whose key-different positions hold keys unknown to the other
   side: one "equal" opcode, zero counts - any number of rewritten links, at any position *)
Theorem rule_equal_pages_no_change rules (old new : list token) (n : nat) :
  List.length old = n -> List.length new = n -> (1 <= n)%nat ->
  (forall i, (i < n)%nat -> token_eq rules (nth i old dtoken) (nth i new dtoken) = true) ->
  (forall i, (i < n)%nat -> token_same_key (nth i new dtoken) (nth i old dtoken) = true \/
     ((forall j, (j < n)%nat -> token_same_key (nth j new dtoken) (nth i old dtoken) = false) /\
      (forall j, (j < n)%nat -> token_same_key (nth i new dtoken) (nth j old dtoken) = false))) ->
  token_opcodes rules old new = [(Equal, (0, n), (0, n))]%nat /\
  count_changes (token_opcodes rules old new) = zero_counts.
Proof.
  intros La Lb Hn Heq Hfresh.
  destruct (opcodes_eq_aligned token token_same_key (token_eq rules) dtoken old new n La Lb Heq Hfresh Hn) as [_ H].
  unfold token_opcodes. rewrite H. split; reflexivity.
Qed.

(* ------------------------------------------------------------------ token level: detection *)
Lemma count_zero_all_equal ops : change_count (count_changes ops) = 0%nat -> Forall (fun o => op_tag o = Equal) ops.
Proof.
  unfold count_changes, count_tag. cbn [change_count].
  induction ops as [|o ops IH]; intros H; [constructor|].
  cbn [filter] in H. destruct (op_tag o) eqn:E; cbn [List.length] in H; try lia.
  constructor; [exact E|]. apply IH. exact H.
Qed.

Lemma list_str_eqb_eq a : forall b, list_str_eqb a b = true -> a = b.
Proof.
  induction a as [|x a IH]; intros [|y b] H; cbn [list_str_eqb] in H; try discriminate; [reflexivity|].
  apply andb_true_iff in H as [H1 H2]. apply str_eqb_eq in H1. subst. f_equal. apply IH, H2.
Qed.

Lemma compare_array_refl_none sa : compare_array None sa sa = true.
Proof.
  unfold compare_array. destruct sa as [|x sa]; [reflexivity|].
  cbn [existsb]. unfold url_eq at 1. rewrite str_eqb_refl. reflexivity.
Qed.

(* with no rules, a dict-key match is also an == match *)
Lemma same_key_token_eq_none x y : token_same_key y x = true -> token_eq None x y = true.
Proof.
  unfold token_same_key, token_eq.
  destruct (t_kind y) eqn:Ey; destruct (t_kind x) eqn:Ex; intros H; try discriminate H;
    try (apply str_eqb_eq in H; unfold url_eq; apply str_eqb_eq; congruence).
  apply list_str_eqb_eq in H. subst. apply compare_array_refl_none.
Qed.

(* what two ==-equal tokens have in common when no rule is active: kind class and text; images share a source *)
Definition same_visible (x y : token) : Prop :=
  match t_kind x, t_kind y with
  | KImg sa, KImg sb => compare_array None sa sb = true
  | KImg _, _ | _, KImg _ => False
  | _, _ => t_text x = t_text y
  end.

Lemma token_eq_none_visible x y : token_eq None x y = true -> same_visible x y.
Proof.
  unfold token_eq, same_visible. destruct (t_kind x), (t_kind y); intros H; try discriminate H;
    try (apply str_eqb_eq in H; exact H); try exact H.
Qed.

(* no change reported with rules off => same number of tokens, pairwise equal text (a differing
   word or link target is never silent) *)
Theorem no_change_means_same_tokens (old new : list token) :
  change_count (count_changes (token_opcodes None old new)) = 0%nat ->
  List.length old = List.length new /\
  forall i, (i < List.length old)%nat -> same_visible (nth i old dtoken) (nth i new dtoken).
Proof.
  intros H. apply count_zero_all_equal in H. unfold token_opcodes in H.
  destruct (no_change_pointwise token token_same_key (token_eq None) dtoken old new _ H) as [L R].
  split; [exact L|]. intros i Hi. apply token_eq_none_visible.
  destruct (R i Hi) as [K|E]; [apply same_key_token_eq_none, K|exact E].
Qed.

(* the same under any rules: pairwise dict-key match or == under the rules *)
Theorem no_change_means_related rules (old new : list token) :
  change_count (count_changes (token_opcodes rules old new)) = 0%nat ->
  List.length old = List.length new /\
  forall i, (i < List.length old)%nat ->
    token_same_key (nth i new dtoken) (nth i old dtoken) = true \/ token_eq rules (nth i old dtoken) (nth i new dtoken) = true.
Proof.
  intros H. apply count_zero_all_equal in H. unfold token_opcodes in H.
  exact (no_change_pointwise token token_same_key (token_eq rules) dtoken old new _ H).
Qed.

(* rules off: a link whose target differs at some position always yields a change *)
Theorem differing_link_is_reported (old new : list token) i :
  (i < List.length old)%nat ->
  t_kind (nth i old dtoken) = KHref -> t_text (nth i old dtoken) <> t_text (nth i new dtoken) ->
  (0 < change_count (count_changes (token_opcodes None old new)))%nat.
Proof.
  intros Hi Hk Hne.
  destruct (change_count (count_changes (token_opcodes None old new))) eqn:E; [|lia].
  exfalso. destruct (no_change_means_same_tokens old new E) as [_ R]. specialize (R i Hi).
  unfold same_visible in R. rewrite Hk in R. destruct (t_kind (nth i new dtoken)); try contradiction; apply Hne, R.
Qed.

(* C16 at tree level: two element trees that differ only in attributes - with link targets and image
   sources equal under the URL rules - give token lists that are == position by position.  Hence
   (with the freshness of rewritten URLs) zero changes, for any number of links and images at any
   position of any document. *)
From Coq Require Import List NArith Arith Bool Lia String.
From WMD Require Import Gen.Tables Lib.Str Lib.PyChars Lib.Escape Lib.Difflib Model.RenderTokens Model.RenderMerge Model.RenderLabelled
     Proofs.DifflibProofs Proofs.DifflibSound Proofs.UrlRuleProofs Proofs.TokenProofs Proofs.RenderProofs.
Import ListNotations.
Close Scope N_scope.
Open Scope nat_scope.

(* ------------------------------------------------------------------ tags that the tokeniser cannot tell apart *)
Definition is_nil (s : str) : bool := match s with [] => true | _ => false end.

Definition tag_sim (s1 s2 : str) : Prop :=
  is_closing s1 = is_closing s2 /\ separatable s1 = separatable s2 /\
  starts_with [60; 97]%N s1 = starts_with [60; 97]%N s2 /\ starts_with [60; 47; 97]%N s1 = starts_with [60; 47; 97]%N s2 /\
  is_nil s1 = is_nil s2.

Lemma tag_sim_refl s : tag_sim s s.
Proof. repeat split. Qed.

Definition tags_sim (l1 l2 : list str) : Prop := Forall2 tag_sim l1 l2.

Lemma tags_sim_refl l : tags_sim l l.
Proof. induction l; constructor; [apply tag_sim_refl|assumption]. Qed.

Lemma Forall2_firstn {A B} (R : A -> B -> Prop) n : forall l1 l2, Forall2 R l1 l2 -> Forall2 R (firstn n l1) (firstn n l2).
Proof. induction n as [|n IH]; intros l1 l2 H; [constructor|]. destruct H; cbn [firstn]; constructor; [assumption|apply IH; assumption]. Qed.

Lemma Forall2_skipn {A B} (R : A -> B -> Prop) n : forall l1 l2, Forall2 R l1 l2 -> Forall2 R (skipn n l1) (skipn n l2).
Proof. induction n as [|n IH]; intros l1 l2 H; [exact H|]. destruct H; cbn [skipn]; [constructor|apply IH; assumption]. Qed.

Lemma Forall2_rev {A B} (R : A -> B -> Prop) l1 l2 : Forall2 R l1 l2 -> Forall2 R (rev l1) (rev l2).
Proof. induction 1; cbn [rev]; [constructor|]. apply Forall2_app; [assumption|constructor; [assumption|constructor]]. Qed.

Lemma Forall2_length {A B} (R : A -> B -> Prop) l1 l2 : Forall2 R l1 l2 -> List.length l1 = List.length l2.
Proof. induction 1; cbn; congruence. Qed.

(* ------------------------------------------------------------------ tokens *)
Definition kind_sim (rules : option (list rule)) (t1 t2 : token) : Prop :=
  match t_kind t1, t_kind t2 with
  | KWord, KWord | KUndiff, KUndiff => t_text t1 = t_text t2 /\ t_html t1 = t_html t2 /\ t_trail t1 = t_trail t2
  | KSpacer, KSpacer => t_text t1 = t_text t2 /\ t_html t1 = t_html t2 /\ t_trail t1 = t_trail t2
  | KHref, KHref => url_eq rules (t_text t1) (t_text t2) = true
  | KImg sa, KImg sb => compare_array rules sa sb = true
  | _, _ => False
  end.

Definition tok_sim (rules : option (list rule)) (t1 t2 : token) : Prop :=
  kind_sim rules t1 t2 /\ tags_sim (t_pre t1) (t_pre t2) /\ tags_sim (t_post t1) (t_post t2).

Definition toks_sim rules (l1 l2 : list token) : Prop := Forall2 (tok_sim rules) l1 l2.

Lemma tok_sim_token_eq rules t1 t2 : tok_sim rules t1 t2 -> token_eq rules t1 t2 = true.
Proof.
  intros [K _]. unfold kind_sim in K. unfold token_eq.
  destruct (t_kind t1), (t_kind t2); try contradiction; try exact K; destruct K as [E _]; rewrite E; apply str_eqb_refl.
Qed.

Lemma tok_sim_spacer rules t1 t2 : tok_sim rules t1 t2 -> is_spacer t1 = is_spacer t2.
Proof. intros [K _]. unfold kind_sim in K. unfold is_spacer. destruct (t_kind t1), (t_kind t2); try contradiction; reflexivity. Qed.

Lemma tok_sim_set_pre rules t1 t2 p1 p2 : tok_sim rules t1 t2 -> tags_sim p1 p2 -> tok_sim rules (set_pre t1 p1) (set_pre t2 p2).
Proof. intros (K & _ & P) Hp. repeat split; assumption. Qed.
Lemma tok_sim_set_post rules t1 t2 p1 p2 : tok_sim rules t1 t2 -> tags_sim p1 p2 -> tok_sim rules (set_post t1 p1) (set_post t2 p2).
Proof. intros (K & P & _) Hp. repeat split; assumption. Qed.

(* ------------------------------------------------------------------ chunks *)
Definition chunk_sim (rules : option (list rule)) (c1 c2 : chunk) : Prop :=
  match c1, c2 with
  | CWord w1, CWord w2 => w1 = w2
  | CUndiff s1, CUndiff s2 => s1 = s2
  | CHref h1, CHref h2 => url_eq rules h1 h2 = true
  | CImg sa _, CImg sb _ => compare_array rules sa sb = true
  | CStart s1, CStart s2 | CEnd s1, CEnd s2 => tag_sim s1 s2
  | _, _ => False
  end.

Lemma fixup_aux_sim rules : forall cs1 cs2 acc1 acc2 res1 res2,
  Forall2 (chunk_sim rules) cs1 cs2 -> tags_sim acc1 acc2 -> toks_sim rules res1 res2 ->
  toks_sim rules (fixup_aux cs1 acc1 res1) (fixup_aux cs2 acc2 res2).
Proof.
  induction cs1 as [|c1 cs1 IH]; intros cs2 acc1 acc2 res1 res2 Hc Ha Hr; inversion Hc as [|? c2 ? cs2' Hcc Hcs]; subst; cbn [fixup_aux].
  - destruct Hr as [|l1 l2 r1 r2 Hl Hr].
    + constructor; [|constructor]. repeat split; try assumption; try constructor.
    + apply Forall2_rev. constructor; [|exact Hr]. apply tok_sim_set_post; [exact Hl|].
      apply Forall2_app; [exact (proj2 (proj2 Hl))|exact Ha].
  - destruct c1 as [sa h1|s1|s1|s1|w1|h1]; destruct c2 as [sb h2|s2|s2|s2|w2|h2]; cbn [chunk_sim] in Hcc; try contradiction.
    + destruct (split_trailing_ws h1), (split_trailing_ws h2). apply IH; [exact Hcs|constructor|].
      constructor; [|exact Hr]. repeat split; try assumption; try constructor; try (cbn; exact Hcc).
    + subst. apply IH; [exact Hcs|constructor|]. constructor; [|exact Hr]. repeat split; try assumption; constructor.
    + apply IH; [exact Hcs| |exact Hr]. apply Forall2_app; [exact Ha|constructor; [exact Hcc|constructor]].
    + destruct Ha as [|a1 a2 ar1 ar2 Ha1 Har].
      * destruct Hr as [|l1 l2 r1 r2 Hl Hr]; apply IH; try assumption; try constructor.
        -- apply tok_sim_set_post; [exact Hl|]. apply Forall2_app; [exact (proj2 (proj2 Hl))|constructor; [exact Hcc|constructor]].
        -- exact Hr.
      * apply IH; [exact Hcs| |exact Hr]. apply (Forall2_app (l1 := a1 :: ar1) (l1' := a2 :: ar2)); [constructor; assumption|constructor; [exact Hcc|constructor]].
    + subst. destruct (split_trailing_ws w2). apply IH; [exact Hcs|constructor|]. constructor; [|exact Hr]. repeat split; try assumption; constructor.
    + apply IH; [exact Hcs|constructor|]. constructor; [|exact Hr]. repeat split; try assumption; try constructor; try (cbn; exact Hcc).
Qed.

(* ------------------------------------------------------------------ customisation *)
Lemma span_closing_sim l1 : forall l2, tags_sim l1 l2 ->
  tags_sim (fst (span_closing l1)) (fst (span_closing l2)) /\ tags_sim (snd (span_closing l1)) (snd (span_closing l2)).
Proof.
  induction l1 as [|t1 l1 IH]; intros l2 H; inversion H as [|? t2 ? l2' Ht Hl]; subst; cbn [span_closing].
  - split; constructor.
  - pose proof Ht as (E & _). rewrite E. destruct (is_closing t2).
    + destruct (IH l2' Hl) as [I1 I2]. destruct (span_closing l1), (span_closing l2'). cbn [fst snd] in *.
      split; [constructor; [exact Ht|exact I1]|exact I2].
    + cbn [fst snd]. split; [constructor|exact H].
Qed.

Lemma rebalance_pair_sim rules p1 p2 t1 t2 : tok_sim rules p1 p2 -> tok_sim rules t1 t2 ->
  tok_sim rules (fst (rebalance_pair p1 t1)) (fst (rebalance_pair p2 t2)) /\
  tok_sim rules (snd (rebalance_pair p1 t1)) (snd (rebalance_pair p2 t2)).
Proof.
  intros Hp Ht. unfold rebalance_pair.
  destruct (span_closing_sim _ _ (proj2 (proj2 Hp))) as [C R].
  destruct (span_closing (t_post p1)) as [c1 r1], (span_closing (t_post p2)) as [c2 r2]. cbn [fst snd] in C, R.
  destruct R as [|x1 x2 y1 y2 Hx Hy].
  - destruct (span_closing_sim _ _ (proj1 (proj2 Ht))) as [C' R'].
    destruct (span_closing (t_pre t1)) as [c1' r1'], (span_closing (t_pre t2)) as [c2' r2']. cbn [fst snd] in *.
    split; [apply tok_sim_set_post; [exact Hp|apply Forall2_app; [exact (proj2 (proj2 Hp))|exact C']]|apply tok_sim_set_pre; [exact Ht|exact R']].
  - cbn [fst snd]. split; [apply tok_sim_set_post; [exact Hp|exact C]|].
    apply tok_sim_set_pre; [exact Ht|]. apply (Forall2_app (l1 := x1 :: y1) (l1' := x2 :: y2)); [constructor; assumption|exact (proj1 (proj2 Ht))].
Qed.

Lemma rebalance_tokens_sim rules rest1 : forall rest2 p1 p2, tok_sim rules p1 p2 -> toks_sim rules rest1 rest2 ->
  toks_sim rules (rebalance_tokens p1 rest1) (rebalance_tokens p2 rest2).
Proof.
  induction rest1 as [|t1 rest1 IH]; intros rest2 p1 p2 Hp Hr; inversion Hr as [|? t2 ? rest2' Ht Hrest]; subst; cbn [rebalance_tokens].
  - constructor; [exact Hp|constructor].
  - destruct (rebalance_pair_sim rules p1 p2 t1 t2 Hp Ht) as [A B].
    destruct (rebalance_pair p1 t1) as [p1' t1'], (rebalance_pair p2 t2) as [p2' t2']. cbn [fst snd] in A, B.
    constructor; [exact A|apply IH; assumption].
Qed.

(* searching a tag list only looks at what tag_sim preserves *)
Lemma find_sep_sim l1 : forall l2 idx from, tags_sim l1 l2 -> find_sep l1 idx from = find_sep l2 idx from.
Proof.
  induction l1 as [|t1 l1 IH]; intros l2 idx from H; inversion H as [|? t2 ? l2' Ht Hl]; subst; cbn [find_sep]; [reflexivity|].
  destruct Ht as (_ & E & _). rewrite E. destruct (Nat.leb from idx && separatable t2); [reflexivity|apply IH, Hl].
Qed.

Lemma find_sep_post_sim l1 : forall l2 idx, tags_sim l1 l2 -> find_sep_post l1 idx = find_sep_post l2 idx.
Proof.
  induction l1 as [|t1 l1 IH]; intros l2 idx H; inversion H as [|? t2 ? l2' Ht Hl]; subst; cbn [find_sep_post]; [reflexivity|].
  destruct Ht as (_ & E & _). rewrite E. destruct (separatable t2); [reflexivity|apply IH, Hl].
Qed.

Lemma find_empty_link_cons t t2 l idx :
  find_empty_link (t :: t2 :: l) idx =
  if starts_with [60; 97]%N t && negb (is_nil t2) && starts_with [60; 47; 97]%N t2 then Some idx else find_empty_link (t2 :: l) (S idx).
Proof. reflexivity. Qed.

Lemma find_empty_link_sim l1 : forall l2 idx, tags_sim l1 l2 -> find_empty_link l1 idx = find_empty_link l2 idx.
Proof.
  induction l1 as [|t1 l1 IH]; intros l2 idx H; inversion H as [|? t2 ? l2' Ht Hl]; subst; [reflexivity|].
  destruct Hl as [|u1 u2 m1 m2 Hu Hm]; [reflexivity|].
  rewrite !find_empty_link_cons. destruct Ht as (_ & _ & E1 & _). pose proof Hu as (U0 & U1 & U2 & E2 & E3).
  rewrite E1, E2, E3.
  destruct (starts_with [60; 97]%N t2 && negb (is_nil u2) && starts_with [60; 47; 97]%N u2); [reflexivity|].
  apply IH. constructor; [exact Hu|exact Hm].
Qed.

Lemma spacer_sim rules pre1 pre2 post1 post2 : tags_sim pre1 pre2 -> tags_sim post1 post2 ->
  tok_sim rules (spacer pre1 post1) (spacer pre2 post2) /\ tok_sim rules (empty_spacer pre1 post1) (empty_spacer pre2 post2).
Proof. intros H1 H2. split; repeat split; assumption. Qed.

Lemma split_pre_sim rules fuel : forall pre1 pre2 from, tags_sim pre1 pre2 ->
  toks_sim rules (fst (split_pre fuel pre1 from)) (fst (split_pre fuel pre2 from)) /\
  tags_sim (snd (split_pre fuel pre1 from)) (snd (split_pre fuel pre2 from)).
Proof.
  induction fuel as [|fuel IH]; intros pre1 pre2 from H; cbn [split_pre]; [split; [constructor|exact H]|].
  rewrite (find_sep_sim pre1 pre2 0 from H). destruct (find_sep pre2 0 from) as [t|]; [|split; [constructor|exact H]].
  pose proof (Forall2_skipn _ t _ _ H) as Hs. pose proof (Forall2_firstn _ t _ _ H) as Hf.
  rewrite (Forall2_length _ _ _ Hs).
  assert (Sp : toks_sim rules [spacer (firstn t pre1) []; spacer [] []; spacer [] []] [spacer (firstn t pre2) []; spacer [] []; spacer [] []]).
  { constructor; [apply spacer_sim; [exact Hf|constructor]|]. constructor; [apply spacer_sim; constructor|].
    constructor; [apply spacer_sim; constructor|constructor]. }
  destruct (Nat.ltb 1 (List.length (skipn t pre2))).
  - destruct (IH _ _ 1 Hs) as [A B]. destruct (split_pre fuel (skipn t pre1) 1), (split_pre fuel (skipn t pre2) 1). cbn [fst snd] in *.
    split; [apply Forall2_app; assumption|exact B].
  - cbn [fst snd]. split; assumption.
Qed.

Lemma customize_one_sim rules all1 all2 i t1 t2 : tok_sim rules t1 t2 ->
  toks_sim rules (customize_one all1 i t1) (customize_one all2 i t2).
Proof.
  intros Ht. unfold customize_one. pose proof (proj1 (proj2 Ht)) as Hpre.
  assert (S1 : toks_sim rules (fst (match t_pre t1 with [] => ([], []) | p => split_pre (S (List.length p)) p 0 end))
                          (fst (match t_pre t2 with [] => ([], []) | p => split_pre (S (List.length p)) p 0 end)) /\
               tags_sim (snd (match t_pre t1 with [] => ([], []) | p => split_pre (S (List.length p)) p 0 end))
                        (snd (match t_pre t2 with [] => ([], []) | p => split_pre (S (List.length p)) p 0 end))).
  { destruct (t_pre t1) as [|x1 y1]; destruct (t_pre t2) as [|x2 y2]; inversion Hpre as [|? ? ? ? Hx Hy]; subst; [split; constructor|].
    assert (HL : List.length y1 = List.length y2) by (apply (Forall2_length tag_sim); exact Hy).
    cbn [List.length]. rewrite HL. apply split_pre_sim. exact Hpre. }
  destruct (match t_pre t1 with [] => ([], []) | p => split_pre (S (List.length p)) p 0 end) as [sp1 pre1].
  destruct (match t_pre t2 with [] => ([], []) | p => split_pre (S (List.length p)) p 0 end) as [sp1' pre1'].
  cbn [fst snd] in S1. destruct S1 as [S1 P1].
  rewrite (find_empty_link_sim pre1 pre1' 0 P1).
  assert (P2 : toks_sim rules (fst (match find_empty_link pre1' 0 with Some k => ([empty_spacer (firstn k pre1) (skipn k pre1)], []) | None => ([], pre1) end))
                          (fst (match find_empty_link pre1' 0 with Some k => ([empty_spacer (firstn k pre1') (skipn k pre1')], []) | None => ([], pre1') end)) /\
               tags_sim (snd (match find_empty_link pre1' 0 with Some k => ([empty_spacer (firstn k pre1) (skipn k pre1)], []) | None => ([], pre1) end))
                        (snd (match find_empty_link pre1' 0 with Some k => ([empty_spacer (firstn k pre1') (skipn k pre1')], []) | None => ([], pre1') end))).
  { destruct (find_empty_link pre1' 0) as [k|]; cbn [fst snd].
    - split; [|constructor]. constructor; [|constructor]. apply spacer_sim; [apply Forall2_firstn|apply Forall2_skipn]; exact P1.
    - split; [constructor|exact P1]. }
  destruct (match find_empty_link pre1' 0 with Some k => ([empty_spacer (firstn k pre1) (skipn k pre1)], []) | None => ([], pre1) end) as [sp2 pre2].
  destruct (match find_empty_link pre1' 0 with Some k => ([empty_spacer (firstn k pre1') (skipn k pre1')], []) | None => ([], pre1') end) as [sp2' pre2'].
  cbn [fst snd] in P2. destruct P2 as [S2 P2].
  pose proof (tok_sim_set_pre rules t1 t2 pre2 pre2' Ht P2) as Ht1.
  pose proof (proj2 (proj2 Ht1)) as Hpost. cbn [set_pre t_post] in Hpost.
  cbn [set_pre t_post]. rewrite (find_sep_post_sim _ _ 0 Hpost).
  destruct (find_sep_post (t_post t2) 0) as [k|].
  - apply Forall2_app; [exact S1|]. apply Forall2_app; [exact S2|]. cbn [app].
    constructor; [apply tok_sim_set_post; [exact Ht1|apply Forall2_firstn, Hpost]|].
    constructor; [apply spacer_sim; [constructor|apply Forall2_skipn, Hpost]|].
    constructor; [apply spacer_sim; constructor|]. constructor; [apply spacer_sim; constructor|constructor].
  - apply Forall2_app; [exact S1|]. apply Forall2_app; [exact S2|]. cbn [app].
    constructor; [apply tok_sim_set_post; [exact Ht1|exact Hpost]|constructor].
Qed.

Lemma customize_all_sim rules all1 all2 l1 : forall l2 i, toks_sim rules l1 l2 ->
  toks_sim rules (customize_all all1 i l1) (customize_all all2 i l2).
Proof.
  induction l1 as [|t1 l1 IH]; intros l2 i H; inversion H as [|? t2 ? l2' Ht Hl]; subst; cbn [customize_all]; [constructor|].
  apply Forall2_app; [apply customize_one_sim, Ht|apply IH, Hl].
Qed.

Lemma customize_tokens_sim rules l1 l2 : toks_sim rules l1 l2 -> toks_sim rules (customize_tokens l1) (customize_tokens l2).
Proof.
  intros H. destruct H as [|t1 t2 r1 r2 Ht Hr]; [constructor|]. unfold customize_tokens.
  apply customize_all_sim. apply rebalance_tokens_sim; assumption.
Qed.

(* ------------------------------------------------------------------ the spacer cap *)
Lemma limit_aux_sim rules l1 : forall l2 budget d1 d2 res1 res2,
  toks_sim rules l1 l2 -> tags_sim d1 d2 -> toks_sim rules res1 res2 ->
  toks_sim rules (limit_aux l1 budget d1 res1) (limit_aux l2 budget d2 res2).
Proof.
  induction l1 as [|t1 l1 IH]; intros l2 budget d1 d2 res1 res2 Hl Hd Hr; inversion Hl as [|? t2 ? l2' Ht Hl']; subst; cbn [limit_aux].
  - destruct Hd as [|x1 x2 y1 y2 Hx Hy]; [apply Forall2_rev, Hr|].
    destruct Hr as [|a1 a2 b1 b2 Ha Hb].
    + constructor; [|constructor]. repeat split; try constructor; assumption.
    + apply Forall2_rev. constructor; [|exact Hb]. apply tok_sim_set_post; [exact Ha|].
      apply Forall2_app; [exact (proj2 (proj2 Ha))|constructor; assumption].
  - rewrite (tok_sim_spacer rules t1 t2 Ht). destruct (is_spacer t2 && N.eqb budget 0).
    + apply IH; [exact Hl'| |exact Hr]. apply Forall2_app; [exact Hd|]. apply Forall2_app; [exact (proj1 (proj2 Ht))|exact (proj2 (proj2 Ht))].
    + apply IH; [exact Hl'|constructor|]. constructor; [|exact Hr].
      destruct Hd as [|x1 x2 y1 y2 Hx Hy]; [exact Ht|].
      apply tok_sim_set_pre; [exact Ht|]. apply (Forall2_app (l1 := x1 :: y1) (l1' := x2 :: y2)); [constructor; assumption|exact (proj1 (proj2 Ht))].
Qed.

Lemma limit_spacers_sim rules l1 l2 cap : toks_sim rules l1 l2 -> toks_sim rules (limit_spacers l1 cap) (limit_spacers l2 cap).
Proof. intros H. unfold limit_spacers. apply limit_aux_sim; [exact H|constructor|constructor]. Qed.

(* ------------------------------------------------------------------ trees *)
Definition href_sim (rules : option (list rule)) (o1 o2 : option str) : Prop :=
  match o1, o2 with
  | Some (c1 :: h1), Some (c2 :: h2) => url_eq rules (c1 :: h1) (c2 :: h2) = true
  | (None | Some []), (None | Some []) => True
  | _, _ => False
  end.

(* same element structure, text and embedded content; attributes are free, except that link
   targets and image sources must be equal under the rules *)
Inductive el_sim (rules : option (list rule)) : el -> el -> Prop :=
| ElSim tag a1 a2 text c1 c2 tail s1 s2 :
    Forall2 (el_sim rules) c1 c2 ->
    (mem_str tag Tables.undiffable_content_tags && negb (str_eqb tag (s2l "img")) = true -> s1 = s2) ->
    (str_eqb tag [97%N] = true -> href_sim rules (assoc_str (s2l "href") a1) (assoc_str (s2l "href") a2)) ->
    (str_eqb tag (s2l "img") = true ->
       compare_array rules (img_srcs (El tag a1 text c1 tail s1)) (img_srcs (El tag a2 text c2 tail s2)) = true) ->
    el_sim rules (El tag a1 text c1 tail s1) (El tag a2 text c2 tail s2).

(* prefix tests that never look past the tag name *)
Definition plain_prefix (p : str) : bool := forallb (fun c => negb (N.eqb c 32 || N.eqb c 62)) p.
Definition sep_head (r : str) : Prop := exists c r', r = c :: r' /\ (c = 32%N \/ c = 62%N).

Lemma starts_with_past_name p : forall tag r1 r2, plain_prefix p = true -> sep_head r1 -> sep_head r2 ->
  starts_with p (tag ++ r1) = starts_with p (tag ++ r2).
Proof.
  induction p as [|x p IH]; intros tag r1 r2 Hp H1 H2; [reflexivity|].
  cbn [plain_prefix forallb] in Hp. apply andb_true_iff in Hp as [Hx Hp]. apply negb_true_iff, orb_false_iff in Hx as [X1 X2].
  destruct tag as [|t tag]; cbn [app].
  - destruct H1 as (c1 & r1' & -> & [->| ->]); destruct H2 as (c2 & r2' & -> & [->| ->]); cbn [starts_with]; rewrite ?X1, ?X2; reflexivity.
  - cbn [starts_with]. rewrite (IH tag r1 r2 Hp H1 H2). reflexivity.
Qed.

Lemma separatable_names_plain : forallb (fun name => plain_prefix ([60%N] ++ name)) Tables.separatable_tags = true.
Proof. vm_compute. reflexivity. Qed.

Lemma tag_sim_same_name tag r1 r2 : sep_head r1 -> sep_head r2 -> tag_sim ([60%N] ++ tag ++ r1) ([60%N] ++ tag ++ r2).
Proof.
  intros H1 H2. unfold tag_sim.
  assert (P : forall p, plain_prefix p = true -> starts_with p ([60%N] ++ tag ++ r1) = starts_with p ([60%N] ++ tag ++ r2)).
  { intros p Hp. change ([60%N] ++ tag ++ r1) with ((60%N :: tag) ++ r1). change ([60%N] ++ tag ++ r2) with ((60%N :: tag) ++ r2).
    apply starts_with_past_name; assumption. }
  repeat split.
  - unfold is_closing. apply P. reflexivity.
  - unfold separatable. pose proof separatable_names_plain as S. rewrite forallb_forall in S.
    induction Tables.separatable_tags as [|n l IH]; [reflexivity|]. cbn [existsb].
    rewrite (P ([60%N] ++ n)) by (apply S; left; reflexivity). rewrite IH; [reflexivity|]. intros x Hx. apply S. right. exact Hx.
  - apply P. reflexivity.
  - apply P. reflexivity.
Qed.

Definition attrs_str (attrs : list (str * str)) : str :=
  List.concat (map (fun nv => [32%N] ++ fst nv ++ [61%N; 34%N] ++ html_escape true (snd nv) ++ [34%N]) attrs).

Lemma sep_head_attrs attrs rest : sep_head (attrs_str attrs ++ [62%N] ++ rest).
Proof.
  destruct attrs as [|nv attrs]; cbn; [exists 62%N, rest; split; [reflexivity|right; reflexivity]|].
  eexists 32%N, _. split; [reflexivity|left; reflexivity].
Qed.

Lemma start_tag_sim tag a1 a2 text c1 c2 tail s1 s2 :
  tag_sim (start_tag (El tag a1 text c1 tail s1)) (start_tag (El tag a2 text c2 tail s2)).
Proof.
  unfold start_tag. cbn [el_tag el_attrs el_tail el_text]. fold (attrs_str a1). fold (attrs_str a2).
  apply tag_sim_same_name; apply sep_head_attrs.
Qed.

Lemma Forall2_concat_map {A B} (R : B -> B -> Prop) (S : A -> A -> Prop) (f : A -> list B) l1 :
  forall l2, Forall (fun x1 => forall x2, S x1 x2 -> Forall2 R (f x1) (f x2)) l1 -> Forall2 S l1 l2 ->
  Forall2 R (List.concat (map f l1)) (List.concat (map f l2)).
Proof.
  induction l1 as [|x1 l1 IH]; intros l2 HF H2; inversion H2 as [|? x2 ? l2' Hx Hl]; subst; cbn [map List.concat]; [constructor|].
  inversion HF as [|? ? Hf1 HF']; subst. apply Forall2_app; [apply Hf1, Hx|apply IH; assumption].
Qed.

Lemma Forall2_refl_map {A} (R : A -> A -> Prop) (l : list A) : (forall x, R x x) -> Forall2 R l l.
Proof. intros H. induction l; constructor; auto. Qed.

Lemma word_chunks_sim rules text : Forall2 (chunk_sim rules) (word_chunks text) (word_chunks text).
Proof. unfold word_chunks. induction (split_words text); cbn [map]; constructor; [reflexivity|assumption]. Qed.

Lemma href_chunk_sim rules tag a1 a2 :
  (str_eqb tag [97%N] = true -> href_sim rules (assoc_str (s2l "href") a1) (assoc_str (s2l "href") a2)) ->
  Forall2 (chunk_sim rules)
    (match str_eqb tag [97%N], assoc_str (s2l "href") a1 with true, Some ((_ :: _) as h) => [CHref h] | _, _ => [] end)
    (match str_eqb tag [97%N], assoc_str (s2l "href") a2 with true, Some ((_ :: _) as h) => [CHref h] | _, _ => [] end).
Proof.
  intros H. destruct (str_eqb tag [97%N]); [|constructor]. specialize (H eq_refl). unfold href_sim in H.
  destruct (assoc_str (s2l "href") a1) as [[|x1 h1]|]; destruct (assoc_str (s2l "href") a2) as [[|x2 h2]|]; try contradiction; try constructor.
  - exact H.
  - constructor.
Qed.

Theorem flatten_el_sim rules e1 : forall e2, el_sim rules e1 e2 -> Forall2 (chunk_sim rules) (flatten_el e1) (flatten_el e2).
Proof.
  induction e1 as [tag a1 text c1 tail s1 IHc] using el_ind'. intros e2 H.
  inversion H as [? ? a2 ? ? c2 ? ? s2 Hc Hu Hh Hi]; subst. cbn [flatten_el].
  destruct (mem_str tag Tables.undiffable_content_tags && negb (str_eqb tag (s2l "img"))) eqn:Eu.
  - rewrite (Hu eq_refl). constructor; [reflexivity|constructor].
  - assert (Hhead : Forall2 (chunk_sim rules)
        (if str_eqb tag (s2l "img") then [CImg (img_srcs (El tag a1 text c1 tail s1)) (start_tag (El tag a1 text c1 tail s1))] else [CStart (start_tag (El tag a1 text c1 tail s1))])
        (if str_eqb tag (s2l "img") then [CImg (img_srcs (El tag a2 text c2 tail s2)) (start_tag (El tag a2 text c2 tail s2))] else [CStart (start_tag (El tag a2 text c2 tail s2))])).
    { destruct (str_eqb tag (s2l "img")) eqn:Ei; (constructor; [|constructor]); [exact (Hi eq_refl)|apply start_tag_sim]. }
    assert (Hkids : Forall2 (chunk_sim rules) (List.concat (map flatten_el c1)) (List.concat (map flatten_el c2))).
    { apply (Forall2_concat_map (chunk_sim rules) (el_sim rules) flatten_el c1 c2); assumption. }
    assert (Hempty : (match c1 with [] => true | _ => false end) = (match c2 with [] => true | _ => false end)) by (destruct Hc; reflexivity).
    assert (Hrest : Forall2 (chunk_sim rules)
       ((if str_eqb tag (s2l "img") then [CImg (img_srcs (El tag a1 text c1 tail s1)) (start_tag (El tag a1 text c1 tail s1))] else [CStart (start_tag (El tag a1 text c1 tail s1))]) ++
        word_chunks text ++ List.concat (map flatten_el c1) ++
        (match str_eqb tag [97%N], assoc_str (s2l "href") a1 with true, Some ((_ :: _) as h) => [CHref h] | _, _ => [] end) ++
        (if is_void tag then [] else [CEnd (end_tag (El tag a1 text c1 tail s1))]) ++ word_chunks tail)
       ((if str_eqb tag (s2l "img") then [CImg (img_srcs (El tag a2 text c2 tail s2)) (start_tag (El tag a2 text c2 tail s2))] else [CStart (start_tag (El tag a2 text c2 tail s2))]) ++
        word_chunks text ++ List.concat (map flatten_el c2) ++
        (match str_eqb tag [97%N], assoc_str (s2l "href") a2 with true, Some ((_ :: _) as h) => [CHref h] | _, _ => [] end) ++
        (if is_void tag then [] else [CEnd (end_tag (El tag a2 text c2 tail s2))]) ++ word_chunks tail)).
    { apply Forall2_app; [exact Hhead|]. apply Forall2_app; [apply word_chunks_sim|]. apply Forall2_app; [exact Hkids|].
      apply Forall2_app; [apply href_chunk_sim, Hh|]. apply Forall2_app; [|apply word_chunks_sim].
      destruct (is_void tag); constructor; [|constructor]. cbn [chunk_sim]. unfold end_tag. cbn [el_tag el_tail]. apply tag_sim_refl. }
    destruct (is_void tag) eqn:Ev; [|destruct c1, c2; try discriminate Hempty; destruct text; destruct tail; exact Hrest].
    destruct text; [|exact Hrest]. destruct c1, c2; try discriminate Hempty; [|exact Hrest]. destruct tail; [exact Hhead|exact Hrest].
Qed.

Theorem flatten_root_sim rules e1 e2 : el_sim rules e1 e2 -> Forall2 (chunk_sim rules) (flatten_root e1) (flatten_root e2).
Proof.
  intros H. inversion H as [tag a1 a2 text c1 c2 tail s1 s2 Hc Hu Hh Hi]; subst. cbn [flatten_root].
  apply Forall2_app; [apply word_chunks_sim|]. apply Forall2_app; [|apply href_chunk_sim, Hh].
  apply (Forall2_concat_map (chunk_sim rules) (el_sim rules) flatten_el c1 c2); [|exact Hc].
  apply Forall_forall. intros x _ y Hxy. apply flatten_el_sim, Hxy.
Qed.

(* the two prepared token lists have the same length and are == position by position *)
Theorem prepare_sim rules e1 e2 cap : el_sim rules e1 e2 -> toks_sim rules (prepare e1 cap) (prepare e2 cap).
Proof.
  intros H. unfold prepare, tokenize, fixup_chunks. apply limit_spacers_sim, customize_tokens_sim.
  apply fixup_aux_sim; [apply flatten_root_sim, H|constructor|constructor].
Qed.

Lemma toks_sim_pointwise rules l1 : forall l2, toks_sim rules l1 l2 ->
  List.length l1 = List.length l2 /\ forall i, i < List.length l1 -> token_eq rules (nth i l1 dtoken) (nth i l2 dtoken) = true.
Proof.
  induction l1 as [|t1 l1 IH]; intros l2 H; inversion H as [|? t2 ? l2' Ht Hl]; subst; [split; [reflexivity|intros i Hi; cbn in Hi; lia]|].
  destruct (IH l2' Hl) as [L P]. split; [cbn; congruence|].
  intros [|i] Hi; cbn [nth]; [apply (tok_sim_token_eq rules), Ht|apply P; cbn in Hi; lia].
Qed.

(* C16 at tree level: two trees that are the same up to attributes, with link targets and image
   sources equal under the rules, and in which every rewritten URL token occurs nowhere on the
   other side, report zero changes - for every document shape, any number of links and images *)
Theorem rule_equal_trees_no_change rules e1 e2 cap :
  el_sim rules e1 e2 ->
  (let old := prepare e1 cap in let new := prepare e2 cap in
   forall i, i < List.length old -> token_same_key (nth i new dtoken) (nth i old dtoken) = true \/
     ((forall j, j < List.length old -> token_same_key (nth j new dtoken) (nth i old dtoken) = false) /\
      (forall j, j < List.length old -> token_same_key (nth i new dtoken) (nth j old dtoken) = false))) ->
  count_changes (token_opcodes rules (prepare e1 cap) (prepare e2 cap)) = zero_counts.
Proof.
  intros H Hf. cbv zeta in Hf. destruct (toks_sim_pointwise rules _ _ (prepare_sim rules e1 e2 cap H)) as [L P].
  assert (Hn : 1 <= List.length (prepare e1 cap)).
  { pose proof (Proofs.RenderProofs.prepare_nonempty e1 cap). destruct (prepare e1 cap); [congruence|cbn; lia]. }
  exact (proj2 (rule_equal_pages_no_change rules (prepare e1 cap) (prepare e2 cap) (List.length (prepare e1 cap)) eq_refl (eq_sym L) Hn P Hf)).
Qed.

(* in particular: changing attributes other than link targets and image sources is never a change *)
Theorem attributes_are_not_content rules e1 e2 cap :
  el_sim rules e1 e2 ->
  (forall i, i < List.length (prepare e1 cap) -> token_same_key (nth i (prepare e2 cap) dtoken) (nth i (prepare e1 cap) dtoken) = true) ->
  count_changes (token_opcodes rules (prepare e1 cap) (prepare e2 cap)) = zero_counts.
Proof. intros H Hk. apply rule_equal_trees_no_change; [exact H|]. cbv zeta. intros i Hi. left. apply Hk, Hi. Qed.

(* C01 stated on the text: the text chunks of a single-sided view, in order, are exactly the text of the
   chosen page - for all element trees, rule sets, caps.  (Tags and markers are the chunks that begin with
   '<'; everything else is text.  An opaque element is one chunk; it counts as markup when its serialisation
   begins with '<', as every serialisation does.) *)
From Coq Require Import List NArith Arith Bool Lia String.
From WMD Require Import Gen.Tables Lib.Str Lib.PyChars Lib.Escape Lib.Difflib Model.RenderTokens Model.RenderMerge Model.RenderLabelled
     Proofs.EscapeProofs Proofs.MergeProofs Proofs.TokenProofs Proofs.AssembleProofs Proofs.RenderProofs Proofs.PageWords Proofs.TextProofs.
Import ListNotations.
Open Scope N_scope.

(* the non-whitespace characters of the chunks that are not tags *)
Definition chunks_text (l : list str) : str :=
  List.concat (map (fun s => if starts_lt s then [] else nws s) l).

Lemma chunks_text_app a b : chunks_text (a ++ b) = chunks_text a ++ chunks_text b.
Proof. unfold chunks_text. rewrite map_app, concat_app. reflexivity. Qed.

Lemma chunks_text_nb l : chunks_text (nb l) = chunks_text l.
Proof.
  induction l as [|s l IH]; [reflexivity|]. unfold nb in *. cbn [filter].
  destruct (blank s) eqn:E; cbn [negb].
  - rewrite IH. unfold chunks_text at 2. cbn [map List.concat]. fold (chunks_text l).
    destruct s as [|c [|d r]]; cbn [blank] in E; try discriminate; [reflexivity|].
    apply N.eqb_eq in E. subst c. reflexivity.
  - unfold chunks_text in *. cbn [map List.concat]. rewrite IH. reflexivity.
Qed.

(* the text of a page as the view shows it: texts and tails in document order; an opaque element is markup *)
Fixpoint el_shown_text (e : el) : str :=
  match e with
  | El tag attrs text children tail source =>
      if mem_str tag Tables.undiffable_content_tags && negb (str_eqb tag (s2l "img")) then (if starts_lt source then [] else nws source)
      else text_e text ++ List.concat (map el_shown_text children) ++ text_e tail
  end.

Definition page_shown_text (root : el) : str :=
  match root with
  | El tag attrs text children tail source => text_e text ++ List.concat (map el_shown_text children)
  end.

Lemma start_tag_lt e : starts_lt (start_tag e) = true.
Proof. reflexivity. Qed.
Lemma end_tag_lt e : starts_lt (end_tag e) = true.
Proof. reflexivity. Qed.

Lemma chunks_text_words text : chunks_text (map chunk_str (word_chunks text)) = text_e text.
Proof.
  unfold text_e, word_chunks. rewrite nws_escape, <- (split_words_nws text).
  induction (split_words text) as [|w ws IH]; [reflexivity|].
  cbn [map List.concat chunk_str]. unfold chunks_text in *. cbn [map List.concat]. rewrite IH.
  rewrite (no_lt_not_tag _ (proj1 (escape_no_angle true w))), nws_escape, html_escape_app. reflexivity.
Qed.

Lemma chunks_text_href tag (attrs : list (str * str)) :
  chunks_text (map chunk_str (match str_eqb tag [97], assoc_str (s2l "href") attrs with
                              | true, Some ((_ :: _) as h) => [CHref h]
                              | _, _ => []
                              end)) = [].
Proof. destruct (str_eqb tag [97]); [|reflexivity]. destruct (assoc_str (s2l "href") attrs) as [[|x h]|]; reflexivity. Qed.

Lemma chunks_text_kids children :
  Forall (fun c => chunks_text (map chunk_str (flatten_el c)) = el_shown_text c) children ->
  chunks_text (map chunk_str (List.concat (map flatten_el children))) = List.concat (map el_shown_text children).
Proof.
  induction 1 as [|c cs Hc Hcs IH]; [reflexivity|].
  cbn [map List.concat]. rewrite map_app, chunks_text_app, Hc, IH. reflexivity.
Qed.

Theorem flatten_el_shown_text e : chunks_text (map chunk_str (flatten_el e)) = el_shown_text e.
Proof.
  induction e as [tag attrs text children tail source IHc] using el_ind'. cbn [flatten_el el_shown_text].
  destruct (mem_str tag undiffable_content_tags && negb (str_eqb tag (s2l "img"))).
  { cbn [map chunk_str]. unfold chunks_text. cbn [map List.concat]. destruct (starts_lt source); [reflexivity|apply app_nil_r]. }
  set (e0 := El tag attrs text children tail source).
  assert (Hhead : chunks_text (map chunk_str (if str_eqb tag (s2l "img") then [CImg (img_srcs e0) (start_tag e0)] else [CStart (start_tag e0)])) = []).
  { destruct (str_eqb tag (s2l "img")); reflexivity. }
  assert (Hgen : chunks_text (map chunk_str ((if str_eqb tag (s2l "img") then [CImg (img_srcs e0) (start_tag e0)] else [CStart (start_tag e0)]) ++
                    word_chunks text ++ List.concat (map flatten_el children) ++
                    match str_eqb tag [97], assoc_str (s2l "href") attrs with
                    | true, Some ((_ :: _) as h) => [CHref h] | _, _ => [] end ++
                    (if is_void tag then [] else [CEnd (end_tag e0)]) ++ word_chunks tail))
                 = text_e text ++ List.concat (map el_shown_text children) ++ text_e tail).
  { rewrite !map_app, !chunks_text_app, Hhead, chunks_text_words, (chunks_text_kids children IHc), chunks_text_href, chunks_text_words.
    destruct (is_void tag); reflexivity. }
  destruct (is_void tag) eqn:Ev; destruct text; destruct children; destruct tail; try exact Hgen.
  rewrite Hhead. reflexivity.
Qed.

Theorem page_shown_text_is_stream root : chunks_text (map chunk_str (flatten_root root)) = page_shown_text root.
Proof.
  destruct root as [tag attrs text children tail source]. cbn [flatten_root page_shown_text].
  rewrite !map_app, !chunks_text_app, chunks_text_words, chunks_text_href, app_nil_r. f_equal.
  apply chunks_text_kids. apply Forall_forall. intros c _. apply flatten_el_shown_text.
Qed.

(* the text chunks of the insertions (deletions) view, markers and synthetic tags removed, are the text of the
   new (old) page, in order: nothing dropped, duplicated or invented - for all trees, rule sets and caps *)
Theorem view_text_is_page_text old_root new_root rules cap (new_side : bool) :
  let old := prepare old_root cap in
  let new := prepare new_root cap in
  chunks_text (srcs (view_l new_side old new (token_opcodes rules old new))) =
  page_shown_text (if new_side then new_root else old_root).
Proof.
  cbv zeta. destruct (single_sided_view_is_page_plus_markers old_root new_root rules cap new_side) as (_ & _ & H).
  cbv zeta in H. rewrite <- chunks_text_nb, H, chunks_text_nb. unfold side_root. destruct new_side; apply page_shown_text_is_stream.
Qed.

(* C01 - Insertions/deletions views are the page itself plus markers (chunk-stream level).
   [partial] with respect to the sentence of the property: the theorems stop at the chunk stream
   handed to the HTML parser; that parsing the stream back gives the same text and structure is
   checked per input by the document-level observer of the harness. *)
From Coq Require Import List NArith Arith Bool String.
From WMD Require Import Gen.Tables Lib.Str Lib.PyChars Lib.Escape Lib.Difflib Model.RenderTokens Model.RenderMerge Model.RenderLabelled
     Proofs.DifflibProofs Proofs.MergeProofs Proofs.TokenProofs Proofs.AssembleProofs Proofs.RenderProofs Proofs.TextProofs Proofs.ViewTextProofs.
Import ListNotations.
Open Scope N_scope.

(* For every two trees, every URL rule set, every spacer cap and both single-sided views:
   (1) the view the model renders is the labelled stream v, label by label;
   (2) in v no block-level chunk lies between a marker and its close, markers alternate and are closed;
   (3) removing the markers and the synthetic inline tags from v leaves exactly the chunk
       sequence of the chosen page (new page for insertions, old page for deletions), blank chunks aside:
       nothing dropped, duplicated, invented or re-ordered. *)
Theorem C01_view_is_page_plus_markers_partial : forall old_root new_root rules cap new_side,
  let old := prepare old_root cap in
  let new := prepare new_root cap in
  let ops := token_opcodes rules old new in
  let v := view_l new_side old new ops in
  assemble_diff (side_mode new_side) old new ops = map (render_o (side_tag new_side)) v /\
  scan false v = Some false /\
  nb (srcs v) = nb (map chunk_str (flatten_root (side_root new_side old_root new_root))).
Proof. exact single_sided_view_is_page_plus_markers. Qed.

(* the same for ANY contiguous opcode list over ANY two token lists whose link-target tokens render blank *)
Theorem C01_conservation_for_any_opcodes : forall new_side old new ops,
  Forall hidden_blank old -> Forall hidden_blank new ->
  chain ops 0 0 (List.length old) (List.length new) ->
  nb (srcs (view_l new_side old new ops)) = nb (expand_tokens false (if new_side then new else old)).
Proof. exact single_sided_conserves. Qed.

(* tokenising (fixup_chunks, _customize_tokens, _limit_spacers) conserves the serialisation of the
   tree, for every tree and EVERY value of the spacer cap *)
Theorem C01_tokenising_conserves : forall root cap,
  flat_ne (prepare root cap) = ne (map chunk_str (flatten_root root)).
Proof. exact prepare_conserves. Qed.

Theorem C01_spacer_cap_conserves : forall l cap, spacers_blank l -> flat_ne (limit_spacers l cap) = flat_ne l.
Proof. exact limit_conserves. Qed.

Theorem C01_customize_conserves : forall tokens,
  flat_ne (customize_tokens tokens) = flat_ne tokens /\
  (spacers_blank tokens -> spacers_blank (customize_tokens tokens)).
Proof. exact customize_conserves. Qed.

(* text is never turned into markup: every word chunk is free of '<' and '>' *)
Theorem C01_text_never_markup : forall root, Forall word_ok (flatten_root root).
Proof. exact flatten_root_words_ok. Qed.

(* the marker state machine emits every non-empty input chunk exactly once, in order *)
Theorem C01_merge_changes_conserves : forall chunks st, srcs (merge_changes_l chunks st) = nonempty_chunks chunks.
Proof. exact merge_changes_conserves. Qed.

(* "whether the view is requested alone or as part of all": the model renders a view as
   assemble_diff mode old new ops whatever else is requested (htmldiff computes each of the three
   from the same tokens and opcodes) *)
Theorem C01_all_same_as_alone : forall old_root new_root rules cap,
  let old := prepare old_root cap in
  let new := prepare new_root cap in
  let ops := token_opcodes rules old new in
  snd (htmldiff old_root new_root rules cap) =
  (render_string (assemble_diff MCombined old new ops),
   render_string (assemble_diff MInsertions old new ops),
   render_string (assemble_diff MDeletions old new ops)).
Proof. reflexivity. Qed.

(* stated on the TEXT: the text chunks of the insertions (deletions) view - everything that is not a tag, a
   marker or a synthetic tag - carry, in order, exactly the non-whitespace characters of every text and tail of
   the new (old) page's element tree (in the escaped spelling, an injective recoding: C03_escaped_text_faithful):
   nothing dropped, duplicated, invented; for all element trees, rule sets and spacer caps *)
Theorem C01_page_text_is_its_stream : forall root,
  chunks_text (map chunk_str (flatten_root root)) = page_shown_text root.
Proof. exact page_shown_text_is_stream. Qed.

Theorem C01_view_text_is_page_text : forall old_root new_root rules cap (new_side : bool),
  let old := prepare old_root cap in
  let new := prepare new_root cap in
  chunks_text (srcs (view_l new_side old new (token_opcodes rules old new))) =
  page_shown_text (if new_side then new_root else old_root).
Proof. exact view_text_is_page_text. Qed.

(* regenerated tables the theorems depend on *)
Theorem C01_tables :
  Tables.void_tags = map s2l ["area"; "base"; "basefont"; "br"; "col"; "embed"; "img"; "input"; "link"; "meta"; "param"; "source"; "track"; "wbr"]%string /\
  Tables.spacer_string = s2l "
SPACER" /\ Tables.empty_spacer_string = s2l "~EMPTY~".
Proof. repeat split; vm_compute; reflexivity. Qed.

(* non-vacuity: a line break followed by text, body-level escaped text and an image *)
Example C01_example :
  let br := El (s2l "br") [] [] [] (s2l " two &") [] in
  let p := El (s2l "p") [(s2l "class", s2l "a""b")] (s2l "one <b>") [br] [] [] in
  map chunk_str (flatten_root (El (s2l "html") [] [] [p] [] [])) =
  [s2l "<p class=""a&quot;b"">"; s2l "one "; s2l "&lt;b&gt;"; s2l "<br> "; s2l "two "; s2l "&amp;"; s2l "</p>"] /\
  start_tag (El (s2l "b") [] (s2l " bar") [] [] []) = s2l "<b> ".
Proof. split; vm_compute; reflexivity. Qed.

(* C02 - Combined view loses and invents no text of either version (chunk-stream level).
   [partial]: the grouping of changed tokens is proved to conserve every chunk and to keep groups
   closed; the reconciliation of inserted and deleted structure is covered by the char-for-char
   correspondence of the model with the implementation and by the document-level observer. *)
From Coq Require Import List NArith Arith Bool String.
From WMD Require Import Gen.Tables Lib.Str Lib.PyChars Lib.Escape Lib.Difflib Model.RenderTokens Model.RenderMerge
     Proofs.DifflibProofs Proofs.MergeProofs Proofs.TokenProofs Proofs.AssembleProofs Proofs.RenderProofs.
Import ListNotations.
Open Scope N_scope.

(* grouping conserves: every chunk of a changed run other than '' and ' ' appears exactly once, in
   order, either inside a group or as a loose tag *)
Theorem C02_grouping_conserves : forall chunks,
  flat_map item_srcs (merge_groups_l chunks None) = kept_chunks chunks.
Proof. intros chunks. exact (merge_groups_conserves chunks None). Qed.

(* the labelled grouping is the executable model *)
Theorem C02_grouping_is_model : forall tt chunks,
  map (render_item tt) (merge_groups_l chunks None) = merge_change_groups chunks tt.
Proof. intros tt chunks. exact (merge_groups_l_refines tt chunks None). Qed.

(* text always lives inside groups: a loose item is a tag (it starts with '<') *)
Theorem C02_text_only_in_groups : forall chunks,
  Forall (fun it => match it with LTag s => starts_lt s = true | _ => True end) (merge_groups_l chunks None).
Proof.
  assert (G : forall chunks st, Forall (fun it => match it with LTag s => starts_lt s = true | _ => True end) (merge_groups_l chunks st)).
  { induction chunks as [|chunk rest IH]; intros st; cbn [merge_groups_l].
    - destruct st as [[g cc]|]; [|constructor]. constructor; [exact I|].
      apply Forall_forall. intros x Hx. apply in_map_iff in Hx as [n [<- _]]. exact I.
    - destruct (skip_group_chunk chunk); [apply IH|].
      destruct (starts_lt chunk) eqn:E; [|destruct st as [[g cc]|]; apply IH].
      destruct (second_is_slash chunk).
      + destruct st as [[g cc]|].
        * destruct (is_block_name _); [constructor; [exact I|constructor; [exact E|apply IH]]|].
          destruct (index_of _ cc 0); apply IH.
        * constructor; [exact E|apply IH].
      + destruct (is_block_name _).
        * destruct st as [[g cc]|]; [constructor; [exact I|constructor; [exact E|apply IH]]|constructor; [exact E|apply IH]].
        * destruct st as [[g cc]|]; apply IH. }
  intros chunks. apply G.
Qed.

(* tokenising conserves both pages for every spacer cap (shared with C01) *)
Theorem C02_tokenising_conserves : forall root cap,
  flat_ne (prepare root cap) = ne (map chunk_str (flatten_root root)).
Proof. exact prepare_conserves. Qed.

(* the single-sided halves of the same diff conserve their page (shared with C01) *)
Theorem C02_sides_conserve : forall new_side old new ops,
  Forall hidden_blank old -> Forall hidden_blank new ->
  chain ops 0 0 (List.length old) (List.length new) ->
  nb (srcs (view_l new_side old new ops)) = nb (expand_tokens false (if new_side then new else old)).
Proof. exact single_sided_conserves. Qed.

Example C02_example :
  map (render_item (Some (s2l "ins"))) (merge_groups_l [s2l "Some"; s2l "<p>"; s2l "inserted"; s2l "</p>"; s2l "text"] None)
  = [IGroup (map s2l ["<ins class=""wm-diff"">"; "Some"; "</ins>"]%string); ITag (s2l "<p>");
     IGroup (map s2l ["<ins class=""wm-diff"">"; "inserted"; "</ins>"]%string); ITag (s2l "</p>");
     IGroup (map s2l ["<ins class=""wm-diff"">"; "text"; "</ins>"]%string)].
Proof. vm_compute. reflexivity. Qed.

(* C02 - Combined view loses and invents no text of either version (chunk-stream level).
   The combined stream is proved to be a sequence of whole items in which every group of the new
   page (inserted or unchanged) and every deleted group appears exactly once, everything else being
   tags - through the grouping, the splitting of unchanged runs and the reconciliation of inserted
   and deleted structure, for all token lists and all opcode lists.  [partial] at document level:
   the re-parse of the stream by the HTML parser is covered by the observer. *)
From Coq Require Import List NArith Arith Bool String Permutation.
From WMD Require Import Gen.Tables Lib.Str Lib.PyChars Lib.Escape Lib.Difflib Model.RenderTokens Model.RenderMerge Model.RenderLabelled
     Proofs.DifflibProofs Proofs.MergeProofs Proofs.TokenProofs Proofs.AssembleProofs Proofs.RenderProofs Proofs.ReconcileProofs Proofs.CombinedProofs Proofs.TextProofs Proofs.ViewTextProofs Proofs.CombinedTextProofs.
Import ListNotations.
Open Scope N_scope.

(* grouping conserves: every chunk of a changed run other than '' and ' ' appears exactly once, in
   order, either inside a group or as a loose tag *)
Theorem C02_grouping_conserves : forall chunks,
  flat_map item_srcs (merge_groups_l chunks None) = kept_chunks chunks.
Proof. intros chunks. exact (merge_groups_conserves chunks None). Qed.

(* the labelled grouping is the executable model *)
Theorem C02_grouping_is_model : forall tt chunks,
  map (render_item tt) (merge_groups_l chunks None) = merge_change_groups chunks tt.
Proof. intros tt chunks. exact (merge_groups_l_refines tt chunks None). Qed.

(* text always lives inside groups: a loose item is a tag (it starts with '<') *)
Theorem C02_text_only_in_groups : forall chunks,
  Forall (fun it => match it with LTag s => starts_lt s = true | _ => True end) (merge_groups_l chunks None).
Proof.
  assert (G : forall chunks st, Forall (fun it => match it with LTag s => starts_lt s = true | _ => True end) (merge_groups_l chunks st)).
  { induction chunks as [|chunk rest IH]; intros st; cbn [merge_groups_l].
    - destruct st as [[g cc]|]; [|constructor]. constructor; [exact I|].
      apply Forall_forall. intros x Hx. apply in_map_iff in Hx as [n [<- _]]. exact I.
    - destruct (skip_group_chunk chunk); [apply IH|].
      destruct (starts_lt chunk) eqn:E; [|destruct st as [[g cc]|]; apply IH].
      destruct (second_is_slash chunk).
      + destruct st as [[g cc]|].
        * destruct (is_block_name _); [constructor; [exact I|constructor; [exact E|apply IH]]|].
          destruct (index_of _ cc 0); [|destruct (mem_str _ Tables.empty_tags)]; apply IH.
        * constructor; [exact E|apply IH].
      + destruct (is_block_name _).
        * destruct st as [[g cc]|]; [constructor; [exact I|constructor; [exact E|apply IH]]|constructor; [exact E|apply IH]].
        * destruct st as [[g cc]|]; apply IH. }
  intros chunks. apply G.
Qed.

(* tokenising conserves both pages for every spacer cap (shared with C01) *)
Theorem C02_tokenising_conserves : forall root cap,
  flat_ne (prepare root cap) = ne (map chunk_str (flatten_root root)).
Proof. exact prepare_conserves. Qed.

(* the single-sided halves of the same diff conserve their page (shared with C01) *)
Theorem C02_sides_conserve : forall new_side old new ops,
  Forall hidden_blank old -> Forall hidden_blank new ->
  chain ops 0 0 (List.length old) (List.length new) ->
  nb (srcs (view_l new_side old new ops)) = nb (expand_tokens false (if new_side then new else old)).
Proof. exact single_sided_conserves. Qed.

(* reconciliation conserves groups: whatever the interleaving of inserted and deleted structure and
   whichever of its early exits is taken, its output is a sequence of whole items containing every
   group of both sides exactly once *)
Theorem C02_reconcile_conserves : forall igs dgs,
  tags_ok igs -> tags_ok dgs -> Forall del_group (groups dgs) ->
  (forall x y, In x (groups igs) -> In y (groups dgs) -> list_eqb x y = false) ->
  exists out, reconcile_change_groups igs dgs = flat out /\
              Permutation (groups out) (groups igs ++ groups dgs) /\ tags_ok out.
Proof. exact reconcile_conserves. Qed.

(* the whole combined stream: for all token lists and ALL opcode lists, every group of the new side
   and every deleted group exactly once; the rest are tags (text lives only in groups) *)
Theorem C02_combined_conserves : forall old new ops,
  exists out, assemble_diff MCombined old new ops = flat out /\ tags_ok out /\
              Permutation (groups out) (new_groups_of old new ops ++ del_groups_of old new ops).
Proof. exact combined_conserves. Qed.

(* stated on the TEXT, for all element trees, rule sets and caps: the text of the combined view is the text of its
   groups (everything between groups is a tag); the groups are the new page's groups (inserted or unchanged) and the
   deleted groups, each exactly once; the new page's groups spell, in page order, exactly the text of the new page;
   the deleted groups spell, in page order, exactly the text of the deleted token runs of the old page, and each
   carries the deletion marker.  So every piece of text of the new page is present outside deletion markers, every
   deleted piece of the old page inside one, and the view has no text that is in neither page. *)
Theorem C02_grouping_keeps_text : forall chunks tt,
  groups_text (groups (merge_change_groups chunks tt)) = chunks_text chunks.
Proof. exact grouping_keeps_text. Qed.

Theorem C02_combined_text : forall old_root new_root rules cap,
  let old := prepare old_root cap in
  let new := prepare new_root cap in
  let ops := token_opcodes rules old new in
  exists out,
    assemble_diff MCombined old new ops = ReconcileProofs.flat out /\
    chunks_text (ReconcileProofs.flat out) = groups_text (groups out) /\
    Permutation (groups out) (new_groups_of old new ops ++ del_groups_of old new ops) /\
    groups_text (new_groups_of old new ops) = page_shown_text new_root /\
    groups_text (del_groups_of old new ops) = deleted_text old ops /\
    Forall del_group (del_groups_of old new ops).
Proof. exact combined_text. Qed.

(* the hypotheses of the reconciliation theorem are met by what the grouping produces *)
Theorem C02_grouping_meets_hypotheses : forall chunks_i chunks_d,
  let igs := merge_change_groups chunks_i (Some ins_t) in
  let dgs := merge_change_groups chunks_d (Some del_t) in
  tags_ok igs /\ tags_ok dgs /\ Forall del_group (groups dgs) /\
  (forall x y, In x (groups igs) -> In y (groups dgs) -> list_eqb x y = false).
Proof.
  intros ci cd. cbv zeta. split; [apply mcg_tags|]. split; [apply mcg_tags|]. split.
  - apply marked_groups_del, mcg_marked.
  - apply marked_ins_ne_del; apply mcg_marked.
Qed.

Example C02_example :
  map (render_item (Some (s2l "ins"))) (merge_groups_l [s2l "Some"; s2l "<p>"; s2l "inserted"; s2l "</p>"; s2l "text"] None)
  = [IGroup (map s2l ["<ins class=""wm-diff"">"; "Some"; "</ins>"]%string); ITag (s2l "<p>");
     IGroup (map s2l ["<ins class=""wm-diff"">"; "inserted"; "</ins>"]%string); ITag (s2l "</p>");
     IGroup (map s2l ["<ins class=""wm-diff"">"; "text"; "</ins>"]%string)].
Proof. vm_compute. reflexivity. Qed.

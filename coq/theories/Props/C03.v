(* C03 - No silent change, no phantom change, consistent counts. *)
From Coq Require Import List NArith Arith Bool String.
From WMD Require Import Gen.Tables Lib.Str Lib.PyChars Lib.Escape Lib.Difflib Model.RenderTokens Model.RenderMerge Model.RenderLabelled
     Proofs.DifflibProofs Proofs.DifflibSound Proofs.MergeProofs Proofs.TokenProofs Proofs.AssembleProofs Proofs.RenderProofs Proofs.UrlRuleProofs Proofs.PageWords Proofs.TextProofs.
Import ListNotations.
Open Scope N_scope.

(* identity: for every tree, every rule set and every spacer cap (in particular caps that very
   large pages exceed), diffing the page against itself gives the single opcode "equal 0..n",
   all three counts zero, and single-sided views that are the page's own chunks with no marker *)
Theorem C03_identity : forall root rules cap new_side,
  let t := prepare root cap in
  let ops := token_opcodes rules t t in
  count_changes ops = {| change_count := 0; deletions_count := 0; insertions_count := 0 |} /\
  view_l new_side t t ops = map OSrc (expand_tokens true t).
Proof. exact identity_no_changes. Qed.

Theorem C03_identity_opcodes : forall root rules cap,
  let t := prepare root cap in
  token_opcodes rules t t = [(Equal, (0, List.length t), (0, List.length t))]%nat.
Proof. exact identity_opcodes. Qed.

(* the matcher on ANY two sequences that carry the same key position by position returns one "equal" *)
Theorem C03_aligned_sequences_are_equal : forall rules a b n,
  List.length a = n -> List.length b = n ->
  (forall i, (i < n)%nat -> token_same_key (nth i b dtoken) (nth i a dtoken) = true) -> (1 <= n)%nat ->
  insensitive_opcodes token token_same_key (token_eq rules) dtoken (N.to_nat Tables.matcher_threshold) a b
  = [(Equal, (0, n), (0, n))]%nat.
Proof.
  intros rules a b n Ha Hb Hal Hn.
  exact (proj2 (opcodes_aligned token token_same_key (token_eq rules) dtoken a b n Ha Hb Hal Hn) _).
Qed.

(* counts: non-negative integers by type, change = insertions + deletions *)
Theorem C03_counts : forall ops,
  let c := count_changes ops in (change_count c = insertions_count c + deletions_count c)%nat.
Proof. exact counts_consistent. Qed.

(* a single-sided view contains a marker only if the corresponding count is non-zero *)
Theorem C03_markers_only_with_changes : forall (new_side : bool) old new ops,
  (if new_side then insertions_count (count_changes ops) else deletions_count (count_changes ops)) = 0%nat ->
  Forall (fun o => match o with OOpen | OClose => False | _ => True end) (view_l new_side old new ops).
Proof. exact no_changes_no_markers. Qed.

(* the opcodes are always a contiguous cover of both token lists (so every token is accounted for) *)
Theorem C03_opcodes_cover : forall rules old new,
  chain (token_opcodes rules old new) 0 0 (List.length old) (List.length new).
Proof. intros. unfold token_opcodes. apply insensitive_opcodes_chain. Qed.

(* spacers carry no text and the cap conserves every content token's chunks *)
Theorem C03_spacer_cap_keeps_content : forall l cap, spacers_blank l -> flat_ne (limit_spacers l cap) = flat_ne l.
Proof. exact limit_conserves. Qed.

(* detection: if no change is reported (rules off), both token lists have the same length and
   pairwise the same text (images: a common source) - so no differing word, link target or
   embedded element is ever silent.  Under rules: pairwise key-equal or == under the rules. *)
Theorem C03_detection : forall old new,
  change_count (count_changes (token_opcodes None old new)) = 0%nat ->
  (List.length old = List.length new)%nat /\
  forall i, (i < List.length old)%nat -> same_visible (nth i old dtoken) (nth i new dtoken).
Proof. exact no_change_means_same_tokens. Qed.

Theorem C03_detection_under_rules : forall rules old new,
  change_count (count_changes (token_opcodes rules old new)) = 0%nat ->
  (List.length old = List.length new)%nat /\
  forall i, (i < List.length old)%nat ->
    token_same_key (nth i new dtoken) (nth i old dtoken) = true \/ token_eq rules (nth i old dtoken) (nth i new dtoken) = true.
Proof. exact no_change_means_related. Qed.

(* detection at page level: the words, opaque elements and link targets carried by the token list
   are exactly those of the flattened page (through tokenising, customisation and the spacer cap,
   for every cap); so if no change is reported (rules off) both pages have the same sequence of
   words, opaque elements and link targets - any difference in them is reported *)
Theorem C03_tokens_carry_the_page : forall root cap, vis_all (prepare root cap) = page_vis root.
Proof. exact prepare_vis. Qed.

Theorem C03_detection_pages : forall old_root new_root cap,
  change_count (count_changes (token_opcodes None (prepare old_root cap) (prepare new_root cap))) = 0%nat ->
  page_vis old_root = page_vis new_root.
Proof. exact no_change_same_page_content. Qed.

(* detection stated on the TEXT of the page.  [page_text_e root] = in document order, the non-whitespace
   characters of every text and tail of the element tree (in the escaped spelling the tokeniser uses) with
   every opaque element (script, style, svg, select, ... and its tail) as one atom.  It is a function of what
   the tokens carry (for all trees): splitting into words keeps every non-whitespace character, in order
   ([C03_words_keep_every_character]), stripping trailing whitespace and escaping do not touch them *)
Theorem C03_words_keep_every_character : forall text, List.concat (map nws (split_words text)) = nws text.
Proof. exact split_words_nws. Qed.

Theorem C03_text_is_carried : forall root, vis_text (page_vis root) = page_text_e root.
Proof. exact page_text_is_carried. Qed.

(* the escaped spelling is an injective recoding: two texts have the same escaped non-whitespace
   characters exactly when they have the same non-whitespace characters *)
Theorem C03_escaped_text_faithful : forall quote s t,
  nws (html_escape quote s) = nws (html_escape quote t) <-> nws s = nws t.
Proof. exact escaped_text_faithful. Qed.

(* the clause of the property itself: for all element trees and every spacer cap (rules off), if the text of
   the two pages differs in any non-whitespace character, the reported change count is greater than zero *)
Theorem C03_detection_text : forall old_root new_root cap,
  page_text_e old_root <> page_text_e new_root ->
  (0 < change_count (count_changes (token_opcodes None (prepare old_root cap) (prepare new_root cap))))%nat.
Proof. exact text_change_is_reported. Qed.

(* a one-character difference (a superscript two instead of a two) in a page that is otherwise the same *)
Example C03_detection_text_example :
  let page (w : string) := El (s2l "html"%string) [] [] [El (s2l "body"%string) [] [] [El (s2l "p"%string) [] (s2l "Area "%string ++ s2l w ++ s2l " m"%string) [] (s2l " "%string) []] [] []] [] [] in
  page_text_e (page "10"%string) <> page_text_e (page "1O"%string) /\
  (0 < change_count (count_changes (token_opcodes None (prepare (page "10"%string) 2500) (prepare (page "1O"%string) 2500))))%nat.
Proof. vm_compute. split; [discriminate|repeat constructor]. Qed.

(* every block the matcher returns relates its elements pairwise (dict key or ==), for any sequences *)
Theorem C03_blocks_sound : forall rules (old new : list token) alo ahi blo bhi,
  block_snd token token_same_key (token_eq rules) dtoken old new
    (find_longest_match token token_same_key (token_eq rules) dtoken old new alo ahi blo bhi).
Proof. intros. apply flm_sound. Qed.

Theorem C03_tables : Tables.matcher_threshold = 2 /\ Tables.max_spacers = 2500.
Proof. split; reflexivity. Qed.

(* C04 - Links diff accounts for every link exactly once. *)
From Coq Require Import List NArith Arith Bool Permutation String.
From WMD Require Import Gen.Tables Lib.Str Lib.PyChars Lib.Difflib Model.Links Proofs.DifflibProofs Proofs.LinksProofs Proofs.SortProofs.
Import ListNotations.

(* For every two link lists the diff lists every old link exactly once (as unchanged, changed or
   removed), every new link exactly once (as unchanged, changed or added), and an "unchanged"
   entry always pairs two links with the same exact key (target, case-folded text).
   [olds]/[news] are the old-/new-side links of the entries, in output order. *)
Theorem C04_exactly_once : forall a b,
  Permutation (olds (diff_of_lists a b)) a /\ Permutation (news (diff_of_lists a b)) b /\
  exact_pairs (diff_of_lists a b).
Proof. exact diff_of_lists_exactly_once. Qed.

(* The two passes of _assemble_diff, for ANY contiguous opcode list (a superset of what the
   sequence matcher can return): re-balancing keeps the list contiguous, pairing is exactly-once. *)
Theorem C04_rebalance_keeps_partition : forall a b ops i j ei ej,
  chain ops i j ei ej -> chain (rebalance a b ops) i j ei ej.
Proof. exact rebalance_chain. Qed.

Theorem C04_assemble_exactly_once_for_any_opcodes : forall a b ops,
  chain ops 0 0 (List.length a) (List.length b) ->
  Permutation (olds (assemble_diff a b ops)) a /\ Permutation (news (assemble_diff a b ops)) b /\
  exact_pairs (assemble_diff a b ops).
Proof. exact assemble_diff_exactly_once. Qed.

(* the sequence matcher model always returns a contiguous monotone cover of both lists *)
Theorem C04_matcher_opcodes_are_a_partition : forall a b,
  chain (get_opcodes link same_key rough_eq dlink a b) 0 0 (List.length a) (List.length b).
Proof. exact (get_opcodes_chain link same_key rough_eq dlink). Qed.

(* change_count is the number of non-unchanged entries (by definition of the model) ... *)
Theorem C04_count : forall d, count_changes d = List.length (filter is_change d).
Proof. reflexivity. Qed.

(* ... it is zero only if both pages have the same links (every link has a partner with the same
   exact key on the other page) ... *)
Theorem C04_zero_implies_same_links : forall a b,
  count_changes (diff_of_lists a b) = 0 ->
  (forall x, In x a -> exists y, In y b /\ same_key x y = true) /\
  (forall y, In y b -> exists x, In x a /\ same_key x y = true).
Proof. exact zero_changes_same_links. Qed.

(* ... and it is zero whenever the two (de-duplicated, sorted) lists carry the same exact keys
   position by position.  [partial with respect to "same SET of links": that equal key sets give
   position-wise equal sorted lists relies on the sort key being a total order on keys; the
   harness checks it on every generated pair, including under different hash seeds (C17)] *)
Theorem C04_same_keys_zero_partial : forall a b,
  Forall2 (fun x y => same_key x y = true) a b -> count_changes (diff_of_lists a b) = 0.
Proof. exact same_keys_zero_changes. Qed.

(* the full statement: two pages whose sets of links carry the same keys report zero changes,
   whatever order the sets are iterated in (this closes the gap left by the partial theorem) *)
Theorem C04_same_link_sets_zero : forall fa fb arr_a arr_b,
  Permutation arr_a (dedup fa []) -> Permutation arr_b (dedup fb []) ->
  (forall k, In k (map key (dedup fa [])) <-> In k (map key (dedup fb []))) ->
  count_changes (diff_of_lists (sort_links arr_a) (sort_links arr_b)) = 0.
Proof.
  intros fa fb arr_a arr_b Pa Pb Hk. apply same_keys_zero_changes.
  exact (same_link_sets_sorted_alike fa fb arr_a arr_b Pa Pb Hk).
Qed.

(* the sorted list never depends on the iteration order of the set *)
Theorem C04_sorted_list_is_canonical : forall found arrangement,
  Permutation arrangement (dedup found []) -> sort_links arrangement = sort_links (dedup found []).
Proof. exact page_links_order_free. Qed.

(* in-page links never become entries: a Link is only made from an href whose first character is not '#' *)
Theorem C04_no_in_page_links : forall a l,
  outgoing a = Some l -> exists c href, assoc_str n_href (fst a) = Some (c :: href) /\ c <> 35%N.
Proof. exact outgoing_not_in_page. Qed.

(* non-vacuity: the case the repaired re-balancing pass used to get wrong (three links with the
   same text against one) *)
Example C04_three_vs_one :
  let home (h : string) := {| l_href := s2l h; l_text := s2l "Home"%string |} in
  let a := [home "/1"%string; home "/2"%string; home "/3"%string] in
  let b := [home "/1"%string] in
  diff_of_lists a b = [Unchanged (home "/1"%string) (home "/1"%string); Removed (home "/2"%string); Removed (home "/3"%string)]
  /\ chain (get_opcodes link same_key rough_eq dlink a b) 0 0 3 1.
Proof. cbv zeta. split; [vm_compute; reflexivity|]. vm_compute. repeat split; repeat constructor. Qed.

(* C05 - Text and source diffs reconstruct both inputs exactly. *)
From Coq Require Import List NArith ZArith Bool String.
From WMD Require Import Gen.Tables Lib.Str Lib.PyChars Model.Dmp Proofs.DmpProofs.
Import ListNotations.
Open Scope N_scope.

Section C05.
  Variable dmp : str -> str -> list (N * str).
  (* the contract of the native diff-match-patch library: operations are '=', '-', '+';
     the '='/'-' segments concatenate to the first argument, '='/'+' to the second; equal
     arguments give no change segment *)
  Hypothesis DMP0 : forall a b, ops_ok (dmp a b).
  Hypothesis DMP1 : forall a b, raw_old (dmp a b) = a /\ raw_new (dmp a b) = b.
  Hypothesis DMP2 : forall a, Forall (fun s => fst s = 61) (dmp a a).

  (* source diff: reconstruction of both inputs, count = number of changed segments, zero iff equal *)
  Theorem C05_source : forall a b,
    let '(n, d) := html_source_diff dmp a b in
    old_side d = a /\ new_side d = b /\ n = count_changes d /\ (n = 0 <-> a = b).
  Proof. exact (source_diff_spec dmp DMP0 DMP1 DMP2). Qed.

  (* visible-text diff: the same with respect to exactly the two texts the side-by-side view reports *)
  Theorem C05_text : forall a b,
    let '(ta, tb) := side_by_side_text a b in
    let '(n, d) := html_text_diff dmp a b in
    old_side d = ta /\ new_side d = tb /\ n = count_changes d /\ (n = 0 <-> ta = tb).
  Proof.
    intros a b. unfold side_by_side_text, html_text_diff.
    exact (source_diff_spec dmp DMP0 DMP1 DMP2 (get_visible_text a) (get_visible_text b)).
  Qed.
End C05.

(* content under script/style/title/head (and comments, which are extracted before) never
   influences the visible text, hence neither the visible-text diff nor the side-by-side view *)
Theorem C05_invisible : forall pre n post,
  is_visible n = false -> get_visible_text (pre ++ n :: post) = get_visible_text (pre ++ post).
Proof. exact visible_text_ignores_invisible. Qed.

Theorem C05_invisible_tags_documented :
  forallb (fun t => mem_str (s2l t) Tables.invisible_tags) ["script"; "style"; "title"; "head"; "[document]"]%string = true.
Proof. exact invisible_tags_documented. Qed.

(* regenerated tables: the operation codes, the blank-line pattern, and the wrappers' arguments *)
Theorem C05_tables :
  Tables.diff_codes = [(61, 0%Z); (45, (-1)%Z); (43, 1%Z)] /\
  Tables.repeated_blank_lines_src = s2l "([^\S\n]*\n\s*){2,}" /\
  Tables.visible_text_args_html_text_diff = [s2l "a_text"; s2l "b_text"] /\
  Tables.visible_text_args_side_by_side_text = [s2l "a_text"; s2l "b_text"].
Proof. repeat split; vm_compute; reflexivity. Qed.

Example C05_contract_satisfiable :
  exists dmp : str -> str -> list (N * str),
    (forall a b, ops_ok (dmp a b)) /\ (forall a b, raw_old (dmp a b) = a /\ raw_new (dmp a b) = b) /\
    (forall a, Forall (fun s => fst s = 61) (dmp a a)).
Proof.
  exists (fun a b => if str_eqb a b then [(61, a)] else [(45, a); (43, b)]).
  split; [|split].
  - intros a b. unfold ops_ok. destruct (str_eqb a b); repeat constructor; cbn [fst]; tauto.
  - intros a b. unfold raw_old, raw_new. destruct (str_eqb_spec a b) as [->|]; cbn; rewrite ?app_nil_r; split; reflexivity.
  - intros a. rewrite str_eqb_refl. repeat constructor.
Qed.

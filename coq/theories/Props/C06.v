(* C06 - The service returns exactly the library's diff of the fetched content. *)
From Coq Require Import List NArith Bool String.
From WMD Require Import Gen.Tables Lib.Str Lib.PyChars Model.Server Proofs.ServerProofs.
Import ListNotations.
Open Scope N_scope.

Section C06.
  Variable production : bool.
  Variable upstream_of : str -> upstream.
  Variable file_of : str -> str.
  Variable file_headers_of : str -> dict.
  Variable sha256_hex : str -> str.
  Variable decode_ok : bool -> bool -> bool.
  Variable run_differ : str -> list (str * arg_source) -> differ_outcome.
  Notation get := (Server.get production upstream_of file_of file_headers_of sha256_hex decode_ok run_differ).
  Notation fetch := (fetch_diffable_content production upstream_of file_of file_headers_of sha256_hex).

  (* A successful response carries the result of the registered differ called with
     arguments kw, where every reserved name (a_url, a_body, a_headers, a_text and the
     b_ twins) is bound to the value fetched for that side -- whatever the query says --
     and every other name to the (last) query value of that name. *)
  Theorem C06_reserved_bound_to_fetched_and_options_pass_through : forall differ raw rh resp eff,
    get differ raw rh false = (resp, eff) ->
    r_status resp = 200 ->
    exists kw t, r_body resp = BDiff differ kw t /\ run_differ differ kw = DResult t /\
      forall name src, In (name, src) kw ->
        match reserved_source name with
        | Some s => src = s
        | None => exists v, dict_get name (q_rest raw) = Some v /\ src = FromQuery v
        end.
  Proof. exact (ok_kwargs production upstream_of file_of file_headers_of sha256_hex decode_ok run_differ). Qed.

  (* the content of each side is what was fetched from the value of a / b, nothing else *)
  Theorem C06_content_is_what_was_fetched : forall differ raw rh resp eff,
    get differ raw rh false = (resp, eff) ->
    r_status resp = 200 ->
    exists sig ua ub ea eb fa fb kw t,
      assoc_str differ Tables.diff_routes = Some sig /\
      dict_get k_a (decode_query_params raw) = Some ua /\
      dict_get k_b (decode_query_params raw) = Some ub /\
      fetch ua (q_hash_a raw) (q_rest raw) rh = (ea, inl fa) /\
      fetch ub (q_hash_b raw) (q_rest raw) rh = (eb, inl fb) /\
      bind_args sig (q_rest raw) = inl kw /\
      r_body resp = BDiff differ kw t /\
      run_differ differ kw = DResult t.
  Proof. exact (ok_response production upstream_of file_of file_headers_of sha256_hex decode_ok run_differ). Qed.

  Theorem C06_fetched_body_is_upstream_body : forall url h q rh eff r,
    fetch url h q rh = (eff, inl r) ->
    f_url r = url /\
    ((starts_with file_prefix url = true /\ f_body r = file_of (skipn 7 url)) \/
     (exists hh, upstream_of url = UOk hh (f_body r) /\ f_headers r = hh) \/
     (exists code hh, upstream_of url = UHttpError code (Some (hh, f_body r)) /\ f_headers r = hh /\
                      hdr_get k_memento hh <> None)).
  Proof. exact (fetch_ok_body production upstream_of file_of file_headers_of sha256_hex). Qed.
End C06.

(* signature-driven binding: sound and complete, for every signature and query *)
Theorem C06_binding_sound : forall sig q kwargs,
  bind_args sig q = inl kwargs ->
  forall name src, In (name, src) kwargs ->
    (exists d, In (name, d) sig) /\
    match reserved_source name with
    | Some s => src = s
    | None => exists v, dict_get name q = Some v /\ src = FromQuery v
    end.
Proof. exact bind_args_sound. Qed.

Theorem C06_binding_complete : forall sig q kwargs,
  bind_args sig q = inl kwargs ->
  forall name d, In (name, d) sig ->
    match reserved_source name with
    | Some s => In (name, s) kwargs
    | None => match dict_get name q with
              | Some v => In (name, FromQuery v) kwargs
              | None => d = true
              end
    end.
Proof. exact bind_args_complete. Qed.

Theorem C06_effective_parameters_are_last_values : forall k raw,
  dict_get k (decode_query_params raw) = last_binding k raw None.
Proof. exact decode_query_params_last. Qed.

(* non-vacuity: with a query that tries to inject every reserved name, html_token's arguments are the fetched ones *)
Example C06_injection_has_no_effect :
  match assoc_str (s2l "html_token") Tables.diff_routes with
  | Some sig =>
      bind_args sig [(s2l "a_text", s2l "INJECTED"); (s2l "b_body", s2l "zzz"); (s2l "include", s2l "all");
                     (s2l "a_headers", s2l "x"); (s2l "unknown", s2l "y")]
      = inl [(s2l "a_text", FromText true); (s2l "b_text", FromText false);
             (s2l "a_headers", FromHeaders true); (s2l "b_headers", FromHeaders false);
             (s2l "include", FromQuery (s2l "all"))]
  | None => False
  end.
Proof. vm_compute. reflexivity. Qed.

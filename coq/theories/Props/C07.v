(* C07 - Worker-pool breakage is contained under any interleaving.
   All statements are about [run evs]: the state after ANY finite sequence of events
   (request starts, job deliveries in any order, pool breaks, shutdown signals) over any
   number of requests and pools, for any positive number of tries and either restart option. *)
From Coq Require Import List Arith Bool BinNums.
From WMD Require Import Gen.Tables Model.Pool Proofs.PoolProofs.
Import ListNotations.

Theorem C07_at_most_tries : forall tries restart, 1 <= tries ->
  forall evs r, count_submits r (submits (run tries restart evs)) <= tries.
Proof. exact at_most_tries. Qed.

(* a pool is replaced at most once; only broken pools are replaced; every replaced pool was
   handed to shutdown; every pool but the current one has been replaced; and the number of
   pools ever created is at most one more than the number of broken pools (not one per
   request that saw the breakage) *)
Theorem C07_replaced_once_and_shut_down : forall tries restart, 1 <= tries -> forall evs,
  let st := run tries restart evs in
  NoDup (replaced st) /\ incl (replaced st) (broken st) /\ incl (replaced st) (shut st) /\
  (forall p, In p (created st) -> current st <> Some p -> In p (replaced st)) /\
  length (created st) <= S (length (broken st)).
Proof. exact replaced_once. Qed.

(* an exit (code 10) is scheduled iff the restart option is off and some request failed on
   its last try; such a request submitted its diff exactly [tries] times *)
Theorem C07_quit_iff : forall tries restart, 1 <= tries -> forall evs,
  1 <= quits (run tries restart evs) <->
  restart = false /\ exists r, get_req r (reqs (run tries restart evs)) = Done ErrBroken.
Proof. exact quit_iff. Qed.

Theorem C07_failed_request_used_all_tries : forall tries restart, 1 <= tries -> forall evs r,
  get_req r (reqs (run tries restart evs)) = Done ErrBroken ->
  count_submits r (submits (run tries restart evs)) = tries.
Proof. exact failed_request_used_all_tries. Qed.

(* every request terminates: a waiting request is in a try below the bound, and each delivery
   (the normal result, or BrokenProcessPool when its pool is broken) finishes it or moves it
   to a strictly later try *)
Theorem C07_waiting_is_bounded : forall tries restart, 1 <= tries -> forall evs r att p,
  get_req r (reqs (run tries restart evs)) = Waiting att p ->
  S att <= tries /\ In p (created (run tries restart evs)).
Proof. exact waiting_attempt_bound. Qed.

Theorem C07_delivery_progress : forall tries restart, 1 <= tries -> forall evs r att p e,
  get_req r (reqs (run tries restart evs)) = Waiting att p ->
  (e = DeliverOk r \/ (e = DeliverBroken r /\ In p (broken (run tries restart evs)))) ->
  match get_req r (reqs (step tries restart (run tries restart evs) e)) with
  | NotStarted => False
  | Waiting a _ => att < a /\ S a <= tries
  | Done _ => True
  end.
Proof. exact delivery_progress. Qed.

(* the configured number of tries *)
Theorem C07_tries_is_two : Tables.diff_tries = Npos (xO xH).
Proof. reflexivity. Qed.

(* non-vacuity: two requests on one pool that breaks; the first to notice replaces it, the
   second re-uses the replacement; then the replacement breaks too and the exit is scheduled *)
Example C07_scenario :
  let st := run 2 false [Start 0; Start 1; Break 0; DeliverBroken 0; DeliverBroken 1; Break 1; DeliverBroken 1] in
  created st = [0; 1] /\ replaced st = [0] /\ shut st = [0] /\ quits st = 1 /\
  get_req 0 (reqs st) = Waiting 1 1 /\ get_req 1 (reqs st) = Done ErrBroken /\ count_submits 1 (submits st) = 2.
Proof. vm_compute. repeat split; reflexivity. Qed.

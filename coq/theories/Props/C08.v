(* C08 - Requests are gate-kept: only http(s) is fetched, errors are well-formed.
   Statements only; all quantify over every oracle (upstream behaviour, file system,
   SHA-256, decoder, differ). *)
From Coq Require Import List NArith Bool String.
From WMD Require Import Gen.Tables Lib.Str Lib.PyChars Model.Server Proofs.ServerProofs.
Import ListNotations.
Open Scope N_scope.

Section C08.
  Variable production : bool.
  Variable upstream_of : str -> upstream.
  Variable file_of : str -> str.
  Variable file_headers_of : str -> dict.
  Variable sha256_hex : str -> str.
  Variable decode_ok : bool -> bool -> bool.
  Variable run_differ : str -> list (str * arg_source) -> differ_outcome.
  Notation get := (Server.get production upstream_of file_of file_headers_of sha256_hex decode_ok run_differ).
  Notation fetch := (fetch_diffable_content production upstream_of file_of file_headers_of sha256_hex).

  (* unknown differ: 404 and nothing is fetched or read *)
  Theorem C08_unknown_differ_404_no_effects : forall differ raw rh resp eff,
    assoc_str differ Tables.diff_routes = None ->
    get differ raw rh false = (resp, eff) ->
    r_status resp = 404 /\ r_err resp = Some E404Unknown /\ eff = [].
  Proof. exact (unknown_differ production upstream_of file_of file_headers_of sha256_hex decode_ok run_differ). Qed.

  (* a or b absent: 400 and nothing is fetched or read *)
  Theorem C08_missing_url_400_no_effects : forall differ raw rh resp eff,
    assoc_str differ Tables.diff_routes <> None ->
    dict_get k_a (decode_query_params raw) = None \/ dict_get k_b (decode_query_params raw) = None ->
    get differ raw rh false = (resp, eff) ->
    r_status resp = 400 /\ r_err resp = Some E400Missing /\ eff = [].
  Proof. exact (missing_url production upstream_of file_of file_headers_of sha256_hex decode_ok run_differ). Qed.

  (* every effect of any request: the URL requested upstream is the value of a or b and
     starts with http:// or https:// (case-sensitively, untrimmed); a file is opened only
     for a file:// value of a or b and only outside production *)
  Theorem C08_effects_gatekept : forall differ raw rh em resp eff,
    get differ raw rh em = (resp, eff) ->
    forall e, In e eff ->
      exists url, (dict_get k_a (decode_query_params raw) = Some url \/
                   dict_get k_b (decode_query_params raw) = Some url) /\
        match e with
        | EFetch u hdrs => u = url /\ is_http url = true /\ starts_with file_prefix url = false /\
                           hdrs = upstream_headers (q_rest raw) rh
        | EOpen p => production = false /\ starts_with file_prefix url = true /\ p = skipn 7 url
        end.
  Proof. exact (effects_gatekept production upstream_of file_of file_headers_of sha256_hex decode_ok run_differ). Qed.

  (* how one side's fetch fails: scheme 400 without effect, production 403 without effect,
     upstream failures 502, time-outs 504, and a memento reply is not a failure *)
  Theorem C08_fetch_error_mapping : forall url h q rh eff e,
    fetch url h q rh = (eff, inr e) ->
    match e with
    | E403Production => production = true /\ starts_with file_prefix url = true
    | E400Scheme => is_http url = false /\ starts_with file_prefix url = false
    | E502HashMismatch => exists x, h = Some x
    | E400Value => upstream_of url = UValueError
    | E502OS => upstream_of url = UOSError
    | E504Timeout => upstream_of url = UTimeoutSimple \/ upstream_of url = UCurl curl_operation_timedout
    | E502Closed => upstream_of url = UStreamClosed
    | E400CurlUrl => upstream_of url = UCurl curl_url_malformat
    | E502TooBig => upstream_of url = UCurl curl_filesize_exceeded
    | E502CurlConnect | E502CurlUnknown => exists n, upstream_of url = UCurl n
    | E502Upstream code =>
        upstream_of url = UHttpError code None \/
        exists hh bb, upstream_of url = UHttpError code (Some (hh, bb)) /\ hdr_get k_memento hh = None
    | _ => False
    end.
  Proof. exact (fetch_err_status production upstream_of file_of file_headers_of sha256_hex). Qed.

  Theorem C08_fetch_effects : forall url h q rh eff res,
    fetch url h q rh = (eff, res) ->
    (eff = [] /\ (exists e, res = inr e) /\ (is_http url = false)) \/
    (eff = [EOpen (skipn 7 url)] /\ starts_with file_prefix url = true /\ production = false) \/
    (eff = [EFetch url (upstream_headers q rh)] /\ is_http url = true /\ starts_with file_prefix url = false).
  Proof. exact (fetch_effects production upstream_of file_of file_headers_of sha256_hex). Qed.

  (* every error response: JSON "code" equals the HTTP status, no cache validator;
     every non-error response is the 304 short-cut or a 200 carrying the diff *)
  Theorem C08_error_shape : forall differ raw rh em resp eff,
    get differ raw rh em = (resp, eff) ->
    match r_err resp with
    | Some e => r_status resp = err_status e /\ r_body resp = BError (err_status e) /\ r_etag resp = false
    | None => (r_status resp = 304 /\ em = true /\ r_body resp = BNone /\ eff = []) \/
              (r_status resp = 200 /\ em = false /\ r_etag resp = true /\ exists kw t, r_body resp = BDiff differ kw t)
    end.
  Proof. exact (response_shape production upstream_of file_of file_headers_of sha256_hex decode_ok run_differ). Qed.
End C08.

(* non-vacuity: the gate keeps "HTTP://x" (upper case), " http://x" (padded), "ftp://x", "" and "//x" out *)
Example C08_bad_schemes_examples :
  forallb (fun u => negb (is_http (s2l u)) && negb (starts_with file_prefix (s2l u)))
          ["HTTP://x"; " http://x"; "ftp://x"; ""; "//x"; "http:/x"; "File://x"; "javascript:alert(1)"]%string = true
  /\ forallb (fun u => is_http (s2l u)) ["http://x"; "https://x"; "http://"]%string = true.
Proof. split; vm_compute; reflexivity. Qed.

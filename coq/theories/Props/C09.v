(* C09 - Page content never becomes active markup; deleted scripts are inert (chunk-stream level).
   [partial]: escaping and verbatim transport are proved on the model; the fragment serialisation
   of the body, the re-parse and the inert-template wrapping of deleted scripts are checked per
   input by the document-level observer. *)
From Coq Require Import List NArith Arith Bool String.
From WMD Require Import Gen.Tables Lib.Str Lib.PyChars Lib.Escape Lib.Difflib Model.RenderTokens Model.RenderMerge Model.RenderLabelled
     Proofs.EscapeProofs Proofs.MergeProofs Proofs.TokenProofs Proofs.AssembleProofs Proofs.RenderProofs
     Model.LinksHtml Model.RenderDoc Proofs.RenderDocProofs.
Import ListNotations.
Open Scope N_scope.

(* html.escape leaves no '<' or '>' (any quote mode) and, with quote=True, no quote characters;
   decoding its five references gives the original back *)
Theorem C09_escape_no_angle : forall quote s, ~ In 60 (html_escape quote s) /\ ~ In 62 (html_escape quote s).
Proof. exact escape_no_angle. Qed.

Theorem C09_escape_no_quote : forall s, ~ In 34 (html_escape true s) /\ ~ In 39 (html_escape true s).
Proof. exact escape_no_quote. Qed.

Theorem C09_unescape_escape : forall quote s fuel,
  (List.length (html_escape quote s) <= fuel)%nat -> unescape fuel (html_escape quote s) = s.
Proof. exact unescape_escape. Qed.

(* every text chunk of every tree is free of '<' and '>' ... *)
Theorem C09_text_chunks_escaped : forall root, Forall word_ok (flatten_root root).
Proof. exact flatten_root_words_ok. Qed.

(* ... so the marker state machines never classify text as a tag *)
Theorem C09_text_inert : forall s, ~ In 60 s -> starts_lt s = false.
Proof. exact no_lt_not_tag. Qed.

(* embedded script/style (and the other opaque elements) travel as ONE chunk, the element's own
   serialisation, and the state machines emit every chunk unchanged exactly once *)
Theorem C09_undiffable_is_one_verbatim_chunk : forall tag attrs text children tail source,
  mem_str tag Tables.undiffable_content_tags = true -> str_eqb tag (s2l "img") = false ->
  flatten_el (El tag attrs text children tail source) = [CUndiff source].
Proof. intros tag attrs text children tail source H1 H2. cbn [flatten_el]. rewrite H1, H2. reflexivity. Qed.

Theorem C09_chunks_emitted_verbatim : forall chunks st, srcs (merge_changes_l chunks st) = nonempty_chunks chunks.
Proof. exact merge_changes_conserves. Qed.

(* the fragment handed to the tokeniser (_diffable_fragment): a text node directly in <body> is
   written escaped, so it cannot open a tag; every <ins>/<del> of the source is unwrapped at any
   depth and all text nodes are kept in order *)
Theorem C09_body_text_escaped : forall s rest,
  diffable_fragment (SText s :: rest) = html_escape false s ++ diffable_fragment rest /\ ~ In 60 (html_escape false s).
Proof. exact fragment_body_text_escaped. Qed.

Theorem C09_source_markers_unwrapped : forall n, forallb (fun m => negb (has_insdel m)) (unwrap_insdel n) = true.
Proof. exact unwrap_removes_insdel. Qed.

Theorem C09_unwrapping_keeps_text : forall n, flat_map texts (unwrap_insdel n) = texts n.
Proof. exact unwrap_keeps_texts. Qed.

(* deleted scripts and styles are inert in the combined view *)
Theorem C09_deleted_active_elements_inert : forall old new ops ic dc body,
  let v := view_doc KCombined old new ops ic dc body in
  forallb (inert_ok false false false) (d_body v) = true /\ forallb (inert_ok false false false) (d_head v) = true.
Proof. exact combined_view_inert. Qed.

(* inside embedded SVG / MathML the deleted script or style is moved out of the graphic (a <template> there is no HTML
   template): nothing is dropped, each one follows the graphic, wrapped, in document order *)
Theorem C09_deleted_foreign_scripts_are_moved_not_dropped : forall name a v cs u, is_foreign name = true ->
  exists rest, deactivate u (SEl name a v cs) = rest ++ map inert_wrap (deleted_actives u (SEl name a v cs)).
Proof. exact deactivate_foreign_keeps_actives. Qed.

Theorem C09_tables :
  forallb (fun n => mem_str (s2l n) Tables.undiffable_content_tags) ["script"; "style"; "svg"; "template"; "textarea"; "select"]%string = true /\
  Tables.active_elements = [s2l "script"; s2l "style"].
Proof. split; vm_compute; reflexivity. Qed.

Example C09_example :
  html_escape true (s2l "<script>alert(""1"")</script> & 'x'") =
  s2l "&lt;script&gt;alert(&quot;1&quot;)&lt;/script&gt; &amp; &#x27;x&#x27;".
Proof. vm_compute. reflexivity. Qed.

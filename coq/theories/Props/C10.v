(* C10 - Links HTML view renders every entry faithfully without injection.
   Statements are about the string the model of links_diff_html returns (tree construction and
   BeautifulSoup prettify, tied char for char to the implementation), read back by an HTML
   tokenizer specification; they hold for ALL link texts, targets, nested text diffs, titles. *)
From Coq Require Import List NArith ZArith Arith Bool String.
From WMD Require Import Gen.Tables Lib.Str Lib.PyChars Lib.Escape Model.Dmp Model.LinksHtml Proofs.EscapeProofs Proofs.LinksHtmlProofs Proofs.LinksRowAnchors.
Import ListNotations.
Open Scope N_scope.

(* reading the document back gives the fixed head (with the title as one text token) and table
   header, then exactly one group of tokens per entry, in order, then the closing tags *)
Theorem C10_read_back : forall title ic dc entries, no_lt ic -> no_lt dc ->
  clean (lex (links_html title ic dc entries)) =
  TDecl (s2l "DOCTYPE html") :: sem_events (doc_prefix title ic dc) [] ++ flat_map row_tokens entries ++ sem_events doc_suffix [].
Proof. exact links_view_tokens. Qed.

Theorem C10_one_row_per_entry : forall title ic dc entries, no_lt ic -> no_lt dc ->
  count is_row_start (clean (lex (links_html title ic dc entries))) = List.length entries.
Proof. exact links_view_row_count. Qed.

(* the general fact behind it: for every tree with well-formed names, whatever its strings *)
Theorem C10_prettify_reads_back : forall t, Forall event_ok (events t) ->
  clean (lex (prettify_doc t)) = TDecl (s2l "DOCTYPE html") :: sem_events (events t) [].
Proof. exact read_back. Qed.

(* an unchanged / added / removed entry: its text is one text token, its target is the href of
   the row's only link and (in parentheses) that link's text *)
Theorem C10_plain_row : forall code text href,
  row_tokens (EPlain code text href) =
  TStart (s2l "tr") (map lex_attr (row_attrs code)) ::
  sem_events (events (change_cell code)) [] ++
  TStart (s2l "td") [lex_attr (cls "links-list--text")] :: emit (html_escape false (squash text)) ++
  TEnd (s2l "td") ::
  TStart (s2l "td") [lex_attr (cls "links-list--href")] ::
  TStart (s2l "a") [(s2l "href", attr_body (html_escape false href))] ::
  emit (html_escape false (squash ([40] ++ href ++ [41]))) ++
  [TEnd (s2l "a"); TEnd (s2l "td"); TEnd (s2l "tr")].
Proof. exact plain_row_tokens. Qed.

(* the links of a row are exactly the entry's target(s): one for unchanged / added / removed entries
   and for changed entries whose target is the same, otherwise the new then the old one - whatever the
   nested diffs contain *)
Theorem C10_row_link_targets : forall e,
  anchors (row_tokens e) =
  match e with
  | EPlain _ _ href => [href_body href]
  | EChanged _ _ old new => href_body new :: (if str_eqb old new then [] else [href_body old])
  end.
Proof. exact row_link_targets. Qed.

(* what is between the quotes / tags decodes to the original string, whatever characters it has *)
Theorem C10_target_decodes : forall v,
  let body := attr_body (html_escape false v) in unescape (List.length body) body = v.
Proof. exact attr_value_decodes. Qed.

Theorem C10_text_decodes : forall s, unescape (List.length (html_escape false s)) (html_escape false s) = s.
Proof. exact text_decodes. Qed.

Theorem C10_text_never_opens_a_tag : forall s, ~ In 60 (html_escape false s) /\ ~ In 62 (html_escape false s).
Proof. exact (escape_no_angle false). Qed.

Theorem C10_attribute_never_breaks_out : forall e, ~ In (attr_quote e) (attr_body e).
Proof. exact attr_body_no_quote. Qed.

(* a changed entry: the strings shown for one side are together that side's text (the nested diff
   reconstructs its sides by the dmp contract, C05) *)
Theorem C10_changed_side_text : forall d,
  text_of (sem_events (flat_map events (nodes_for_text_diff d)) []) = html_escape false (squash (List.concat (map snd d))).
Proof. exact nested_diff_text. Qed.

Theorem C10_sides_are_dmp_sides : forall d,
  Forall (fun s => fst s = 0%Z \/ fst s = 1%Z \/ fst s = (-1)%Z) d ->
  List.concat (map snd (filter not_deleted d)) = new_side d /\ List.concat (map snd (filter not_inserted d)) = old_side d.
Proof.
  intros d H. unfold new_side, old_side. split; do 2 f_equal; apply filter_ext_in; intros s Hs;
    rewrite Forall_forall in H; destruct (H s Hs) as [E|[E|E]]; unfold not_deleted, not_inserted; rewrite E; reflexivity.
Qed.

(* nothing but scaffold: every tag in the returned document is table scaffolding, the style block,
   or an ins/del carrying exactly class="wm-diff" *)
Theorem C10_only_scaffold : forall title ic dc entries, no_lt ic -> no_lt dc ->
  Forall (fun t => tok_scaffold t = true) (clean (lex (links_html title ic dc entries))).
Proof. exact links_view_only_scaffold. Qed.

(* the title is the new page's title as text *)
Theorem C10_title_as_text : forall title ic dc,
  exists before after, sem_events (doc_prefix title ic dc) [] =
    before ++ TStart (s2l "title") [] :: emit (html_escape false (squash title)) ++ TEnd (s2l "title") :: after.
Proof.
  intros. unfold doc_prefix. cbn [sem_events app]. rewrite squash_escape.
  eexists [_; _; _], _. cbn [app]. reflexivity.
Qed.

(* tables used are the regenerated ones *)
Theorem C10_tables :
  Tables.change_info = [((-1)%Z, (s2l "-", Some (s2l "Deleted"))); (0%Z, ([9900], None)); (1%Z, (s2l "+", Some (s2l "Added")));
                        (100%Z, ([177], Some (s2l "Changed")))] /\
  template_clean Tables.links_css_template = true /\
  Tables.row_class = s2l "links-list--item".
Proof. split; [vm_compute; reflexivity|]. split; [vm_compute; reflexivity|reflexivity]. Qed.
(* the styling flags of a row (Tables.row_flags, translated from the source) are deliberately not
   pinned: they are not part of the property; the theorems hold for whatever flags the code defines *)

(* non-vacuity: a hostile entry *)
Example C10_example :
  let e := EPlain 1%Z (s2l "<script>alert(1)</script>") (s2l "/x"">y") in
  row_tokens e =
  [TStart (s2l "tr") [cls "links-list--item"; (s2l "wm-has-insertions", s2l "True"); (s2l "wm-inserted", s2l "True")];
   TStart (s2l "td") [cls "links-list--change-type"; (s2l "title", s2l "Added")]; TText (s2l "+"); TEnd (s2l "td");
   TStart (s2l "td") [cls "links-list--text"]; TText (s2l "&lt;script&gt;alert(1)&lt;/script&gt;"); TEnd (s2l "td");
   TStart (s2l "td") [cls "links-list--href"]; TStart (s2l "a") [(s2l "href", s2l "/x""&gt;y")]; TText (s2l "(/x""&gt;y)");
   TEnd (s2l "a"); TEnd (s2l "td"); TEnd (s2l "tr")].
Proof. vm_compute. reflexivity. Qed.

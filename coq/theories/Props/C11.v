(* C11 - Non-HTML content is refused according to the documented decision table.
   Only statements, each closed by an existing lemma. *)
From Coq Require Import List NArith Bool String.
From WMD Require Import Gen.Tables Lib.Str Lib.PyChars Model.ContentType Proofs.ContentTypeProofs.
Import ListNotations.
Open Scope N_scope.

(* The model of is_not_html equals the documented table over
   (option, header class, content class), for all texts, headers and options. *)
Theorem C11_table : forall text h opt,
  is_not_html text h opt = decision opt (classify h) (looks_binary text).
Proof. exact is_not_html_table. Qed.

(* The decision does not depend on the letter case of the Content-Type value:
   any two values that differ only in ASCII letter case give the same decision,
   whatever the other headers, the text and the option. *)
Theorem C11_case_irrelevant : forall text d v v' opt,
  caseless_str v v' ->
  is_not_html text (Some (set_ct d v)) opt = is_not_html text (Some (set_ct d v')) opt.
Proof. exact is_not_html_caseless. Qed.

(* ... nor on parameters after ';' or on whitespace padding of the media type. *)
Theorem C11_params_padding_irrelevant : forall p1 m p2 params,
  forallb py_isspace p1 = true -> forallb py_isspace p2 = true -> ~ In 59 m ->
  media_type_of (p1 ++ m ++ p2 ++ 59 :: params) = media_type_of m /\
  media_type_of (p1 ++ m ++ p2) = media_type_of m.
Proof. exact media_type_params_padding. Qed.

Theorem C11_nocheck_ignores_headers : forall text h h',
  is_not_html text h o_nocheck = is_not_html text h' o_nocheck.
Proof. exact nocheck_ignores_headers. Qed.

Theorem C11_nosniff_ignores_content : forall text text' h,
  is_not_html text h o_nosniff = is_not_html text' h o_nosniff.
Proof. exact nosniff_ignores_content. Qed.

Theorem C11_ignore_never_refuses : forall text h, is_not_html text h o_ignore = false.
Proof. exact ignore_never_refuses. Qed.

(* the error names exactly the side(s) refused *)
Theorem C11_sides : forall a b ha hb opt,
  let ea := is_not_html a ha opt in
  let eb := is_not_html b hb opt in
  raise_if_not_diffable_html a b ha hb opt =
    match ea, eb with
    | true, true => ErrBoth
    | true, false => ErrA
    | false, true => ErrB
    | false, false => NoError
    end.
Proof. exact sides. Qed.

(* obligations on the tables regenerated from the source on every run *)
Theorem C11_tables_are_documented :
  Tables.acceptable_content_types = spec_acceptable /\
  Tables.unknown_ct_exact = spec_fallthrough_exact /\
  Tables.unknown_ct_prefixes = [s2l "text/"%string] /\
  Tables.unknown_ct_ignorecase = false /\
  Tables.non_html_signatures = spec_signatures /\
  Tables.non_html_format = s2l "^[\s\n\r]*(%s)"%string /\
  Tables.unknown_ct_format = s2l "^(%s)$"%string /\
  Tables.valid_ct_src = s2l "^[a-z0-9][a-z0-9!#$&^_.+-]*/[a-z0-9][a-z0-9!#$&^_.+-]*$"%string.
Proof. exact tables_are_documented. Qed.

Theorem C11_greedy_matcher_is_exact :
  in_ranges Tables.valid_ct_type_rest 47 = false /\
  in_ranges Tables.valid_ct_sub_rest 10 = false /\
  in_ranges Tables.valid_ct_sub_rest 47 = false.
Proof. exact valid_classes_exclude_delims. Qed.

(* render and links differ call the decision with the same arguments *)
Theorem C11_same_for_both_differs :
  Tables.ct_call_args_html_diff_render = spec_call_args /\
  Tables.ct_call_args_links_diff = spec_call_args.
Proof. exact both_differs_call_alike. Qed.

(* non-vacuity: documented types land in the documented classes in either case *)
Example C11_documented_types_classified :
  forallb (fun m => match classify (hdr m), classify (hdr (upper_str m)) with
                    | Html, Html => true | _, _ => false end) spec_acceptable = true /\
  forallb (fun m => match classify (hdr m), classify (hdr (upper_str m)) with
                    | FallThrough, FallThrough => true | _, _ => false end)
          (spec_fallthrough_exact ++ map s2l ["text/plain"; "text/csv"; "text/x"]%string) = true /\
  forallb (fun m => match classify (hdr m), classify (hdr (upper_str m)) with
                    | OtherType, OtherType => true | _, _ => false end)
          (map s2l ["image/jpeg"; "application/pdf"; "application/json"; "video/mp4"]%string) = true /\
  forallb (fun m => match classify (hdr m) with Malformed => true | _ => false end)
          (map s2l ["text"; "/html"; "text/"; "te xt/html"; "text/html/x"; "text/h<ml"]%string) = true.
Proof. exact documented_types_classified. Qed.

(* C12 - Fetched bodies always decode: total, NUL-free, fixed charset precedence. *)
From Coq Require Import List NArith Bool String.
From WMD Require Import Gen.Tables Lib.Str Lib.PyChars Model.Server Model.Decode Proofs.DecodeProofs.
Import ListNotations.
Open Scope N_scope.

Section C12.
  Variable meta_match : str -> option str.
  Variable prolog_match : str -> option str.
  Variable detect : str -> option str.
  Variable codec_known : str -> bool.
  Variable decode_replace : str -> str -> option str.
  Notation decode_body := (Decode.decode_body meta_match prolog_match detect codec_known decode_replace).
  Notation extract_encoding := (Decode.extract_encoding meta_match prolog_match detect codec_known).
  Notation raw_label := (Decode.raw_label meta_match prolog_match detect).
  Notation normalise_label := (Decode.normalise_label codec_known).

  (* For any headers, any bytes, any charset label and ANY behaviour of the codec registry and
     of decoding under the chosen label (including raising), the outcome is text or
     "undecodable" - given only that UTF-8 with replacement never raises. *)
  Theorem C12_total :
    (forall b, decode_replace utf8 b <> None) ->
    forall headers body rib, exists d, decode_body headers body rib = Some d.
  Proof. exact (decode_total meta_match prolog_match detect codec_known decode_replace). Qed.

  Theorem C12_no_nul : forall headers body rib t,
    decode_body headers body rib = Some (Text t) -> ~ In 0 t.
  Proof. exact (decode_no_nul meta_match prolog_match detect codec_known decode_replace). Qed.

  Theorem C12_codec_is_known_or_utf8 : forall headers content,
    extract_encoding headers content = utf8 \/ codec_known (extract_encoding headers content) = true.
  Proof. exact (extract_known_or_utf8 meta_match prolog_match detect codec_known). Qed.

  Theorem C12_precedence_header : forall ct content l,
    header_label ct = Some l -> py_strip l <> [] -> raw_label ct content = Some (py_strip l).
  Proof. exact (precedence_header meta_match prolog_match detect). Qed.

  (* the header's label ends where a further media-type parameter begins: "text/html; charset=iso-8859-2; x=y" declares iso-8859-2 *)
  Theorem C12_header_label_ends_at_parameter : forall ct l, header_label ct = Some l -> ~ In 59 l.
  Proof. exact header_label_no_semicolon. Qed.

  Theorem C12_header_label_example :
    header_label (s2l "text/html; charset=iso-8859-2; foo=bar") = Some (s2l "iso-8859-2").
  Proof. exact header_label_with_later_parameter. Qed.

  Theorem C12_precedence_meta : forall ct content l,
    header_label ct = None -> nonempty (meta_match content) = Some l -> py_strip l <> [] ->
    raw_label ct content = Some (py_strip l).
  Proof. exact (precedence_meta meta_match prolog_match detect). Qed.

  Theorem C12_precedence_prolog : forall ct content l,
    header_label ct = None -> nonempty (meta_match content) = None ->
    nonempty (prolog_match content) = Some l -> py_strip l <> [] ->
    raw_label ct content = Some (py_strip l).
  Proof. exact (precedence_prolog meta_match prolog_match detect). Qed.

  Theorem C12_precedence_detection_then_utf8 : forall ct content,
    header_label ct = None -> nonempty (meta_match content) = None -> nonempty (prolog_match content) = None ->
    raw_label ct content =
      match content with
      | [] => None
      | _ => match nonempty (detect content) with Some e => Some (py_lower e) | None => None end
      end.
  Proof. exact (precedence_detect meta_match prolog_match detect). Qed.

  Theorem C12_no_label_is_utf8 : forall ct, normalise_label ct None = utf8.
  Proof. exact (no_label_is_utf8 codec_known). Qed.

  Theorem C12_unknown_label_is_utf8 : forall ct l,
    l <> iso_typo -> l <> iso_8859_1 -> codec_known l = false -> normalise_label ct (Some l) = utf8.
  Proof. exact (unknown_label_is_utf8 codec_known). Qed.

  Theorem C12_known_label_is_used : forall ct l,
    l <> iso_typo -> l <> iso_8859_1 -> codec_known l = true -> normalise_label ct (Some l) = l.
  Proof. exact (known_label_is_used codec_known). Qed.

  Theorem C12_non_text_codec_falls_back : forall headers body,
    decode_replace (extract_encoding headers body) body = None ->
    forall rib, decode_body headers body rib =
      match decode_replace utf8 body with
      | Some [] => Some (Text [])
      | Some t => let t' := replace_nul t in
                  if rib && N.ltb (nlen t') (4 * count_char 65533 t') then Some (Undecodable utf8) else Some (Text t')
      | None => None
      end.
  Proof. exact (non_text_codec_falls_back meta_match prolog_match detect codec_known decode_replace). Qed.
End C12.

(* the two regular expressions whose matches are oracles are the documented ones *)
Theorem C12_patterns_are_documented :
  Tables.meta_tag_pattern_src = s2l "<meta[^>]+charset\s*=\s*['""]?([^>]*?)[ /;'"">]" /\
  Tables.meta_tag_pattern_flags = [s2l "IGNORECASE"] /\
  Tables.xml_prolog_pattern_src = s2l "<?xml\s[^>]*encoding=['""]([^'""]+)['""].*\?>" /\
  Tables.xml_prolog_pattern_flags = [s2l "IGNORECASE"].
Proof. repeat split; vm_compute; reflexivity. Qed.

Example C12_hypothesis_satisfiable :
  exists decode_replace : str -> str -> option str, forall b, decode_replace utf8 b <> None.
Proof. exists (fun _ b => Some b). discriminate. Qed.

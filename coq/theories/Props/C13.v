(* C13 - A supplied content hash is binding. SHA-256 is an uninterpreted function. *)
From Coq Require Import List NArith Bool String.
From WMD Require Import Gen.Tables Lib.Str Lib.PyChars Model.Server Proofs.ServerProofs.
Import ListNotations.
Open Scope N_scope.

Section C13.
  Variable production : bool.
  Variable upstream_of : str -> upstream.
  Variable file_of : str -> str.
  Variable file_headers_of : str -> dict.
  Variable sha256_hex : str -> str.
  Variable decode_ok : bool -> bool -> bool.
  Variable run_differ : str -> list (str * arg_source) -> differ_outcome.
  Notation get := (Server.get production upstream_of file_of file_headers_of sha256_hex decode_ok run_differ).
  Notation fetch := (fetch_diffable_content production upstream_of file_of file_headers_of sha256_hex).

  (* A 200 implies: for each side whose hash parameter is present (including the empty
     string) the body fetched for that side has exactly that hash ... *)
  Theorem C13_binding : forall differ raw rh resp eff,
    get differ raw rh false = (resp, eff) ->
    r_status resp = 200 ->
    exists ua ub ea eb fa fb,
      dict_get k_a (decode_query_params raw) = Some ua /\
      dict_get k_b (decode_query_params raw) = Some ub /\
      fetch ua (q_hash_a raw) (q_rest raw) rh = (ea, inl fa) /\
      fetch ub (q_hash_b raw) (q_rest raw) rh = (eb, inl fb) /\
      (forall x, q_hash_a raw = Some x -> sha256_hex (f_body fa) = x) /\
      (forall x, q_hash_b raw = Some x -> sha256_hex (f_body fb) = x).
  Proof. exact (ok_hashes production upstream_of file_of file_headers_of sha256_hex decode_ok run_differ). Qed.

  (* ... and the diff is computed on that very content: the differ's body/text arguments are
     the fetched ones whatever else the query carries *)
  Theorem C13_diff_of_the_hashed_content : forall differ raw rh resp eff,
    get differ raw rh false = (resp, eff) ->
    r_status resp = 200 ->
    exists kw t, r_body resp = BDiff differ kw t /\ run_differ differ kw = DResult t /\
      forall name src, In (name, src) kw ->
        match reserved_source name with
        | Some s => src = s
        | None => exists v, dict_get name (q_rest raw) = Some v /\ src = FromQuery v
        end.
  Proof. exact (ok_kwargs production upstream_of file_of file_headers_of sha256_hex decode_ok run_differ). Qed.

  (* the hash check itself: passes only on equality, fails with the mismatch error otherwise *)
  Theorem C13_check_ok : forall url r h r',
    check_hash sha256_hex url r h = inl r' ->
    r' = r /\ (forall x, h = Some x -> sha256_hex (f_body r) = x).
  Proof. exact (check_hash_ok sha256_hex). Qed.

  Theorem C13_check_mismatch : forall url r h e,
    check_hash sha256_hex url r h = inr e ->
    e = E502HashMismatch /\ exists x, h = Some x /\ sha256_hex (f_body r) <> x.
  Proof. exact (check_hash_err sha256_hex). Qed.

  (* a mismatch is a 502 error body, never a diff *)
  Theorem C13_mismatch_is_502_without_diff : forall differ raw rh em resp eff,
    get differ raw rh em = (resp, eff) ->
    match r_err resp with
    | Some e => r_status resp = err_status e /\ r_body resp = BError (err_status e) /\ r_etag resp = false
    | None => (r_status resp = 304 /\ em = true /\ r_body resp = BNone /\ eff = []) \/
              (r_status resp = 200 /\ em = false /\ r_etag resp = true /\ exists kw t, r_body resp = BDiff differ kw t)
    end.
  Proof. exact (response_shape production upstream_of file_of file_headers_of sha256_hex decode_ok run_differ). Qed.
End C13.

Example C13_mismatch_status : err_status E502HashMismatch = 502.
Proof. reflexivity. Qed.

(* C14 - Render result always has the documented shape.
   [partial]: the assembly logic is proved over the model (tied char for char to the returned
   strings); "does not crash for any two strings" is a fact about the C parsers and the
   interpreter stack that no Gallina model can exhibit - it is explored, not proved. *)
From Coq Require Import List NArith ZArith Arith Bool String.
From WMD Require Import Gen.Tables Lib.Str Lib.PyChars Lib.Escape Model.Dmp Model.LinksHtml Model.RenderDoc
     Proofs.EscapeProofs Proofs.RenderDocProofs.
Import ListNotations.
Open Scope N_scope.

(* exactly the views that include selects, for every string value of include *)
Theorem C14_keys : forall include,
  selected include =
  if str_eqb include (s2l "all") then [KCombined; KInsertions; KDeletions]
  else if str_eqb include (s2l "combined") then [KCombined]
  else if str_eqb include (s2l "insertions") then [KInsertions]
  else if str_eqb include (s2l "deletions") then [KDeletions]
  else [].
Proof.
  intros include.
  destruct (str_eqb_spec include (s2l "all")) as [->|N1]; [vm_compute; reflexivity|].
  destruct (str_eqb_spec include (s2l "combined")) as [->|N2]; [vm_compute; reflexivity|].
  destruct (str_eqb_spec include (s2l "insertions")) as [->|N3]; [vm_compute; reflexivity|].
  destruct (str_eqb_spec include (s2l "deletions")) as [->|N4]; [vm_compute; reflexivity|].
  assert (F : forall l, include <> l -> str_eqb include l = false).
  { intros l Hne. destruct (str_eqb_spec include l); [contradiction|reflexivity]. }
  unfold selected, Tables.include_table. cbn [flat_map fst snd mem_str].
  repeat match goal with
         | |- context [str_eqb include ?l] => rewrite (F l) by (first [exact N1 | exact N2 | exact N3 | exact N4])
         end.
  reflexivity.
Qed.

(* the table of include values is the one translated from _htmldiff *)
Theorem C14_include_table :
  Tables.include_table = [(s2l "combined", [s2l "all"; s2l "combined"]); (s2l "insertions", [s2l "all"; s2l "insertions"]);
                          (s2l "deletions", [s2l "all"; s2l "deletions"])].
Proof. reflexivity. Qed.

(* every view keeps doctype, html, head and body attributes of its base page (old page for deletions) *)
Theorem C14_keeps_attributes : forall k old new ops ic dc body,
  let v := view_doc k old new ops ic dc body in
  d_doctype v = d_doctype (base_of k old new) /\ d_html_attrs v = d_html_attrs (base_of k old new) /\
  d_head_attrs v = d_head_attrs (base_of k old new) /\ d_body_attrs v = d_body_attrs (base_of k old new).
Proof. exact view_keeps_attributes. Qed.

(* insertions / deletions: the base head plus exactly the style block; the diff body plus exactly the script *)
Theorem C14_single_sided_chrome : forall k old new ops ic dc body, k <> KCombined ->
  let v := view_doc k old new ops ic dc body in
  d_head v = d_head (base_of k old new) ++ [style_node ic dc] /\ d_body v = body ++ [script_node].
Proof. exact single_sided_view_parts. Qed.

(* combined: additionally exactly one title-diff meta and one template holding the old head *)
Theorem C14_combined_chrome : forall old new ops ic dc body,
  let v := view_doc KCombined old new ops ic dc body in
  d_head v = flat_map (deactivate false) (d_head new) ++
             [title_meta ops; SEl (s2l "template") [(s2l "id", s2l "wm-diff-old-head")] false (flat_map (deactivate false) (d_head old));
              style_node ic dc] /\
  d_body v = flat_map (deactivate false) body ++ [script_node].
Proof. exact combined_view_parts. Qed.

Theorem C14_combined_head_verbatim : forall old new ops ic dc body,
  forallb (fun n => negb (has_del n)) (d_head new) = true -> forallb (fun n => negb (has_del n)) (d_head old) = true ->
  d_head (view_doc KCombined old new ops ic dc body) =
  d_head new ++ [title_meta ops; old_head_template (d_head old); style_node ic dc].
Proof. exact combined_head_unchanged_without_del. Qed.

(* the title diff reads back into both titles, whatever characters they contain *)
Theorem C14_title_reconstructs : forall ops fuel, (List.length (title_markup ops) <= fuel)%nat ->
  unmark fuel (title_markup ops) = Some (html_escape true (old_title_of ops), html_escape true (new_title_of ops)).
Proof. exact unmark_title_markup. Qed.

Theorem C14_title_sides_are_dmp_sides : forall ops,
  Forall (fun s => fst s = 0%Z \/ fst s = 1%Z \/ fst s = (-1)%Z) ops ->
  old_title_of ops = old_side ops /\ new_title_of ops = new_side ops.
Proof.
  intros ops H. unfold old_title_of, new_title_of, old_side, new_side. split; do 2 f_equal; apply filter_ext_in; intros s Hs;
    rewrite Forall_forall in H; destruct (H s Hs) as [E|[E|E]]; rewrite E; reflexivity.
Qed.

Theorem C14_title_text_decodes : forall s fuel, (List.length (html_escape true s) <= fuel)%nat -> unescape fuel (html_escape true s) = s.
Proof. intros. apply unescape_escape. assumption. Qed.

(* deleted scripts and styles are inert in the combined view (shared with C09) *)
Theorem C14_deleted_active_elements_inert : forall old new ops ic dc body,
  let v := view_doc KCombined old new ops ic dc body in
  forallb (inert_ok false false false) (d_body v) = true /\ forallb (inert_ok false false false) (d_head v) = true.
Proof. exact combined_view_inert. Qed.

(* the chrome text comes from the regenerated tables *)
Theorem C14_tables :
  Tables.active_elements = [s2l "script"; s2l "style"] /\
  map fst Tables.palette_env = [s2l "differ_insertion"; s2l "differ_deletion"] /\
  map snd Tables.palette_env = [(s2l "DIFFER_COLOR_INSERTION", s2l "#a1d76a"); (s2l "DIFFER_COLOR_DELETION", s2l "#e8a4c8")] /\
  List.length (filter (fun p => negb (N.eqb (fst p) 0)) Tables.render_css_template) = 2%nat.
Proof. repeat split; vm_compute; reflexivity. Qed.

Example C14_example :
  unmark 200 (title_markup [(0%Z, s2l "A & "); ((-1)%Z, s2l "<old>"); (1%Z, s2l "new ""q""")]) =
  Some (s2l "A &amp; &lt;old&gt;", s2l "A &amp; new &quot;q&quot;").
Proof. vm_compute. reflexivity. Qed.

(* the titles that the title diff compares: the first <title> of the page outside embedded SVG / MathML (shared with C10,
   whose view is titled with the new page's title): the head's title wins, a graphic in the body contributes none *)
Theorem C14_page_title_head_first : forall d t, first_title_in (d_head d) = Some t -> doc_title d = t.
Proof. exact doc_title_head_first. Qed.

Theorem C14_page_title_ignores_graphics : forall d name a v cs rest,
  first_title_in (d_head d) = None -> d_body d = SEl name a v cs :: rest -> holds_no_page_title name = true ->
  doc_title d = match first_title_in rest with Some t => t | None => [] end.
Proof. exact doc_title_body_graphics_ignored. Qed.

Theorem C14_page_title_of_a_graphic_is_none : forall name a v cs, holds_no_page_title name = true -> first_title (SEl name a v cs) = None.
Proof. exact first_title_foreign. Qed.

(* C15 - Change markers never enclose block-level structure (chunk-stream level).
   Proved for the single-sided views and for the combined view (its stream is a sequence of whole
   closed groups and loose tags, through reconciliation, for all opcode lists).  [partial] at
   document level: that the HTML parser does not move a block into a marker when it re-parses the
   stream is checked per input by the observer. *)
From Coq Require Import List NArith Arith Bool String.
From WMD Require Import Gen.Tables Lib.Str Lib.PyChars Lib.Escape Lib.Difflib Model.RenderTokens Model.RenderMerge Model.RenderLabelled
     Proofs.DifflibProofs Proofs.MergeProofs Proofs.TokenProofs Proofs.AssembleProofs Proofs.RenderProofs Proofs.ReconcileProofs Proofs.CombinedProofs Proofs.NestingProofs.
Import ListNotations.
Open Scope N_scope.

(* the marker state machine of the single-sided views: for every chunk list, scanning the output
   succeeds (no block-level source chunk, no block-named synthetic tag between a marker and its
   close; markers alternate) and ends outside any marker *)
Theorem C15_merge_changes : forall chunks,
  scan false (merge_changes_l chunks None) = Some false.
Proof. intros chunks. exact (merge_changes_no_block_in_marker chunks None I). Qed.

(* whole single-sided views, for any two token lists and any opcode list *)
Theorem C15_single_sided : forall new_side old new ops, scan false (view_l new_side old new ops) = Some false.
Proof. exact view_no_block_in_marker. Qed.

(* the grouping used by the combined view: every group brackets its markers and holds no
   block-level chunk; block-level tags are always loose items outside groups *)
Theorem C15_groups : forall chunks, groups_closed (merge_groups_l chunks None).
Proof. intros chunks. exact (merge_groups_closed chunks None I). Qed.

(* the combined view: for all token lists and ALL opcode lists the stream is a sequence of items;
   every marker is opened and closed inside one group whose labelled form scans clean (no
   block-level chunk between open and close), and everything between groups is a loose tag *)
Theorem C15_combined : forall old new ops,
  exists out, assemble_diff MCombined old new ops = flat out /\
              Forall (fun it => match it with IGroup g => closed_group g | ITag s => starts_lt s = true end) out.
Proof. exact combined_groups_closed. Qed.

(* the labelled machines are the executable model *)
Theorem C15_labelled_is_model : forall chunks tt,
  merge_changes chunks tt = map (render_o tt) (merge_changes_l chunks None) /\
  map (render_item (Some tt)) (merge_groups_l chunks None) = merge_change_groups chunks (Some tt).
Proof.
  intros chunks tt. split; [apply merge_changes_refines|].
  exact (merge_groups_l_refines (Some tt) chunks None).
Qed.

(* ---- tree level (single-sided views).  The stream is read with a stack of open elements, as a
   parser reads well-nested markup ([nest]; stack entries are element names or a marker).
   [nest v [] = Some []] says: every end tag closes the element on top of the stack, every marker
   is closed by its own end tag, markers never nest, no block-level element is opened - and no
   block-level tag of any kind is met - while a marker is on the stack, and nothing is left open.
   In the tree such a parser builds, no marker element has a block-level descendant. *)

(* the marker state machine, from any state, over any slice of a page whose stream is well nested
   with block-level tags only under block-level elements ([balc]) *)
Theorem C15_marker_machine_keeps_nesting : forall chunks S S',
  balc chunks S = Some S' -> nest (merge_changes_l chunks None) (names S) = Some (names S').
Proof. intros chunks S S' H. exact (merge_changes_nests chunks None S S' I H). Qed.

(* whole single-sided views, for any two token lists and EVERY contiguous opcode list *)
Theorem C15_tree_level_single_sided : forall (new_side : bool) (old new : list token) (ops : list opcode),
  Forall hidden_blank old -> Forall hidden_blank new ->
  chain ops 0 0 (List.length old) (List.length new) ->
  balc (expand_tokens false (if new_side then new else old)) [] = Some [] ->
  nest (view_l new_side old new ops) [] = Some [].
Proof. exact single_sided_nests. Qed.

(* every admissible element tree ([page_ok]: tags read back to one name, opaque and void elements
   need no closing, no block-level element inside an inline one) has such a stream ... *)
Theorem C15_admissible_pages_are_well_nested : forall root,
  page_ok root = true -> balc (nb (map chunk_str (flatten_root root))) [] = Some [].
Proof. exact page_ok_balanced. Qed.

(* ... hence, for all pairs of element trees, all rule sets and all spacer caps: *)
Theorem C15_tree_level_pages : forall (old_root new_root : el) rules cap (new_side : bool),
  page_ok (if new_side then new_root else old_root) = true ->
  nest (view_l new_side (prepare old_root cap) (prepare new_root cap)
               (token_opcodes rules (prepare old_root cap) (prepare new_root cap))) [] = Some [].
Proof. exact admissible_pages_nest. Qed.

(* the hypothesis is met by ordinary pages as the tokeniser sees them (html > head, body; paragraph with
   inline formatting, a list with a link, a line break, an iframe, a script); head and body tags are
   read the way a parser reads them inside a body: ignored, and only allowed while nothing is open *)
Definition C15_sample_page : el :=
  let leaf (tag text tail : string) := El (s2l tag) [] (s2l text) [] (s2l tail) [] in
  El (s2l "html"%string) [] [] [leaf "head"%string ""%string ""%string; El (s2l "body"%string) [(s2l "class"%string, s2l "home"%string)] [] [
    El (s2l "p"%string) [(s2l "class", s2l "lead")] (s2l "one "%string) [leaf "b"%string "two"%string " three"%string; leaf "br"%string ""%string "four"%string] [] [];
    El (s2l "ul"%string) [] [] [El (s2l "li"%string) [] [] [El (s2l "a"%string) [(s2l "href", s2l "/x")] (s2l "link"%string) [] [] []] [] []] [] [];
    leaf "iframe"%string ""%string " after"%string;
    El (s2l "script"%string) [] [] [] [] (s2l "<script>if (a<b) x()</script>"%string)] [] []] [] [].

Example C15_sample_page_admissible : page_ok C15_sample_page = true.
Proof. vm_compute. reflexivity. Qed.

(* ... and it cannot be dropped: with a block-level element inside an inline one the marker is
   closed in front of the block, the inline element is closed with it, and its own end tag later
   closes nothing - the view is not well nested (the parser then repairs it in its own way) *)
Example C15_nesting_needs_admissible_pages :
  let chunks := map s2l ["<b>"; "x"; "<p>"; "y"; "</p>"; "z"; "</b>"]%string in
  balc chunks [] = None /\ nest (merge_changes_l chunks None) [] = None /\ scan false (merge_changes_l chunks None) = Some false.
Proof. vm_compute. repeat split. Qed.

(* the block table regenerated from the source contains the specification's block-level elements *)
Definition spec_blocks : list str :=
  map s2l ["p"; "h1"; "h2"; "h3"; "h4"; "h5"; "h6"; "ul"; "ol"; "li"; "dl"; "dt"; "dd"; "table"; "thead"; "tbody"; "tfoot"; "tr";
           "td"; "th"; "caption"; "colgroup"; "section"; "article"; "aside"; "nav"; "header"; "footer"; "main"; "address";
           "div"; "pre"; "blockquote"; "figure"; "figcaption"; "form"; "fieldset"; "hr"; "details"; "summary"; "dialog";
           "menu"; "hgroup"; "ins"; "del"]%string.

Theorem C15_spec_blocks_in_table :
  forallb (fun n => mem_str n Tables.block_level_tags) spec_blocks = true.
Proof. vm_compute. reflexivity. Qed.

Example C15_example :
  map (render_o (s2l "ins")) (merge_changes_l [s2l "Some"; s2l "<p>"; s2l "<b>"; s2l "inserted"; s2l "</p>"; s2l "text"] None)
  = map s2l ["<ins class=""wm-diff"">"; "Some"; "</ins>"; "<p>"; "<ins class=""wm-diff"">"; "<b>"; "inserted"; "</b>"; "</ins>"; "</p>";
             "<ins class=""wm-diff"">"; "text"; "</ins>"]%string.
Proof. vm_compute. reflexivity. Qed.

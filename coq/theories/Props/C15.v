(* C15 - Change markers never enclose block-level structure (chunk-stream level).
   Proved for the single-sided views and for the combined view (its stream is a sequence of whole
   closed groups and loose tags, through reconciliation, for all opcode lists).  [partial] at
   document level: that the HTML parser does not move a block into a marker when it re-parses the
   stream is checked per input by the observer. *)
From Coq Require Import List NArith Arith Bool String.
From WMD Require Import Gen.Tables Lib.Str Lib.PyChars Lib.Escape Lib.Difflib Model.RenderTokens Model.RenderMerge
     Proofs.DifflibProofs Proofs.MergeProofs Proofs.TokenProofs Proofs.AssembleProofs Proofs.RenderProofs Proofs.ReconcileProofs Proofs.CombinedProofs.
Import ListNotations.
Open Scope N_scope.

(* the marker state machine of the single-sided views: for every chunk list, scanning the output
   succeeds (no block-level source chunk, no block-named synthetic tag between a marker and its
   close; markers alternate) and ends outside any marker *)
Theorem C15_merge_changes : forall chunks,
  scan false (merge_changes_l chunks None) = Some false.
Proof. intros chunks. exact (merge_changes_no_block_in_marker chunks None I). Qed.

(* whole single-sided views, for any two token lists and any opcode list *)
Theorem C15_single_sided : forall new_side old new ops, scan false (view_l new_side old new ops) = Some false.
Proof. exact view_no_block_in_marker. Qed.

(* the grouping used by the combined view: every group brackets its markers and holds no
   block-level chunk; block-level tags are always loose items outside groups *)
Theorem C15_groups : forall chunks, groups_closed (merge_groups_l chunks None).
Proof. intros chunks. exact (merge_groups_closed chunks None I). Qed.

(* the combined view: for all token lists and ALL opcode lists the stream is a sequence of items;
   every marker is opened and closed inside one group whose labelled form scans clean (no
   block-level chunk between open and close), and everything between groups is a loose tag *)
Theorem C15_combined : forall old new ops,
  exists out, assemble_diff MCombined old new ops = flat out /\
              Forall (fun it => match it with IGroup g => closed_group g | ITag s => starts_lt s = true end) out.
Proof. exact combined_groups_closed. Qed.

(* the labelled machines are the executable model *)
Theorem C15_labelled_is_model : forall chunks tt,
  merge_changes chunks tt = map (render_o tt) (merge_changes_l chunks None) /\
  map (render_item (Some tt)) (merge_groups_l chunks None) = merge_change_groups chunks (Some tt).
Proof.
  intros chunks tt. split; [apply merge_changes_refines|].
  exact (merge_groups_l_refines (Some tt) chunks None).
Qed.

(* the block table regenerated from the source contains the specification's block-level elements *)
Definition spec_blocks : list str :=
  map s2l ["p"; "h1"; "h2"; "h3"; "h4"; "h5"; "h6"; "ul"; "ol"; "li"; "dl"; "dt"; "dd"; "table"; "thead"; "tbody"; "tfoot"; "tr";
           "td"; "th"; "caption"; "colgroup"; "section"; "article"; "aside"; "nav"; "header"; "footer"; "main"; "address";
           "div"; "pre"; "blockquote"; "figure"; "figcaption"; "form"; "fieldset"; "hr"; "details"; "summary"; "dialog";
           "menu"; "hgroup"; "ins"; "del"]%string.

Theorem C15_spec_blocks_in_table :
  forallb (fun n => mem_str n Tables.block_level_tags) spec_blocks = true.
Proof. vm_compute. reflexivity. Qed.

Example C15_example :
  map (render_o (s2l "ins")) (merge_changes_l [s2l "Some"; s2l "<p>"; s2l "<b>"; s2l "inserted"; s2l "</p>"; s2l "text"] None)
  = map s2l ["<ins class=""wm-diff"">"; "Some"; "</ins>"; "<p>"; "<ins class=""wm-diff"">"; "<b>"; "inserted"; "</b>"; "</ins>"; "</p>";
             "<ins class=""wm-diff"">"; "text"; "</ins>"]%string.
Proof. vm_compute. reflexivity. Qed.

(* C16 - URL comparison rules hide exactly the noise they name. *)
From Coq Require Import List NArith Arith Bool String Lia.
From WMD Require Import Gen.Tables Lib.Str Lib.PyChars Lib.Difflib Model.RenderTokens Model.RenderMerge
     Proofs.DifflibProofs Proofs.DifflibSound Proofs.UrlRuleProofs Proofs.UrlTreeProofs.
Import ListNotations.
Open Scope N_scope.

(* --- each comparator ignores the part it names, for every URL of the documented shape --- *)
Theorem C16_wayback_ignores_timestamp : forall P d1 d2 R,
  no_digit P -> List.length d1 = 14%nat -> List.length d2 = 14%nat -> all_digit d1 -> all_digit d2 ->
  wayback_tail [s2l "im_"; s2l "js_"; s2l "cs_"] (d1 ++ R) <> None ->
  rule_compare RWayback (P ++ s2l "web/" ++ d1 ++ R) (P ++ s2l "web/" ++ d2 ++ R) = true.
Proof. exact wayback_rule_ignores_timestamp. Qed.

Theorem C16_wayback_uk_ignores_timestamp : forall P d1 d2 R,
  no_digit P -> List.length d1 = 14%nat -> List.length d2 = 14%nat -> all_digit d1 -> all_digit d2 ->
  wayback_tail [s2l "mp_"; s2l "im_"] (d1 ++ R) <> None ->
  rule_compare RWaybackUk (P ++ s2l "https://www.webarchive.org.uk/wayback/en/archive/" ++ d1 ++ R)
                          (P ++ s2l "https://www.webarchive.org.uk/wayback/en/archive/" ++ d2 ++ R) = true.
Proof. exact wayback_uk_rule_ignores_timestamp. Qed.

Theorem C16_jsession_ignores_session : forall P id1 id2 rest,
  no_semicolon P -> id1 <> [] -> id2 <> [] -> no_semicolon id1 -> no_semicolon id2 ->
  (rest = [] \/ exists r, rest = 59 :: r) ->
  rule_compare RJsession (P ++ jsid ++ id1 ++ rest) (P ++ jsid ++ id2 ++ rest) = true.
Proof. exact jsession_rule_ignores_session. Qed.

(* --- combined rules: each keeps its effect, and nothing else becomes equal --- *)
Theorem C16_compound_keeps_each : forall rs r a b, In r rs -> rule_compare r a b = true -> url_eq (Some rs) a b = true.
Proof. exact compound_keeps_each. Qed.

Theorem C16_compound_only_members : forall rs a b, url_eq (Some rs) a b = true -> exists r, In r rs /\ rule_compare r a b = true.
Proof. exact compound_only_members. Qed.

(* --- zero changes: token lists that are == position by position under the rules, where every
   position that is not also key-identical holds a URL occurring nowhere on the other side, give
   the single "equal" opcode and zero counts - any number of rewritten links/images, first, last
   or adjacent, whatever else repeats in the page.  [partial]: the freshness hypothesis is
   needed - see C16_zero_refuted_without_freshness. --- *)
Theorem C16_zero_partial : forall rules (old new : list token) (n : nat),
  List.length old = n -> List.length new = n -> (1 <= n)%nat ->
  (forall i, (i < n)%nat -> token_eq rules (nth i old dtoken) (nth i new dtoken) = true) ->
  (forall i, (i < n)%nat -> token_same_key (nth i new dtoken) (nth i old dtoken) = true \/
     ((forall j, (j < n)%nat -> token_same_key (nth j new dtoken) (nth i old dtoken) = false) /\
      (forall j, (j < n)%nat -> token_same_key (nth i new dtoken) (nth j old dtoken) = false))) ->
  token_opcodes rules old new = [(Equal, (0, n), (0, n))]%nat /\
  count_changes (token_opcodes rules old new) = zero_counts.
Proof. exact rule_equal_pages_no_change. Qed.

(* the matcher-level statement, for any element type *)
Theorem C16_eq_aligned_sequences : forall (A : Type) (same_key eq : A -> A -> bool) (dflt : A) (a b : list A) (n : nat),
  List.length a = n -> List.length b = n ->
  (forall i, (i < n)%nat -> eq (nth i a dflt) (nth i b dflt) = true) ->
  (forall i, (i < n)%nat -> same_key (nth i b dflt) (nth i a dflt) = true \/
     ((forall j, (j < n)%nat -> same_key (nth j b dflt) (nth i a dflt) = false) /\
      (forall j, (j < n)%nat -> same_key (nth i b dflt) (nth j a dflt) = false))) ->
  find_longest_match A same_key eq dflt a b 0 n 0 n = (0, 0, n)%nat.
Proof. exact flm_eq_aligned. Qed.

(* --- the same at tree level: two element trees with the same structure, text and embedded content
   - attributes are free, except that link targets and image sources must be equal under the
   rules - give token lists that are == position by position (through flattening, tokenising,
   customisation and the spacer cap, for every cap); with the freshness of rewritten URLs: zero
   changes, for every document shape and any number of links and images --- *)
Theorem C16_trees_tokens_pairwise_equal : forall rules e1 e2 cap,
  el_sim rules e1 e2 -> Forall2 (tok_sim rules) (prepare e1 cap) (prepare e2 cap).
Proof. exact prepare_sim. Qed.

Theorem C16_zero_trees_partial : forall rules e1 e2 cap,
  el_sim rules e1 e2 ->
  (let old := prepare e1 cap in let new := prepare e2 cap in
   forall i, (i < List.length old)%nat -> token_same_key (nth i new dtoken) (nth i old dtoken) = true \/
     ((forall j, (j < List.length old)%nat -> token_same_key (nth j new dtoken) (nth i old dtoken) = false) /\
      (forall j, (j < List.length old)%nat -> token_same_key (nth i new dtoken) (nth j old dtoken) = false))) ->
  count_changes (token_opcodes rules (prepare e1 cap) (prepare e2 cap)) = zero_counts.
Proof. exact rule_equal_trees_no_change. Qed.

(* a paragraph with an archived link and an archived image, timestamps rewritten and a class added:
   the trees are related, zero changes under the rule, a change with rules off *)
Definition ex_link (u : string) (cls : list (str * str)) : el :=
  El (s2l "p") cls (s2l "See ")
     [El (s2l "a") [(s2l "href", s2l u)] (s2l "the report") [] (s2l " and ") [];
      El (s2l "img") ((s2l "src", s2l u) :: cls) [] [] (s2l " today") []] [] [].
Definition ex_old := ex_link "http://web.archive.org/web/20190101000000/http://e.gov/r" [].
Definition ex_new := ex_link "http://web.archive.org/web/20200202000000/http://e.gov/r" [(s2l "class", s2l "x")].

Example C16_tree_example :
  el_sim (Some [RWayback]) ex_old ex_new /\
  count_changes (token_opcodes (Some [RWayback]) (prepare ex_old 2500) (prepare ex_new 2500)) = zero_counts /\
  (0 < change_count (count_changes (token_opcodes None (prepare ex_old 2500) (prepare ex_new 2500))))%nat.
Proof.
  split; [|split; [vm_compute; reflexivity|vm_compute; lia]].
  unfold ex_old, ex_new, ex_link. constructor.
  - constructor; [|constructor; [|constructor]].
    + constructor; [constructor|intros E; discriminate E|intros _; vm_compute; reflexivity|intros E; discriminate E].
    + constructor; [constructor|intros E; discriminate E|intros E; discriminate E|intros _; vm_compute; reflexivity].
  - intros E. discriminate E.
  - intros E. discriminate E.
  - intros E. discriminate E.
Qed.

(* --- the unrestricted statement is false of the faithful model (and of the code: known finding):
   two images of the same target whose timestamps are swapped between the versions --- *)
Definition img_tok (u : string) : token := mk_token (KImg [s2l u]) (s2l u) (s2l "<img>") [] [] [].
Definition u2019 := "http://web.archive.org/web/20190101000000im_/http://e.com/a.png"%string.
Definition u2020 := "http://web.archive.org/web/20200101000000im_/http://e.com/a.png"%string.

Theorem C16_zero_refuted_without_freshness :
  exists old new : list token,
    (List.length old = List.length new)%nat /\
    (forall i, (i < List.length old)%nat -> token_eq (Some [RWayback]) (nth i old dtoken) (nth i new dtoken) = true) /\
    change_count (count_changes (token_opcodes (Some [RWayback]) old new)) = 2%nat.
Proof.
  exists [img_tok u2019; img_tok u2020], [img_tok u2020; img_tok u2019].
  split; [reflexivity|]. split.
  - intros i Hi. destruct i as [|[|i]]; [vm_compute; reflexivity|vm_compute; reflexivity|cbn in Hi; lia].
  - vm_compute. reflexivity.
Qed.

(* --- rules off: a differing link target is always reported --- *)
Theorem C16_rules_off : forall (old new : list token) i,
  (i < List.length old)%nat ->
  t_kind (nth i old dtoken) = KHref -> t_text (nth i old dtoken) <> t_text (nth i new dtoken) ->
  (0 < change_count (count_changes (token_opcodes None old new)))%nat.
Proof. exact differing_link_is_reported. Qed.

Theorem C16_rules_off_is_equality : forall a b, url_eq None a b = true <-> a = b.
Proof. exact rules_off_is_equality. Qed.

(* rule table and patterns are the regenerated ones *)
Theorem C16_tables :
  Tables.url_rules = [(s2l "jsessionid", s2l "ServletSessionUrlComparator"); (s2l "wayback", s2l "WaybackUrlComparator");
                      (s2l "wayback_uk", s2l "WaybackUkUrlComparator")] /\
  Tables.waybackurlcomparator_matcher_src = s2l "web/\d{14}(im_|js_|cs_)?/(https?://)?(www.)?" /\
  Tables.waybackukurlcomparator_matcher_src = s2l "https://www\.webarchive\.org\.uk/wayback/en/archive/\d{14}(mp_|im_)?/(https?://)?(www.)?" /\
  Tables.servletsessionurlcomparator_matcher_src = s2l ";jsessionid=[^;]+" /\
  Tables.waybackukurlcomparator_bases = [s2l "WaybackUrlComparator"].
Proof. repeat split; vm_compute; reflexivity. Qed.

(* non-vacuity: real URLs satisfy the hypotheses *)
Example C16_example :
  rule_compare RWayback (s2l "http://web.archive.org/web/20190525141538/https://www.noaa.gov/")
                        (s2l "http://web.archive.org/web/20181231224558/https://www.noaa.gov/") = true /\
  rule_compare RJsession (s2l "https://www.ncdc.noaa.gov/homr/api;jsessionid=A2DECB66D2648BFED11FC721FC3043A1")
                         (s2l "https://www.ncdc.noaa.gov/homr/api;jsessionid=B3EFDC88E3759CGFE22GD832GD4154B2") = true /\
  no_digit (s2l "http://web.archive.org/") /\ no_semicolon (s2l "https://www.ncdc.noaa.gov/homr/api").
Proof.
  split; [vm_compute; reflexivity|]. split; [vm_compute; reflexivity|]. split.
  - apply forallb_no_digit. vm_compute. reflexivity.
  - apply Forall_forall. intros c Hc. revert c Hc. apply Forall_forall.
    repeat (constructor; [vm_compute; reflexivity|]). constructor.
Qed.

(* C17 - Differs are pure functions of their arguments.
   A Gallina model is a function by construction, so "the model is pure" is NOT what is claimed.
   Proved is that the places where the implementation consults order- or history-dependent state
   (iteration order of Python sets, which changes with the hash seed; an lru_cache that lives as
   long as the worker process) cannot influence a result.  The process-level claim (hash seeds,
   call sequences, long-lived workers, header mappings) is explored by the harness. *)
From Coq Require Import List NArith Arith Bool String Permutation Sorted.
From WMD Require Import Gen.Tables Lib.Str Lib.PyChars Model.Links Model.RenderTokens Model.RenderMerge Proofs.SortProofs.
Import ListNotations.

(* links differ: sorted(set(links), key=...) - whatever order the set is iterated in (any
   permutation of the de-duplicated links), the list handed to the matcher is the same *)
Theorem C17_links_sort_order_free : forall found arrangement,
  Permutation arrangement (dedup found []) -> sort_links arrangement = sort_links (dedup found []).
Proof. exact page_links_order_free. Qed.

Theorem C17_sort_is_canonical : forall l1 l2, Permutation l1 l2 -> NoDup (map key l1) -> sort_links l1 = sort_links l2.
Proof. exact sort_links_order_free. Qed.

(* the sort key is injective on what the set keeps apart: incomparable links have the same (href, lower text) *)
Theorem C17_sort_key_total : forall x y, link_ltb x y = false -> link_ltb y x = false -> same_key x y = true.
Proof. intros x y H1 H2. apply same_key_iff. apply link_ltb_total; assumption. Qed.

Theorem C17_dedup_keys_distinct : forall found, NoDup (map key (dedup found [])).
Proof. intros found. apply dedup_nodup. Qed.

(* render differ: "for name in SEPARATABLE_TAGS: if tag.startswith(...): break" computes an
   existential - the same for every iteration order of the set *)
Theorem C17_set_scan_order_free : forall tags tags' tag,
  Permutation tags tags' ->
  existsb (fun name => starts_with ([60%N] ++ name) tag) tags = existsb (fun name => starts_with ([60%N] ++ name) tag) tags'.
Proof. intros tags tags' tag P. apply existsb_order_free. exact P. Qed.

Theorem C17_membership_order_free : forall x l l', Permutation l l' -> mem_str x l = mem_str x l'.
Proof.
  intros x l l' P. assert (E : forall m, mem_str x m = existsb (str_eqb x) m) by (induction m as [|y m IH]; cbn; [reflexivity|rewrite IH; reflexivity]).
  rewrite !E. apply existsb_order_free. exact P.
Qed.

(* render differ: tag_info is wrapped in functools.lru_cache(maxsize=1024), which lives as long as
   the worker.  For every call history and every eviction policy the cached results are the
   function's own *)
Theorem C17_cache_transparent : forall (K V : Type) (keq : K -> K -> bool),
  (forall a b, keq a b = true -> a = b) ->
  forall (f : K -> V) (evict : list (K * V) -> list (K * V)),
  (forall c kv, In kv (evict c) -> In kv c) ->
  forall ks c, cache_ok K V f c ->
  fst (fold_left (fun st k => let '(out, c) := st in let '(v, c') := cached_call K V keq f evict c k in (out ++ [v], c')) ks ([], c)) = map f ks.
Proof. intros K V keq Hk f evict He ks c Hc. apply (cache_transparent K V keq Hk f evict He ks c Hc). Qed.

(* instance: the cache in front of the model's tag_info *)
Theorem C17_tag_info_cache : forall evict, (forall c kv, In kv (evict c) -> In kv c) -> forall ks,
  fst (fold_left (fun st k => let '(out, c) := st in let '(v, c') := cached_call str (option tinfo) str_eqb tag_info evict c k in (out ++ [v], c')) ks ([], []))
  = map tag_info ks.
Proof.
  intros evict He ks. apply (cache_transparent str (option tinfo) str_eqb (fun a b H => proj1 (str_eqb_eq a b) H) tag_info evict He ks []).
  intros k v [].
Qed.

Example C17_example :
  let a := {| l_href := s2l "/a"; l_text := s2l "Home" |} in
  let b := {| l_href := s2l "/b"; l_text := s2l "home" |} in
  let c := {| l_href := s2l "/a"; l_text := s2l "About" |} in
  sort_links [a; b; c] = [c; a; b] /\ sort_links [c; b; a] = [c; a; b] /\ sort_links [b; a; c] = [c; a; b].
Proof. vm_compute. repeat split; reflexivity. Qed.

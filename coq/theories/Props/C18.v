(* C18 - Request headers and origins are only passed on when allowed. *)
From Coq Require Import List NArith Bool String.
From WMD Require Import Gen.Tables Lib.Str Lib.PyChars Model.Server Proofs.ServerProofs.
Import ListNotations.
Open Scope N_scope.

(* The header map sent upstream has a binding (k, v) exactly when pass_headers is present
   and non-empty, k is one of its comma-separated, trimmed names, and v is the client's
   non-empty value for k (header names compare case-insensitively).  Nothing else. *)
Theorem C18_pass_headers : forall q rh k v,
  dict_get k (upstream_headers q rh) = Some v <->
  exists keys, dict_get k_pass_headers q = Some keys /\ keys <> [] /\ listed keys k /\
               hdr_get k rh = Some v /\ v <> [].
Proof. exact upstream_headers_spec. Qed.

(* Every upstream request of any diff request carries exactly that header map. *)
Theorem C18_every_fetch_uses_it :
  forall production upstream_of file_of file_headers_of sha256_hex decode_ok run_differ differ raw rh em resp eff,
  Server.get production upstream_of file_of file_headers_of sha256_hex decode_ok run_differ differ raw rh em = (resp, eff) ->
  forall e, In e eff ->
    exists url, (dict_get k_a (decode_query_params raw) = Some url \/
                 dict_get k_b (decode_query_params raw) = Some url) /\
      match e with
      | EFetch u hdrs => u = url /\ is_http url = true /\ starts_with file_prefix url = false /\
                         hdrs = upstream_headers (q_rest raw) rh
      | EOpen p => production = false /\ starts_with file_prefix url = true /\ p = skipn 7 url
      end.
Proof. exact effects_gatekept. Qed.

(* Access-Control-Allow-Origin is sent exactly when origins are configured, the request
   has a non-empty Origin, and that Origin is in the trimmed configured list or the list
   contains "*"; and then it echoes exactly that Origin. *)
Theorem C18_cors : forall conf rh o,
  cors_allow_origin conf rh = Some o <->
  exists c, conf = Some c /\ hdr_get k_origin rh = Some o /\ o <> [] /\
            (In o (map py_strip (split_char 44 c)) \/ In star (map py_strip (split_char 44 c))).
Proof. exact cors_spec. Qed.

Example C18_examples :
  upstream_headers [(k_pass_headers, s2l "Authorization, user-agent,, X-None")]
                   [(s2l "User-Agent", s2l "UA"); (s2l "Authorization", s2l "Bearer x"); (s2l "Cookie", s2l "secret")]
  = [(s2l "Authorization", s2l "Bearer x"); (s2l "user-agent", s2l "UA")]
  /\ cors_allow_origin (Some (s2l "https://a.example, https://b.example")) [(s2l "origin", s2l "https://evil.example")] = None
  /\ cors_allow_origin (Some (s2l "https://a.example, https://b.example")) [(s2l "Origin", s2l "https://b.example")]
     = Some (s2l "https://b.example").
Proof. repeat split; vm_compute; reflexivity. Qed.

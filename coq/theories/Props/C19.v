(* C19 - Conditional requests are answered soundly. *)
From Coq Require Import List NArith Bool String.
From WMD Require Import Gen.Tables Lib.Str Lib.PyChars Model.Server Model.Etag
     Proofs.ServerProofs Proofs.EtagProofs Proofs.ReprInjective.
Import ListNotations.
Open Scope N_scope.

(* A request is answered 304 exactly when the validator matcher accepted, and then nothing
   is fetched, read or diffed (for all requests and all oracles). *)
Theorem C19_304_iff_matcher_and_no_effects :
  forall production upstream_of file_of file_headers_of sha256_hex decode_ok run_differ differ raw rh em resp eff,
  Server.get production upstream_of file_of file_headers_of sha256_hex decode_ok run_differ differ raw rh em = (resp, eff) ->
  (r_status resp = 304 <-> em = true) /\ (em = true -> eff = [] /\ r_body resp = BNone).
Proof. exact status_304_iff. Qed.

(* The matcher accepts only if the first tag of If-None-Match is the wildcard or some tag in it
   equals the computed validator (weak comparison), and never without the header. *)
Theorem C19_matcher_sound : forall computed inm,
  check_etag_header computed inm = true ->
  computed <> [] /\
  exists hdr, inm = Some hdr /\
    let etags := find_etags (S (List.length hdr)) hdr in
    exists first rest, etags = first :: rest /\
      (first = [42] \/ exists e, In e etags /\ weak_val e = weak_val computed).
Proof. exact check_etag_sound. Qed.

Theorem C19_matcher_complete : forall computed hdr e,
  computed <> [] ->
  In e (find_etags (S (List.length hdr)) hdr) -> weak_val e = weak_val computed ->
  check_etag_header computed (Some hdr) = true.
Proof. exact check_etag_complete. Qed.

Theorem C19_no_header_no_304 : forall computed, check_etag_header computed None = false.
Proof. exact check_etag_absent. Qed.

(* Repeated identical requests (same effective parameters) hash the same string. *)
Theorem C19_repeatable : forall version path raw raw',
  decode_query_params raw = decode_query_params raw' ->
  etag_preimage version path raw = etag_preimage version path raw'.
Proof. exact etag_repeatable. Qed.

(* Requests that differ in the differ name (path) or in any effective parameter (key, value or
   order) hash different strings: the string handed to SHA-256 is injective in (path, ordered
   effective parameter list).  Hence equal validators imply equal requests or a SHA-256
   collision; nothing is assumed about SHA-256.  (Paths are "/" + [A-Za-z0-9_]+, so contain no
   brace; code points are below 0x110000.) *)
Theorem C19_distinct : forall version path path' raw raw',
  ~ In 123 path -> ~ In 123 path' -> valid_dict raw -> valid_dict raw' ->
  etag_preimage version path raw = etag_preimage version path' raw' ->
  path = path' /\ decode_query_params raw = decode_query_params raw'.
Proof. exact etag_preimage_injective. Qed.

(* Python's repr of a str is self-delimiting (used above; stated for every suffix) *)
Theorem C19_repr_self_delimiting : forall s s' r r',
  Forall valid_cp s -> Forall valid_cp s' ->
  py_repr_str s ++ r = py_repr_str s' ++ r' -> s = s' /\ r = r'.
Proof. exact py_repr_str_self_delimiting. Qed.

(* error responses carry no validator *)
Theorem C19_errors_carry_no_validator :
  forall production upstream_of file_of file_headers_of sha256_hex decode_ok run_differ differ raw rh em resp eff,
  Server.get production upstream_of file_of file_headers_of sha256_hex decode_ok run_differ differ raw rh em = (resp, eff) ->
  match r_err resp with
  | Some e => r_status resp = err_status e /\ r_body resp = BError (err_status e) /\ r_etag resp = false
  | None => (r_status resp = 304 /\ em = true /\ r_body resp = BNone /\ eff = []) \/
            (r_status resp = 200 /\ em = false /\ r_etag resp = true /\ exists kw t, r_body resp = BDiff differ kw t)
  end.
Proof. exact response_shape. Qed.

Example C19_examples :
  py_repr_str (s2l "it's") = s2l """it's""" /\
  py_repr_str [97; 39; 34; 92; 10; 233; 173; 128512; 1] = [39; 97; 92; 39; 34; 92; 92; 92; 110; 233; 92; 120; 97; 100; 128512; 92; 120; 48; 49; 39] /\
  check_etag_header (s2l "W/""abc""") (Some (s2l """x"", W/""abc""")) = true /\
  check_etag_header (s2l "W/""abc""") (Some (s2l "abc")) = false /\
  check_etag_header (s2l "W/""abc""") (Some (s2l "*")) = true /\
  check_etag_header (s2l "W/""abc""") (Some (s2l """x"", *")) = false.
Proof. repeat split; vm_compute; reflexivity. Qed.

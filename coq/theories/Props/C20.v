(* C20 - Shutdown leaves no workers behind and starts none (protocol part). *)
From Coq Require Import List Arith Bool.
From WMD Require Import Gen.Tables Model.Pool Proofs.PoolProofs.
Import ListNotations.

Theorem C20_begin_sets_terminating : forall tries restart st imm,
  terminating (step tries restart st (BeginShutdown imm)) = true.
Proof. exact begin_shutdown_sets_terminating. Qed.

Theorem C20_terminating_is_monotone : forall tries restart, 1 <= tries -> forall st e,
  terminating st = true -> terminating (step tries restart st e) = true.
Proof. exact terminating_monotone. Qed.

(* once shutdown has begun no step creates a pool or changes the current one, in any state *)
Theorem C20_no_pool_after_begin : forall tries restart, 1 <= tries -> forall st e,
  terminating st = true ->
  created (step tries restart st e) = created st /\ current (step tries restart st e) = current st.
Proof. exact no_creation_while_terminating. Qed.

(* requests that still arrive are answered with an error ... *)
Theorem C20_late_request_errors : forall tries restart, 1 <= tries -> forall st r,
  terminating st = true -> get_req r (reqs st) = NotStarted ->
  get_req r (reqs (step tries restart st (Start r))) = Done ErrShutdown.
Proof. exact late_request_errors. Qed.

(* ... and so are requests that retry after their pool broke (e.g. was killed) *)
Theorem C20_retry_after_begin_errors : forall tries restart st r att p,
  terminating st = true -> get_req r (reqs st) = Waiting att p -> In p (broken st) ->
  exists o, get_req r (reqs (step tries restart st (DeliverBroken r))) = Done o /\ o <> OkDiff.
Proof. exact retry_while_terminating_errors. Qed.

(* a diff that is already running finishes with its normal response, shutdown or not *)
Theorem C20_running_diff_finishes_normally : forall tries restart st r att p,
  get_req r (reqs st) = Waiting att p ->
  get_req r (reqs (step tries restart st (DeliverOk r))) = Done OkDiff.
Proof. exact deliver_ok_finishes. Qed.

(* after shutdown began, in every reachable state every pool ever created has been handed to
   shutdown (graceful, or replaced earlier) or had its workers killed (immediate) *)
Theorem C20_all_pools_accounted : forall tries restart, 1 <= tries -> forall evs,
  terminating (run tries restart evs) = true ->
  forall p, In p (created (run tries restart evs)) ->
    In p (shut (run tries restart evs)) \/ In p (killed (run tries restart evs)).
Proof. exact all_pools_accounted. Qed.

Example C20_scenario :
  let st := run 2 false [Start 0; Start 1; BeginShutdown false; Start 2; DeliverOk 0; BeginShutdown true; DeliverBroken 1] in
  created st = [0] /\ shut st = [0] /\ killed st = [0] /\
  get_req 0 (reqs st) = Done OkDiff /\ get_req 1 (reqs st) = Done ErrShutdown /\ get_req 2 (reqs st) = Done ErrShutdown.
Proof. vm_compute. repeat split; reflexivity. Qed.

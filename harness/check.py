"""Entry point: ./check <ID> [--tier quick|thorough] [--replay PATH]"""
import argparse
import importlib
import json
import os
import sys
import traceback

sys.path.insert(0, os.path.dirname(os.path.abspath(__file__)))
import common  # noqa: E402


def main():
    ap = argparse.ArgumentParser()
    ap.add_argument('prop')
    ap.add_argument('--tier', default=os.environ.get('VERIF_TIER', 'quick'))
    ap.add_argument('--replay')
    args = ap.parse_args()
    prop = args.prop.upper()
    tier = args.tier if args.tier in ('quick', 'thorough') else 'quick'
    try:
        seed = int(os.environ.get('VERIF_SEED', '0'))
    except ValueError:
        seed = 0
    common.setup_impl_path()
    rep = common.Report(prop, tier, seed)
    rep.trusted = list(common.COMMON_TRUSTED)
    mod = importlib.import_module('props.' + prop.lower())
    rep.checker_cmd = ('harness/gen_tables.py /repo coq/theories/Gen/Tables.v && make -C coq theories/Props/%s.vo '
                       '&& coqc Print Assumptions (each theorem) && ocaml/build.sh && correspondence + observers' % prop)

    if args.replay:
        return mod.replay(rep, json.load(open(args.replay)))

    # 1-3: tables, proofs in the cone of this property, driver
    b = common.build(targets=['theories/Props/%s.vo' % prop])
    rep.extra['build_wall_s'] = round(b.wall, 1)
    rep.extra['tables_changed_this_run'] = b.tables_changed
    bad = common.forbidden_grep()
    rep.obligation('no Admitted/admit/Axiom/Parameter/unsafe flags in the development', not bad, bad[:5])
    proofs_ok = b.ok
    broken = None
    if not b.ok:
        broken = '%s stage failed at %s' % (b.stage, b.failed_file)
        print('BUILD-BROKEN: ' + broken)
        print(b.log[-1500:])
        rep.obligation('build: ' + broken, False)
        if b.stage in ('tables', 'driver') or (b.stage == 'coq' and not os.path.exists(common.DRIVER)):
            # no model to run: the observers alone search the implementation
            pass
    else:
        pa = common.print_assumptions(prop)
        rep.extra['print_assumptions'] = pa
        for name in common.theorem_names(prop):
            txt = pa.get(name)
            ok = txt is not None and '__error__' not in pa
            rep.obligation('theorem %s [%s]' % (name, txt), ok)
        closed = [n for n, t in pa.items() if t.startswith('Closed under the global context')]
        rep.extra['theorems_closed_under_global_context'] = len(closed)
        rep.extra['theorems_with_axioms'] = {n: t for n, t in pa.items() if n not in closed}

    # 4-6: corpus, correspondence, observers on the implementation
    ctx = {'tier': tier, 'seed': seed, 'model_available': os.path.exists(common.DRIVER) and b.stage != 'driver',
           'proofs_ok': proofs_ok, 'broken': broken}
    try:
        mod.run(rep, ctx)
    except Exception:
        tb = traceback.format_exc()
        print(tb)
        rep.obligation('harness ran to completion', False, tb[-300:])
        rep.violation('harness-crash', {'what': 'the check itself crashed', 'traceback': tb}, no_input=True)

    if broken and not any(not ni for _, ni in rep.violations):
        # the property is no longer shown to hold and no failing input was found
        rep.violation('broken-obligation', {'what': 'proof obligation / tie no longer checks', 'detail': broken,
                                            'log_tail': b.log[-2000:]}, no_input=True)
    return rep.finish(level='proof')


if __name__ == '__main__':
    sys.exit(main())

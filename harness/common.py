"""
Shared machinery of the checks: build (tables -> Coq -> extraction -> driver),
driver I/O, Print Assumptions collection, evidence, violation reporting,
known findings.
"""
import fcntl
import hashlib
import json
import os
import random
import re
import subprocess
import sys
import time

VERIF = os.path.dirname(os.path.dirname(os.path.abspath(__file__)))
REPO = os.environ.get('VERIF_REPO', '/repo')
COQ = os.path.join(VERIF, 'coq')
OCAML = os.path.join(VERIF, 'ocaml')
DRIVER = os.path.join(OCAML, '_build', 'driver')
PY = '/venv/bin/python'
GUARD = 'WEB_MONITORING_DIFF_VERIF'
NCPU = os.cpu_count() or 4


def setup_impl_path():
    """Make `import web_monitoring_diff` resolve to /repo's working tree."""
    os.environ.setdefault('PYTHONHASHSEED', '0')
    if sys.path[0] != REPO:
        sys.path.insert(0, REPO)
    os.environ['PYTHONPATH'] = REPO
    os.environ[GUARD] = '1'


# ------------------------------------------------------------------ encoding
def S(s):
    """str/bytes -> driver list of code points"""
    if s is None:
        raise ValueError('S(None)')
    if isinstance(s, bytes):
        return '( ' + ' '.join(str(c) for c in s) + ' )' if s else '( )'
    return '( ' + ' '.join(str(ord(c)) for c in s) + ' )' if s else '( )'


def I(n):
    return str(int(n))


def B(b):
    return '1' if b else '0'


def L(items):
    items = list(items)
    return '( ' + ' '.join(items) + ' )' if items else '( )'


def OPT(x, f):
    return '( )' if x is None else '( ' + f(x) + ' )'


def P(a, b):
    return '( ' + a + ' ' + b + ' )'


def HEADERS(h):
    """None or dict str->str"""
    return OPT(h, lambda d: L(P(S(k), S(v)) for k, v in d.items()))


def parse_value(text):
    """driver output -> nested Python lists / ints"""
    toks = text.split()
    if toks and toks[0] == 'ERROR':
        return ('ERROR', ' '.join(toks[1:]))
    pos = 0

    def rec():
        nonlocal pos
        t = toks[pos]
        pos += 1
        if t == '(':
            items = []
            while toks[pos] != ')':
                items.append(rec())
            pos += 1
            return items
        return int(t)

    v = rec()
    if pos != len(toks):
        raise ValueError('trailing tokens in driver output: ' + text[:200])
    return v


def to_str(v):
    return ''.join(chr(c) for c in v)


def to_opt(v, f=lambda x: x):
    return None if v == [] else f(v[0])


def run_driver(lines, jobs=None):
    """Run the extracted model on the given case lines; returns parsed results."""
    lines = list(lines)
    if not lines:
        return []
    jobs = jobs or min(NCPU, max(1, len(lines) // 200))
    chunks = [lines[i::jobs] for i in range(jobs)]
    procs = []
    for ch in chunks:
        p = subprocess.Popen(['/bin/sh', '-c', 'ulimit -s unlimited 2>/dev/null; exec "$0"', DRIVER],
                             stdin=subprocess.PIPE, stdout=subprocess.PIPE, stderr=subprocess.PIPE)
        procs.append((p, ch))
    import threading
    outs = [None] * jobs

    def feed(i, p, ch):
        out, err = p.communicate(('\n'.join(ch) + '\n').encode())
        outs[i] = (out.decode(), err.decode(), p.returncode)

    threads = [threading.Thread(target=feed, args=(i, p, ch)) for i, (p, ch) in enumerate(procs)]
    for t in threads:
        t.start()
    for t in threads:
        t.join()
    results = [None] * len(lines)
    for i, (out, err, rc) in enumerate(outs):
        got = out.split('\n')
        if got and got[-1] == '':
            got.pop()
        n = len(chunks[i])
        if len(got) != n:
            got = got + ['ERROR driver_died rc=%s %s' % (rc, err.strip()[:200])] * (n - len(got))
        for k, line in enumerate(got[:n]):
            results[i + k * jobs] = parse_value(line) if line.strip() else ('ERROR', 'empty')
    return results


# ------------------------------------------------------------------ build
class BuildResult:
    def __init__(self):
        self.ok = True
        self.stage = None        # 'tables' | 'coq' | 'driver'
        self.log = ''
        self.failed_file = None
        self.tables_changed = False
        self.wall = 0.0


def _run(cmd, cwd=None, timeout=1800):
    p = subprocess.run(cmd, cwd=cwd, stdout=subprocess.PIPE, stderr=subprocess.STDOUT, timeout=timeout)
    return p.returncode, p.stdout.decode(errors='replace')


def build(targets=None, need_driver=True):
    """
    Regenerate Gen/Tables.v from /repo's working tree, make the requested .vo
    targets (default: everything), extract and build the driver.
    Serialised by a lock so that concurrent checks share one build.
    """
    res = BuildResult()
    t0 = time.time()
    lock = open(os.path.join(VERIF, '.build.lock'), 'w')
    fcntl.flock(lock, fcntl.LOCK_EX)
    try:
        rc, out = _run([PY, '-W', 'ignore', os.path.join(VERIF, 'harness', 'gen_tables.py'), REPO,
                        os.path.join(COQ, 'theories', 'Gen', 'Tables.v')])
        res.log += out
        if rc != 0:
            res.ok, res.stage = False, 'tables'
            m = re.search(r'TABLE-ERROR: (.*)', out)
            res.failed_file = m.group(1) if m else out.strip()[-300:]
            return res
        res.tables_changed = 'TABLES-CHANGED' in out
        if not os.path.exists(os.path.join(COQ, 'Makefile')) or \
                os.path.getmtime(os.path.join(COQ, 'Makefile')) < os.path.getmtime(os.path.join(COQ, '_CoqProject')):
            rc, out = _run(['coq_makefile', '-f', '_CoqProject', '-o', 'Makefile'], cwd=COQ)
            res.log += out
        # models + extraction first (they must run even when a proof is broken)
        mk = ['timeout', '1500', 'make', '-j%d' % NCPU]
        if need_driver:
            rc, out = _run(mk + ['theories/Extract/Extract.vo'], cwd=COQ)
            res.log += out
            if rc != 0:
                res.ok, res.stage = False, 'coq'
                res.failed_file = _failed_file(out)
                return res
            stamp = os.path.join(OCAML, '_build', '.stamp')
            srcs = [os.path.join(COQ, 'extracted.ml'), os.path.join(OCAML, 'driver.ml'),
                    os.path.join(OCAML, 'driver_lib.ml')]
            digest = hashlib.sha256(b''.join(open(s, 'rb').read() for s in srcs)).hexdigest()
            old = open(stamp).read() if os.path.exists(stamp) else ''
            if old != digest or not os.path.exists(DRIVER):
                rc, out = _run([os.path.join(OCAML, 'build.sh')])
                res.log += out
                if rc != 0:
                    res.ok, res.stage = False, 'driver'
                    res.failed_file = out.strip()[-400:]
                    return res
                open(stamp, 'w').write(digest)
        tg = list(targets) if targets else []
        rc, out = _run(mk + tg, cwd=COQ)
        res.log += out
        if rc != 0:
            res.ok, res.stage = False, 'coq'
            res.failed_file = _failed_file(out)
        return res
    finally:
        res.wall = time.time() - t0
        fcntl.flock(lock, fcntl.LOCK_UN)
        lock.close()


def _failed_file(out):
    m = re.findall(r'File "\./(theories/[^"]+)", line (\d+)', out)
    if m:
        return '%s:%s' % m[-1]
    m = re.findall(r'\*\*\* \[[^\]]*: (theories/\S+)\.vo\]', out)
    return m[-1] if m else 'unknown'


def theorem_names(prop_id):
    path = os.path.join(COQ, 'theories', 'Props', prop_id + '.v')
    src = open(path).read()
    return re.findall(r'^\s*(?:Theorem|Example)\s+([A-Za-z0-9_\']+)', src, flags=re.M)


def print_assumptions(prop_id):
    """Re-run Print Assumptions for every theorem of Props/<id>.v; returns {name: text}."""
    names = theorem_names(prop_id)
    tmp = os.path.join(COQ, 'pa_%s_%d.v' % (prop_id, os.getpid()))
    with open(tmp, 'w') as f:
        f.write('From WMD Require Import Props.%s.\n' % prop_id)
        for n in names:
            f.write('Goal True. idtac "@@@ %s". exact I. Qed.\nPrint Assumptions %s.\n' % (n, n))
    try:
        rc, out = _run(['timeout', '600', 'coqc', '-Q', 'theories', 'WMD', os.path.basename(tmp)], cwd=COQ)
    finally:
        for ext in ('.v', '.vo', '.vok', '.vos', '.glob'):
            try:
                os.remove(tmp[:-2] + ext)
            except OSError:
                pass
        try:
            os.remove(os.path.join(COQ, '.' + os.path.basename(tmp)[:-2] + '.aux'))
        except OSError:
            pass
    result = {}
    if rc != 0:
        return {'__error__': out[-500:]}
    parts = out.split('@@@ ')
    for part in parts[1:]:
        name, _, rest = part.partition('\n')
        result[name.strip()] = ' '.join(rest.split())
    return result


def forbidden_grep():
    """No Admitted/admit/Axiom/... anywhere in the development."""
    bad = []
    pat = re.compile(r'\b(Admitted|admit|Axiom|Axioms|Parameter|Parameters|Conjecture|Admit Obligations|'
                     r'Unset Guard Checking|Unset Positivity Checking|Unset Universe Checking|bypass_check|'
                     r'Hypothesis|Variable|Variables|Hypotheses)\b')
    for root, _, files in os.walk(os.path.join(COQ, 'theories')):
        for fn in files:
            if not fn.endswith('.v'):
                continue
            path = os.path.join(root, fn)
            depth = 0
            for ln, line in enumerate(open(path, encoding='utf-8'), 1):
                code = re.sub(r'\(\*.*?\*\)', '', line)
                if re.match(r'\s*Section\b', code):
                    depth += 1
                if re.match(r'\s*End\b', code) and depth > 0:
                    depth -= 1
                for m in pat.finditer(code):
                    w = m.group(1)
                    if w in ('Variable', 'Variables', 'Hypothesis', 'Hypotheses') and depth > 0:
                        continue
                    bad.append('%s:%d:%s' % (os.path.relpath(path, COQ), ln, w))
    return bad


# ------------------------------------------------------------------ reporting
class Report:
    def __init__(self, prop_id, tier, seed):
        self.prop_id = prop_id
        self.tier = tier
        self.seed = seed
        self.t0 = time.time()
        self.violations = []          # (replay path, tail)
        self.known = []
        self.obligations = []         # (name, ok)
        self.evaluations = 0
        self.nontrivial = set()
        self.samples = []
        self.extra = {}
        self.assumptions = []
        self.trusted = []
        self.rule = ''
        self.checker_cmd = ''

    def obligation(self, name, ok, detail=None):
        self.obligations.append((name, bool(ok)))
        if not ok:
            print('OBLIGATION-FAILED %s %s' % (name, detail or ''))

    def count(self, key, nontrivial=True):
        self.evaluations += 1
        if nontrivial:
            self.nontrivial.add(key if isinstance(key, (str, int, tuple)) else json.dumps(key, sort_keys=True, default=str))

    def sample(self, s, limit=6):
        if len(self.samples) < limit:
            self.samples.append(s)

    def violation(self, name, payload, no_input=False):
        d = os.path.join(VERIF, 'replays', self.prop_id)
        os.makedirs(d, exist_ok=True)
        path = os.path.join(d, '%s.json' % re.sub(r'[^A-Za-z0-9_.-]', '_', name)[:80])
        payload = dict(payload)
        payload.setdefault('property', self.prop_id)
        payload.setdefault('seed', self.seed)
        payload.setdefault('tier', self.tier)
        payload['no_failing_input_found'] = bool(no_input)
        with open(path, 'w') as f:
            json.dump(payload, f, indent=1, default=str, ensure_ascii=True)
        self.violations.append((path, no_input))

    def known_finding(self, what):
        if what not in self.known:
            self.known.append(what)

    def finish(self, level='proof'):
        wall = time.time() - self.t0
        discharged = sum(1 for _, ok in self.obligations if ok)
        cov = {
            'obligations': len(self.obligations),
            'discharged': discharged,
            'checker_cmd': self.checker_cmd,
            'trusted_base': self.trusted,
            'evaluations': self.evaluations,
            'distinct_nontrivial': len(self.nontrivial),
            'rule': self.rule,
            'samples': self.samples or ['(no generated cases in this run)'],
            'obligation_list': [{'name': n, 'ok': ok} for n, ok in self.obligations],
        }
        cov.update(self.extra)
        ev = {
            'property_id': self.prop_id,
            'tier': self.tier,
            'seed': self.seed,
            'level': level,
            'coverage': cov,
            'assumptions': self.assumptions,
            'wall_s': round(wall, 2),
            'violations': len(self.violations),
            'known_findings': self.known,
        }
        os.makedirs(os.path.join(VERIF, 'evidence'), exist_ok=True)
        with open(os.path.join(VERIF, 'evidence', self.prop_id + '.json'), 'w') as f:
            json.dump(ev, f, indent=1, default=str, ensure_ascii=True)
        for what in self.known:
            print('KNOWN-FINDING: property=%s %s' % (self.prop_id, what))
        for path, no_input in self.violations:
            print('VIOLATION property=%s replay=%s%s' % (self.prop_id, path,
                                                        ' no-failing-input-found' if no_input else ''))
        print('%s %s: %d/%d obligations, %d evaluations (%d distinct non-trivial), %.1fs, %d violation(s)' % (
            self.prop_id, self.tier, discharged, len(self.obligations), self.evaluations,
            len(self.nontrivial), wall, len(self.violations)))
        return 1 if self.violations else 0


def load_known_findings(prop_id):
    path = os.path.join(VERIF, 'known_findings.json')
    if not os.path.exists(path):
        return []
    data = json.load(open(path))
    return [e for e in data.get('findings', []) if e.get('property') == prop_id and e.get('status') == 'known']


def rng_for(seed, label):
    h = hashlib.sha256(('%s/%s' % (seed, label)).encode()).digest()
    return random.Random(int.from_bytes(h[:8], 'big'))


COMMON_TRUSTED = [
    'Coq 8.16.1 kernel (coqc full .vo build, no -vos); vm_compute used for finite table lemmas; no native_compute',
    'harness/gen_tables.py (Python ast translator of constant tables; character classes taken from the running CPython 3.12 re/str)',
    'extraction: Require Extraction + ExtrOcamlBasic only (Extract Inductive bool/option/unit/list/prod/sumbool/sumor as shipped); no Extract Constant; OCaml 4.13.1 ocamlfind ocamlopt; ocaml/driver_lib.ml + driver.ml',
    'correspondence harness (generators, canonicalisers, converters) in /verif/harness',
]

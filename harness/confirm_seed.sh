#!/bin/bash
# usage: [MUTROOT=/tmp/mut2] confirm_seed.sh <PROP> <N> [<archive number>]  -- re-confirms an agent-made change in its scratch worktree and archives it under /verif/seeded/
set -u
P="$1"; N="$2"; A="${3:-$2}"; W=${MUTROOT:-/tmp/mut}/$P; OUT=$W/_out
cd "$W" || exit 2
git checkout -q -- . 
cp "$OUT/demo_$N.py" "$W/demo_$N.py"
clean=$(PYTHONPATH=$W PYTHONHASHSEED=0 timeout 300 /venv/bin/python -W ignore demo_$N.py 2>&1 | tail -3); clean_rc=${PIPESTATUS[0]}
PYTHONPATH=$W PYTHONHASHSEED=0 timeout 300 /venv/bin/python -W ignore demo_$N.py >/dev/null 2>&1; clean_rc=$?
git apply "$OUT/patch_$N.diff" || { echo "patch does not apply"; exit 3; }
tests=$(env -u WEB_MONITORING_DIFF_VERIF /venv/bin/python -m pytest -q -p no:cacheprovider --timeout=900 --continue-on-collection-errors 2>&1 | tail -1)
PYTHONPATH=$W PYTHONHASHSEED=0 timeout 300 /venv/bin/python -W ignore demo_$N.py >${MUTROOT:-/tmp/mut}/demo_out_$P.txt 2>&1; mut_rc=$?
git checkout -q -- . ; rm -f "$W/demo_$N.py"
echo "$P-$A (agent change $N): demo clean rc=$clean_rc, demo with change rc=$mut_rc, tests: $tests"
ok=0
if [ "$clean_rc" = "0" ] && [ "$mut_rc" = "1" ] && echo "$tests" | grep -q "81 passed"; then ok=1; fi
if [ "$ok" = "1" ]; then
  D=/verif/seeded/$P-$A; mkdir -p "$D"
  cp "$OUT/patch_$N.diff" "$D/patch.diff"; cp "$OUT/demo_$N.py" "$D/demo.py"; cp "$OUT/meta_$N.json" "$D/agent_meta.json"
  /venv/bin/python - "$P" "$A" "$tests" <<'PY'
import json,sys
P,N,tests=sys.argv[1:4]
a=json.load(open('/verif/seeded/%s-%s/agent_meta.json'%(P,N)))
m={'property':P,'breaks':a.get('summary'),'needs':a.get('needs'),
   'confirmed':{'demo_exit_on_unchanged_tree':0,'demo_exit_with_change':1,'test_suite_with_change':tests,
                'how':'harness/confirm_seed.sh %s %s in the scratch worktree /tmp/mut/%s (removed afterwards)'%(P,N,P)},
   'caught_by':None}
json.dump(m,open('/verif/seeded/%s-%s/meta.json'%(P,N),'w'),indent=1)
PY
  echo "archived $D"
else
  echo "NOT CONFIRMED"; tail -5 ${MUTROOT:-/tmp/mut}/demo_out_$P.txt
fi

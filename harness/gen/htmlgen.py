"""Structured generator of small well-formed HTML bodies and of edited versions of them (one seeded PRNG)."""
import random

WORDS = ['alpha', 'beta', 'gamma', 'delta', 'eta', 'new', 'old', 'item', 'the', 'of', 'report', 'data', '2020', 'x', 'y',
         '&amp;amp;', '&lt;b&gt;', 'café', 'naïve', '☃', 'A&amp;B', '~EMPTY~', 'Link:', 'SPACER', '&quot;q&quot;', "it's",
         'e\u0301cole', '\u2126hm', 'x\u0307\u0323', '\u1100\u1161', '\U0001F600']
INLINE = ['b', 'i', 'em', 'span', 'strong', 'code', 'u', 'small']
CONTAINERS = ['div', 'blockquote', 'section', 'article', 'header', 'footer', 'main', 'aside']
BLOCK = ['p', 'div', 'h1', 'h2', 'h3', 'blockquote', 'section', 'article', 'pre', 'header', 'footer']
HREFS = ['/a', '/b', 'http://x.test/1', 'http://x.test/2?q=1&amp;r=2', '#frag', 'http://web.archive.org/web/20190101000000/http://x.test/',
         'http://s.test/p;jsessionid=ABC123', 'mailto:a@b.c',
         # legal in an href, rejected or rewritten by URL libraries: unbalanced / non-IP brackets, empty query or fragment, embedded blanks
         'http://[server]/x', 'http://[::1/x', '//[cdn]/a', 'http://x.test/search?', 'http://x.test/data/#', 'http://x.test/a b\tc', 'http://x.test?Q=A']
IMGS = ['i.png', 'j.jpg', 'http://x.test/k.gif', '//[cdn]/a.png', 'http://[img]/p.png?']


class Gen:
    def __init__(self, rng, rich=True):
        self.r = rng
        self.rich = rich

    def words(self, lo=1, hi=4):
        return ' '.join(self.r.choice(WORDS) for _ in range(self.r.randint(lo, hi)))

    def inline(self, depth=0, in_a=False):
        r = self.r
        k = r.random()
        if k < 0.55 or depth > 2:
            return self.words()
        if k < 0.72:
            return '<%s>%s</%s>' % ((t := r.choice(INLINE)), self.inline(depth + 1, in_a), t)
        if k < 0.84:
            if in_a:
                return self.words()
            return '<a href="%s">%s</a>' % (r.choice(HREFS), self.inline(depth + 1, True) if r.random() < 0.8 else '')
        if k < 0.90:
            if r.random() < 0.2:       # images without any source attribute the differ looks at (placeholders, lazy loading)
                return r.choice(['<img alt="%s">' % r.choice(WORDS), '<img data-original="%s" alt="">' % r.choice(IMGS), '<img data-lazy-src="%s">' % r.choice(IMGS),
                                 # lazy-loading markup the differ does look at: data-src / data-srcset without (or with an empty) src / srcset
                                 '<img data-src="%s" alt="lazy">' % r.choice(IMGS), '<img src="" data-src="%s">' % r.choice(IMGS),
                                 '<img data-srcset="%s 1x, %s 2x" alt="">' % (r.choice(IMGS), r.choice(IMGS)), '<img class="lazy" data-src="%s" data-srcset="%s 2x">' % (r.choice(IMGS), r.choice(IMGS)),
                                 # candidate lists with an empty first candidate (leading blank / comma), trailing and doubled commas
                                 '<img srcset=" %s 2x">' % r.choice(IMGS), '<img data-srcset=", %s 1x, %s 2x">' % (r.choice(IMGS), r.choice(IMGS)),
                                 '<img src="%s" srcset="%s 1x, ">' % (r.choice(IMGS), r.choice(IMGS)), '<img srcset="%s 1x,, %s 2x">' % (r.choice(IMGS), r.choice(IMGS)), '<img srcset=" " alt="none">'])
            return '<img src="%s" alt="%s">' % (r.choice(IMGS), r.choice(WORDS))
        if k < 0.95:
            return '<br>' + (' ' if r.random() < 0.5 else '') + self.words(1, 2)
        if k < 0.975 and self.rich and not in_a:
            return r.choice(['<script>var a = "<b>x</b>";</script>', '<style>p > a { color: red }</style>',
                             '<svg width="4"><circle r="2"></circle></svg>', '<select><option>one</option><option>two</option></select>',
                             '<input type="text" value="v">', '<textarea>t &lt; u</textarea>', '<button>go</button>', '<button type="submit" class="btn">send the form now</button>',
                             '<iframe src="/frame"></iframe>', '<iframe></iframe>', '<iframe src="/f">Your browser does not support frames</iframe>',
                             '<video src="v.webm">plain fallback</video>', '<audio src="a.ogg"><b>no</b> audio</audio>',
                             '<object data="o.swf">fallback <i>words</i></object>',
                             '<svg width="4"><script>var s = 1;</script><circle r="2"></circle></svg>',
                             '<svg><style>circle { fill: red }</style><circle r="1"></circle><script>var t = 2;</script></svg>',
                             '<math><mi>x</mi><style>mi { color: red }</style></math>'])
        return '<ins>%s</ins>' % self.words(1, 2) if r.random() < 0.5 else '<del>%s</del>' % self.words(1, 2)

    def inlines(self):
        n = self.r.randint(1, 4)
        sep = lambda: self.r.choice([' ', ' ', ' ', '', '\n'])  # noqa
        return ''.join(self.inline() + sep() for _ in range(n))

    def block(self, depth=0):
        r = self.r
        k = r.random()
        if k < 0.45 or depth > 2:
            t = r.choice(BLOCK[:5] + BLOCK[:5] + ['pre'])       # <pre>: its name has the separable tag name 'p' as a prefix
            attrs = r.choice(['', '', ' class="c"', ' id="i%d"' % r.randint(1, 9), ' title="a &quot;q&quot; &lt;t&gt;"',
                              ' style="display: inline"', ' style="display:inline-block; color: red"', ' hidden', ' role="presentation" class="inline"',
                              # attribute values wrapped over several lines, as hand-written and generated markup has them
                              ' style="margin: 0;\n padding: 4px"', ' title="see\nannex\tB"', '\n  class="c"\n  data-x="1"\n'])
            return '<%s%s>%s</%s>' % (t, attrs, self.inlines(), t)
        if k < 0.60:
            t = r.choice(['ul', 'ol'])
            return '<%s>%s</%s>' % (t, ''.join('<li%s>%s</li>' % (r.choice(['', '', '', ' style="display: inline;"', ' class="inline-list"', ' title="see\nannex"']), self.inlines())
                                               for _ in range(r.randint(1, 3))), t)
        if k < 0.70:
            rows = ''.join('<tr>%s</tr>' % ''.join('<td>%s</td>' % self.words(1, 2) for _ in range(r.randint(1, 3)))
                           for _ in range(r.randint(1, 2)))
            return '<table><tbody>%s</tbody></table>' % rows
        if k < 0.85:
            t = r.choice(CONTAINERS)
            return '<%s>%s</%s>' % (t, ''.join(self.block(depth + 1) for _ in range(r.randint(1, 2))), t)
        if k < 0.93:
            return self.inlines()           # text directly in the parent block / body
        if k < 0.95:
            return '<hr>'
        if k < 0.965 and self.rich:
            # media elements with block-level fallback content: only where flow content is allowed (inside a paragraph or heading
            # the page would be invalid and the parser restructures it)
            return r.choice(['<video controls><source src="m.mp4" type="video/mp4"><p>no video <b>here</b></p></video>',
                             '<audio src="a.ogg"><div>no audio</div></audio>', '<object data="o.swf"><ul><li>fallback item</li></ul></object>'])
        return '<form><p>%s <input name="n" value="1"></p></form>' % self.words(1, 2)

    def body(self):
        out = ''.join(self.block() for _ in range(self.r.randint(1, 4)))
        if self.r.random() < 0.08:      # pages that end with an empty block element (tags with no word after them)
            out += self.r.choice(['<p></p>', '<div></div>', '<ul><li></li></ul>', '<section><p></p></section>', '<table></table>'])
        return out

    def document(self, body):
        r = self.r
        k = r.random()
        title = '<title>%s</title>' % self.words(1, 3)
        if k < 0.5:
            return '<!doctype html><html><head>%s</head><body>%s</body></html>' % (title, body)
        if k < 0.7:
            return '<html><head>%s<meta charset="utf-8"></head><body class="b" data-x="1">%s</body></html>' % (title, body)
        if k < 0.85:
            return body
        return '<body>%s</body>' % body

    # ---- edits
    def edit(self, body):
        """a structurally aware edit of a body built by this generator (works on the string at tag boundaries)"""
        r = self.r
        import re
        toks = re.findall(r'<[^>]+>|[^<]+', body)
        if not toks:
            return self.body()
        for _ in range(r.randint(1, 3)):
            k = r.random()
            # text inside embedded SVG / MathML is left alone: a style or script there is not raw text to the parser, and text with
            # '&' or '<' in it is the listed finding C09-foreign-cdata, which has its own replay; likewise the raw text of iframe /
            # xmp / noembed / noframes (listed findings C01-rawtext, C02-rawtext: '&' or '<' in it comes back escaped too often)
            def foreign(i):
                before = ''.join(t for t in toks[:i] if t.startswith('<'))
                return any(before.count('<' + n) > before.count('</' + n + '>') for n in ('svg', 'math', 'iframe', 'xmp', 'noembed', 'noframes'))
            idxs = [i for i, t in enumerate(toks) if not t.startswith('<') and t.strip() and not foreign(i)]
            if k < 0.35 and idxs:          # change words in a text run
                i = r.choice(idxs)
                ws = toks[i].split(' ')
                j = r.randrange(len(ws))
                ws[j] = r.choice(WORDS) if r.random() < 0.7 else ''
                toks[i] = ' '.join(ws)
            elif k < 0.5 and idxs:         # add words
                i = r.choice(idxs)
                toks[i] = toks[i] + ' ' + self.words(1, 3)
            elif k < 0.62:                 # insert a new block at top level (between balanced top-level elements)
                pos = self._top_level_positions(toks)
                toks.insert(r.choice(pos), self.block())
            elif k < 0.72 and idxs:        # wrap a text run in an inline element / link
                i = r.choice(idxs)
                t = r.choice(INLINE + ['a'])
                inside_a = ''.join(toks[:i]).count('<a ') > ''.join(toks[:i]).count('</a>')
                if t == 'a' and inside_a:
                    t = 'span'
                toks[i] = ('<a href="%s">%s</a>' % (r.choice(HREFS), toks[i])) if t == 'a' else '<%s>%s</%s>' % (t, toks[i], t)
            elif k < 0.78:                 # change an href / src
                for i, t in enumerate(toks):
                    if t.startswith('<a ') and r.random() < 0.5:
                        toks[i] = '<a href="%s">' % r.choice(HREFS)
                        break
            elif k < 0.80:                 # unlink: the anchor loses its href and the address is spelled out after it
                for i, t in enumerate(toks):
                    m = re.match(r'<a [^>]*href="([^"]*)"', t)
                    if m and r.random() < 0.6:
                        for j in range(i + 1, len(toks)):
                            if toks[j] == '</a>':
                                toks[i] = '<a>'
                                toks[j] = '</a>' + (m.group(1) if r.random() < 0.7 else ' ' + m.group(1) + ' ')
                                break
                        break
            elif k < 0.84:                 # attribute-only changes on start tags (class / id / data-*), often on nested wrappers in a row
                starts = [i for i, t in enumerate(toks) if t.startswith('<') and not t.startswith('</') and not t.startswith('<!')
                          and not t.startswith('<a ') and not t.startswith('<img') and not t.startswith('<script') and not t.startswith('<style')]
                if starts:
                    first = r.randrange(len(starts))
                    for i in starts[first:first + r.randint(1, 3)]:
                        name_end = len(toks[i]) - 1
                        body = toks[i][:name_end].rstrip('/')
                        close = toks[i][len(body):]
                        body = re.sub(r' (class|id|data-v)="[^"]*"', '', body) if r.random() < 0.4 else body
                        toks[i] = body + ' %s="%s"' % (r.choice(['class', 'id', 'data-v']), r.choice(['a', 'b', 'x y', 'n1'])) + close
            elif k < 0.9:                  # delete a balanced top-level element
                pos = self._top_level_positions(toks)
                if len(pos) > 2:
                    a = r.randrange(len(pos) - 1)
                    del toks[pos[a]:pos[a + 1]]
            else:                          # move text into a new heading / list (only where flow content is allowed)
                ok = [i for i in idxs if self._flow_allowed(toks, i)]
                if ok:
                    i = r.choice(ok)
                    toks[i] = r.choice(['<h2>%s</h2>', '<ul><li>%s</li></ul>', '<div>%s</div>', '<p>%s</p>']) % toks[i]
            if not toks:
                toks = [self.block()]
        return ''.join(toks)

    @staticmethod
    def _flow_allowed(toks, i):
        void = ('br', 'img', 'input', 'meta', 'hr', 'col', 'link')
        stack = []
        for t in toks[:i]:
            if t.startswith('</'):
                if stack:
                    stack.pop()
            elif t.startswith('<') and not t.startswith('<!'):
                name = t[1:].split()[0].strip('<>/').lower()
                if name not in void and not t.endswith('/>'):
                    stack.append(name)
        flow = set(CONTAINERS) | {'li', 'td', 'th', 'form', 'body'}
        return not stack or stack[-1] in flow

    @staticmethod
    def _top_level_positions(toks):
        void = ('br', 'img', 'input', 'meta', 'hr', 'col', 'link')
        depth = 0
        pos = [0]
        for i, t in enumerate(toks):
            if t.startswith('</'):
                depth -= 1
            elif t.startswith('<') and not t.startswith('<!'):
                name = t[1:].split()[0].strip('<>/').lower()
                if name not in void and not t.endswith('/>'):
                    depth += 1
            if depth == 0:
                pos.append(i + 1)
        return sorted(set(pos))


def pair(rng, rich=True):
    g = Gen(rng, rich)
    a = g.body()
    b = g.edit(a) if rng.random() < 0.8 else g.body()
    return a, b

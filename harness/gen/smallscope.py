"""Small-scope exhaustive pages: every forest of at most `nodes` nodes and depth `depth` over a tiny alphabet of block, list,
inline, link, void and text nodes.  Complements the random generator: within the scope NOTHING is skipped."""
import itertools

LEAVES = ['w', 'v w', '<br>', '<img src="i.png">', '&lt;x&gt;']
WRAPS = ['<p>%s</p>', '<div>%s</div>', '<ul><li>%s</li></ul>', '<b>%s</b>', '<a href="/x">%s</a>', '<h2>%s</h2>', '<table><tbody><tr><td>%s</td></tr></tbody></table>']
BLOCK = {'<p>%s</p>', '<div>%s</div>', '<ul><li>%s</li></ul>', '<h2>%s</h2>', '<table><tbody><tr><td>%s</td></tr></tbody></table>'}


def forests(nodes, depth, inline_only=False, in_a=False):
    """yields (html, size) for forests with 1..nodes nodes"""
    if nodes <= 0:
        return
    # first tree, then the rest
    for t, n in trees(nodes, depth, inline_only, in_a):
        yield t, n
        for rest, m in forests(nodes - n, depth, inline_only, in_a):
            yield t + ' ' + rest, n + m


def trees(nodes, depth, inline_only, in_a):
    for leaf in LEAVES:
        yield leaf, 1
    if depth <= 0 or nodes < 2:
        return
    for w in WRAPS:
        if inline_only and w in BLOCK:
            continue                      # no block inside <p>/<b>/<a>/<h2> (the parser would restructure the page)
        if in_a and w.startswith('<a '):
            continue
        child_inline = inline_only or w in ('<p>%s</p>', '<b>%s</b>', '<a href="/x">%s</a>', '<h2>%s</h2>')
        for inner, n in forests(nodes - 1, depth - 1, child_inline, in_a or w.startswith('<a ')):
            yield w % inner, n + 1


def pages(nodes=3, depth=2):
    seen = []
    for html, _ in forests(nodes, depth):
        if html not in seen:
            seen.append(html)
    return seen


def pairs(nodes=3, depth=2, limit=None):
    ps = pages(nodes, depth)
    out = list(itertools.product(ps, ps))
    return out if limit is None else out[:limit]


if __name__ == '__main__':
    for n in (2, 3):
        print(n, len(pages(n, 2)))

#!/venv/bin/python
"""Rewrites the two tables of DESIGN.md section 11 from seeded/SWEEP.json and the seeded/<id>/meta.json files."""
import json
import os
import re

VERIF = os.path.dirname(os.path.dirname(os.path.abspath(__file__)))
NOTES = {
    'C03-17': 'round 10, first missed: no image had a candidate list starting with a blank or a comma (an image token then has only empty URLs); added',
    'C20-18': 'round 10, first missed: the probe never sent two signals before the loop ran the first callback; scenario "two signals back to back" added',
    'C06-17': 'round 10, first missed: the misspelled label iso-8559-1 was never served with bytes 0x80-0x9f; added',
    'C08-18': 'round 10, first missed: no URL parameter was a bare scheme word (http, https, file); added',
    'C11-17': 'round 10, first missed: no header value had a comma inside a quoted parameter; added',
    'C18-18': 'round 10, first missed: no request Origin extended or truncated a listed origin by port digits; added',
    'C09-17': 'round 10, first missed: no deleted graphic was nested inside another graphic; hand pairs added',
    'C14-17': 'round 10, first missed: no srcset had an empty candidate (trailing or doubled comma, blank value); added to generated images and the malformed documents',
    'C19-17': 'round 10, first missed: the variants never added or changed an expected hash; a_hash / b_hash variants added',
    'C07-17': 'round 10, first missed: the scripted pool had no job that fails with a differ error; observer-only pass "differ error is no breakage" added',
    'C17-17': 'round 10, first missed: the purity workload never repeated a diff with a deleted script inside embedded SVG; added three times',
    'C05-17': 'round 10, first missed: no two comments stood directly next to one another; two such invisible edits added',
    'C17-18': 'round 10, first missed: no Content-Type value given by the caller contained a comma; added to the header-unchanged cases',
    'C09-15': 'round 9, first missed: no deleted graphic held its script inside an element named template; hand pairs added (the observer was namespace-aware already)',
    'C01-16': 'round 9, first missed: no image had data-src / data-srcset without a src; lazy-loading markup added to the generated images',
    'C03-16': 'round 9, first missed: no page quoted markup as text (without blanks) where the other had the live element; hand pairs (script, svg, textarea, select) added',
    'C05-16': 'round 9, first missed: no title / script / style contained text that looks like a charset declaration; three such invisible edits added',
    'C13-16': 'round 9, first missed: hash values were always valid UTF-8; an observer-only pass with undecodable percent-escapes around the right digest added',
    'C06-15': 'round 9, first missed: no served body began with a byte-order mark; UTF-8 and UTF-16 BOM pairs under every declared charset added',
    'C14-15': 'round 9, first missed: no pair had its only <title> elements in the body; added',
    'C17-15': 'round 9, first missed: the purity workload had no blank documents; nine blank-sided calls with different views added',
    'C04-13': 'round 8, first missed: no link sat inside svg / template / rp / math; such containers added to the link pages',
    'C16-14': 'round 8, first missed: no link or image was the fallback content of video / audio / object; wrappers added',
    'C15-13': 'round 8, first missed: no tag had an attribute value wrapped over several lines; added to block and list item attributes',
    'C17-13': 'round 8, first missed: the purity workload had no element whose name has a separable tag name as a prefix (pre, picture, param, progress, listing); added, and <pre> joined the generated blocks',
    'C05-13': 'round 8, first missed: the invisible edits only used "<!--" comments; processing instructions, declarations, CDATA and blank-name end tags (all comment nodes to the parser) added',
    'C09-14': 'round 8, first missed: "deleted" was read off the <del> around the element; now every live script/style of the combined view must be one of the new page (counted), and scripts directly inside lists are hand pairs',
    'C20-14': 'round 8, first missed: never more diffs in flight than the pool runs at once; scenario "queued, graceful" (9 diffs, 2 workers) added',
    'C02-9': 'caught by generated pages only in some sweeps (missed once in a later sweep): its example is now a hand-picked pair',
    'C01-2': 'first missed: pages whose body opens with script/style were not generated',
    'C03-1': 'first missed: the spacer cap was only reached by 900-element pages of one shape; small-cap pass and a second big-page shape added',
    'C03-2': 'first missed: no edit replaced a link by its spelled-out address; unlink edit and hand pairs added',
    'C16-1': 'first missed: no URL carried both kinds of noise; archived servlet URLs added',
    'C17-1': 'first missed: no hrefs differing only in case; added',
    'C17-2': 'first missed: every page was diffed under one rule set only; the same archived pages under every rule set added',
    'C17-3': 'first missed: identical documents were never diffed in consecutive calls; version chains and a same-arguments clause added',
    'C14-1': 'first caught by correspondence only: the title-diff reader now parses the markup with an HTML parser',
    'C20-2': 'first caught by correspondence only: the observer took the live pool from the application settings, which the change empties',
    'C06-3': 'first missed: both sides always declared the same charset; identical bytes under different charsets and the same URL on both sides added',
    'C13-4': 'first missed: the two sides never had the same URL; same-URL cases with every hash class per side added',
    'C20-4': 'first missed: no scenario had a real HTTP request in flight; the real-process probe now runs a listening application with a client waiting during shutdown',
    'C06-1': 'earlier round', 'C06-2': 'earlier round',
    # round 4 (changes that need something specific to manifest)
    'C03-5': 'first missed: no two versions differed only in a look-alike character (superscript, ligature, full-width, NFC/NFD, case); look-alike word pairs added',
    'C05-5': 'first missed: no input was larger than a few hundred characters; large repetitive inputs (up to 280 000 characters, changes next to a copy of themselves) added',
    'C06-5': 'first missed: no two URLs served the same bytes under different headers with the same hash in one process; request sequences added',
    'C06-6': 'first missed: every upstream reply carried a Content-Type header; replies without one at .pdf/.txt/extension-less URLs added (the differ outcome became an oracle input of the handler model)',
    'C07-6': 'first missed: pool breakage was never interleaved with a shutdown in the C07 exploration; schedules with both added',
    'C08-6': 'first missed: error responses were never requested with pass_headers in other spellings than the header sent; added',
    'C11-6': 'first missed: no body began with more than a few whitespace characters; leading whitespace of 507 to 70 000 characters added',
    'C14-6': 'first missed: no page used attribute names that are parameter names of the libraries underneath (name, string, attrs, ...); added',
    'C15-5': 'first missed: no block element carried a style attribute (display:inline); added to the generator',
    'C17-6': 'first missed: no page was nested deeper than the default recursion limit; 1200-level pages first and last in the workload',
    'C19-5': 'first missed: parameters were only ever sent in the query string; form-encoded request bodies added',
    'C19-6': 'first missed: no error response of an application that is shutting down was inspected; added',
    # round 5
    'C02-8': 'first missed: no page had more than 10 000 tokens; pages with a run of identical blocks (k vs k-1 copies) beyond that size added to the big-page pass, which C02 now runs too',
    'C03-8': 'first missed: identity and counts were only exercised under the default url_rules; every rule value (None, empty, each rule, combinations) and images without source attributes added',
    'C04-8': 'first missed: no page had more than a few links; pages of 150 to 450 links with repeated targets and texts added (observer only: beyond 200 links the matcher junk heuristic is outside the model)',
    'C06-8': 'first missed: Latin-1 was only ever declared by its canonical label; its aliases (latin1, ISO_8859-1, l1, cp819, ...) with bytes 0x80-0x9f added',
    'C08-8': 'first missed: no URL had a malformed authority (unbalanced bracket, host failing NFKC/IDNA checks); added on both sides of the scheme gate',
    'C15-8': 'first missed: no media element with block-level fallback content (video, audio, object); added to the generator',
    'C17-7': 'first missed: no image carried several source URLs in another order between the versions; responsive-image galleries added to the workload',
    'C17-8': 'first missed: no page beyond the spacer cap was diffed twice in one process; a 900-card page chain added to the workload',
    'C19-7': 'first missed: no two parameter values differed only in Unicode normalisation form; NFC/NFD/compatibility variants added',
    # round 6
    'C03-10': 'first missed: no link or image URL was one that URL libraries reject (non-IP brackets); added to the generator pools',
    'C04-10': 'first missed: no two targets differed only in what a URL library normalises away (empty query/fragment, embedded blanks, case after the host); added',
    'C10-10': 'first missed: no changed entry changed both its text (in letter case only) and its target; case-variant link families added',
    'C14-9': 'first missed: no pair had identical content under different html/head/body attributes; added, under every include value',
    'C16-10': 'first missed: the session id always ended the path; session ids after a query string and inside a fragment added',
    'C17-10': 'first missed: no refused argument (unknown rule after a valid one) was repeated in one process; added to the workload',
    # round 7
    'C04-12': 'first missed: no link had several hidden or replaced children (svg/script/style followed by img); added to the link contents',
    'C05-12': 'first missed: no pair had empty visible text on both sides; image-only pages, application shells, title-only pages added',
    'C06-12': 'first missed: Latin-1 with bytes 0x80-0x9f was only served as text/html or text/plain; the other HTML-family media types added',
    'C09-11': 'first missed: escaped markup never sat in an element that is raw text under other parser settings (noscript, noframes, noembed, xmp); added',
    'C15-12': 'first missed: the render checks never ran another differ in the same process first; every render check now warms up the links and text differs',
    'C16-12': 'first missed: the session parameter never began the URL; added',
    'C17-11': 'first missed: the workload had no two multi-rule values of which one lacks a rule of the other; rule subsets in both orders added',
    'C19-11': 'first missed: every error request failed on one side only; requests with both sides at fault added',
    'C20-5': 'first missed: shutdown never began while a request was still fetching its pages; two scenarios added to the real-process probe',
}


def main():
    sw = json.load(open(os.path.join(VERIF, 'seeded', 'SWEEP.json')))
    rows = []
    for sid in sorted(k for k in sw if not k.startswith('regress/')):
        prop = sid.split('-')[0]
        r = sw[sid][prop]
        meta = json.load(open(os.path.join(VERIF, 'seeded', sid, 'meta.json')))
        what = re.sub(r'\s+', ' ', meta.get('breaks') or '')[:140].replace('|', '/')
        fo = r.get('failed_obligations') or []
        kinds = sorted({('observer/exploration' if ('observer' in f or 'exploration' in f) else 'correspondence' if 'correspondence' in f
                         else 'proof/table' if (f.startswith('theorem') or 'tables' in f or 'build' in f) else 'other') for f in fo})
        note = NOTES.get(sid, '')
        if note == 'earlier round':
            note = ''
        rows.append('| %s | %s | %s (%d lines, %d with input) | %s |' % (
            sid, what, ', '.join(kinds) or '-', r.get('violation_lines') or 0, r.get('with_failing_input') or 0, note))
    rrows = []
    for k in sorted(k for k in sw if k.startswith('regress/')):
        rrows.append('| %s | %s |' % (k[8:], ', '.join('%s: %s (%d)' % (p, 'caught' if r.get('exit') else 'MISSED', r.get('violation_lines') or 0)
                                                     for p, r in sw[k].items())))
    n = len(rows)
    missed = sum(1 for k in sw if not k.startswith('regress/') and not sw[k][k.split('-')[0]].get('exit'))
    p = os.path.join(VERIF, 'DESIGN.md')
    s = open(p).read()
    i = s.index('## 11. Seeded changes')
    head = '''## 11. Seeded changes and reverse fixes: which check catches what

%d breaking changes were made by fresh sub-agents in ten rounds (2 per property per round from
round 2 on; rounds 4 to 10 asked for changes that need something specific to manifest: an interleaving, a
multi-request history, an unusual input, two cooperating edits), each agent given only the text of
one property and a scratch worktree under `/tmp`; each change was confirmed by me
(`harness/confirm_seed.sh`: the agent's demonstration passes on the unchanged tree and
fails with the change; the 81 tests still pass) and archived under `seeded/<id>/`.
`harness/seed_sweep.py` applies each in turn to `/repo`, runs the quick check of its
property, records the failing obligations (`seeded/SWEEP.json`, `meta.json: caught_by`)
and undoes it. **%d of %d are caught by the quick tier; all %d applicable reverse fixes are caught (the reverse of fix 19 is kept as `regress/superseded-…`: since fix 23 made `iframe` an opaque unit the branch it removes is unreachable, and reverting it no longer breaks anything).**
The sweep of all changes runs as six shards side by side, each on its own snapshot of `/verif` and of the
repository (`harness/sweep_shard.sh` under `vp run --with-repo`, 35 minutes), never on `/repo` while a check runs there.
Seeds that an earlier version of a check missed (or caught by correspondence only) are
marked; in every such case the *generator or observer* was strengthened - never the
property, never a special case for the seed.

| seed | what it breaks (agent's summary, truncated) | caught by (VIOLATION lines) | note |
|---|---|---|---|
''' % (n, n - missed, n, len(rrows))
    tail = '''

Reverse patches of the `fix:` commits (`regress/`, kept applicable to HEAD):

| reverse fix | quick check result (VIOLATION lines) |
|---|---|
''' + '\n'.join(rrows) + '''

Earlier rounds strengthened C06 (query order, independent decode, conflicting
meta), C13 (memento / file serving kinds, systematic injections), C18 (asterisk
configurations), C12 (escaped-NUL body), C05 (non-NFC text) after missed seeds.
'''
    j = s.find('\n## 12.')
    rest = s[j:] if j >= 0 else ''
    open(p, 'w').write(s[:i] + head + '\n'.join(rows) + tail + rest)
    print('section 11: %d seeds (%d missed), %d reverse fixes' % (n, missed, len(rrows)))


if __name__ == '__main__':
    main()

#!/venv/bin/python
"""Writes /verif/MANIFEST.json from the table below (kept next to the checks so it stays current)."""
import json
import os

VERIF = os.path.dirname(os.path.dirname(os.path.abspath(__file__)))

CHECKS = {
    'C11': dict(
        technique='Coq proof (decision-table equivalence, case/parameter invariance by induction over strings; table obligations by vm_compute) + regenerated tables + exhaustive class correspondence via extracted OCaml model',
        text='Theorems over the Gallina model of is_not_html/raise_if_not_diffable_html for all texts, headers and options: model = documented table, decision invariant under ASCII case, parameters and padding of the media type, option semantics, side naming. Tables and pattern sources are regenerated from the source on every run and pinned by theorems; the extracted model is run against the implementation on the exhaustive class enumeration.',
        note='Trusted: Coq kernel, gen_tables.py, extraction (ExtrOcamlBasic), harness; Python re semantics of three small patterns (hand-specialised matchers tied by pinned pattern sources, interpreter-generated character classes and exhaustive correspondence); str.lower context-free.',
        design='5/C11'),
}

NOT_YET = {}


def main():
    props = [json.loads(l) for l in open(os.path.join(VERIF, 'properties.jsonl'))]
    checks = []
    na = []
    for p in props:
        pid = p['id']
        if pid in CHECKS:
            c = CHECKS[pid]
            checks.append({
                'property_id': pid,
                'quick_cmd': './check %s --tier quick' % pid,
                'thorough_cmd': './check %s --tier thorough' % pid,
                'evidence_file': 'evidence/%s.json' % pid,
                'replay_cmd_template': './check %s --replay {path}' % pid,
                'engine': 'coq-model',
                'level_claimed': {'category': 'proof', 'text': c['text'], 'design_ref': c['design']},
                'level_note': c['note'],
                'technique': c['technique'],
            })
        else:
            na.append({'property_id': pid,
                       'reason': NOT_YET.get(pid, 'check not built yet in this round (model and theorems planned in DESIGN.md section 5); not claimed until its check exists')})
    manifest = {
        'version': 1,
        'setup_cmd': './setup.sh',
        'hooks': {
            'guard': 'WEB_MONITORING_DIFF_VERIF',
            'enable': 'checks export WEB_MONITORING_DIFF_VERIF=1; no source hooks are needed (all seams are reached by import / monkey-patching from the harness)',
            'baseline_off_cmd': 'harness/run_baseline.sh',
            'source_commits': [],
            'add_only': True,
        },
        'engines': [{
            'name': 'coq-model', 'path': 'coq/',
            'serves_properties': sorted(CHECKS),
            'kind_free_text': 'Coq 8.16.1 models + theorems (coq/theories), tables regenerated from /repo by harness/gen_tables.py, models extracted to OCaml (ocaml/) and run against the implementation by harness/check.py',
        }],
        'checks': checks,
        'not_applicable': na,
        'notes': 'See DESIGN.md. Every check: regenerate tables from /repo, make the cone of Props/<ID>.v, Print Assumptions, build extracted driver, corpus + correspondence + implementation observers.',
    }
    with open(os.path.join(VERIF, 'MANIFEST.json'), 'w') as f:
        json.dump(manifest, f, indent=1)
    print('MANIFEST.json: %d checks, %d not_applicable' % (len(checks), len(na)))


if __name__ == '__main__':
    main()

#!/venv/bin/python
"""Writes /verif/MANIFEST.json from the table below (kept next to the checks so it stays current)."""
import json
import os

VERIF = os.path.dirname(os.path.dirname(os.path.abspath(__file__)))

CHECKS = {
    'C11': dict(
        technique='Coq proof (decision-table equivalence, case/parameter invariance by induction over strings; table obligations by vm_compute) + regenerated tables + exhaustive class correspondence via extracted OCaml model',
        text='Theorems over the Gallina model of is_not_html/raise_if_not_diffable_html for all texts, headers and options: model = documented table, decision invariant under ASCII case, parameters and padding of the media type, option semantics, side naming. Tables and pattern sources are regenerated from the source on every run and pinned by theorems; the extracted model is run against the implementation on the exhaustive class enumeration.',
        note='Trusted: Coq kernel, gen_tables.py, extraction (ExtrOcamlBasic), harness; Python re semantics of three small patterns (hand-specialised matchers tied by pinned pattern sources, interpreter-generated character classes and exhaustive correspondence); str.lower context-free.',
        design='5/C11'),
    'C06': dict(
        technique='Coq proof over the handler/caller model (signature-driven argument binding sound+complete, reserved names bound to fetched content) + extracted-model correspondence over in-process HTTP + service-vs-library observer',
        text='Theorems over the Gallina model of DiffHandler.get/fetch_diffable_content/caller, for all queries, headers, signatures and all oracles (upstream, files, SHA-256, decoder, differ): a 200 carries the differ result for arguments whose reserved names are bound to the fetched values and whose other names are the query values. The signature table is regenerated from the differ defs on every run; the extracted model is run against the in-process service; an observer compares every HTTP result with the direct library call.',
        note='Trusted: Coq kernel, gen_tables.py, extraction, harness/httpkit.py (mock upstream, inline executor, spies). Modelled not verified: Tornado request parsing/JSON encoding, asyncio.gather ordering, the differs themselves (oracle run_differ).',
        design='5/C06'),
    'C08': dict(
        technique='Coq proof over the handler model (every effect is a fetch of an http(s) value of a/b or an open of a file:// value outside production; error mapping and shape) + extracted-model correspondence over in-process HTTP',
        text='Theorems for all requests, modes and oracles: unknown differ 404 / missing URL 400 with no effects; every upstream request is for a value of a or b that starts with http:// or https://; files are opened only for file:// values outside production; upstream failures map to 502/504 unless the reply carries Memento-Datetime; every error response has code = status and no validator. Tied by correspondence of the extracted model with the in-process service over the class cross product.',
        note='Trusted: Coq kernel, gen_tables.py, extraction, harness/httpkit.py. Modelled not verified: Tornado routing, send_error/clear, JSON encoding; gather ordering when both sides fail (observer accepts either side).',
        design='5/C08'),
    'C13': dict(
        technique='Coq proof over the handler model with SHA-256 uninterpreted (200 implies hash equality for every supplied hash and arguments bound to that content) + extracted-model correspondence + HTTP observer',
        text='Theorems for all queries/oracles: a 200 implies that for each side whose hash parameter is present (even empty) the fetched body has exactly that hash and the differ receives that body; a mismatch is the 502 HASH_MISMATCH error without diff. Correspondence and observer over hash classes x sides x differs x injections.',
        note='Trusted: as C06; SHA-256 uninterpreted (harness supplies hashlib digests as the oracle graph).',
        design='5/C13'),
    'C18': dict(
        technique='Coq proof (characterisation of the upstream header map and of the CORS decision, iff statements for all inputs) + extracted-model correspondence over in-process HTTP',
        text='Theorems: the header map sent upstream contains (k,v) iff k is a trimmed element of pass_headers and v the non-empty client value of k; every upstream request of any diff request carries exactly that map; Access-Control-Allow-Origin is sent iff configured, Origin non-empty and listed (or * listed), echoing exactly the Origin. Correspondence + observer over header sets, pass_headers spellings, origin configurations.',
        note='Trusted: as C06. Modelled not verified: Tornado HTTPHeaders (ASCII-case-insensitive names, multi-values joined by ",").',
        design='5/C18'),
    'C12': dict(
        technique='Coq proof over the decoding model with the codec registry / decoders / detectors as arbitrary oracles (totality from one hypothesis, NUL-freedom, precedence lemmas) + extracted-model correspondence on every codec name of the runtime + observers',
        text='Theorems for all headers, bytes and for ANY behaviour of codecs.lookup and bytes.decode under the chosen label (including raising): the result is text or undecodable given only that UTF-8 with replacement never raises; text has no NUL; header > meta > prolog > detection > UTF-8; unknown or non-text labels give UTF-8. The two sniffing patterns are pinned by theorem from regenerated tables. The extracted model runs against _extract_encoding/_decode_body on every codec name and alias of the runtime x placements x body classes; an HTTP observer checks 200/422.',
        note='Trusted: Coq kernel, gen_tables.py, extraction, harness. Oracles (modelled not verified): the two byte regexes (results computed from pinned copies), cchardet, codecs.lookup, bytes.decode; hypothesis utf8_total.',
        design='5/C12'),
    'C19': dict(
        technique='Coq proof: injectivity of the hashed pre-image via a verified decoder for Python repr of str/dict (round-trip by induction, hex arithmetic), 304-iff-matcher and no-effects over the handler model + extracted-model correspondence (sha256 of the model pre-image = Etag header) + pairwise HTTP observers',
        text='Theorems: 304 iff the modelled Tornado matcher accepts, and then no effects; matcher sound/complete w.r.t. wildcard-first or weak equality with some tag; the string handed to SHA-256 (version + path + repr of the ordered effective parameter dict) is injective in (path, ordered effective parameters) for all strings below U+110000 (Python repr proved self-delimiting through a decoder round trip) - so equal validators mean equal requests or a SHA-256 collision; errors carry no validator. Tie: sha256(model pre-image) must equal the Etag header on every 200; pairwise distinctness/repeatability and 19 If-None-Match forms observed over HTTP.',
        note='Trusted: Coq kernel, gen_tables.py (str.isprintable table from the interpreter), extraction, harness. Modelled not verified: CPython repr (tied by the Etag comparison), Tornado check_etag_header (re-modelled) and auto-ETag on 200 only. SHA-256 uninterpreted.',
        design='5/C19'),
    'C07': dict(
        technique='Coq proof: invariants of a labelled transition system over any number of requests/pools/events by induction over event sequences + extracted-model correspondence on EVERY edge of the explored state graph (exhaustive for <=3 requests quick, <=4 thorough) replayed on the real coroutines',
        text='Theorems for every finite event sequence (starts, deliveries in any order, pool breaks, shutdown signals), any number of requests, any positive tries, both restart options: at most tries submits per request; a pool is replaced at most once, only if broken, and is handed to shutdown; pools created <= 1 + broken pools; exit(10) scheduled iff restart off and some request failed its last try (having used all tries); every delivery finishes a request or moves it to a strictly later try below the bound. The model is tied to DiffHandler.diff/get_diff_executor by replaying a schedule for every edge of the reachable state graph on the real coroutines with a scripted fake ProcessPoolExecutor.',
        note='Trusted: Coq kernel, extraction, harness/pool_harness.py (fake executor, quit recorder). Modelled not verified: asyncio atomicity between awaits; ProcessPoolExecutor raises BrokenProcessPool from submit() once broken.',
        design='5/C07'),
    'C20': dict(
        technique='Coq proof over the same transition system with shutdown events (monotone terminating flag, no creation after begin, late/retrying requests error, running diffs finish, all pools shut or killed) + every-edge correspondence with shutdown at every state; real-process probe in the thorough tier (exploration)',
        text='Theorems: begin-shutdown sets a monotone flag; while it is set no step creates or changes a pool; late requests and retries end with an error; a pending diff that completes gets its normal response; in every reachable state after begin every created pool has been handed to shutdown or killed. Tied by replaying, for 1-3 requests, every edge of the state graph that contains a shutdown (graceful, immediate, escalation) on the real coroutines. "No worker process left alive" is an OS fact: explored with real processes in the thorough tier, labelled exploration.',
        note='Trusted: as C07; executor.shutdown(wait=True) reaps workers and kill() breaks the pool (modelled).',
        design='5/C20'),
    'C05': dict(
        technique='Coq proof from the explicit contract of the native diff library (reconstruction, count, zero-iff-equal, text diff relative to the side-by-side texts, invariance under invisible content) + per-run validation of that contract + extracted-model correspondence (_get_visible_text) + observers',
        text='Theorems: given the diff-match-patch contract (only =,-,+ operations; both arguments reconstructed; equal arguments give no change segment), the source diff reconstructs both inputs, change_count is the number of changed segments and is zero iff the texts are equal; the visible-text diff satisfies the same with respect to exactly the two texts the side-by-side view reports; text nodes under script/style/title/head never influence the visible text. The contract is validated on every generated pair (full Unicode classes, tiny time limit forcing the coarse path). The blank-line folding and visibility filter are modelled and run against _get_visible_text. The substance of reconstruction lives in the C++ library: mostly contract, and the evidence says so.',
        note='Trusted: Coq kernel, gen_tables.py, extraction, harness. Oracle: fast_diff_match_patch.diff under contract DMP0-2; html5-parser/bs4 text-node extraction.',
        design='5/C05'),
    'C04': dict(
        technique='Coq proof: Permutation-based exactly-once theorem for the pairing pass under ANY contiguous opcode list, chain preservation of the re-balancing pass, validity (contiguous monotone cover) of the modelled difflib matcher for all sequences, zero-changes <-> same keys lemmas + extracted-model correspondence (links_diff_json and _assemble_diff with adversarial opcodes) + independent observer',
        text='Theorems for all link lists: the diff lists every old link exactly once (unchanged/changed/removed) and every new link exactly once (unchanged/changed/added); unchanged entries pair equal exact keys; the re-balancing pass maps contiguous opcode lists to contiguous opcode lists; the difflib model always returns a contiguous cover (find_longest_match stays in its window); count 0 implies the same links on both sides, and position-wise equal keys give count 0 (via a proof that the matcher returns a single equal block on aligned sequences); in-page links never become entries. The model (Link, clean_href, link text extraction, dedup/sort, difflib, both passes) is run against links_diff_json on generated navigation-like pages and against _assemble_diff on arbitrary valid opcode lists.',
        note='Trusted: Coq kernel, gen_tables.py, extraction, harness. Modelled not verified: difflib (re-modelled, run against the stdlib every time), html5-parser/bs4 element access, Python hashing (collisions ignored), str.lower context-free, dmp inside changed entries (C05 contract). Partial: "same SET => zero" is proved for key-aligned sorted lists; sort/dedup canonical form is validated, not proved.',
        design='5/C04'),
}

RENDER_NOTE = ('Trusted: Coq kernel, gen_tables.py, extraction, harness (render_lib.py tree converter, observers, gen/htmlgen.py). '
               'Modelled not verified: html5-parser, BeautifulSoup tree surgery and serialisation, lxml serialisation of opaque elements, '
               'difflib (re-modelled, string-hash collisions ignored); the re-parse of the emitted chunk stream by html5-parser is covered per '
               'input by document-level observers, not by a theorem - hence partial at document level.')
CHECKS.update({
    'C01': dict(
        technique='Coq proof at chunk-stream level: origin-labelled marker machine refines the executable model; conservation (every non-blank chunk of the page emitted exactly once, in order) for ANY contiguous opcode list, through tokeniser, spacer cap, customisation and marker placement + char-for-char extracted-model correspondence with _htmldiff + document-level observers (text, separation, structure; alone = all)',
        text='Theorems (partial at document level): for all element trees, url rules, spacer caps and every contiguous opcode list, the chunk stream of the insertions (deletions) view minus marker tags equals the flattened new (old) page up to blank chunks; tokenising, the spacer cap and token customisation conserve every chunk; text chunks never contain "<" so no text becomes markup; stated on the text itself (C01_view_text_is_page_text): the text chunks of the view carry, in order, exactly the non-whitespace characters of every text and tail of the page tree; include=all computes the same single-sided streams as include=insertions/deletions. The model (flatten, tokenise, customise, cap, comparators, difflib, merge) is tied char-for-char to _htmldiff on generated and hand-picked pairs; observers check text, word separation and block/br/img/control/script structure of each view against its page on the real html_diff_render, including pages beyond the spacer cap.',
        note=RENDER_NOTE, design='5/C01'),
    'C02': dict(
        technique='Coq proof at chunk-stream level: the combined stream is a sequence of whole items in which every group of the new side (inserted or unchanged) and every deleted group occurs exactly once and everything else is a tag - by an invariant over all 25 branches of the reconciliation state machine (buffers hold whole items; deleted-side buffer holds only marked groups), its loop, the two splits of unchanged runs and the fold over ANY opcode list; grouping and tokenising conserve every chunk + char-for-char extracted-model correspondence + document-level observer',
        text='Theorems (partial at document level only): reconcile_change_groups returns, for all item lists whose loose items are tags and whose deleted groups carry the deletion marker (both proved of the grouping output), a flattening of items containing every group of both sides exactly once (Permutation) and otherwise tags - whichever early exit is taken; assemble_diff in combined mode, for all token lists and all opcode lists, emits every new-side group and every deleted group exactly once; grouping emits every chunk of a run once, text only inside groups; tokenising conserves both pages for every cap. The re-parse of the stream by html5-parser is decided per input by the observer on html_diff_render (text outside del markers = new page text, outside ins markers = old page text, as multisets).',
        note=RENDER_NOTE, design='5/C02'),
    'C03': dict(
        technique='Coq proof: identity (a page against itself has the single Equal opcode, zero counts and no marker in any stream) for all trees via the aligned-sequences theorem about the difflib model; counts consistency; no markers when count is 0; opcode cover; detection: block soundness of the difflib model => same words/opaque elements/link targets => same non-whitespace text of the element trees (words keep every character, escaping injective) + extracted-model correspondence + observers (identity on every generated page and beyond the spacer cap; detection of text differences incl. look-alike characters)',
        text='Theorems: for every element tree, rule set and cap, diffing the token list against itself yields exactly one equal block, counts (0,0,0) and marker-free streams; any two token lists that are pairwise equal under the comparator give the single Equal opcode; change_count = insertions + deletions; a side whose count is 0 carries no markers; opcodes always cover both token lists contiguously; the spacer cap never removes content. Detection is a theorem: every block the matcher model returns relates its elements pairwise, so with rules off change_count = 0 implies that both token lists - and, through tokenising, customisation and the spacer cap, both element trees - carry the same sequence of words, opaque elements and link targets (C03_detection, C03_detection_pages). Stated on the text itself (TextProofs): the non-whitespace characters of every text and tail of the element tree, in document order, with opaque elements as atoms, are a function of what the tokens carry (split_words keeps every non-whitespace character; escaping is an injective recoding), so for all trees and caps a difference in any non-whitespace character of the text gives change_count > 0 (C03_detection_text). What remains for the observer is html5-parser (bytes to tree).',
        note=RENDER_NOTE, design='5/C03'),
    'C09': dict(
        technique='Coq proof: html.escape output has no < > (and no quotes when asked) for all strings; every text chunk the tokeniser emits is escaped and so cannot start a tag; chunks are emitted verbatim by the marker machine; undiffable elements are one verbatim chunk + extracted-model correspondence + observer (script/style of every view are verbatim those of the inputs; deleted ones inert in a template)',
        text='Theorems: for all strings html.escape contains neither "<" nor ">" (nor quotes with quote=True), and unescape inverts it; for all trees every word, trailing-whitespace and body-text chunk of the flattened page is escape output, so no text chunk starts a tag; the marker machine emits chunks verbatim (no re-interpretation); script/style/svg/template elements are single opaque chunks; the fragment handed to the tokeniser (_diffable_fragment, modelled and tied char for char) writes text nodes of the body escaped, unwraps every source ins/del and keeps all text; every script/style below a deletion marker ends up in an inert template that is itself outside embedded SVG/MathML (there the element is moved out of the graphic: nothing dropped, order kept). Observer on html_diff_render: every script/style element in any view is verbatim one of the input page, every live one in the combined view is one of the new page (deleted ones sit inside an HTML template.wm-diff-deleted-inert), the title diff meta contains no active markup, escaped payloads in text/attributes/title stay text.',
        note=RENDER_NOTE, design='5/C09'),
    'C15': dict(
        technique='Coq proof: scan invariant of the marker state machine (no block-level tag chunk between an opening and closing marker) for all chunk lists and all contiguous opcodes (single-sided views), combined view = sequence of closed groups and loose tags for all opcode lists (through reconciliation); labelled machines refine the executable model; TREE LEVEL for the single-sided views: read with a stack of open elements, the view of every admissible page (decidable predicate on element trees; stream well nested, no block inside inline) is well nested with no block-level element opened under a marker - invariant through all branches of the marker machine, all contiguous opcode lists, induction over the tree + extracted-model correspondence + per-run run of the theorem instances and stack-parser vs html5-parser tree comparison on the views the implementation returns + document-level observer (no block element inside ins/del.wm-diff in any view)',
        text='Theorems: for every chunk list, merge_changes never leaves a block-level tag between marker open and close and ends with the marker closed; the same for the whole single-sided view under any contiguous opcode list; merge_change_groups only produces closed groups; the combined stream, for all token lists and all opcode lists and through reconciliation, is a sequence of whole closed groups and loose tags (C15_combined); block names are the regenerated table. Tree level (NestingProofs): for all pairs of element trees, rule sets and caps, if the chosen page is admissible (page_ok) the single-sided view, read with a stack of open elements, closes every element and every marker properly, never nests markers and never opens a block-level element while a marker is open (C15_tree_level_pages); the hypothesis cannot be dropped (C15_nesting_needs_admissible_pages). What remains per input: that html5-parser reads such a well-nested stream like a stack parser (validated on every admissible generated page: identical trees), and the combined view at document level (observer).',
        note=RENDER_NOTE, design='5/C15'),
})

CHECKS['C16'] = dict(
    technique='Coq proof: each comparator ignores exactly the part it names (for every URL of the documented shape, by induction over the search), compound keeps each member; zero-changes theorem for ==-aligned token lists via a new invariant proof about the difflib model (first longest key run lies on the diagonal, == loops extend it over everything) under a freshness hypothesis, with the unrestricted statement refuted by a vm_compute witness (known finding); rules-off detection from block soundness + extracted-model correspondence (url_eq vs live comparators, htmldiff under every rule set) + observers on html_diff_render',
    text='Theorems: for every digit-free prefix and any two 14-digit stamps the Wayback/UK comparators equate URLs differing only in the stamp; for every ;-free prefix the session comparator equates URLs differing only in the session id; a compound comparator equates exactly what some member equates. For all token lists that are pairwise == under the rules and whose key-different positions hold URLs occurring nowhere on the other side: single Equal opcode, counts (0,0,0) - any number of rewritten links/images at any position (partial: freshness hypothesis; C16_zero_refuted_without_freshness exhibits the failing pair, replayed on the code as known finding). With rules off a differing link target always gives change_count > 0 (from soundness of every matching block). Pattern sources and rule table regenerated and pinned. Tied by url_eq correspondence with the live classes, htmldiff correspondence under every rule set, and observers over generated pages x all rule permutations/spellings x first/last/adjacent sweeps.',
    note=RENDER_NOTE + ' The three regular expressions are hand-specialised matchers tied by pinned sources and correspondence.', design='5/C16')

CHECKS['C10'] = dict(
    technique='Coq proof over the model of the table builder and of BeautifulSoup prettify: reading the produced string back with an HTML tokenizer specification yields exactly the scaffold tags and the (escaped) entry texts - for all texts, targets and titles + char-for-char extracted-model correspondence of the whole returned document + independent html5-parser observer against links_diff_json',
    text='Theorems for all link texts, targets, nested text diffs, titles and any palette without "<": tokenizing the string the model returns gives the doctype, the fixed head (title as one text token) and table header, then exactly one token group per diff entry in order, then the closing tags; the number of tr.links-list--item start tags equals the number of entries; a plain entry shows its text as one text token and its target as the href of the only link and as that link text; text tokens never contain < or >, an attribute body never contains its quote character, and both decode to the original string; the strings of one side of a changed entry concatenate to that side of the nested diff; every tag read back is scaffold, style or ins/del with exactly class=wm-diff. The general lemma holds for every tree with well-formed tag/attribute names (prettify read-back). Tied by char-for-char correspondence of the whole returned document with links_diff_html on generated hostile pages, with the entries taken from links_diff_json; an html5-parser observer checks rows, texts, targets, title and scaffold independently of the model.',
    note='Trusted: Coq kernel, gen_tables.py (CSS template, CHANGE_INFO), extraction, harness. Modelled not verified: BeautifulSoup prettify/minimal formatter (re-modelled, tied char for char), html5-parser for the page template; links_diff (C04) and dmp (C05 contract) produce the entries. The tokenizer specification is written for this model and validated against html5-parser on every run.',
    design='5/C10')

CHECKS['C14'] = dict(
    technique='Coq proof over the assembly model (selected views; chrome counts; kept attributes; title-diff markup decodes to both titles) + char-for-char extracted-model correspondence of every returned view (assembly + str(soup)) + shape observer over a malformed-input stream (exploration for the no-crash part)',
    text='Theorems (partial) over the assembly model, for all pages, diff bodies, title diffs and palettes: the result holds exactly the views include selects (for every string); every view keeps doctype/html/head/body attributes of its base page (old page for deletions); insertions/deletions views are the base head plus exactly the style block and the diff body plus exactly the contrast script; the combined view additionally gets exactly one title-diff meta and one template holding the old head; the title markup reads back (decoder unmark) into the escaped old and new titles for all strings, which by the dmp contract are the two titles; every script/style below a deletion marker ends up inside template.wm-diff-deleted-inert. Tied char for char: the extracted model (assembly + str(soup)) reproduces every returned view from the live parsed pages and diff bodies. The no-crash part and parser behaviour are explored over a malformed-input stream (empty, tag soup, control characters, 300-level nesting, framesets for keys only), labelled exploration.',
    note='Trusted: Coq kernel, gen_tables.py (style template, contrast script, palette defaults), extraction, harness (soup -> model converter). Modelled not verified: html5-parser, BeautifulSoup tree surgery and str(); diff_elements output is an input of the assembly model. "Never crashes for any two strings" is a fact about C parsers and the interpreter stack: exploration only, labelled so.',
    design='5/C14')

CHECKS['C17'] = dict(
    technique='Coq proof that the order- and history-dependent constructs cannot influence a result (sorted(set(links)) is the same for every iteration order because the sort key is total on what the set keeps apart; scans over tag sets are existentials; lru_cache is transparent for every call history and eviction policy) + extracted-model correspondence of the sort + process-level exploration (fixed workload under hash seeds x call orders x repeated passes x process pool, digests compared; header mappings unchanged)',
    text='Theorems: for every list of found links and every arrangement (permutation) of its de-duplicated set, sort_links gives the same list - the list handed to the matcher never depends on set iteration order, hence not on PYTHONHASHSEED; the sort key (text.lower(), href) is total on the (href, text.lower()) classes the set distinguishes and de-duplicated links have pairwise different keys; the SEPARATABLE_TAGS scans and all tag-set membership tests are invariant under permutation of the set; a memo cache in front of a pure function returns the function values for every call history and every eviction policy (instantiated for tag_info). A Gallina model is a function by construction, so purity of the model is not claimed. The process-level statement (hash seeds, sequences of calls in long-lived pool workers, native library state, header mappings) is explored: every differ of the service on a fixed workload, in fresh processes under 8 (32 thorough) hash seeds, 3 (6) call orders, repeated passes in one process and in a real process pool; all per-case digests must agree; colour variables may only change results carrying a style block; unrelated environment variables nothing; the process locale (LC_ALL=C) only through the one listed call site (known finding C17-dmp-locale: the native diff classifies characters by LC_CTYPE) - every locale-dependent result must become locale-independent when that one call is pinned. Labelled exploration in the evidence.',
    note='Trusted: Coq kernel, extraction, harness/purity_worker.py. Not modelled: native libraries (lxml, html5-parser, diff-match-patch) global state, pickling into workers - covered by exploration only. Two listed findings (known_findings.json) bound the exploration: results depend on LC_CTYPE and on elapsed time through the one native diff call; divergences are attributed to them only when they vanish with that call pinned / its deadline off.',
    design='5/C17')

NOT_YET = {}


def main():
    props = [json.loads(l) for l in open(os.path.join(VERIF, 'properties.jsonl'))]
    checks = []
    na = []
    for p in props:
        pid = p['id']
        if pid in CHECKS:
            c = CHECKS[pid]
            checks.append({
                'property_id': pid,
                'quick_cmd': './check %s --tier quick' % pid,
                'thorough_cmd': './check %s --tier thorough' % pid,
                'evidence_file': 'evidence/%s.json' % pid,
                'replay_cmd_template': './check %s --replay {path}' % pid,
                'engine': 'coq-model',
                'level_claimed': {'category': 'proof', 'text': c['text'], 'design_ref': c['design']},
                'level_note': c['note'],
                'technique': c['technique'],
            })
        else:
            na.append({'property_id': pid,
                       'reason': NOT_YET.get(pid, 'check not built yet in this round (model and theorems planned in DESIGN.md section 5); not claimed until its check exists')})
    manifest = {
        'version': 1,
        'setup_cmd': './setup.sh',
        'hooks': {
            'guard': 'WEB_MONITORING_DIFF_VERIF',
            'enable': 'checks export WEB_MONITORING_DIFF_VERIF=1; no source hooks are needed (all seams are reached by import / monkey-patching from the harness)',
            'baseline_off_cmd': 'harness/run_baseline.sh',
            'source_commits': [],
            'add_only': True,
        },
        'engines': [{
            'name': 'coq-model', 'path': 'coq/',
            'serves_properties': sorted(CHECKS),
            'kind_free_text': 'Coq 8.16.1 models + theorems (coq/theories), tables regenerated from /repo by harness/gen_tables.py, models extracted to OCaml (ocaml/) and run against the implementation by harness/check.py',
        }],
        'checks': checks,
        'not_applicable': na,
        'notes': 'See DESIGN.md. Every check: regenerate tables from /repo, make the cone of Props/<ID>.v, Print Assumptions, build extracted driver, corpus + correspondence + implementation observers.',
    }
    with open(os.path.join(VERIF, 'MANIFEST.json'), 'w') as f:
        json.dump(manifest, f, indent=1)
    print('MANIFEST.json: %d checks, %d not_applicable' % (len(checks), len(na)))


if __name__ == '__main__':
    main()

#!/venv/bin/python
"""
Translator: /repo source  ->  coq/theories/Gen/Tables.v

Walks the Python `ast` of the files of the *current working tree* of /repo and
emits the constant tables the Coq models are parameterised by, plus character
classes taken from the *running interpreter* (str.isspace, re classes, str.lower,
str.isprintable).  Fail-closed: anything that is no longer a literal of constants
raises TableError, which the check reports as a broken tie.

Usage: gen_tables.py <repo> <out.v>       (rewrites out.v only when content changes)
"""
import ast
import os
import re
import sys


class TableError(Exception):
    pass


def _read(repo, rel):
    path = os.path.join(repo, rel)
    try:
        with open(path, encoding='utf-8') as f:
            src = f.read()
    except OSError as e:
        raise TableError(f'cannot read {rel}: {e}')
    try:
        return ast.parse(src, filename=rel)
    except SyntaxError as e:
        raise TableError(f'cannot parse {rel}: {e}')


def _module_assigns(tree):
    """name -> list of value nodes assigned at module level (in order)."""
    out = {}
    for node in tree.body:
        if isinstance(node, ast.Assign):
            for t in node.targets:
                if isinstance(t, ast.Name):
                    out.setdefault(t.id, []).append(node.value)
        elif isinstance(node, ast.AnnAssign) and isinstance(node.target, ast.Name) and node.value:
            out.setdefault(node.target.id, []).append(node.value)
    return out


def _const_str(node, what):
    if isinstance(node, ast.Constant) and isinstance(node.value, str):
        return node.value
    raise TableError(f'{what}: expected a string literal, found {ast.dump(node)[:80]}')


def _str_seq(node, what, env=None):
    """tuple/list/set([...]) of string constants (with *name splices from env)."""
    if isinstance(node, ast.Call) and isinstance(node.func, ast.Name) and \
            node.func.id in ('set', 'tuple', 'list', 'frozenset') and len(node.args) == 1 and not node.keywords:
        node = node.args[0]
    if not isinstance(node, (ast.Tuple, ast.List, ast.Set)):
        raise TableError(f'{what}: expected a literal sequence, found {ast.dump(node)[:80]}')
    out = []
    for el in node.elts:
        if isinstance(el, ast.Starred) and isinstance(el.value, ast.Name) and env and el.value.id in env:
            out.extend(env[el.value.id])
        else:
            out.append(_const_str(el, what))
    return out


def _last(assigns, name, rel):
    if name not in assigns:
        raise TableError(f'{rel}: module-level name {name} not found')
    return assigns[name][-1]


def _find_class(tree, name, rel):
    for node in tree.body:
        if isinstance(node, ast.ClassDef) and node.name == name:
            return node
    raise TableError(f'{rel}: class {name} not found')


def _find_func(tree, name, rel):
    for node in ast.walk(tree):
        if isinstance(node, (ast.FunctionDef, ast.AsyncFunctionDef)) and node.name == name:
            return node
    raise TableError(f'{rel}: function {name} not found')


def _class_assign(cls, name, rel):
    for node in cls.body:
        if isinstance(node, ast.Assign):
            for t in node.targets:
                if isinstance(t, ast.Name) and t.id == name:
                    return node.value
    raise TableError(f'{rel}: {cls.name}.{name} not found')


def _re_compile_args(node, what):
    """re.compile(<expr>, flags?) -> (pattern expr node, flags set)"""
    if not (isinstance(node, ast.Call) and isinstance(node.func, ast.Attribute)
            and node.func.attr == 'compile' and isinstance(node.func.value, ast.Name)
            and node.func.value.id == 're'):
        raise TableError(f'{what}: expected re.compile(...)')
    flags = set()
    for extra in node.args[1:] + [k.value for k in node.keywords]:
        for n in ast.walk(extra):
            if isinstance(n, ast.Attribute) and isinstance(n.value, ast.Name) and n.value.id == 're':
                flags.add(n.attr)
    return node.args[0], flags


def _percent_join(node, what):
    """ r'...%s...' % '|'.join((a, b, c))  ->  (format string, [a, b, c]) """
    if not (isinstance(node, ast.BinOp) and isinstance(node.op, ast.Mod)):
        raise TableError(f'{what}: expected "fmt" % "|".join((...))')
    fmt = _const_str(node.left, what)
    call = node.right
    if not (isinstance(call, ast.Call) and isinstance(call.func, ast.Attribute) and call.func.attr == 'join'
            and _const_str(call.func.value, what) == '|' and len(call.args) == 1):
        raise TableError(f'{what}: expected "|".join((...))')
    return fmt, _str_seq(call.args[0], what)


# ---------------------------------------------------------------- Coq emitters
def cstr(s):
    if isinstance(s, bytes):
        cps = list(s)
    else:
        cps = [ord(c) for c in s]
    return '[' + ';'.join(str(c) for c in cps) + ']'


def cstr_list(lst):
    return '[' + ';\n   '.join(cstr(s) for s in lst) + ']'


def ranges(pred, limit=0x110000):
    out = []
    start = None
    for c in range(limit):
        if pred(c):
            if start is None:
                start = c
        elif start is not None:
            out.append((start, c - 1))
            start = None
    if start is not None:
        out.append((start, limit - 1))
    return out


def cranges(rs):
    return '[' + ';'.join(f'({a},{b})' for a, b in rs) + ']'


def comment_safe(s):
    return s.replace('(*', '( *').replace('*)', '* )')


# ---------------------------------------------------------------- sections
def gen_content_type(repo, out):
    rel = 'web_monitoring_diff/content_type.py'
    tree = _read(repo, rel)
    asg = _module_assigns(tree)

    acceptable = _str_seq(_last(asg, 'ACCEPTABLE_CONTENT_TYPES', rel), 'ACCEPTABLE_CONTENT_TYPES')
    out.append(f'Definition acceptable_content_types : list (list N) :=\n  {cstr_list(acceptable)}.')

    # NON_HTML_PATTERN = re.compile(r'^[\s\n\r]*(%s)' % '|'.join((...)))
    pat, flags = _re_compile_args(_last(asg, 'NON_HTML_PATTERN', rel), 'NON_HTML_PATTERN')
    fmt, parts = _percent_join(pat, 'NON_HTML_PATTERN')
    if flags:
        raise TableError(f'NON_HTML_PATTERN: unexpected flags {flags}')
    out.append(f'Definition non_html_format : list N := {cstr(fmt)}.')
    sigs = []
    for alt in '|'.join(parts).split('|'):
        # literal characters and \uXXXX escapes only
        lit = []
        i = 0
        while i < len(alt):
            ch = alt[i]
            if ch == '\\':
                m = re.match(r'\\u([0-9A-Fa-f]{4})', alt[i:])
                if not m:
                    raise TableError(f'NON_HTML_PATTERN: unsupported escape in {alt!r}')
                lit.append(chr(int(m.group(1), 16)))
                i += 6
            elif ch.isalnum() or ch in '%!-':
                lit.append(ch)
                i += 1
            else:
                raise TableError(f'NON_HTML_PATTERN: unsupported regex syntax {ch!r} in {alt!r}')
        sigs.append(''.join(lit))
    out.append(f'Definition non_html_signatures : list (list N) :=\n  {cstr_list(sigs)}.')

    # UNKNOWN_CONTENT_TYPE_PATTERN = re.compile(r'^(%s)$' % '|'.join((...)))
    pat, flags = _re_compile_args(_last(asg, 'UNKNOWN_CONTENT_TYPE_PATTERN', rel), 'UNKNOWN_CONTENT_TYPE_PATTERN')
    fmt, parts = _percent_join(pat, 'UNKNOWN_CONTENT_TYPE_PATTERN')
    out.append(f'Definition unknown_ct_format : list N := {cstr(fmt)}.')
    out.append(f'Definition unknown_ct_ignorecase : bool := {"true" if "IGNORECASE" in flags or "I" in flags else "false"}.')
    if flags - {'IGNORECASE', 'I'}:
        raise TableError(f'UNKNOWN_CONTENT_TYPE_PATTERN: unexpected flags {flags}')
    exact, prefixes = [], []
    for alt in '|'.join(parts).split('|'):
        if alt.endswith('.+') and re.fullmatch(r'[a-z0-9/+-]+', alt[:-2]):
            prefixes.append(alt[:-2])
        elif re.fullmatch(r'[a-z0-9/+-]+', alt):
            exact.append(alt)
        else:
            raise TableError(f'UNKNOWN_CONTENT_TYPE_PATTERN: unsupported alternative {alt!r}')
    out.append(f'Definition unknown_ct_exact : list (list N) :=\n  {cstr_list(exact)}.')
    out.append(f'Definition unknown_ct_prefixes : list (list N) :=\n  {cstr_list(prefixes)}.')

    # VALID_CONTENT_TYPE_PATTERN
    pat, flags = _re_compile_args(_last(asg, 'VALID_CONTENT_TYPE_PATTERN', rel), 'VALID_CONTENT_TYPE_PATTERN')
    src = _const_str(pat, 'VALID_CONTENT_TYPE_PATTERN')
    m = re.fullmatch(r'\^(\[[^\]]+\])(\[[^\]]+\])\*/(\[[^\]]+\])(\[[^\]]+\])\*\$', src)
    if not m:
        raise TableError(f'VALID_CONTENT_TYPE_PATTERN: unsupported shape {src!r}')
    if flags - {'IGNORECASE', 'I'}:
        raise TableError(f'VALID_CONTENT_TYPE_PATTERN: unexpected flags {flags}')
    reflags = re.IGNORECASE if flags else 0
    names = ['valid_ct_type_first', 'valid_ct_type_rest', 'valid_ct_sub_first', 'valid_ct_sub_rest']
    for name, cls in zip(names, m.groups()):
        p = re.compile(cls, reflags)
        out.append(f'(* {comment_safe(cls)} flags={sorted(flags)} as matched by the running interpreter *)')
        out.append(f'Definition {name} : list (N * N) := {cranges(ranges(lambda c: bool(p.fullmatch(chr(c)))))}.')
    out.append(f'Definition valid_ct_src : list N := {cstr(src)}.')

    # the two call sites pass the same arguments in the same order
    for rel2, fn in (('web_monitoring_diff/html_render_diff.py', 'html_diff_render'),
                     ('web_monitoring_diff/html_links_diff.py', 'links_diff')):
        t2 = _read(repo, rel2)
        f = _find_func(t2, fn, rel2)
        calls = [n for n in ast.walk(f) if isinstance(n, ast.Call) and isinstance(n.func, ast.Name)
                 and n.func.id == 'raise_if_not_diffable_html']
        if len(calls) != 1:
            raise TableError(f'{rel2}:{fn}: expected exactly one call of raise_if_not_diffable_html')
        args = []
        for a in calls[0].args:
            if not isinstance(a, ast.Name):
                raise TableError(f'{rel2}:{fn}: non-name argument to raise_if_not_diffable_html')
            args.append(a.id)
        for k in calls[0].keywords:
            raise TableError(f'{rel2}:{fn}: keyword argument to raise_if_not_diffable_html')
        out.append(f'Definition ct_call_args_{fn} : list (list N) :=\n  {cstr_list(args)}.')


def gen_charclasses(out):
    out.append('(* character classes of the running interpreter *)')
    out.append(f'Definition py_isspace_ranges : list (N * N) := {cranges(ranges(lambda c: chr(c).isspace()))}.')
    p = re.compile(r'\s')
    out.append(f'Definition re_space_ranges : list (N * N) := {cranges(ranges(lambda c: bool(p.match(chr(c)))))}.')
    p2 = re.compile(r'\d')
    out.append(f'Definition re_digit_ranges : list (N * N) := {cranges(ranges(lambda c: bool(p2.match(chr(c)))))}.')
    p3 = re.compile(r'\w')
    out.append(f'Definition re_word_ranges : list (N * N) := {cranges(ranges(lambda c: bool(p3.match(chr(c)))))}.')
    out.append(f'Definition py_isprintable_ranges : list (N * N) := {cranges(ranges(lambda c: chr(c).isprintable()))}.')
    low = []
    for c in range(0x110000):
        if 0xD800 <= c <= 0xDFFF:
            continue
        l = chr(c).lower()
        if l != chr(c):
            low.append((c, l))
    out.append('Definition py_lower_table : list (N * list N) :=\n  [' +
               ';\n   '.join(f'({c},{cstr(l)})' for c, l in low) + '].')


SECTIONS = [gen_content_type]


def generate(repo):
    out = ['(* GENERATED by harness/gen_tables.py from the working tree of /repo. Do not edit. *)',
           'From Coq Require Import List NArith ZArith.',
           'Import ListNotations.',
           'Open Scope N_scope.',
           '']
    from importlib import import_module  # sections registered by other generator modules
    for sec in SECTIONS:
        sec(repo, out)
        out.append('')
    gen_charclasses(out)
    return '\n'.join(out) + '\n'


def main(argv):
    repo, dest = argv[1], argv[2]
    try:
        text = generate(repo)
    except TableError as e:
        print(f'TABLE-ERROR: {e}')
        return 2
    old = None
    if os.path.exists(dest):
        with open(dest, encoding='utf-8') as f:
            old = f.read()
    if old != text:
        os.makedirs(os.path.dirname(dest), exist_ok=True)
        with open(dest + '.tmp', 'w', encoding='utf-8') as f:
            f.write(text)
        os.replace(dest + '.tmp', dest)
        print('TABLES-CHANGED')
    else:
        print('TABLES-UNCHANGED')
    return 0



# ---------------------------------------------------------------- server section
def _func_params(repo, modname, funcname):
    rel = f'web_monitoring_diff/{modname}.py'
    tree = _read(repo, rel)
    for node in tree.body:
        if isinstance(node, ast.FunctionDef) and node.name == funcname:
            a = node.args
            if a.vararg or a.kwarg or a.posonlyargs:
                raise TableError(f'{rel}:{funcname}: *args/**kwargs/positional-only parameters are not modelled')
            names = [x.arg for x in a.args]
            ndef = len(a.defaults)
            out = [(n, i >= len(names) - ndef) for i, n in enumerate(names)]
            for x, d in zip(a.kwonlyargs, a.kw_defaults):
                out.append((x.arg, d is not None))
            defaults = {}
            for n, d in zip(names[len(names) - ndef:], a.defaults):
                defaults[n] = d.value if isinstance(d, ast.Constant) else '<expr>'
            return out, defaults
    raise TableError(f'{rel}: differ function {funcname} not found at module level')


def gen_server(repo, out):
    rel = 'web_monitoring_diff/server/server.py'
    tree = _read(repo, rel)
    asg = _module_assigns(tree)
    routes = _last(asg, 'DIFF_ROUTES', rel)
    if not isinstance(routes, ast.Dict):
        raise TableError('DIFF_ROUTES: expected a dict literal')
    # experimental differs registered inside try/except are reported separately (absent at run time here)
    entries = []
    defaults_all = {}
    for k, v in zip(routes.keys, routes.values):
        name = _const_str(k, 'DIFF_ROUTES key')
        if not (isinstance(v, ast.Attribute) and isinstance(v.value, ast.Name)):
            raise TableError(f'DIFF_ROUTES[{name}]: expected module.function')
        params, defaults = _func_params(repo, v.value.id, v.attr)
        entries.append((name, v.value.id, v.attr, params))
        defaults_all[name] = defaults
    out.append('(* DIFF_ROUTES: differ name -> parameters (name, has a default), read from each def *)')
    out.append('Definition diff_routes : list (list N * list (list N * bool)) :=\n  [' + ';\n   '.join(
        '(%s, [%s])' % (cstr(n), '; '.join('(%s, %s)' % (cstr(p), 'true' if d else 'false') for p, d in params))
        for n, _, _, params in entries) + '].')
    out.append('Definition diff_route_functions : list (list N * list N) :=\n  [' + ';\n   '.join(
        '(%s, %s)' % (cstr(n), cstr(m + '.' + f)) for n, m, f, _ in entries) + '].')

    # DiffHandler.diff(..., tries=2)
    cls = _find_class(tree, 'DiffHandler', rel)
    tries = None
    for node in cls.body:
        if isinstance(node, (ast.AsyncFunctionDef, ast.FunctionDef)) and node.name == 'diff':
            names = [x.arg for x in node.args.args]
            if 'tries' in names:
                d = node.args.defaults[names.index('tries') - (len(names) - len(node.args.defaults))]
                if isinstance(d, ast.Constant) and isinstance(d.value, int):
                    tries = d.value
    if tries is None:
        raise TableError('DiffHandler.diff: default of `tries` not found')
    out.append(f'Definition diff_tries : N := {tries}.')

    # route regex of the diff handler in make_app
    mk = _find_func(tree, 'make_app', rel)
    pats = [n.value for n in ast.walk(mk) if isinstance(n, ast.Constant) and isinstance(n.value, str) and n.value.startswith('/')]
    out.append(f'Definition route_patterns : list (list N) :=\n  {cstr_list(pats)}.')

    for name in ('META_TAG_PATTERN', 'XML_PROLOG_PATTERN'):
        pat, flags = _re_compile_args(_last(asg, name, rel), name)
        if not (isinstance(pat, ast.Constant) and isinstance(pat.value, bytes)):
            raise TableError(f'{name}: expected a bytes literal pattern')
        out.append(f'Definition {name.lower()}_src : list N := {cstr(pat.value)}.')
        out.append(f'Definition {name.lower()}_flags : list (list N) := {cstr_list(sorted(flags))}.')


SECTIONS.append(gen_server)


# ---------------------------------------------------------------- basic_diffs section
def gen_basic(repo, out):
    rel = 'web_monitoring_diff/basic_diffs.py'
    tree = _read(repo, rel)
    asg = _module_assigns(tree)
    dc = _last(asg, 'diff_codes', rel)
    if not isinstance(dc, ast.Dict):
        raise TableError('diff_codes: expected a dict literal')
    items = []
    for k, v in zip(dc.keys, dc.values):
        key = _const_str(k, 'diff_codes key')
        if len(key) != 1:
            raise TableError('diff_codes: keys must be single characters')
        if isinstance(v, ast.UnaryOp) and isinstance(v.op, ast.USub) and isinstance(v.operand, ast.Constant):
            val = -v.operand.value
        elif isinstance(v, ast.Constant) and isinstance(v.value, int):
            val = v.value
        else:
            raise TableError('diff_codes: values must be integer literals')
        items.append((ord(key), val))
    out.append('Definition diff_codes : list (N * Z) := [' + '; '.join('(%d, (%d)%%Z)' % kv for kv in items) + '].')
    inv = _str_seq(_last(asg, 'INVISIBLE_TAGS', rel), 'INVISIBLE_TAGS')
    out.append(f'Definition invisible_tags : list (list N) :=\n  {cstr_list(sorted(inv))}.')
    pat, flags = _re_compile_args(_last(asg, 'REPEATED_BLANK_LINES', rel), 'REPEATED_BLANK_LINES')
    out.append(f'Definition repeated_blank_lines_src : list N := {cstr(_const_str(pat, "REPEATED_BLANK_LINES"))}.')
    if flags:
        raise TableError('REPEATED_BLANK_LINES: unexpected flags')
    # the wrappers must still feed _get_visible_text of each side to the differ / the side-by-side view
    for fn in ('html_text_diff', 'side_by_side_text'):
        f = _find_func(tree, fn, rel)
        calls = [n for n in ast.walk(f) if isinstance(n, ast.Call) and isinstance(n.func, ast.Name) and n.func.id == '_get_visible_text']
        args = []
        for c in calls:
            if len(c.args) != 1 or not isinstance(c.args[0], ast.Name):
                raise TableError(f'{fn}: unexpected call of _get_visible_text')
            args.append(c.args[0].id)
        out.append(f'Definition visible_text_args_{fn} : list (list N) :=\n  {cstr_list(args)}.')


SECTIONS.append(gen_basic)


# ---------------------------------------------------------------- html_render_diff / html_links_diff section
def gen_render(repo, out):
    rel = 'web_monitoring_diff/html_render_diff.py'
    tree = _read(repo, rel)
    asg = _module_assigns(tree)
    env = {}
    for name in ('block_level_tags', 'void_tags', 'empty_tags', 'undiffable_content_tags', 'SEPARATABLE_TAGS', 'ACTIVE_ELEMENTS',
                 'no_change_children_tags'):
        vals = _str_seq(_last(asg, name, rel), name, env)
        env[name] = vals
        keep_order = name in ('void_tags', 'empty_tags', 'ACTIVE_ELEMENTS')
        out.append(f'Definition {name.lower()} : list (list N) :=\n  {cstr_list(vals if keep_order else sorted(set(vals)))}.')
    ms = _last(asg, 'MAX_SPACERS', rel)
    if not (isinstance(ms, ast.Constant) and isinstance(ms.value, int)):
        raise TableError('MAX_SPACERS: expected an integer literal')
    out.append(f'Definition max_spacers : N := {ms.value}.')
    out.append(f'Definition empty_html : list N := {cstr(_const_str(_last(asg, "EMPTY_HTML", rel), "EMPTY_HTML"))}.')
    # SPACER_STRING and the ~EMPTY~ spacer inside _customize_tokens
    ct = _find_func(tree, '_customize_tokens', rel)
    spacer = None
    empties = set()
    for n in ast.walk(ct):
        if isinstance(n, ast.Assign) and len(n.targets) == 1 and isinstance(n.targets[0], ast.Name) and n.targets[0].id == 'SPACER_STRING':
            spacer = _const_str(n.value, 'SPACER_STRING')
        if isinstance(n, ast.Call) and isinstance(n.func, ast.Name) and n.func.id == 'SpacerToken' and n.args \
                and isinstance(n.args[0], ast.Constant):
            empties.add(n.args[0].value)
    if spacer is None or len(empties) != 1:
        raise TableError('_customize_tokens: SPACER_STRING / the empty-link spacer literal not found')
    out.append(f'Definition spacer_string : list N := {cstr(spacer)}.')
    out.append(f'Definition empty_spacer_string : list N := {cstr(sorted(empties)[0])}.')
    # InsensitiveSequenceMatcher.threshold
    ism = _find_class(tree, 'InsensitiveSequenceMatcher', rel)
    th = _class_assign(ism, 'threshold', rel)
    if not (isinstance(th, ast.Constant) and isinstance(th.value, int)):
        raise TableError('InsensitiveSequenceMatcher.threshold: expected an integer literal')
    out.append(f'Definition matcher_threshold : N := {th.value}.')
    # URL rules and comparator patterns
    ur = _find_class(tree, 'UrlRules', rel)
    rules = _class_assign(ur, 'RULES', rel)
    if not isinstance(rules, ast.Dict):
        raise TableError('UrlRules.RULES: expected a dict literal')
    pairs = []
    for k, v in zip(rules.keys, rules.values):
        if not isinstance(v, ast.Name):
            raise TableError('UrlRules.RULES: values must be class names')
        pairs.append((_const_str(k, 'RULES key'), v.id))
    out.append('Definition url_rules : list (list N * list N) :=\n  [' + ';\n   '.join('(%s, %s)' % (cstr(k), cstr(v)) for k, v in pairs) + '].')
    for cname in ('WaybackUrlComparator', 'WaybackUkUrlComparator', 'ServletSessionUrlComparator'):
        c = _find_class(tree, cname, rel)
        pat, flags = _re_compile_args(_class_assign(c, 'matcher', rel), cname + '.matcher')
        if flags:
            raise TableError(f'{cname}.matcher: unexpected flags')
        out.append(f'Definition {cname.lower()}_matcher_src : list N := {cstr(_const_str(pat, cname))}.')
        bases = [b.id for b in c.bases if isinstance(b, ast.Name)]
        out.append(f'Definition {cname.lower()}_bases : list (list N) := {cstr_list(bases)}.')
    for name in ('split_words_re', 'start_whitespace_re'):
        pat, flags = _re_compile_args(_last(asg, name, rel), name)
        out.append(f'Definition {name}_src : list N := {cstr(_const_str(pat, name))}.')

    rel2 = 'web_monitoring_diff/html_links_diff.py'
    tree2 = _read(repo, rel2)
    asg2 = _module_assigns(tree2)
    ci = _last(asg2, 'CHANGE_INFO', rel2)
    if not isinstance(ci, ast.Dict):
        raise TableError('CHANGE_INFO: expected a dict literal')
    rows = []
    for k, v in zip(ci.keys, ci.values):
        if isinstance(k, ast.UnaryOp) and isinstance(k.op, ast.USub):
            key = -k.operand.value
        else:
            key = k.value
        d = {}
        for kk, vv in zip(v.keys, v.values):
            d[_const_str(kk, 'CHANGE_INFO')] = vv.value if isinstance(vv, ast.Constant) else None
        rows.append((key, d.get('symbol') or '', d.get('title')))
    out.append('Definition change_info : list (Z * (list N * option (list N))) :=\n  [' + ';\n   '.join(
        '((%d)%%Z, (%s, %s))' % (k, cstr(sym), 'Some ' + cstr(t) if t is not None else 'None') for k, sym, t in rows) + '].')


SECTIONS.append(gen_render)


def _template_parts(node, what, var):
    """an f-string whose only holes are <var>['differ_insertion'|'differ_deletion'] -> [(kind, text)] with kind 0 literal, 1 insertion, 2 deletion"""
    if isinstance(node, ast.Constant) and isinstance(node.value, str):
        return [(0, node.value)]
    if not isinstance(node, ast.JoinedStr):
        raise TableError(f'{what}: expected an f-string')
    parts = []
    for v in node.values:
        if isinstance(v, ast.Constant):
            parts.append((0, v.value))
        elif (isinstance(v, ast.FormattedValue) and v.conversion == -1 and v.format_spec is None and isinstance(v.value, ast.Subscript)
              and isinstance(v.value.value, ast.Name) and v.value.value.id == var and isinstance(v.value.slice, ast.Constant)
              and v.value.slice.value in ('differ_insertion', 'differ_deletion')):
            parts.append((1 if v.value.slice.value == 'differ_insertion' else 2, ''))
        else:
            raise TableError(f'{what}: unexpected hole in the style template')
    return parts


def gen_chrome(repo, out):
    """style templates, palette defaults and the contrast script (C10, C14)"""
    def emit_template(name, parts):
        out.append('Definition %s : list (N * list N) :=\n  [%s].' % (name, ';\n   '.join('(%d, %s)' % (k, cstr(t)) for k, t in parts)))
    rel = 'web_monitoring_diff/html_links_diff.py'
    f = _find_func(_read(repo, rel), 'links_diff_html', rel)
    tmpl = None
    for n in ast.walk(f):
        if (isinstance(n, ast.Assign) and len(n.targets) == 1 and isinstance(n.targets[0], ast.Attribute) and n.targets[0].attr == 'string'
                and isinstance(n.targets[0].value, ast.Name) and n.targets[0].value.id == 'change_styles'):
            tmpl = n.value
    if tmpl is None:
        raise TableError('links_diff_html: change_styles.string assignment not found')
    emit_template('links_css_template', _template_parts(tmpl, 'links_diff_html style', 'color_palette'))
    rel = 'web_monitoring_diff/html_render_diff.py'
    tree = _read(repo, rel)
    f = _find_func(tree, 'get_diff_styles', rel)
    rets = [n for n in ast.walk(f) if isinstance(n, ast.Return)]
    if len(rets) != 1:
        raise TableError('get_diff_styles: expected one return')
    emit_template('render_css_template', _template_parts(rets[0].value, 'get_diff_styles', 'colors'))
    out.append('Definition update_contrast_script : list N := %s.' % cstr(_const_str(_last(_module_assigns(tree), 'UPDATE_CONTRAST_SCRIPT', rel), 'UPDATE_CONTRAST_SCRIPT')))
    rel = 'web_monitoring_diff/utils.py'
    f = _find_func(_read(repo, rel), 'get_color_palette', rel)
    env = {}
    for n in ast.walk(f):
        if (isinstance(n, ast.Assign) and isinstance(n.value, ast.Call) and isinstance(n.value.func, ast.Attribute) and n.value.func.attr == 'get'
                and len(n.value.args) == 2 and all(isinstance(a, ast.Constant) for a in n.value.args)):
            env[n.targets[0].id] = (n.value.args[0].value, n.value.args[1].value)
    if set(env) != {'differ_insertion', 'differ_deletion'}:
        raise TableError('get_color_palette: expected the two os.environ.get(...) assignments')
    out.append('Definition palette_env : list (list N * (list N * list N)) :=\n  [%s].' % ';\n   '.join(
        '(%s, (%s, %s))' % (cstr(k), cstr(env[k][0]), cstr(env[k][1])) for k in ('differ_insertion', 'differ_deletion')))


SECTIONS.append(gen_chrome)


def _z_expr(node, var):
    """a boolean expression over the integer variable <var> -> Coq text over (code : Z)"""
    if isinstance(node, ast.BoolOp):
        fn = 'orb' if isinstance(node.op, ast.Or) else 'andb'
        parts = [_z_expr(v, var) for v in node.values]
        expr = parts[-1]
        for part in reversed(parts[:-1]):
            expr = '(%s %s %s)' % (fn, part, expr)
        return expr
    if isinstance(node, ast.Compare) and len(node.ops) == 1 and isinstance(node.left, ast.Name) and node.left.id == var:
        rhs = node.comparators[0]
        if isinstance(rhs, ast.UnaryOp) and isinstance(rhs.op, ast.USub) and isinstance(rhs.operand, ast.Constant):
            val = -rhs.operand.value
        elif isinstance(rhs, ast.Constant) and isinstance(rhs.value, int):
            val = rhs.value
        else:
            raise TableError('row flags: unexpected comparison operand')
        z = '(%d)%%Z' % val
        op = node.ops[0]
        if isinstance(op, ast.Eq):
            return '(Z.eqb code %s)' % z
        if isinstance(op, ast.Gt):
            return '(Z.ltb %s code)' % z
        if isinstance(op, ast.Lt):
            return '(Z.ltb code %s)' % z
        if isinstance(op, ast.GtE):
            return '(Z.leb %s code)' % z
        if isinstance(op, ast.LtE):
            return '(Z.leb code %s)' % z
    raise TableError('row flags: unexpected expression shape')


def gen_structure(repo, out):
    """small pieces of control structure translated from the source: which include values select which view
    (_htmldiff), and the boolean row attributes of the links table (_table_row_for_link)"""
    rel = 'web_monitoring_diff/html_render_diff.py'
    f = _find_func(_read(repo, rel), '_htmldiff', rel)
    table = []
    for n in f.body:
        if isinstance(n, ast.If) and not n.orelse and len(n.body) == 1 and isinstance(n.body[0], ast.Assign):
            tgt = n.body[0].targets[0]
            if not (isinstance(tgt, ast.Subscript) and isinstance(tgt.value, ast.Name) and tgt.value.id == 'diffs' and isinstance(tgt.slice, ast.Constant)):
                continue
            tests = n.test.values if isinstance(n.test, ast.BoolOp) and isinstance(n.test.op, ast.Or) else [n.test]
            vals = []
            for t in tests:
                if not (isinstance(t, ast.Compare) and isinstance(t.left, ast.Name) and t.left.id == 'include' and len(t.ops) == 1
                        and isinstance(t.ops[0], ast.Eq) and isinstance(t.comparators[0], ast.Constant)):
                    raise TableError('_htmldiff: unexpected include test')
                vals.append(t.comparators[0].value)
            table.append((tgt.slice.value, vals))
    if [k for k, _ in table] != ['combined', 'insertions', 'deletions']:
        raise TableError('_htmldiff: expected the three include blocks in order, found %s' % [k for k, _ in table])
    out.append('Definition include_table : list (list N * list (list N)) :=\n  [%s].' % ';\n   '.join('(%s, %s)' % (cstr(k), cstr_list(v)) for k, v in table))

    rel = 'web_monitoring_diff/html_links_diff.py'
    f = _find_func(_read(repo, rel), '_table_row_for_link', rel)
    flags = None
    for n in ast.walk(f):
        if (isinstance(n, ast.Call) and isinstance(n.func, ast.Name) and n.func.id == 'tag' and n.args and isinstance(n.args[0], ast.Constant)
                and n.args[0].value == 'tr' and len(n.args) >= 2 and isinstance(n.args[1], ast.Dict)):
            d = n.args[1]
            items = [(_const_str(k, 'row attrs'), v) for k, v in zip(d.keys, d.values)]
            if items and items[0][0] == 'class':
                row_class = _const_str(items[0][1], 'row class')
                flags = [(k, _z_expr(v, 'change_type')) for k, v in items[1:]]
    if flags is None:
        raise TableError("_table_row_for_link: tag('tr', {...}) not found")
    out.append('Definition row_class : list N := %s.' % cstr(row_class))
    out.append('Definition row_flags (code : Z) : list (list N * bool) :=\n  [%s].' % ';\n   '.join('(%s, %s)' % (cstr(k), e) for k, e in flags))


SECTIONS.append(gen_structure)


if __name__ == '__main__':
    sys.exit(main(sys.argv))

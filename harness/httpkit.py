"""
In-process instance of the diff service with every side effect observable:
upstream fetches (mock client), file opens (module-level open), the arguments
each differ receives (signature-preserving spies in DIFF_ROUTES) and an inline
executor instead of a process pool.
"""
import asyncio
import concurrent.futures
import concurrent.futures.process  # the server names concurrent.futures.process.BrokenProcessPool in an except clause
import functools
import io
import json
import os
import socket

import tornado.httpclient
import tornado.httpserver
import tornado.ioloop
import tornado.netutil
import tornado.simple_httpclient
from tornado.httputil import HTTPHeaders


class InlineExecutor(concurrent.futures.Executor):
    def __init__(self):
        self.submits = 0

    def submit(self, fn, *args, **kwargs):
        self.submits += 1
        f = concurrent.futures.Future()
        try:
            f.set_result(fn(*args, **kwargs))
        except BaseException as e:  # noqa
            f.set_exception(e)
        return f

    def shutdown(self, wait=True, **kw):
        pass


class MockClient:
    """Stands in for the object get_http_client() returns."""
    max_body_size = 0

    def __init__(self, table, log):
        self.table = table
        self.log = log

    async def fetch(self, url, headers=None, **kwargs):
        from tornado.curl_httpclient import CurlError
        self.log.append(('fetch', url, dict(headers or {})))
        spec = self.table.get(url, ('oserror',))
        kind = spec[0]
        req = tornado.httpclient.HTTPRequest(url, headers=headers)
        await asyncio.sleep(0)
        if kind == 'resp':
            _, code, hdrs, body = spec
            h = HTTPHeaders()
            for k, v in hdrs:
                h.add(k, v)
            resp = tornado.httpclient.HTTPResponse(req, code, headers=h, buffer=io.BytesIO(body))
            if 200 <= code < 300:
                return resp
            raise tornado.httpclient.HTTPError(code, response=resp)
        if kind == 'httperror_noresp':
            raise tornado.httpclient.HTTPError(spec[1])
        if kind == 'valueerror':
            raise ValueError('unsupported url %r' % url)
        if kind == 'oserror':
            raise OSError('connection refused (mock)')
        if kind == 'timeout':
            raise tornado.simple_httpclient.HTTPTimeoutError('Timeout while connecting')
        if kind == 'closed':
            raise tornado.simple_httpclient.HTTPStreamClosedError('Stream closed')
        if kind == 'curl':
            raise CurlError(spec[1], 'curl error %d (mock)' % spec[1])
        raise AssertionError(kind)


class Obs:
    def __init__(self):
        self.status = None
        self.headers = None
        self.body = None
        self.json = None
        self.log = []          # ('fetch', url, headers) | ('open', path)
        self.differ_calls = []  # (name, kwargs)
        self.seen_headers = None  # the request headers as the service received them


class Kit:
    def __init__(self, cors=None, differ_mode='real', restart=None):
        import web_monitoring_diff.server.server as df
        self.df = df
        df.access_control_allow_origin_header = cors
        self.differ_mode = differ_mode      # 'real' | ('stub', result) | ('raise', exc)
        self.current = None
        self._orig_routes = dict(df.DIFF_ROUTES)
        for name, fn in list(df.DIFF_ROUTES.items()):
            df.DIFF_ROUTES[name] = self._spy(name, fn)
        self.app = df.make_app()
        self.app.settings['diff_executor'] = InlineExecutor()
        self.loop = tornado.ioloop.IOLoop.current()
        sock = socket.socket(socket.AF_INET, socket.SOCK_STREAM)
        sock.setsockopt(socket.SOL_SOCKET, socket.SO_REUSEADDR, 1)
        sock.bind(('127.0.0.1', 0))
        sock.listen(128)
        sock.setblocking(False)
        self.port = sock.getsockname()[1]
        self.server = tornado.httpserver.HTTPServer(self.app)
        self.server.add_sockets([sock])
        self.client = tornado.simple_httpclient.SimpleAsyncHTTPClient(force_instance=True)
        self._orig_get_client = df.get_http_client
        self._files = {}
        kit = self

        def fake_open(path, mode='r', *a, **k):
            if kit.current is not None:
                kit.current.log.append(('open', path))
            if path in kit._files:
                return io.BytesIO(kit._files[path])
            raise FileNotFoundError(path)

        df.open = fake_open

        self._orig_prepare = df.BaseHandler.prepare

        def prepare(handler):
            if kit.current is not None:
                kit.current.seen_headers = [(k, v) for k, v in handler.request.headers.get_all()]
            return kit._orig_prepare(handler)

        df.BaseHandler.prepare = prepare

    def _spy(self, name, fn):
        kit = self

        @functools.wraps(fn)
        def spy(*args, **kwargs):
            if kit.current is not None:
                kit.current.differ_calls.append((name, dict(kwargs)))
            mode = kit.differ_mode
            if mode == 'real':
                return fn(*args, **kwargs)
            if mode[0] == 'stub':
                return dict(mode[1])
            raise mode[1]
        return spy

    def close(self):
        df = self.df
        self.server.stop()
        self.client.close()
        df.DIFF_ROUTES.clear()
        df.DIFF_ROUTES.update(self._orig_routes)
        df.get_http_client = self._orig_get_client
        df.BaseHandler.prepare = self._orig_prepare
        if 'open' in df.__dict__:
            del df.__dict__['open']
        df.access_control_allow_origin_header = os.environ.get('ACCESS_CONTROL_ALLOW_ORIGIN_HEADER')
        os.environ.pop('WEB_MONITORING_APP_ENV', None)

    def request(self, path_qs, headers=None, upstream=None, files=None, production=False, method='GET', body=None):
        """path_qs: already percent-encoded path + query string."""
        df = self.df
        obs = Obs()
        self.current = obs
        self._files = files or {}
        df.get_http_client = lambda: MockClient(upstream or {}, obs.log)
        if production:
            os.environ['WEB_MONITORING_APP_ENV'] = 'production'
        else:
            os.environ.pop('WEB_MONITORING_APP_ENV', None)

        async def go():
            return await self.client.fetch('http://127.0.0.1:%d%s' % (self.port, path_qs), method=method,
                                           headers=headers or {}, raise_error=False, body=body, allow_nonstandard_methods=True,
                                           decompress_response=True, request_timeout=60)
        resp = self.loop.run_sync(go)
        # let stray coroutines (the other side's fetch after an early error) finish
        self.loop.run_sync(lambda: asyncio.sleep(0.001))
        self.current = None
        obs.status = resp.code
        obs.headers = resp.headers
        obs.body = resp.body or b''
        try:
            obs.json = json.loads(obs.body) if obs.body else None
        except ValueError:
            obs.json = None
        return obs


def quote_qs(pairs):
    from urllib.parse import quote
    return '&'.join('%s=%s' % (quote(k, safe=''), quote(v, safe='')) for k, v in pairs)

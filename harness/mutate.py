#!/venv/bin/python
"""Systematic mutation run (a measurement of the checks, not a check itself).

For each target function a set of small syntactic mutants is generated in place (comparison flips, and/or swaps, dropped
`not`, integer constants +-1, break/continue -> pass, += <-> -=).  A mutant counts only if the repository's pinned test
suite still passes with it (the brief's notion of a realistic breaking change).  Each such mutant is applied to /repo,
the quick checks mapped to its function are run, and the result is recorded:
   killed-with-input   some check printed a VIOLATION with a replayable failing input
   killed-no-input     only broken correspondence / proof obligations (no-failing-input-found)
   survived            every mapped check passed: either an equivalent / harmless mutant or a gap -> listed for triage
usage: mutate.py [--max-per-function N] [--only FILE:FUNC ...] [--seed S]   (writes harness/mutation_report.json)"""
import ast
import json
import os
import random
import re
import subprocess
import sys

VERIF = os.path.dirname(os.path.dirname(os.path.abspath(__file__)))
REPO = '/repo'

R = 'web_monitoring_diff/html_render_diff.py'
L = 'web_monitoring_diff/html_links_diff.py'
S = 'web_monitoring_diff/server/server.py'
TARGETS = {
    (R, 'merge_changes'): ['C15', 'C01'], (R, 'merge_change_groups'): ['C15', 'C02'], (R, 'reconcile_change_groups'): ['C02', 'C15'],
    (R, 'assemble_diff'): ['C02', 'C01'], (R, 'flatten_el'): ['C03', 'C01'], (R, 'start_tag'): ['C01'], (R, 'end_tag'): ['C01'],
    (R, 'fixup_chunks'): ['C03', 'C01'], (R, '_customize_tokens'): ['C03', 'C01'], (R, '_limit_spacers'): ['C03', 'C01'],
    (R, 'split_words'): ['C03', 'C01'], (R, '_count_changes'): ['C03'], (R, 'get_matching_blocks'): ['C03'],
    (R, '__eq__'): ['C16', 'C03'], (R, 'compare'): ['C16'], (R, 'compare_array'): ['C16'], (R, 'get_comparator'): ['C16'],
    (R, 'html_diff_render'): ['C14', 'C09'], (R, '_diff_title'): ['C14'], (R, '_html_for_dmp_operation'): ['C14', 'C10'],
    (R, '_deactivate_deleted_active_elements'): ['C09', 'C14'], (R, 'diff_elements'): ['C14', 'C01'], (R, '_diffable_fragment'): ['C09', 'C01'],
    (R, '_cleanup_document_structure'): ['C14'], (R, 'tag_info'): ['C02', 'C15'], (R, 'expand_tokens'): ['C01', 'C02'],
    (L, 'links_diff'): ['C04', 'C17'], (L, '_assemble_diff'): ['C04'], (L, '_get_link_text'): ['C04'], (L, '_find_outgoing_links'): ['C04'],
    (L, '_clean_href'): ['C04'], (L, '__init__'): ['C04'], (L, '__hash__'): ['C04'], (L, '_count_changes'): ['C04'],
    (L, '_table_row_for_link'): ['C10'], (L, '_render_html_diff'): ['C10'], (L, '_nodes_for_text_diff'): ['C10'], (L, 'links_diff_html'): ['C10'],
    (L, '_tag'): ['C10'],
    ('web_monitoring_diff/content_type.py', 'is_not_html'): ['C11'], ('web_monitoring_diff/content_type.py', 'raise_if_not_diffable_html'): ['C11'],
    ('web_monitoring_diff/basic_diffs.py', '_get_visible_text'): ['C05'], ('web_monitoring_diff/basic_diffs.py', '_is_visible'): ['C05'],
    ('web_monitoring_diff/basic_diffs.py', '_get_text'): ['C05'], ('web_monitoring_diff/basic_diffs.py', 'html_text_diff'): ['C05'],
    ('web_monitoring_diff/basic_diffs.py', 'html_source_diff'): ['C05'], ('web_monitoring_diff/basic_diffs.py', 'compute_dmp_diff'): ['C05'],
    (S, 'caller'): ['C06'], (S, 'get'): ['C08', 'C13', 'C06', 'C19'], (S, 'fetch_diffable_content'): ['C08', 'C13', 'C18'],
    (S, '_extract_encoding'): ['C12'], (S, '_decode_body'): ['C12'], (S, 'compute_etag'): ['C19'], (S, 'decode_query_params'): ['C19', 'C06'],
    (S, 'set_default_headers'): ['C18'], (S, 'diff'): ['C07', 'C20'], (S, 'get_diff_executor'): ['C07', 'C20'],
    (S, 'shutdown'): ['C20'], (S, 'shutdown_differs'): ['C20'], (S, 'write_error'): ['C08'],
}

CMP = {ast.Eq: ('==', '!='), ast.NotEq: ('!=', '=='), ast.Lt: ('<', '<='), ast.LtE: ('<=', '<'), ast.Gt: ('>', '>='), ast.GtE: ('>=', '>'),
       ast.Is: ('is', 'is not'), ast.IsNot: ('is not', 'is'), ast.In: ('in', 'not in'), ast.NotIn: ('not in', 'in')}


def sh(*args, timeout=None, **kw):
    import signal
    proc = subprocess.Popen(args, stdout=subprocess.PIPE, stderr=subprocess.PIPE, text=True, start_new_session=True, **kw)
    try:
        out, err = proc.communicate(timeout=timeout)
    except subprocess.TimeoutExpired:
        try:
            os.killpg(proc.pid, signal.SIGKILL)
        except ProcessLookupError:
            pass
        proc.communicate()
        out, err = '', 'timeout'

    class R:
        returncode = proc.returncode if err != 'timeout' else 124
        stdout = out
        stderr = err
    return R()


def seg(lines, node):
    if node.lineno != node.end_lineno:
        return None
    return lines[node.lineno - 1][node.col_offset:node.end_col_offset]


def mutants_of(path, func_name):
    import warnings
    warnings.simplefilter('ignore')
    src = open(os.path.join(REPO, path)).read()
    lines = src.split('\n')
    tree = ast.parse(src)
    out = []
    for fn in ast.walk(tree):
        if not (isinstance(fn, (ast.FunctionDef, ast.AsyncFunctionDef)) and fn.name == func_name):
            continue
        for n in ast.walk(fn):
            if isinstance(n, ast.Compare) and len(n.ops) == 1 and type(n.ops[0]) in CMP and n.left.end_lineno == n.comparators[0].lineno:
                old, new = CMP[type(n.ops[0])]
                ln = n.left.end_lineno - 1
                a, b = n.left.end_col_offset, n.comparators[0].col_offset
                mid = lines[ln][a:b]
                if mid.strip() == old:
                    out.append((ln, a, b, mid.replace(old, new), 'comparison %s -> %s' % (old, new)))
            elif isinstance(n, ast.BoolOp) and len(n.values) >= 2 and n.values[0].end_lineno == n.values[1].lineno:
                ln = n.values[0].end_lineno - 1
                a, b = n.values[0].end_col_offset, n.values[1].col_offset
                mid = lines[ln][a:b]
                old = 'and' if isinstance(n.op, ast.And) else 'or'
                if mid.strip() == old:
                    out.append((ln, a, b, mid.replace(old, 'or' if old == 'and' else 'and'), '%s -> %s' % (old, 'or' if old == 'and' else 'and')))
            elif isinstance(n, ast.UnaryOp) and isinstance(n.op, ast.Not) and n.lineno == n.end_lineno:
                text = seg(lines, n)
                if text and text.startswith('not '):
                    out.append((n.lineno - 1, n.col_offset, n.col_offset + 4, '', 'dropped "not"'))
            elif isinstance(n, ast.Constant) and isinstance(n.value, int) and not isinstance(n.value, bool) and n.lineno == n.end_lineno and 0 <= n.value <= 10:
                text = seg(lines, n)
                if text == str(n.value):
                    out.append((n.lineno - 1, n.col_offset, n.end_col_offset, str(n.value + 1), 'constant %d -> %d' % (n.value, n.value + 1)))
                    if n.value > 0:
                        out.append((n.lineno - 1, n.col_offset, n.end_col_offset, str(n.value - 1), 'constant %d -> %d' % (n.value, n.value - 1)))
            elif isinstance(n, ast.Constant) and isinstance(n.value, bool) and n.lineno == n.end_lineno:
                text = seg(lines, n)
                if text in ('True', 'False'):
                    out.append((n.lineno - 1, n.col_offset, n.end_col_offset, 'False' if n.value else 'True', 'constant %s flipped' % text))
            elif isinstance(n, (ast.Break, ast.Continue)):
                word = 'break' if isinstance(n, ast.Break) else 'continue'
                out.append((n.lineno - 1, n.col_offset, n.col_offset + len(word), 'pass', '%s -> pass' % word))
            elif isinstance(n, ast.AugAssign) and isinstance(n.op, (ast.Add, ast.Sub)) and n.target.end_lineno == n.value.lineno:
                ln = n.target.end_lineno - 1
                a, b = n.target.end_col_offset, n.value.col_offset
                mid = lines[ln][a:b]
                old = '+=' if isinstance(n.op, ast.Add) else '-='
                if mid.strip() == old:
                    out.append((ln, a, b, mid.replace(old, '-=' if old == '+=' else '+='), '%s -> %s' % (old, '-=' if old == '+=' else '+=')))
    res = []
    for ln, a, b, new, what in out:
        new_lines = list(lines)
        new_lines[ln] = lines[ln][:a] + new + lines[ln][b:]
        res.append({'file': path, 'function': func_name, 'line': ln + 1, 'what': what, 'before': lines[ln].strip(), 'after': new_lines[ln].strip(),
                    'source': '\n'.join(new_lines)})
    return res


def tests_pass():
    r = sh('/venv/bin/python', '-m', 'pytest', '-q', '-p', 'no:cacheprovider', '--timeout=300', '--continue-on-collection-errors', '--disable-warnings', '--ignore=web_monitoring_diff/tests/test_html_diff.py',
           '--deselect', 'web_monitoring_diff/tests/test_server_exc_handling.py::DiffingServerResponseSizeTest::test_stops_if_response_is_too_big',
           cwd=REPO, env=dict(os.environ, PYTHONPATH=REPO), timeout=120)
    lines = [l for l in r.stdout.splitlines() if re.search(r'\d+ passed', l)]
    tail = lines[-1] if lines else (r.stdout.strip().splitlines() or [''])[-1]
    m = re.search(r'(\d+) passed', tail)
    return bool(m) and int(m.group(1)) >= 81 and ' failed' not in tail and ' error' not in tail, tail


def retest_survivors():
    """re-runs exactly the mutants recorded as survived (after the checks were strengthened) and updates the report"""
    report_path = os.path.join(VERIF, 'harness', 'mutation_report.json')
    report = json.load(open(report_path))
    for m in report['mutants']:
        if m.get('status') != 'survived':
            continue
        cands = [c for c in mutants_of(m['file'], m['function']) if c['line'] == m['line'] and c['what'] == m['what'] and c['after'] == m['after']]
        if not cands:
            continue
        path = m['file']
        original = open(os.path.join(REPO, path)).read()
        try:
            open(os.path.join(REPO, path), 'w').write(cands[0]['source'])
            status = 'survived'
            m['checks_after_strengthening'] = {}
            for p in TARGETS[(m['file'], m['function'])]:
                r = sh(os.path.join(VERIF, 'check'), p, '--tier', 'quick', cwd=VERIF, timeout=900)
                vio = [l for l in r.stdout.splitlines() if l.startswith('VIOLATION')]
                with_input = [l for l in vio if not l.rstrip().endswith('no-failing-input-found')]
                m['checks_after_strengthening'][p] = {'exit': r.returncode, 'violations': len(vio), 'with_input': len(with_input)}
                if with_input:
                    status = 'killed-with-input'
                    break
                if vio and status == 'survived':
                    status = 'killed-no-input'
            if status != 'survived':
                m['status'] = status + ' (after strengthening)'
        finally:
            open(os.path.join(REPO, path), 'w').write(original)
        print('%-28s %-34s L%-5d %-28s %s' % (os.path.basename(path), m['function'], m['line'], m['what'], m['status']), flush=True)
        json.dump(report, open(report_path, 'w'), indent=1)
    summary = {}
    for m in report['mutants']:
        summary[m['status']] = summary.get(m['status'], 0) + 1
    report['summary'] = summary
    json.dump(report, open(report_path, 'w'), indent=1)
    print(summary)


def main():
    args = sys.argv[1:]
    max_per = 8
    seed = 1
    only = []
    while args:
        a = args.pop(0)
        if a == '--max-per-function':
            max_per = int(args.pop(0))
        elif a == '--seed':
            seed = int(args.pop(0))
        elif a == '--only':
            only.append(args.pop(0))
        elif a == '--retest-survivors':
            return retest_survivors()
    if sh('git', '-C', REPO, 'status', '--porcelain').stdout.strip():
        raise SystemExit('repo not clean')
    rng = random.Random(seed)
    report_path = os.path.join(VERIF, 'harness', 'mutation_report.json')
    report = json.load(open(report_path)) if os.path.exists(report_path) else {'mutants': []}
    done = {(m['file'], m['function'], m['line'], m['what']) for m in report['mutants']}
    for (path, func), props in TARGETS.items():
        if only and ('%s:%s' % (os.path.basename(path), func)) not in only:
            continue
        ms = mutants_of(path, func)
        rng.shuffle(ms)
        for m in ms[:max_per]:
            key = (m['file'], m['function'], m['line'], m['what'])
            if key in done:
                continue
            original = open(os.path.join(REPO, path)).read()
            try:
                open(os.path.join(REPO, path), 'w').write(m.pop('source'))
                try:
                    compile(open(os.path.join(REPO, path)).read(), path, 'exec')
                except SyntaxError:
                    m['status'] = 'does-not-compile'
                    continue
                ok, tail = tests_pass()
                m['tests'] = tail
                if not ok:
                    m['status'] = 'fails-tests'
                    continue
                m['checks'] = {}
                status = 'survived'
                for p in props:
                    r = sh(os.path.join(VERIF, 'check'), p, '--tier', 'quick', cwd=VERIF, timeout=900)
                    vio = [l for l in r.stdout.splitlines() if l.startswith('VIOLATION')]
                    with_input = [l for l in vio if not l.rstrip().endswith('no-failing-input-found')]
                    m['checks'][p] = {'exit': r.returncode, 'violations': len(vio), 'with_input': len(with_input)}
                    if with_input:
                        status = 'killed-with-input'
                        break
                    if vio and status == 'survived':
                        status = 'killed-no-input'
                m['status'] = status
            finally:
                open(os.path.join(REPO, path), 'w').write(original)
                m.pop('source', None)
                report['mutants'].append(m)
                done.add(key)
                json.dump(report, open(report_path, 'w'), indent=1)
                print('%-28s %-34s L%-5d %-28s %s' % (os.path.basename(path), func, m['line'], m['what'], m.get('status')), flush=True)
    sh('git', '-C', REPO, 'checkout', '--', '.')
    summary = {}
    for m in report['mutants']:
        summary[m['status']] = summary.get(m['status'], 0) + 1
    report['summary'] = summary
    json.dump(report, open(report_path, 'w'), indent=1)
    print(summary)


if __name__ == '__main__':
    main()

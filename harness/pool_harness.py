"""
Ties Model/Pool.v to DiffHandler.diff / get_diff_executor / DiffServer.shutdown:
 - explores the model's reachable state graph for N requests through the extracted model,
 - replays a schedule reaching every (state, event) edge on the REAL coroutines with a
   controllable fake ProcessPoolExecutor, and compares the observables.
"""
import asyncio
import concurrent.futures
import concurrent.futures.process
import concurrent.futures.thread
from concurrent.futures.process import BrokenProcessPool

from common import L, I, B, run_driver


def enc_event(e):
    kind, x = e
    return L([I({'start': 0, 'ok': 1, 'broken': 2, 'break': 3, 'shutdown': 4}[kind]), I(int(x))])


def model_states(schedules, tries, restart):
    lines = ['pool_run %d %s %s' % (tries, B(restart), L(enc_event(e) for e in s)) for s in schedules]
    out = []
    for v in run_driver(lines):
        if isinstance(v, tuple):
            raise RuntimeError('model error %s' % (v,))
        cur, created, shut, killed, broken, replaced, submits, quits, term, reqs = v
        rs = {}
        for r, s in reqs:
            rs[r] = ('waiting', s[1], s[2]) if s[0] == 1 else ('done', ['ok', 'broken', 'shutdown'][s[1]]) if s[0] == 2 else ('notstarted',)
        out.append({'current': cur[0] if cur else None, 'created': created, 'shut': sorted(shut), 'killed': sorted(killed),
                    'broken': sorted(broken), 'replaced': sorted(replaced), 'submits': [tuple(x) for x in reversed(submits)],
                    'quits': quits, 'terminating': bool(term), 'reqs': rs})
    return out


def enabled_events(st, nreq, with_shutdown):
    evs = []
    for r in range(nreq):
        s = st['reqs'].get(r, ('notstarted',))
        if s[0] == 'notstarted':
            evs.append(('start', r))
        elif s[0] == 'waiting':
            evs.append(('ok', r))
            if s[2] in st['broken']:
                evs.append(('broken', r))
    for p in st['created']:
        if p not in st['broken']:
            evs.append(('break', p))
    if with_shutdown:
        if not st['terminating']:
            evs.append(('shutdown', 0))
            evs.append(('shutdown', 1))
        elif st['current'] is not None and st['current'] not in st['killed']:
            evs.append(('shutdown', 1))      # a second signal escalates to immediate
    return evs


def canon(st):
    return repr((st['current'], st['created'], st['shut'], st['killed'], st['broken'], st['replaced'], st['submits'], st['quits'],
                 st['terminating'], sorted(st['reqs'].items())))


def explore(nreq, tries, restart, with_shutdown, max_states=None, max_breaks=None):
    """BFS over the model's state graph; returns list of (schedule, expected state) covering every edge."""
    start = model_states([[]], tries, restart)[0]
    seen = {canon(start): []}
    frontier = [([], start)]
    edges = []
    while frontier:
        cand = []
        for sched, st in frontier:
            for e in enabled_events(st, nreq, with_shutdown):
                if e[0] == 'break' and max_breaks is not None and sum(1 for x in sched if x[0] == 'break') >= max_breaks:
                    continue
                cand.append(sched + [e])
        if not cand:
            break
        states = model_states(cand, tries, restart)
        frontier = []
        for sched, st in zip(cand, states):
            edges.append((sched, st))
            k = canon(st)
            if k not in seen:
                seen[k] = sched
                if max_states is None or len(seen) < max_states:
                    frontier.append((sched, st))
    return edges, len(seen)


class _InlineThreads(concurrent.futures.thread.ThreadPoolExecutor):
    """default executor of the loop: runs shutdown_executor_in_loop's job at once (still a ThreadPoolExecutor for asyncio)"""
    def submit(self, fn, *a, **k):
        f = concurrent.futures.Future()
        try:
            f.set_result(fn(*a, **k))
        except BaseException as e:  # noqa
            f.set_exception(e)
        return f


def run_impl(schedule, restart):
    """Runs the schedule on the real coroutines; returns the observed state in the model's vocabulary."""
    import web_monitoring_diff.server.server as df
    pools, shut, killed, submits, quits = [], [], [], [], []
    extra = {}

    class Child:
        def __init__(self, pool):
            self.pool = pool

        def kill(self):
            if self.pool.id not in killed:
                killed.append(self.pool.id)
            self.pool.broken = True

        # SIGTERM ends a worker as well (its default disposition; that real workers have it is what the real-process probe
        # checks under the server's own signal handlers): not demanding SIGKILL in particular
        terminate = kill

    class FakeExecutor:
        def __init__(self, *a, **k):
            self.id = len(pools)
            pools.append(self)
            self.broken = False
            self.pending = {}
            self._processes = {1: Child(self)}

        def submit(self, fn, *a, **k):
            rid = fn.keywords['rid']
            submits.append((rid, self.id))
            if self.broken:
                raise BrokenProcessPool('broken (fake)')
            f = concurrent.futures.Future()
            self.pending[rid] = f
            return f

        def shutdown(self, wait=True, **k):
            shut.append(self.id)

    async def main():
        loop = asyncio.get_running_loop()
        loop.set_default_executor(_InlineThreads(1))
        app = df.make_app()

        def quit(immediate=False, code=0):
            quits.append(code)
        app.quit = quit

        class H(df.DiffHandler):
            def __init__(self, application):
                self.application = application
        tasks = {}

        async def settle():
            for _ in range(8):
                await asyncio.sleep(0)
        for kind, x in schedule:
            if kind == 'start':
                tasks[x] = asyncio.ensure_future(H(app).diff(None, None, None, {'rid': x}))
            elif kind in ('ok', 'broken', 'error'):
                fut = None
                for p in pools:
                    if x in p.pending:
                        fut = p.pending.pop(x)
                if fut is None:
                    raise AssertionError('request %s has no pending job' % x)
                if kind == 'ok':
                    fut.set_result({'diff': x})
                elif kind == 'error':
                    # the diff job itself fails in the worker (observer-only event: the pool is healthy)
                    fut.set_exception([RecursionError('maximum recursion depth exceeded'), RuntimeError('differ failed'), ValueError('bad input')][x % 3])
                else:
                    fut.set_exception(BrokenProcessPool('broken (fake)'))
            elif kind == 'break':
                pools[x].broken = True
            elif kind == 'shutdown':
                if extra.get('pools_at_shutdown') is None:
                    extra['pools_at_shutdown'] = len(pools)
                asyncio.ensure_future(app.shutdown(immediate=bool(x)))
            await settle()
        reqs = {}
        for r, t in tasks.items():
            if t.done():
                exc = t.exception()
                if exc is None:
                    reqs[r] = ('done', 'ok')
                elif isinstance(exc, BrokenProcessPool):
                    reqs[r] = ('done', 'broken')
                elif isinstance(exc, RuntimeError):
                    reqs[r] = ('done', 'shutdown')
                else:
                    reqs[r] = ('done', 'EXC ' + repr(exc))
            else:
                pool = [p.id for p in pools if r in p.pending]
                reqs[r] = ('waiting', sum(1 for s in submits if s[0] == r) - 1, pool[0] if pool else None)
                t.cancel()
        cur = app.settings.get('diff_executor')
        return {'current': cur.id if cur else None, 'created': [p.id for p in pools], 'shut': sorted(shut), 'killed': sorted(killed),
                'submits': submits, 'quits': len(quits), 'quit_codes': list(quits), 'terminating': bool(app.terminating), 'reqs': reqs,
                'pools_at_shutdown': extra.get('pools_at_shutdown')}

    saved = concurrent.futures.ProcessPoolExecutor
    saved_restart = df.RESTART_BROKEN_DIFFER
    concurrent.futures.ProcessPoolExecutor = FakeExecutor
    df.RESTART_BROKEN_DIFFER = restart
    try:
        return asyncio.run(main())
    finally:
        concurrent.futures.ProcessPoolExecutor = saved
        df.RESTART_BROKEN_DIFFER = saved_restart


COMPARE_KEYS = ['current', 'created', 'shut', 'killed', 'submits', 'quits', 'terminating', 'reqs']


def compare(model, impl):
    return [k for k in COMPARE_KEYS if model[k] != impl[k]]


def property_failures(impl, schedule, tries, restart):
    """C07 / C20 judged on the implementation's own observables (independent of the model)."""
    fails = []
    per_req = {}
    for r, p in impl['submits']:
        per_req.setdefault(r, []).append(p)
    for r, ps in per_req.items():
        if len(ps) > tries:
            fails.append('request %d submitted its diff %d times (pools %s)' % (r, len(ps), ps))
    broken_pools = set(x for k, x in schedule if k == 'break') | set(impl['killed'])
    ncreated = len(impl['created'])
    # each pool is replaced at most once: pools are only ever created to replace the previous current pool
    replaced = impl['created'][:-1] if impl['created'] else []
    for p in replaced:
        if p not in broken_pools:
            fails.append('pool %d was replaced although it never broke' % p)
        if impl['shut'].count(p) < 1:
            fails.append('replaced pool %d was not shut down' % p)
    if ncreated > 1 + len(broken_pools):
        fails.append('%d pools created for %d broken ones' % (ncreated, len(broken_pools)))
    failed_twice = [r for r, s in impl['reqs'].items() if s == ('done', 'broken')]
    if restart and impl['quits']:
        fails.append('exit scheduled although the restart option is on')
    if not restart:
        if failed_twice and not impl['quits']:
            fails.append('request(s) %s failed on two pools but no exit was scheduled' % failed_twice)
        if impl['quits'] and not failed_twice:
            fails.append('exit scheduled although no request failed on two pools')
    if any(c != 10 for c in impl.get('quit_codes', [])):
        fails.append('exit scheduled with status %s, not 10' % impl['quit_codes'])
    for r, s in impl['reqs'].items():
        if s[0] == 'done' and s[1].startswith('EXC'):
            fails.append('request %d ended with an unexpected exception %s' % (r, s[1]))
    # C20
    kinds = [k for k, _ in schedule]
    if 'shutdown' in kinds:
        i = kinds.index('shutdown')
        if impl['pools_at_shutdown'] is not None and len(impl['created']) > impl['pools_at_shutdown']:
            fails.append('%d worker pool(s) created after shutdown had begun' % (len(impl['created']) - impl['pools_at_shutdown']))
        graceful_only = all(x == 0 for k, x in schedule if k == 'shutdown')
        for j, (k, x) in enumerate(schedule):
            if j <= i:
                continue
            st = impl['reqs'].get(x)
            if k == 'start' and not (st and st[0] == 'done' and st[1] != 'ok'):
                fails.append('request %d arrived after shutdown began but was not answered with an error: %s' % (x, st))
            if k == 'broken' and not (st and st[0] == 'done' and st[1] != 'ok'):
                fails.append('request %d retried after shutdown began but was not answered with an error: %s' % (x, st))
            if k == 'ok' and graceful_only and st != ('done', 'ok'):
                fails.append('request %d finished its diff during a graceful shutdown but did not get the normal response: %s' % (x, st))
        # the live pool as the observer sees it: the most recently created one (not what the application still remembers -
        # a change that makes the application forget its pool must not blind this check)
        cur = impl['created'][-1] if impl['created'] else None
        if cur is not None:
            imm = any(x == 1 for k, x in schedule if k == 'shutdown')
            if imm and cur not in impl['killed']:
                fails.append('immediate shutdown did not kill the workers of the current pool %d' % cur)
            if not imm and cur not in impl['shut']:
                fails.append('graceful shutdown did not shut down the current pool %d' % cur)
        for p in impl['created']:
            if p != cur and p not in impl['shut'] and p not in impl['killed']:
                fails.append('pool %d is neither shut down nor killed when shutdown completes' % p)
    return fails


def _work(args):
    sched, restart = args
    try:
        return run_impl(sched, restart)
    except Exception as e:  # noqa
        return {'error': repr(e)}


def run_many(schedules, restart, jobs=16):
    import multiprocessing as mp
    import logging
    logging.getLogger('web_monitoring_diff.server.server').setLevel(logging.CRITICAL + 1)
    if len(schedules) < 200:
        return [_work((s, restart)) for s in schedules]
    ctx = mp.get_context('fork')
    with ctx.Pool(jobs) as pool:
        return pool.map(_work, [(s, restart) for s in schedules], chunksize=64)

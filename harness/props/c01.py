"""C01 - insertions/deletions views are the page plus markers."""
import render_checks as rc
from props.render_common import run_render, replay_known


def alone_equals_all(a, b, r_all):
    fails = []
    for key in ('insertions', 'deletions'):
        alone = rc.render(a, b, include=key)
        if alone.get(key) != r_all.get(key):
            fails.append('the %s view requested alone differs from the one returned under include="all"' % key)
        if set(alone) != {'change_count', 'insertions_count', 'deletions_count', key}:
            fails.append('include=%r returned keys %s' % (key, sorted(alone)))
    return fails


def run(rep, ctx):
    run_render(rep, ctx, 'c01', [('page-plus-markers', rc.c01_failures), ('alone-vs-all', alone_equals_all)],
               n_quick=500, n_thorough=8000, identity=True, big=True, small_caps=True)
    replay_known(rep, 'C01', rc.c01_failures)


def replay(rep, data):
    r = rc.render(data['a_text'], data['b_text'])
    f = rc.c01_failures(data['a_text'], data['b_text'], r)
    print(f)
    return 1 if f else 0

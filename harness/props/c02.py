"""C02 - the combined view loses and invents no text."""
import render_checks as rc
from props.render_common import run_render, replay_known


def run(rep, ctx):
    run_render(rep, ctx, 'c02', [('combined-text', rc.c02_failures)], n_quick=700, n_thorough=12000, small_caps=True, big=True)
    replay_known(rep, 'C02', rc.c02_failures)


def replay(rep, data):
    r = rc.render(data['a_text'], data['b_text'])
    f = rc.c02_failures(data['a_text'], data['b_text'], r)
    print(f)
    return 1 if f else 0

"""C03 - identity, detection, consistent counts."""
import render_checks as rc
from props.render_common import run_render


def run(rep, ctx):
    run_render(rep, ctx, 'c03', [('counts-and-detection', rc.c03_failures)], n_quick=600, n_thorough=10000, identity=True, big=True, small_caps=True)


def replay(rep, data):
    r = rc.render(data['a_text'], data['b_text'])
    f = rc.c03_failures(data['a_text'], data['b_text'], r) + (rc.identity_failures(data['a_text'], r) if data['a_text'] == data['b_text'] else [])
    print(f)
    return 1 if f else 0

"""C03 - identity, detection, consistent counts."""
import render_checks as rc
from props.render_common import run_render


def run(rep, ctx):
    run_render(rep, ctx, 'c03', [('counts-and-detection', rc.c03_failures)], n_quick=600, n_thorough=10000, identity=True, big=True, small_caps=True)
    # the same clauses under the other values of url_rules (none, empty, each rule, combinations): a page against itself, and the pair
    from common import rng_for
    rng = rng_for(ctx['seed'], 'c03-rules')
    docs = rc.documents(rng, 60 if ctx['tier'] == 'quick' else 1500)
    n_bad = 0
    all_rules = [None, '', 'wayback', 'wayback_uk', 'jsessionid,wayback', 'wayback,wayback_uk,jsessionid']
    hand = set(rc.HAND_PAIRS)
    work = []
    for i, (a, b) in enumerate(docs):
        for rules in (all_rules if (a, b) in hand else [all_rules[i % 6]]):      # the hand-picked pairs under every value
            work.append((a, b, rules))
    for a, b, rules in work:
        for x, y in ((a, a), (b, b), (a, b)):
            rep.count(('rules', rules, x, y), x != y)
            try:
                r = rc.render(x, y, include='all', url_rules=rules)
                fails = rc.c03_failures(x, y, r) + (rc.identity_failures(x, r) if x == y else [])
            except Exception as e:  # noqa
                fails = ['html_diff_render raised %s: %s' % (type(e).__name__, e)]
            if fails:
                n_bad += 1
                if n_bad <= 3:
                    rep.violation('c03-rules-%d' % n_bad, {'what': fails[:4], 'a_text': x, 'b_text': y, 'url_rules': rules,
                                                          'call': 'html_diff_render(a_text, b_text, include="all", url_rules=%r)' % (rules,)})
    rep.obligation('observer c03: identity, counts and detection under every value of url_rules (%d pages)' % len(docs), n_bad == 0)


def replay(rep, data):
    r = rc.render(data['a_text'], data['b_text'])
    f = rc.c03_failures(data['a_text'], data['b_text'], r) + (rc.identity_failures(data['a_text'], r) if data['a_text'] == data['b_text'] else [])
    print(f)
    return 1 if f else 0

"""C04 - links diff accounts for every link exactly once: generated navigation-like pages, model vs implementation, observer."""
import html as htmllib
import re

from common import S, L, P, I, run_driver, to_str, rng_for

TEXTS = ['Home', 'HOME', 'home', 'Read more', 'read more', 'About us', 'Contact', 'News', 'Reports', 'reports', 'A(b)', 'a', 'a(b',
         'Ärger', 'ärger', 'İstanbul', 'Straße', 'x', 'Data &amp; Tools', '&lt;b&gt;bold&lt;/b&gt;', '  spaced  out ', '']
HREFS = ['/1', '/2', '/3', '/news/1', '/news/2', '/news/3', 'https://www.example.gov/reports', 'HTTPS://WWW.Example.GOV/reports',
         'https://www.example.gov/Reports', '//cdn.Example.org/x', 'http://a.test/', 'http://a.test', 'mailto:someone@example.org',
         'b)(c', 'c', '?q=1&amp;r=2', '#top', '#', '', 'javascript:void(0)', 'HTTP://USER@Host.Test:80/Path?Q#F', 'ftp+ssh-x://Host/p',
         # targets that differ only in what a URL library would normalise away: empty query / fragment, embedded blanks, case after the host
         'https://h.test/search?', 'https://h.test/search', 'https://h.test/data/#', 'https://h.test/data/', 'https://h.test/a\tb', 'https://h.test/ab',
         'http://Host.test?Q=A', 'http://host.test?q=a', ' https://h.test/search', 'http://[server]/x', 'http://[::1/x']
INNER = ['', '<img src="i.png" alt="Logo">', '<img src="i.png">', '<img alt="">', '<script>var a=1;</script>', '<style>a{}</style>',
         '<span>in span</span>', '<svg><title>t</title></svg>', '<b>bold</b> ', '<!-- c -->',
         # several hidden / replaced children in one link, in every order
         '<svg><title>icon</title></svg><img src="p.png" alt="Partner">', '<script>var a=1;</script><img alt="after script">', '<svg><title>a</title></svg><svg><title>b</title></svg>',
         '<img src="i.png" alt="One"><img src="j.png" alt="Two">', '<style>a{}</style><span><img alt="deep"></span>', '<svg><g><title>nested</title></g></svg><script>x()</script><img src="k.png" alt="Third">']


def gen_page(rng, n=None, texts=None, hrefs=None):
    n = rng.randint(0, 9) if n is None else n
    texts = texts or rng.sample(TEXTS, rng.randint(1, 5))
    hrefs = hrefs or rng.sample(HREFS, rng.randint(1, 6))
    parts = ['<html><head><title>T</title></head><body><ul>']
    for _ in range(n):
        t = rng.choice(texts)
        inner = rng.choice(INNER) if rng.random() < 0.3 else ''
        attrs = ''
        k = rng.random()
        if k < 0.9:
            attrs += ' href="%s"' % rng.choice(hrefs)
        if rng.random() < 0.2:
            attrs += ' title="Tip %s"' % rng.choice(['one', 'TWO', '&quot;q&quot;'])
        link = '<a%s>%s%s</a>' % (attrs, inner, t if rng.random() < 0.92 else '')
        if rng.random() < 0.12:        # links inside containers whose content the differs otherwise treat as a unit or as not displayed
            link = rng.choice(['<svg width="9">%s</svg>', '<template>%s</template>', '<ruby>r<rp>%s</rp></ruby>', '<math><mtext>%s</mtext></math>',
                               '<select><option>o</option></select>%s', '<svg><g>%s</g></svg>']) % link
        parts.append('<li>%s</li>' % link)
    parts.append('</ul></body></html>')
    return ''.join(parts)


def gen_pair(rng):
    texts = rng.sample(TEXTS, rng.randint(1, 4))
    hrefs = rng.sample(HREFS, rng.randint(1, 5))
    k = rng.random()
    a = gen_page(rng, texts=texts, hrefs=hrefs)
    if k < 0.15:
        return a, a
    if k < 0.3:
        # same links in another document order
        items = re.findall(r'<li>.*?</li>', a)
        rng.shuffle(items)
        return a, '<html><body><ul>%s</ul></body></html>' % ''.join(items)
    if k < 0.7:
        # edit: drop / add / retarget some items of a
        items = re.findall(r'<li>.*?</li>', a)
        out = []
        for it in items:
            r = rng.random()
            if r < 0.2:
                continue
            if r < 0.4:
                it = re.sub(r'href="[^"]*"', 'href="%s"' % rng.choice(hrefs), it)
            elif r < 0.5:
                it = it.replace('</a>', ' more</a>')
            out.append(it)
        for _ in range(rng.randint(0, 3)):
            out.insert(rng.randint(0, len(out)), '<li><a href="%s">%s</a></li>' % (rng.choice(hrefs), rng.choice(texts)))
        return a, '<html><body><ul>%s</ul></body></html>' % ''.join(out)
    return a, gen_page(rng, texts=texts, hrefs=hrefs)


# ---- conversion soup -> model input (no logic, only structure)
def enc_node(n):
    from bs4 import Comment, NavigableString
    if isinstance(n, NavigableString):
        if isinstance(n, Comment):
            return None
        return L([I(0), S(str(n))])
    attrs = []
    for k, v in n.attrs.items():
        attrs.append(P(S(k), S(v if isinstance(v, str) else ' '.join(v))))
    kids = [x for x in (enc_node(c) for c in n.children) if x is not None]
    return L([I(1), S(n.name), L(attrs), L(kids)])


def enc_anchors(html):
    import html5_parser
    soup = html5_parser.parse(html, treebuilder='soup', return_root=False)
    out = []
    for a in soup.find_all('a'):
        attrs = [P(S(k), S(v if isinstance(v, str) else ' '.join(v))) for k, v in a.attrs.items()]
        kids = [x for x in (enc_node(c) for c in a.children) if x is not None]
        out.append(P(L(attrs), L(kids)))
    return L(out)


# ---- independent reference of "distinct outgoing links" (from the property text)
def fold_origin(href):
    """Two targets are the same link target when they differ only in the letter case of scheme and authority; path, query and
    fragment are case-sensitive.  Written out, not copied from the code: an optional scheme (letters, digits, '_', '+', '-') and
    ':', then '//', then the authority up to (not including) the first '/', '?' or '#'; no authority, no folding."""
    i = 0
    while i < len(href) and (href[i].isalnum() or href[i] in '_+-'):
        i += 1
    start = i + 1 if i > 0 and href[i:i + 1] == ':' else 0
    if href[start:start + 2] != '//':
        return href
    j = start + 2
    while j < len(href) and href[j] not in '/?#':
        j += 1
    if j == start + 2:
        return href
    return href[:j].lower() + href[j:]


def ref_links(html):
    import html5_parser
    soup = html5_parser.parse(html, treebuilder='soup', return_root=False)
    keys = []
    for a in soup.find_all('a'):
        href = a.get('href')
        if not href or href.startswith('#'):
            continue
        for bad in a.find_all(['datalist', 'math', 'option', 'rp', 'script', 'select', 'style', 'svg', 'template', 'textarea']):
            bad.extract()
        for img in a.find_all('img'):
            img.replace_with('[image: %s]' % img.get('alt') if img.get('alt') else '[image]')
        text = a.get_text().strip()
        if not text:
            text = '[tooltip: %s]' % a['title'] if a.has_attr('title') else '[no text]'
        href = fold_origin(href)
        key = (href, text.lower())
        if key not in keys:
            keys.append(key)
    return keys


def sides_of(diff):
    """(old-side keys, new-side keys) of a links_diff_json diff"""
    old, new = [], []
    for code, payload in diff:
        if code == 0:
            k = (payload['href'], payload['text'].lower())
            old.append(k)
            new.append(k)
        elif code == -1:
            old.append((payload['href'], payload['text'].lower()))
        elif code == 1:
            new.append((payload['href'], payload['text'].lower()))
        elif code == 100:
            ot = ''.join(s for c, s in payload['text'] if c in (0, -1))
            nt = ''.join(s for c, s in payload['text'] if c in (0, 1))
            old.append((payload['hrefs'][0], ot.lower()))
            new.append((payload['hrefs'][1], nt.lower()))
        else:
            old.append(('?code', code))
    return old, new


def observer(a, b, result):
    fails = []
    diff = result['diff']
    old, new = sides_of(diff)
    ra, rb = ref_links(a), ref_links(b)
    for side, got, ref in (('old', old, ra), ('new', new, rb)):
        for k in ref:
            c = got.count(k)
            if c != 1:
                fails.append('%s-page link %r is listed %d times (as unchanged/%s/changed)' % (side, k, c, 'removed' if side == 'old' else 'added'))
        for k in got:
            if k not in ref:
                fails.append('entry %r is not a distinct outgoing link of the %s page' % (k, side))
    for code, payload in diff:
        hrefs = payload.get('hrefs') or [payload.get('href')]
        if any(isinstance(h, str) and h.startswith('#') for h in hrefs):
            fails.append('in-page link %r appears in the diff' % (hrefs,))
    nonzero = sum(1 for code, _ in diff if code != 0)
    if result['change_count'] != nonzero:
        fails.append('change_count %s but %d non-unchanged entries' % (result['change_count'], nonzero))
    if (result['change_count'] == 0) != (set(ra) == set(rb)):
        fails.append('change_count is %s although the link sets are %s' % (result['change_count'], 'equal' if set(ra) == set(rb) else 'different'))
    return fails[:6]


def dec_link(v):
    return (to_str(v[0]), to_str(v[1]))


def model_entries(v):
    out = []
    for e in v:
        code = e[0]
        if code in (0, 100):
            out.append((code, dec_link(e[1]), dec_link(e[2])))
        else:
            out.append((code, dec_link(e[1])))
    return out


def impl_entries(diff):
    out = []
    for code, payload in diff:
        if code == 0:
            out.append((0, None, (payload['href'], payload['text'])))
        elif code == 100:
            ot = ''.join(s for c, s in payload['text'] if c in (0, -1))
            nt = ''.join(s for c, s in payload['text'] if c in (0, 1))
            out.append((100, (payload['hrefs'][0], ot), (payload['hrefs'][1], nt)))
        else:
            out.append((code, (payload['href'], payload['text'])))
    return out


def same_entries(model, impl):
    if len(model) != len(impl):
        return False
    for m, i in zip(model, impl):
        if m[0] != i[0]:
            return False
        if m[0] == 0:
            if m[2] != i[2]:
                return False
        elif m[0] == 100:
            if (m[1], m[2]) != (i[1], i[2]):
                return False
        elif m[1] != i[1]:
            return False
    return True


def run(rep, ctx):
    from web_monitoring_diff import html_links_diff as hl
    tier = ctx['tier']
    rng = rng_for(ctx['seed'], 'c04')
    rep.rule = ('navigation-like page pairs drawn from small pools of link texts (case variants, shared texts, empty, markup-like, non-ASCII) '
                'and targets (shared, in-page, origin-case variants, scheme-relative, empty) with images / tooltips / scripts inside links: '
                'identical, reordered, edited and unrelated pairs; plus hand-built Link lists with ARBITRARY valid opcode lists for the '
                're-balancing and pairing passes; non-trivial = both pages have links and differ; distinct by page pair')
    rep.trusted += ['modelled rather than verified: difflib.SequenceMatcher (re-modelled in Lib/Difflib.v and run against the stdlib on every pair), '
                    'html5-parser + BeautifulSoup find_all/attribute access/get_text (the model takes the <a> elements as trees), Python string hashing '
                    '(collisions ignored), str.lower (context-free), compute_dmp_diff inside changed entries (contract of C05)']
    n = 600 if tier == 'quick' else 8000
    pairs = [gen_pair(rng) for _ in range(n)]
    pairs += [(''.join('<a href="/%d">Home</a>' % i for i in (1, 2, 3)), '<a href="/1">Home</a>'),
              ('<a href="/news/1">Read more</a><a href="/news/2">Read more</a><a href="/news/3">Read more</a>', '<a href="/news/3">Read more</a>'),
              ('<a href="b)(c">a</a><a href="c">a(b)</a>', '<a href="c">a(b)</a><a href="b)(c">a</a>'),
              ('<a href="https://www.example.gov/reports">R</a><a href="HTTPS://WWW.Example.GOV/reports">R</a>', '<a href="https://www.example.gov/reports">R</a>'),
              ('<a href="/x">A</a><a href="/y">B</a>', '<a href="/y">A</a><a href="/x">B</a>'),
              ('<a href="/p1">Pony time!</a><a href="/p2">Pony time!</a>', '<a href="/p2">Pony time!</a><a href="/d">Donkey time.</a>'),
              ('<a href="https://h.test/search?">S</a><a href="https://h.test/search">S</a><a href="https://h.test/data/#">D</a>', '<a href="https://h.test/search">S</a><a href="https://h.test/data/">D</a>'),
              ('<a href="/p"><svg><title>icon</title></svg><img src="a.png" alt="Acme"></a><a href="/p"><svg><title>icon</title></svg><img src="b.png" alt="Bolt"></a>',
               '<a href="/p"><svg><title>icon2</title></svg><img src="a.png" alt="Acme"></a>'),
              ('<a href="http://Host.test?Q=A">q</a>', '<a href="http://host.test?q=a">q</a>'), ('<a href="https://h.test/a\tb">t</a>', '<a href="https://h.test/ab">t</a>')]
    # small-scope exhaustive: every page of at most 2 (quick) / 3 (thorough, sampled down to every other page) links over 3 texts
    # (two differing in case only) x 3 targets (one in-page) against every other one
    import itertools
    atoms = ['<a href="%s">%s</a>' % (h, t) for t in ('Home', 'HOME', 'News') for h in ('/1', '/2', '#top')]
    small = [''] + atoms + [x + y for x, y in itertools.product(atoms, atoms)]
    if tier != 'quick':
        small += [x + y + z for x, y, z in itertools.product(atoms[:6], atoms[:6], atoms[:6])][::2]
    else:
        small = small[::2]
    scope = list(itertools.product(small, small))
    if tier != 'quick':
        scope = scope[::7] + list(itertools.product(small[:91], small[:91]))
    rep.extra['small_scope_exhaustive_pairs'] = len(scope)
    pairs += scope
    lines = ['links_diff %s %s' % (enc_anchors(a), enc_anchors(b)) for a, b in pairs]
    model = run_driver(lines) if ctx['model_available'] else [None] * len(pairs)
    n_obs = n_corr = 0
    for (a, b), m in zip(pairs, model):
        try:
            res = hl.links_diff_json(a, b)
        except Exception as e:  # noqa
            res = None
            n_obs += 1
            if n_obs <= 3:
                rep.violation('crash-%d' % n_obs, {'what': 'links_diff_json raised %r' % e, 'a_text': a, 'b_text': b})
            continue
        rep.count((a, b), a != b and '<a' in a and '<a' in b)
        fails = observer(a, b, res)
        if fails:
            n_obs += 1
            if n_obs <= 3:
                rep.violation('accounting-%d' % n_obs, {'what': fails, 'a_text': a, 'b_text': b, 'links_diff_json': res,
                                                        'call': 'links_diff_json(a_text, b_text)'})
        elif m is not None:
            if isinstance(m, tuple) or m[0] != res['change_count'] or not same_entries(model_entries(m[1]), impl_entries(res['diff'])):
                n_corr += 1
                if n_corr <= 3:
                    rep.violation('correspondence-%d' % n_corr, {
                        'what': 'model and implementation disagree; the observer sees no failure on this input',
                        'correspondence': 'Model/Links.v links_diff vs links_diff_json', 'a_text': a, 'b_text': b,
                        'implementation': res, 'model': m if isinstance(m, tuple) else {'change_count': m[0], 'diff': model_entries(m[1])}},
                        no_input=True)
    rep.obligation('observer: every distinct link exactly once, no in-page link, count consistent, zero iff same sets (%d page pairs)' % len(pairs), n_obs == 0)
    rep.obligation('correspondence: Model/Links.v links_diff = links_diff_json on %d page pairs' % len(pairs), n_corr == 0)
    rep.sample({'a_text': pairs[5][0], 'b_text': pairs[5][1]})
    rep.sample({'a_text': pairs[-5][0], 'b_text': pairs[-5][1]})

    # ---- long link lists (beyond any plausible size threshold; the matcher's own junk heuristic starts at 200 elements and is outside
    # the model, so these go through the observer only): repeated targets under several texts, repeated texts over several targets
    def long_page(n, variant):
        items = []
        for i in range(n):
            items.append('<li><a href="/doc/%d">Document %d</a></li>' % (i, i))
            if i % 9 == 0:
                items.append('<li><a href="/doc/%d">%s %d</a></li>' % (i, ['PDF version', 'Download', 'Full text'][variant % 3], i))
            if i % 14 == 0:
                items.append('<li><a href="/more/%d">Read more</a></li>' % i)
        return items
    big = []
    for n in ((150, 230) if tier == 'quick' else (150, 199, 205, 230, 400)):
        base = long_page(n, 0)
        same_other_order = list(base)
        rng.shuffle(same_other_order)
        retitled = long_page(n, 1)
        grown = base[: n // 2] + ['<li><a href="/doc/%d">Summary of %d</a></li>' % (n // 2, n // 2), '<li><a href="/new">New item</a></li>'] + base[n // 2:]
        shrunk = [x for i, x in enumerate(base) if i % 17 != 3]
        wrap = lambda items: '<html><body><ul>%s</ul></body></html>' % ''.join(items)  # noqa
        big += [(wrap(base), wrap(base)), (wrap(base), wrap(same_other_order)), (wrap(base), wrap(retitled)), (wrap(base), wrap(grown)),
                (wrap(grown), wrap(base)), (wrap(base), wrap(shrunk)), (wrap(retitled), wrap(grown))]
    import render_checks as _rc
    big += _rc.real_pages()          # archived versions of real pages from the repository's fixtures (hundreds of links each)
    n_big = 0
    for a, b in big:
        rep.count(('big', a, b), a != b)
        try:
            fails = observer(a, b, hl.links_diff_json(a, b))
        except Exception as e:  # noqa
            fails = ['links_diff_json raised %r' % e]
        if fails:
            n_big += 1
            if n_big <= 2:
                rep.violation('accounting-long-%d' % n_big, {'what': fails[:4], 'a_text': a[:3000], 'b_text': b[:3000], 'links_in_a': a.count('<a '), 'links_in_b': b.count('<a '),
                                                            'call': 'links_diff_json(a_text, b_text)'})
    rep.obligation('observer: exactly-once accounting on %d pairs of pages with 150 to 450 links and of real archived pages' % len(big), n_big == 0)

    # ---- fine seam: _assemble_diff with arbitrary valid opcodes (a superset of what difflib returns)
    m2 = 1500 if tier == 'quick' else 20000
    cases = []
    for _ in range(m2):
        texts = rng.sample(['Home', 'home', 'News', 'X', 'y'], rng.randint(1, 3))
        hrefs = rng.sample(['/1', '/2', '/3', '/4', '/5', '/6'], rng.randint(1, 5))

        def mk():
            seen, out = set(), []
            for _ in range(rng.randint(0, 6)):
                lk = (rng.choice(hrefs), rng.choice(texts))
                if (lk[0], lk[1].lower()) not in seen:
                    seen.add((lk[0], lk[1].lower()))
                    out.append(lk)
            return sorted(out, key=lambda l: (l[1].lower(), l[0]))
        la, lb = mk(), mk()
        ops, i, j = [], 0, 0
        while i < len(la) or j < len(lb):
            di = rng.randint(0, min(3, len(la) - i))
            dj = rng.randint(0, min(3, len(lb) - j))
            if di == 0 and dj == 0:
                continue
            if di and dj:
                tag = rng.choice(['equal', 'replace'])
                if tag == 'equal':
                    dj = di = min(di, dj)
            else:
                tag = 'delete' if di else 'insert'
            ops.append((tag, i, i + di, j, j + dj))
            i += di
            j += dj
        cases.append((la, lb, ops))
    tagn = {'equal': 0, 'replace': 1, 'delete': 2, 'insert': 3}
    lines = ['links_assemble %s %s %s' % (L(P(S(h), S(t)) for h, t in la), L(P(S(h), S(t)) for h, t in lb),
                                          L(L([I(tagn[o[0]])] + [I(x) for x in o[1:]]) for o in ops)) for la, lb, ops in cases]
    model = run_driver(lines) if ctx['model_available'] else [None] * len(cases)
    n_obs2 = n_corr2 = 0
    for (la, lb, ops), m in zip(cases, model):
        A = [hl.Link(h, t) for h, t in la]
        B = [hl.Link(h, t) for h, t in lb]
        try:
            d = list(hl._assemble_diff(A, B, list(ops)))
        except Exception as e:  # noqa
            d = None
        rep.count(('asm', tuple(la), tuple(lb), tuple(ops)), len(ops) > 1)
        if d is None:
            n_obs2 += 1
            continue
        old, new = sides_of(d)
        ka = [(h, t.lower()) for h, t in la]
        kb = [(h, t.lower()) for h, t in lb]
        if sorted(old) != sorted(ka) or sorted(new) != sorted(kb):
            n_obs2 += 1
            if n_obs2 <= 3:
                rep.violation('assemble-accounting-%d' % n_obs2, {
                    'what': '_assemble_diff does not list every link exactly once for a valid opcode list',
                    'a_links': la, 'b_links': lb, 'opcodes': ops, 'diff': d, 'old_side': old, 'new_side': new})
        elif m is not None and (isinstance(m, tuple) or not same_entries(model_entries(m[1]), impl_entries(d))):
            n_corr2 += 1
            if n_corr2 <= 2:
                rep.violation('assemble-correspondence-%d' % n_corr2, {
                    'what': 'model and implementation disagree on _assemble_diff', 'a_links': la, 'b_links': lb, 'opcodes': ops,
                    'implementation': impl_entries(d), 'model': m if isinstance(m, tuple) else model_entries(m[1])}, no_input=True)
    rep.obligation('observer: _assemble_diff exactly-once for %d arbitrary valid opcode lists' % len(cases), n_obs2 == 0)
    rep.obligation('correspondence: Model/Links.v assemble_diff = _assemble_diff on %d opcode lists' % len(cases), n_corr2 == 0)
    rep.sample({'a_links': cases[3][0], 'b_links': cases[3][1], 'opcodes': cases[3][2]})


def replay(rep, data):
    from web_monitoring_diff import html_links_diff as hl
    if 'a_text' in data:
        res = hl.links_diff_json(data['a_text'], data['b_text'])
        f = observer(data['a_text'], data['b_text'], res)
        print(f)
        return 1 if f else 0
    return 1

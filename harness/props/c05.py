"""C05 - text/source diffs reconstruct their inputs: library contract validation, model correspondence, invisible-content observer."""
import random

from common import S, L, P, I, run_driver, to_str, rng_for
from gen import htmlgen

ALPHABETS = [
    'abc xyz\n', 'äöü ß€', '\U0001F600\U0001F601\U0001F9D1‍\U0001F4BB', 'áéö', '\x00\x01\x1f\x7f', '\r\n\r\n\n\r',
    '퟿￿�', '日本語テキスト', 'ab', '<>&"\'', '\t   ',
]


def rand_string(rng, maxlen=40):
    alpha = rng.choice(ALPHABETS) + (rng.choice(ALPHABETS) if rng.random() < 0.5 else '')
    return ''.join(rng.choice(alpha) for _ in range(rng.randint(0, maxlen)))


def string_pairs(rng, n):
    out = [('', ''), ('', 'x'), ('x', ''), ('same', 'same'), ('a\x00b', 'a\x00c'), ('\r\n', '\n'), ('\U0001F600', '\U0001F601'),
           ('é', 'é'), ('ab' * 50, 'ba' * 50)]
    for _ in range(n):
        a = rand_string(rng)
        k = rng.random()
        if k < 0.2:
            b = a
        elif k < 0.7:                      # an edit of a
            b = list(a)
            for _ in range(rng.randint(1, 4)):
                if b and rng.random() < 0.5:
                    del b[rng.randrange(len(b))]
                else:
                    b.insert(rng.randint(0, len(b)), rng.choice(rng.choice(ALPHABETS)))
            b = ''.join(b)
        else:
            b = rand_string(rng)
        out.append((a, b))
    return out


def large_pairs(rng):
    """inputs beyond any plausible size threshold (a 'fast path for big documents' would start somewhere): changes that sit next to a
    copy of themselves (so that common prefix and common suffix overlap), grown runs of blank lines, repeated rows, and ordinary edits
    deep inside a large text"""
    out = []
    for n in (1500, 12000, 40000, 140000):
        out.append(('a' * n, 'a' * (n + 1)))
        out.append(('ab' * (n // 2), 'ab' * (n // 2 + 1)))
        out.append(('x\n' + '\n' * n + 'y', 'x\n' + '\n' * (n + 2) + 'y'))
        row = '<tr><td>No data</td></tr>\n'
        head = ''.join('<tr><td>%d</td></tr>\n' % i for i in range(n // 20))
        out.append((head + row + '</table>', head + row + row + '</table>'))
        out.append((head + row + row + '</table>', head + row + '</table>'))
        words = [rng.choice(htmlgen.WORDS) for _ in range(n // 6)]
        k = len(words) // 2
        out.append((' '.join(words), ' '.join(words[:k] + ['inserted', 'words'] + words[k:])))
        out.append((' '.join(words), ' '.join(words[:k] + words[k + 3:])))
        out.append((' '.join(words), ' '.join(words)))
    return out


def recon(diff):
    return (''.join(s for c, s in diff if c in (0, -1)), ''.join(s for c, s in diff if c in (0, 1)))


def text_nodes(html):
    """the soup-shaped input of the model: (parent name, string) of every non-comment text node"""
    import html5_parser
    from bs4 import Comment
    soup = html5_parser.parse(html, treebuilder='soup', return_root=False)
    for c in soup.find_all(string=lambda t: isinstance(t, Comment)):
        c.extract()
    return [(t.parent.name, str(t)) for t in soup.find_all(string=True)]


INVISIBLE_EDITS = [
    lambda r, h: h.replace('</body>', '<script>var x = "%s";</script></body>' % r.choice(htmlgen.WORDS)) if '</body>' in h else h + '<script>y()</script>',
    lambda r, h: '<style>p { color: #%03d }</style>' % r.randint(0, 999) + h,
    lambda r, h: h + '<!-- comment %s -->' % r.choice(htmlgen.WORDS),
    lambda r, h: ('<title>%s</title>' % r.choice(htmlgen.WORDS)) + h if '<title>' not in h else
    h.replace('<title>', '<title>%s ' % r.choice(htmlgen.WORDS)),
    lambda r, h: h.replace('<p', '<!--x--><p', 1),
    # markup the HTML parser turns into comment nodes although the source has no "<!--": processing instructions, declarations,
    # CDATA sections outside foreign content, end tags with a blank name
    lambda r, h: h.replace('<p', '<?php echo "%s"; ?><p' % r.choice(htmlgen.WORDS), 1),
    lambda r, h: h.replace('<p', '<!ELEMENT %s><p' % r.choice(htmlgen.WORDS), 1),
    lambda r, h: h.replace('<p', '<![CDATA[%s]]><p' % r.choice(htmlgen.WORDS), 1),
    lambda r, h: h.replace('<p', '</ %s><p' % r.choice(htmlgen.WORDS), 1),
    # comments directly next to one another, and a comment directly followed by an element that starts with one
    lambda r, h: h.replace('<p', '<!--a %s--><!--b %s--><!--c--><p' % (r.choice(htmlgen.WORDS), r.choice(htmlgen.WORDS)), 1),
    lambda r, h: h.replace('<p', '<!--a--><div><!--b %s--></div><p' % r.choice(htmlgen.WORDS), 1) if '<li' not in h.split('<p')[0][-40:] else h,
    # text that looks like a charset declaration, inside content that is not displayed (a title, a script, a style): the text of the
    # page is given as str, nothing in it may be re-read as a declaration of another encoding
    lambda r, h: '<title>How to use &lt;meta charset="%s"&gt;</title>' % r.choice(['koi8-r', 'shift_jis', 'iso-8859-7']) + h if '<title>' not in h else
    h.replace('<title>', '<title><meta charset="%s"> ' % r.choice(['koi8-r', 'shift_jis', 'windows-1251']), 1),
    lambda r, h: '<script>var m = \'<meta charset="%s">\';</script>' % r.choice(['koi8-r', 'shift_jis', 'utf-16le']) + h,
    lambda r, h: '<style>/* <meta http-equiv="Content-Type" content="text/html; charset=%s"> */</style>' % r.choice(['koi8-r', 'big5']) + h,
]


def run(rep, ctx):
    from web_monitoring_diff import basic_diffs as bd
    from fast_diff_match_patch import diff as raw_dmp
    tier = ctx['tier']
    rng = rng_for(ctx['seed'], 'c05')
    rep.rule = ('string pairs over alphabets of ASCII, Latin, astral/ZWJ emoji, combining marks, control characters incl. NUL, CR/LF mixes, '
                'BMP edge code points, CJK (random, edited, equal) for the source diff and the library contract; generated HTML pairs for the '
                'visible-text diff and side-by-side view; invisible-content edits (script, style, comment, title) for invariance; '
                'non-trivial = the two inputs differ; distinct by input pair')
    rep.trusted += ['modelled rather than verified: fast_diff_match_patch.diff (C++): theorems assume its contract DMP0/DMP1/DMP2 (only =,-,+ '
                    'operations; reconstruction of both arguments; no change segment on equal arguments), which this run validates on every generated pair '
                    'including a tiny time limit that forces the coarse path; html5-parser/BeautifulSoup text-node extraction (the model takes the '
                    'list of (parent name, string) text nodes)']
    rep.assumptions += ['the substance of reconstruction lives in the native library: this property is mostly contract, and the evidence says so']
    n = 1500 if tier == 'quick' else 20000
    pairs = string_pairs(rng, n)
    # small-scope exhaustive: every string of length <= 3 (quick) / <= 4 (thorough) over {a, b, newline-ish e-acute} against every other
    import itertools
    alphabet = ['a', 'b', '\u00e9']
    small = [''.join(t) for k in range(0, (3 if tier == 'quick' else 4) + 1) for t in itertools.product(alphabet, repeat=k)]
    scope = list(itertools.product(small, small))
    rep.extra['small_scope_exhaustive_pairs'] = len(scope)
    pairs += scope
    big = large_pairs(rng)
    rep.extra['large_pairs'] = {'count': len(big), 'largest': max(len(a) + len(b) for a, b in big)}
    pairs += big
    n_contract = n_src = n_corr = 0
    n_deadline = 0
    lines, srcs = [], []
    for a, b in pairs:
        rep.count(('src', a, b), a != b)
        # --- contract of the native library, also under a tiny time limit
        for tl in (4, 0.000001):
            ops = raw_dmp(a, b, checklines=False, timelimit=tl, cleanup='Semantic', counts_only=False)
            ok = all(op in '=-+' for op, _ in ops) and ''.join(s for op, s in ops if op in '=-') == a and \
                ''.join(s for op, s in ops if op in '=+') == b and (a != b or all(op == '=' for op, _ in ops))
            if not ok:
                n_contract += 1
                if n_contract <= 2:
                    rep.violation('dmp-contract-%d' % n_contract, {'what': 'diff-match-patch breaks its contract (reconstruction / equal inputs)',
                                                                  'a': a, 'b': b, 'timelimit': tl, 'ops': ops})
        # --- the property on the implementation
        r = bd.html_source_diff(a, b)
        d = [tuple(x) for x in r['diff']]
        oa, ob = recon(d)
        fails = []
        if oa != a:
            fails.append('unchanged+removed segments do not reproduce the old text')
        if ob != b:
            fails.append('unchanged+added segments do not reproduce the new text')
        if r['change_count'] != sum(1 for c, _ in d if c != 0):
            fails.append('change_count %s is not the number of changed segments' % r['change_count'])
        if (r['change_count'] == 0) != (a == b):
            fails.append('change_count is %s although the texts are %s' % (r['change_count'], 'equal' if a == b else 'different'))
        if any(c not in (0, 1, -1) for c, _ in d):
            fails.append('segment code outside -1/0/1')
        if fails:
            n_src += 1
            if n_src <= 3:
                rep.violation('source-diff-%d' % n_src, {'what': fails, 'a_text': a, 'b_text': b, 'result': r, 'call': 'html_source_diff(a_text, b_text)'})
        if len(a) + len(b) > 6000:        # the large inputs go through the observer and the contract check only
            continue
        ops = raw_dmp(a, b, checklines=False, timelimit=2, cleanup='Semantic', counts_only=False)
        lines.append('source_diff %s' % L(P(I(ord(op)), S(s)) for op, s in ops))
        srcs.append((a, b, r, ops))
    if ctx['model_available']:
        for (a, b, r, ops), m in zip(srcs, run_driver(lines)):
            if isinstance(m, tuple):
                n_corr += 1
                continue
            mcount, md, mold, mnew = m
            impl_d = [(c, s) for c, s in r['diff']]
            model_d = [(c, to_str(s)) for c, s in md]
            # the library is called again with the same arguments; it is deterministic unless the time limit is hit
            if (mcount != r['change_count'] or model_d != impl_d) and recon(impl_d) == (a, b):
                n_corr += 1
                if n_corr <= 2:
                    rep.violation('source-correspondence-%d' % n_corr, {
                        'what': 'model and implementation disagree on html_source_diff', 'a': a, 'b': b, 'implementation': r,
                        'model': {'change_count': mcount, 'diff': model_d}, 'correspondence': 'Model/Dmp.v html_source_diff'}, no_input=True)
    rep.obligation('contract DMP0/DMP1/DMP2 of diff-match-patch holds on %d pairs x 2 time limits' % len(pairs), n_contract == 0)
    rep.obligation('observer: source diff reconstructs both inputs, counts changed segments, zero iff equal (%d pairs)' % len(pairs), n_src == 0)
    rep.obligation('correspondence: Model/Dmp.v html_source_diff = implementation', n_corr == 0)
    rep.sample({'a': pairs[12][0], 'b': pairs[12][1]})

    # ---- visible text
    m = 250 if tier == 'quick' else 3000
    docs = []
    g = htmlgen.Gen(rng)
    for _ in range(m):
        a, b = htmlgen.pair(rng)
        docs.append((g.document(a), g.document(b)))
    docs += [('<img src="i.png">', '<img src="j.png">'), ('<script>app()</script>', '<body></body>'), ('', ''), ('<div id="root"></div><script src="a.js"></script>', '<div id="root"></div><script src="b.js"></script>'),
             ('<title>only a title</title>', '<title>another title</title>'), ('  \n ', '<p> </p>'),        # nothing visible on either side
             ('', '<p>x</p>'), ('<p>a</p>\n\n\n\n<p>b</p>', '<p>a</p>\n<p>b</p>'), ('<pre>a\n\n\n   \n b</pre>', '<pre>a\n \n b</pre>'),
             ('&lt;!-- not a comment --&gt; text', 'text'), ('<head><title>T</title></head>x', '<head><title>U</title></head>x')]
    import render_checks as _rc
    docs += _rc.real_pages()         # archived versions of real pages from the repository's fixtures
    n_small_docs = len(docs)
    docs += [('<table>' + a if '<tr>' in a else '<p>' + a + '</p>', '<table>' + b if '<tr>' in b else '<p>' + b + '</p>') for a, b in big
             if '\n\n\n' not in a and len(a) < 150000]
    n_txt = n_vis = n_inv = 0
    lines = []
    for a, b in docs:
        rep.count(('text', a, b), a != b)
        sbs = bd.side_by_side_text(a, b)['diff']
        r = bd.html_text_diff(a, b)
        d = [tuple(x) for x in r['diff']]
        oa, ob = recon(d)
        fails = []
        if oa != sbs['a_text'] or ob != sbs['b_text']:
            fails.append('segments do not reproduce the visible text the side-by-side view reports')
        if r['change_count'] != sum(1 for c, _ in d if c != 0) or (r['change_count'] == 0) != (sbs['a_text'] == sbs['b_text']):
            fails.append('change_count inconsistent with the segments / the visible texts')
        if fails:
            n_txt += 1
            if n_txt <= 2:
                rep.violation('text-diff-%d' % n_txt, {'what': fails, 'a_text': a, 'b_text': b, 'html_text_diff': r, 'side_by_side_text': sbs})
        if len(a) <= 6000:
            lines.append('get_visible_text %s' % L(P(S(p), S(s)) for p, s in text_nodes(a)))
        # invisible edits never change anything
        edit = rng.choice(INVISIBLE_EDITS)
        a2 = edit(rng, a)
        if a2 != a:
            r2 = bd.html_text_diff(a2, b)
            s2 = bd.side_by_side_text(a2, b)['diff']
            rep.count(('invisible', a2, b))
            if s2 == sbs and r2 != r and recon([tuple(x) for x in r2['diff']]) == recon([tuple(x) for x in r['diff']]) and \
                    (r2['change_count'] == 0) == (r['change_count'] == 0):
                # the same two visible texts, cut into segments differently: the native diff works against a wall-clock deadline (listed
                # finding C17-dmp-deadline), which on large pages under load decides where it gives up.  Not an influence of the edit:
                # both texts the diff is computed from are unchanged, and so is what the segments reconstruct.
                n_deadline += 1
                continue
            if r2 != r or s2 != sbs:
                n_inv += 1
                if n_inv <= 2:
                    rep.violation('invisible-%d' % n_inv, {'what': 'content that is not displayed changed the visible-text diff / side-by-side view',
                                                           'a_text': a, 'a_text_with_invisible_edit': a2, 'b_text': b, 'before': r, 'after': r2})
    if ctx['model_available']:
        for (a, b), mv in zip([d for d in docs if len(d[0]) <= 6000], run_driver(lines)):
            impl = bd._get_visible_text(a)
            if isinstance(mv, tuple) or to_str(mv) != impl:
                n_vis += 1
                if n_vis <= 2:
                    rep.violation('visible-text-correspondence-%d' % n_vis, {
                        'what': 'model and implementation disagree on the visible text', 'html': a, 'implementation': impl,
                        'model': mv if isinstance(mv, tuple) else to_str(mv), 'correspondence': 'Model/Dmp.v get_visible_text vs _get_visible_text'},
                        no_input=True)
    rep.obligation('observer: visible-text diff reconstructs the side-by-side texts (%d document pairs)' % len(docs), n_txt == 0)
    rep.extra['same_texts_segmented_differently_under_the_dmp_deadline'] = n_deadline
    rep.obligation('observer: script/style/comment/title edits never change the visible-text diff', n_inv == 0)
    rep.obligation('correspondence: Model/Dmp.v get_visible_text = _get_visible_text on %d documents' % len(docs), n_vis == 0)
    rep.sample({'a_html': docs[3][0], 'b_html': docs[3][1]})


def replay(rep, data):
    print(data.get('what'))
    return 1

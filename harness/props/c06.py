"""C06 - HTTP result = library result on the fetched content, for every registered differ, option and extra parameter."""
import itertools
import json

from common import rng_for
import server_cases as sc

PAGES = [
    (b'<html><head><title>Old</title></head><body><p>Hello old <a href="http://x/1">link</a></p><ul><li>one</li></ul></body></html>',
     b'<html><head><title>New</title></head><body><p>Hello new <a href="http://x/2">link</a> more</p><ul><li>one</li><li>two</li></ul></body></html>'),
    ('<p>café ☃ naïve</p><a href="/a">A</a>'.encode('utf-8'), '<p>café ☃ naive</p><a href="/b">A</a>'.encode('utf-8')),
    ('<p>café naïve</p>'.encode('latin-1'), '<p>café changed</p>'.encode('latin-1')),
    (b'', b'<p>now something</p>'),
    (b'<p>same</p>', b'<p>same</p>'),
    (b'<p>quoted \x93old text\x94 \x80 5 caf\xe9 \x96 dash</p>', b'<p>quoted \x93new text\x94 \x80 6 caf\xe9 \x97 dash</p>'),
    # bodies that start with a byte-order mark: the declared charset still decides how they are decoded
    (b'\xef\xbb\xbf' + '<p>caf\u00e9 old \u0142\u00f3d\u017a</p>'.encode('utf-8'), b'\xef\xbb\xbf' + '<p>caf\u00e9 new \u0142\u00f3d\u017a</p>'.encode('utf-8')),
    ('\ufeff<p>old text</p>'.encode('utf-16-le'), '\ufeff<p>new text here</p>'.encode('utf-16-le')),
    # the document names another charset than the response header: the header wins
    ('<meta charset="windows-1251"><p>\u043f\u0440\u0438\u0432\u0435\u0442 old</p>'.encode('koi8-r'),
     '<meta http-equiv="Content-Type" content="text/html; charset=iso-8859-5"><p>\u043f\u0440\u0438\u0432\u0435\u0442 new</p>'.encode('koi8-r')),
]
CHARSETS = ['text/html; charset=koi8-r', 'text/html; charset=utf-8', 'text/html; charset=iso-8859-1', 'text/html', 'TEXT/HTML; Charset=UTF-8',
            'application/xhtml+xml; charset=utf-8', 'text/html; charset=koi8-r; boundary=x', 'text/html;charset=iso-8859-2 ;q=0.9', 'text/html; level=1; charset=koi8-r', 'text/html; charset=utf-16le', 'text/html; charset=iso-8559-1', 'text/plain; charset=iso-8559-1']
OPTIONS = {
    'html_token': [[], [('include', 'all')], [('include', 'insertions')], [('include', 'deletions')], [('include', 'combined')],
                   [('content_type_options', 'nocheck')], [('content_type_options', 'ignore')], [('url_rules', 'wayback')],
                   [('url_rules', 'jsessionid,wayback')], [('url_rules', '')], [('include', 'all'), ('include', 'deletions')]],
    'links': [[], [('content_type_options', 'nosniff')], [('content_type_options', 'ignore')]],
    'links_json': [[], [('content_type_options', 'normal')], [('content_type_options', 'nocheck')]],
}
INJECT = [[], [('a_body', 'zzz')], [('a_text', 'INJECTED'), ('b_text', 'INJECTED')], [('a_headers', 'x'), ('b_headers', 'y')],
          [('a_url', 'http://evil/'), ('b_url', 'http://evil/')], [('b_body', '')], [('unknown', '1'), ('format', 'json')],
          [('a_text', '')]]


def library_result(df, differ, case):
    """What the library function returns for the content served at a and b."""
    import inspect
    func = df.DIFF_ROUTES[differ]
    func = getattr(func, '__wrapped__', func)
    params = {}
    for k, v in case['raw_query']:
        params[k] = v
    kwargs = {}
    sig = inspect.signature(func)
    for side in ('a', 'b'):
        headers, body = sc.side_content(case, df, side)
        vals = {side + '_url': params[side], side + '_body': body, side + '_headers': headers}
        if side + '_text' in sig.parameters:
            # decoded with the charset the response declares (independent reference of the documented precedence, see c12)
            from props import c12
            enc = c12.ref_encoding(dict(headers.items()), body)
            try:
                text = body.decode(enc, errors='replace')
            except (LookupError, UnicodeError):
                text = body.decode('utf-8', errors='replace')
            text = text.replace('\x00', '\ufffd')
            if text and not params.get('ignore_decoding_errors', False) and text.count('\ufffd') / len(text) > 0.25:
                from web_monitoring_diff.exceptions import UndecodableContentError
                raise UndecodableContentError('undecodable')
            vals[side + '_text'] = text
        for k, v in vals.items():
            if k in sig.parameters:
                kwargs[k] = v
    for name in sig.parameters:
        if name not in kwargs and name in params and name[:2] not in ('a_', 'b_'):
            kwargs[name] = params[name]
    return func(**kwargs)


def observer_factory():
    import web_monitoring_diff
    import web_monitoring_diff.server.server as df

    def observer(case, obs):
        fails = []
        try:
            lib = library_result(df, case['differ'], case)
            lib_err = None
        except Exception as e:  # noqa
            lib, lib_err = None, e
        if lib_err is not None:
            if obs.status == 200:
                fails.append('library call raises %s but the service answered 200' % type(lib_err).__name__)
            return fails
        if obs.status != 200:
            fails.append('library call succeeds but the service answered %s: %s' % (obs.status, str(obs.json)[:200]))
            return fails
        expected = json.loads(json.dumps(lib))
        expected['version'] = web_monitoring_diff.__version__
        expected.setdefault('type', case['differ'])
        if obs.json != expected:
            keys = [k for k in set(expected) | set(obs.json or {}) if (obs.json or {}).get(k) != expected.get(k)]
            fails.append('response differs from the library result in %s: service=%s library=%s' % (
                keys, str({k: (obs.json or {}).get(k) for k in keys})[:300], str({k: expected.get(k) for k in keys})[:300]))
        return fails
    return observer


def stub_observer(case, obs):
    """Whatever the query says, the reserved arguments a differ receives are the fetched values."""
    import web_monitoring_diff.server.server as df
    fails = []
    params = {}
    for k, v in case['raw_query']:
        params[k] = v
    for name, kw in obs.differ_calls:
        for side in ('a', 'b'):
            headers, body = sc.side_content(case, df, side)
            if side + '_body' in kw and kw[side + '_body'] != body:
                fails.append('%s received %s_body=%r instead of the fetched body' % (name, side, kw[side + '_body']))
            if side + '_url' in kw and kw[side + '_url'] != params[side]:
                fails.append('%s received %s_url=%r instead of the requested URL' % (name, side, kw[side + '_url']))
            if side + '_headers' in kw and (not hasattr(kw[side + '_headers'], 'items') or
                                           dict(kw[side + '_headers'].items()) != dict(headers.items())):
                fails.append('%s received %s_headers=%r instead of the response headers' % (name, side, kw[side + '_headers']))
            if side + '_text' in kw and kw[side + '_text'] != body.decode('utf-8'):
                fails.append('%s received %s_text=%r instead of the decoded fetched body' % (name, side, kw[side + '_text'][:60]))
    return fails


def gen_cases(tier, rng):
    cases = []
    for differ in sc.REGISTERED:
        opts = OPTIONS.get(differ, [[]])
        for (pa, pb), cs in itertools.product(PAGES, CHARSETS):
            for opt in opts:
                for inj in INJECT:
                    if tier == 'quick' and rng.random() > 0.06 and not (opt == [] and cs in CHARSETS[:2] and pa in (PAGES[0][0], PAGES[-1][0])):
                        continue
                    order = rng.randrange(4)
                    qa, qb = ('a', 'http://site.test/a'), ('b', 'https://site.test/b')
                    if order == 0:
                        raw = list(inj[:1]) + [qa] + list(opt) + list(inj[1:]) + [qb]
                    elif order == 1:
                        raw = [qb] + list(opt) + list(inj) + [qa]
                    elif order == 2:
                        raw = list(opt) + [qb, qa] + list(inj)
                    else:
                        raw = [('a', 'http://ignored.test/first')] + list(inj) + [qb, qa] + list(opt)
                    up = {'http://site.test/a': sc.ok_up(pa, cs), 'https://site.test/b': sc.ok_up(pb, cs, extra=[('X-Served-By', 'b')])}
                    cases.append({'differ': differ, 'raw_query': raw, 'upstream': up, 'files': {}, 'differ_mode': 'real'})
    # the two sides are independent: identical bytes under different declared charsets (each side is decoded with its own),
    # and the same URL on both sides
    same = ['<p>caf\u00e9 na\u00efve \u0159\u017e</p><a href="/x">\u00e9</a>'.encode('utf-8'), '<p>\u043f\u0440\u0438\u0432\u0435\u0442 \u043c\u0438\u0440</p>'.encode('koi8-r')]
    pairs_cs = [('text/html; charset=utf-8', 'text/html; charset=iso-8859-2'), ('text/html; charset=koi8-r', 'text/html; charset=windows-1251'),
                ('text/html', 'text/html; charset=iso-8859-1'), ('text/html; charset=iso-8859-1', 'text/html; charset=utf-8')]
    for differ in sc.REGISTERED:
        for body in same:
            for ca, cb in pairs_cs:
                up = {'http://site.test/a': sc.ok_up(body, ca), 'https://site.test/b': sc.ok_up(body, cb)}
                cases.append({'differ': differ, 'raw_query': [('a', 'http://site.test/a'), ('b', 'https://site.test/b'), ('ignore_decoding_errors', 'true')],
                              'upstream': up, 'files': {}, 'differ_mode': 'real'})
        for (pa, pb) in PAGES[:2]:
            cases.append({'differ': differ, 'raw_query': [('a', 'http://site.test/same'), ('b', 'http://site.test/same')],
                          'upstream': {'http://site.test/same': sc.ok_up(pa, 'text/html; charset=utf-8')}, 'files': {}, 'differ_mode': 'real'})
    # upstream replies WITHOUT a Content-Type header (the differ and the decoder must see exactly the headers that were served, whatever
    # the URL looks like): extension-less, .pdf, .txt, .html URLs; HTML, a PDF signature, a page that names its charset itself
    import hashlib
    nohdr_bodies = [b'<html><body><p>plain old</p><a href="/1">l</a></body></html>', b'%PDF-1.4 not really a pdf but looks like one',
                    b'<meta charset="iso-8859-1"><p>quoted \x93text\x94 caf\xe9</p>', '<p>caf\u00e9 \u2603</p>'.encode('utf-8')]
    for differ in sc.REGISTERED:
        for ua, ub in [('http://site.test/report.pdf', 'http://site.test/report-v2.pdf'), ('http://site.test/page', 'http://site.test/notes.txt'),
                       ('http://site.test/a.html', 'http://site.test/b.xyz')]:
            for ba, bb in [(nohdr_bodies[0], nohdr_bodies[2]), (nohdr_bodies[1], nohdr_bodies[0]), (nohdr_bodies[2], nohdr_bodies[3])]:
                if tier == 'quick' and rng.random() > 0.5:
                    continue
                for extra in ([], [('X-Other', 'v')]):
                    up = {ua: ('resp', 200, list(extra), ba), ub: ('resp', 200, [('Server', 's')], bb)}
                    cases.append({'differ': differ, 'raw_query': [('a', ua), ('b', ub)], 'upstream': up, 'files': {}, 'differ_mode': 'real'})
    # charset labels that are aliases of one another must be honoured as what they name: Latin-1 under its other names, bytes 0x80-0x9f
    c1 = b'<p>price \x80 quoted \x93text\x94 dash \x96 caf\xe9</p><a href="/x">l\x85</a>'
    for differ in sc.REGISTERED:
        for cs in ('latin1', 'ISO_8859-1', 'l1', 'cp819', 'iso-ir-100', 'IBM819', 'latin_1', 'iso-8859-1', 'windows-1252', 'cp1252', 'iso8859-15', 'latin9', 'ascii', 'us-ascii'):
            for media in ('text/html', 'text/plain', 'application/xhtml+xml', 'text/xhtml', 'TEXT/HTML', 'application/xml'):
                if tier == 'quick' and rng.random() > 0.3 and cs not in ('latin1', 'iso-8859-1'):
                    continue
                up = {'http://site.test/a': sc.ok_up(c1, '%s; charset=%s' % (media, cs)), 'https://site.test/b': sc.ok_up(b'<p>plain</p>', 'text/html; charset=utf-8')}
                cases.append({'differ': differ, 'raw_query': [('a', 'http://site.test/a'), ('b', 'https://site.test/b'), ('ignore_decoding_errors', 'true'), ('content_type_options', 'ignore')],
                              'upstream': up, 'files': {}, 'differ_mode': 'real'})
    # a response must not depend on earlier requests: the same bytes served at different URLs under different declared charsets, requested
    # one after the other with their (correct, identical) hashes - and then the first one again
    shared = '<p>caf\u00e9 \u201cquoted\u201d na\u00efve</p><a href="/x">\u00e9</a>'.encode('utf-8')
    h = hashlib.sha256(shared).hexdigest()
    other = b'<p>plain other side</p>'
    for differ in sc.REGISTERED:
        seq = [('http://one.test/v', 'text/html; charset=utf-8'), ('http://two.test/v', 'text/html; charset=windows-1252'),
               ('http://three.test/v', 'text/plain; charset=iso-8859-2'), ('http://one.test/v', 'text/html; charset=utf-8')]
        for url, cs in seq:
            for side in ('a', 'b'):
                o = 'b' if side == 'a' else 'a'
                raw = [(side, url), (side + '_hash', h), (o, 'http://other.test/o'), ('ignore_decoding_errors', 'true'), ('content_type_options', 'ignore')]
                up = {url: sc.ok_up(shared, cs), 'http://other.test/o': sc.ok_up(other, 'text/html; charset=utf-8')}
                cases.append({'differ': differ, 'raw_query': raw, 'upstream': up, 'files': {}, 'differ_mode': 'real'})
    # stubbed differs: only the argument binding matters; includes a differ result that sets its own "type"
    for differ in sc.REGISTERED:
        for inj in INJECT:
            raw = list(inj) + [('a', 'http://site.test/a'), ('b', 'file:///data/b.html'), ('include', 'all')]
            cases.append({'differ': differ, 'raw_query': raw, 'upstream': {'http://site.test/a': sc.ok_up(PAGES[0][0])},
                          'files': {'/data/b.html': PAGES[0][1]}, 'differ_mode': ('stub', {'diff': 'stub', 'type': 'custom'})})
    return cases


def run(rep, ctx):
    rng = rng_for(ctx['seed'], 'c06')
    rep.rule = ('every registered differ x page pairs (ASCII, UTF-8, Latin-1, empty, identical) x declared charsets x every documented '
                'option value x extra parameters (each reserved name a_/b_ url/body/text/headers, unknown names, repeated keys); '
                'non-trivial = the query carries an option or an injection; distinct by (differ, query, bodies, charset)')
    rep.trusted += ['the observer calls the library function directly with the served bodies, the response header objects and the '
                    'text _decode_body yields for them (decoding itself is property C12)',
                    'modelled rather than verified: Tornado request parsing and JSON encoding of the result']
    cases = gen_cases(ctx['tier'], rng)
    # the outcome of the real differ on the served content is an oracle input of the handler model
    import web_monitoring_diff.server.server as df0
    from web_monitoring_diff.exceptions import UndiffableContentError
    for c in cases:
        if c['differ_mode'] == 'real' and c['differ'] in df0.DIFF_ROUTES:
            try:
                library_result(df0, c['differ'], c)
            except UndiffableContentError:
                c['differ_outcome'] = 'undiffable'
            except Exception:  # noqa
                c['differ_outcome'] = 'error'
    records = sc.run_cases(cases, ctx['model_available'])
    dist = {}
    for r in records:
        c = r['case']
        rep.count((c['differ'], tuple(c['raw_query']), repr(sorted(c['upstream'].items()))), len(c['raw_query']) > 2)
        dist[c['differ']] = dist.get(c['differ'], 0) + 1
    rep.extra['differ_distribution'] = dist
    rep.sample(sc.describe(cases[0]))
    rep.sample(sc.describe(cases[len(cases) // 2]))
    obs = observer_factory()
    real = [r for r in records if r['case']['differ_mode'] == 'real']
    stub = [r for r in records if r['case']['differ_mode'] != 'real']
    sc.report_records(rep, real, obs, 'service-equals-library')
    sc.report_records(rep, stub, stub_observer, 'argument-binding')
    import web_monitoring_diff.server.server as df
    rep.obligation('registered differs at run time are those of the generated route table', sorted(df.DIFF_ROUTES) == sorted(sc.REGISTERED),
                   sorted(df.DIFF_ROUTES))


def replay(rep, data):
    print(data.get('what'))
    return 1

"""C07 - pool breakage contained: every edge of the model's state graph for N requests replayed on the real coroutines."""
from common import rng_for
import pool_harness as ph

TRIES = 2


def check_edges(rep, edges, restart, label, tries, with_c20=False, max_report=3):
    impls = ph.run_many([s for s, _ in edges], restart)
    n_prop = n_corr = 0
    for (sched, st), impl in zip(edges, impls):
        if 'error' in impl:
            n_corr += 1
            if n_corr <= max_report:
                rep.violation('%s-harness-%d' % (label, n_corr), {'what': 'schedule could not be replayed on the implementation',
                                                                  'error': impl['error'], 'schedule': sched}, no_input=True)
            continue
        fails = ph.property_failures(impl, sched, tries, restart)
        if not with_c20:
            fails = [f for f in fails if 'shutdown' not in f]
        if fails:
            n_prop += 1
            if n_prop <= max_report:
                rep.violation('%s-observer-%d' % (label, n_prop), {
                    'what': fails, 'schedule': sched, 'restart_option': restart, 'observed': impl, 'model_says': st,
                    'how_to_read': 'events: start r / ok r (job result delivered) / broken r (BrokenProcessPool delivered) / break p / shutdown immediate?'})
        else:
            d = ph.compare(st, impl)
            if d:
                n_corr += 1
                if n_corr <= max_report:
                    rep.violation('%s-correspondence-%d' % (label, n_corr), {
                        'what': 'model and implementation disagree on %s; the observers see no property failure' % d,
                        'correspondence': 'Model/Pool.v step vs DiffHandler.diff/get_diff_executor/DiffServer.shutdown under a scripted schedule',
                        'schedule': sched, 'restart_option': restart, 'observed': {k: impl[k] for k in d}, 'model_says': {k: st[k] for k in d}},
                        no_input=True)
    rep.obligation('observer %s: property holds on %d schedules' % (label, len(edges)), n_prop == 0)
    rep.obligation('correspondence %s: model = implementation on %d schedules (every edge of the explored state graph)' % (label, len(edges)), n_corr == 0)


def differ_error_pass(rep):
    """A diff job that FAILS in a healthy worker (a differ error: RecursionError, RuntimeError, ValueError) is not a pool breakage:
    the request ends with that error, the job is not run again, no pool is replaced or shut down, no exit is scheduled.
    Observer only (the protocol model has no such event); real coroutines, scripted pool."""
    import pool_harness as ph
    n = n_bad = 0
    for restart in (False, True):
        for sched in ([('start', 0), ('error', 0)], [('start', 1), ('error', 1)], [('start', 2), ('error', 2)],
                      [('start', 0), ('start', 1), ('error', 0), ('ok', 1)], [('start', 0), ('start', 1), ('start', 2), ('error', 1), ('error', 0), ('error', 2)],
                      [('start', 0), ('error', 0), ('start', 1), ('ok', 1)], [('start', 1), ('start', 2), ('error', 1), ('break', 0), ('broken', 2)]):
            impl = ph.run_impl(sched, restart)
            n += 1
            rep.count(('differ-error', repr(sched), restart), True)
            starts = [x for k, x in sched if k == 'start']
            errored = [x for k, x in sched if k == 'error']
            broke = any(k == 'break' for k, _ in sched)
            fails = []
            for r in errored:
                if sum(1 for s in impl['submits'] if s[0] == r) != 1:
                    fails.append('the failed diff of request %d was submitted %d times' % (r, sum(1 for s in impl['submits'] if s[0] == r)))
                if impl['reqs'].get(r, ('waiting',))[0] != 'done' or impl['reqs'][r][1] == 'ok':
                    fails.append('request %d did not end with its error: %s' % (r, impl['reqs'].get(r)))
            if not broke and (len(impl['created']) != 1 or impl['shut'] or impl['killed'] or impl['quits']):
                fails.append('a differ error was treated as a pool breakage: pools %s, shut %s, killed %s, exits scheduled %s' % (impl['created'], impl['shut'], impl['killed'], impl['quit_codes']))
            if fails:
                n_bad += 1
                if n_bad <= 2:
                    rep.violation('differ-error-%d' % n_bad, {'what': fails, 'schedule': [list(e) for e in sched], 'restart_option': restart})
    rep.obligation('observer: a failing diff job in a healthy pool is no breakage: one run, its error, no reset, no exit (%d schedules)' % n, n_bad == 0)


def run(rep, ctx):
    import web_monitoring_diff.server.server as df
    import inspect
    tier = ctx['tier']
    rng = rng_for(ctx['seed'], 'c07')
    tries = inspect.signature(df.DiffHandler.diff).parameters['tries'].default
    rep.obligation('tries default of DiffHandler.diff is the generated Tables.diff_tries (= 2)', tries == TRIES, tries)
    differ_error_pass(rep)
    rep.rule = ('the reachable state graph of the protocol model for N concurrent requests (events: start, job result delivered, '
                'BrokenProcessPool delivered, pool breaks) is enumerated breadth-first through the extracted model; for EVERY edge a '
                'shortest schedule reaching it is replayed on the real DiffHandler.diff/get_diff_executor coroutines with a scripted fake '
                'ProcessPoolExecutor, with the restart option off and on; non-trivial = schedule contains a pool break; distinct by schedule')
    rep.trusted += ['modelled rather than verified: asyncio runs the code between two awaits atomically; a broken ProcessPoolExecutor raises '
                    'BrokenProcessPool from submit() and fails pending futures; executor.shutdown(wait=True) reaps workers',
                    'harness/pool_harness.py: fake executor, inline default executor for shutdown_executor_in_loop, DiffServer.quit recorder; '
                    'the handler object is built without an HTTP connection (diff/get_diff_executor only use application and settings)']
    if not ctx['model_available']:
        rep.obligation('model available', False)
        return
    total_states = 0
    sizes = [2, 3] if tier == 'quick' else [2, 3, 4]
    for n in sizes:
        for restart in (False, True):
            edges, nstates = ph.explore(n, tries, restart, False)
            total_states += nstates
            if n == 4:
                # 1.8 million edges: all states are visited by the model; a seeded sample of edges is replayed
                rng.shuffle(edges)
                edges = edges[:150000]
            for sched, _ in edges:
                rep.count(repr(sched), any(k == 'break' for k, _ in sched))
            check_edges(rep, edges, restart, 'pool-%dreq-restart-%s' % (n, 'on' if restart else 'off'), tries)
            if len(rep.samples) < 3 and edges:
                rep.sample({'requests': n, 'restart': restart, 'schedule': edges[len(edges) // 2][0], 'expected': edges[len(edges) // 2][1]})
    # the same containment while a shutdown is in progress (a graceful shutdown waits for running diffs: their pools can still break):
    # schedules that contain both a pool break and a begin-shutdown event, judged by the C07 clauses only
    for restart in (False, True):
        edges, nstates = ph.explore(2, tries, restart, True)
        total_states += nstates
        edges = [e for e in edges if any(k == 'shutdown' for k, _ in e[0]) and any(k == 'break' for k, _ in e[0])]
        if tier == 'quick':
            rng.shuffle(edges)
            edges = edges[:6000]
        for sched, _ in edges:
            rep.count(repr(sched), True)
        check_edges(rep, edges, restart, 'pool-during-shutdown-2req-restart-%s' % ('on' if restart else 'off'), tries)
    rep.extra['states'] = total_states
    rep.extra['transitions'] = rep.evaluations
    rep.extra['traces_validated_against_impl'] = rep.evaluations
    rep.extra['exhaustive'] = tier == 'quick' or True


def replay(rep, data):
    impl = ph.run_impl([tuple(e) for e in data['schedule']], data.get('restart_option', False))
    print(impl)
    fails = ph.property_failures(impl, [tuple(e) for e in data['schedule']], TRIES, data.get('restart_option', False))
    print(fails)
    return 1 if fails else 0
